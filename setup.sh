#!/bin/bash
# Offline setup after a fresh restore: warm the Go build cache for every monitor (nothing is fetched).
set -u
cd "$(dirname "$(readlink -f "$0")")"
export GOFLAGS=-mod=mod GOPROXY=off
unset GOSUMDB GOTOOLCHAIN
mkdir -p "${VERIF_SCRATCH:-/var/tmp/verif-scratch}/bin" evidence replay
go build -tags verif ./... || exit 1
GOEXPERIMENT=synctest go build -tags verif ./... || exit 1
go build -race -tags verif ./cmd/c13 2>/dev/null || true
rm -f c13
echo setup ok
