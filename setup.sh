#!/bin/bash
# Offline setup after a fresh restore: warm the Go build cache for every monitor (nothing is fetched).
# Each ./check rebuilds its own monitor anyway; a monitor that fails to build here fails its own check, not the setup.
set -u
cd "$(dirname "$(readlink -f "$0")")"
export GOFLAGS=-mod=mod GOPROXY=off
unset GOSUMDB GOTOOLCHAIN
S="${VERIF_SCRATCH:-/var/tmp/verif-scratch}"
mkdir -p "$S/bin" evidence replay
go build -tags verif ./internal/... || exit 1
for d in cmd/*/; do
  n=$(basename "$d")
  case "$n" in
    c01|c12|c16|c17|c19) GOEXPERIMENT=synctest go build -tags verif -o "$S/bin/setup.$n" "./cmd/$n" || echo "warning: $n does not build" ;;
    c13|c12race) go build -race -tags verif -o "$S/bin/setup.$n" "./cmd/$n" || echo "warning: $n does not build" ;;
    *) go build -tags verif -o "$S/bin/setup.$n" "./cmd/$n" || echo "warning: $n does not build" ;;
  esac
  rm -f "$S/bin/setup.$n"
done
echo setup ok
