module verif

go 1.23.0

toolchain go1.24.1

require (
	github.com/ARM-software/golang-utils/utils v0.0.0
	github.com/anishathalye/porcupine v1.3.0
)

replace github.com/ARM-software/golang-utils/utils => /repo/utils
