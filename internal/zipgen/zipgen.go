// Package zipgen builds (hostile) zip archives from entry specifications with archive/zip:
// arbitrary raw entry names, directory entries, lying headers (CreateRaw), nested archives.
package zipgen

import (
	"archive/zip"
	"bytes"
	"compress/flate"
	"hash/crc32"
	"os"
	"time"
)

// Entry is one archive member.
type Entry struct {
	Name     string    `json:"name"` // raw bytes
	Dir      bool      `json:"dir,omitempty"`
	Data     []byte    `json:"-"`
	Size     int       `json:"size"`
	Store    bool      `json:"store,omitempty"`
	Modified time.Time `json:"modified,omitempty"`
	// Lying header: when Declared >= 0 the entry is written with CreateRaw and this uncompressed size
	// in both headers although the stream holds len(Data) bytes.
	Declared int64 `json:"declared"`
	// DeclaredHuge, when non-zero, overrides Declared with an uncompressed size that does not fit an int64 (zip64 header)
	DeclaredHuge uint64 `json:"declared_huge,omitempty"`
	BadCRC       bool   `json:"bad_crc,omitempty"`
	// Link, when non-empty, makes the entry a symbolic link (mode bit set in the header) whose stored content is the target.
	Link string `json:"link,omitempty"`
	// Nested, when non-nil, replaces Data by the bytes of the nested archive.
	Nested []Entry `json:"nested,omitempty"`
}

// E returns a plain file entry.
func E(name string, data []byte) Entry {
	return Entry{Name: name, Data: data, Size: len(data), Declared: -1}
}

// D returns a directory entry (name gets a trailing slash if missing).
func D(name string) Entry {
	if len(name) == 0 || name[len(name)-1] != '/' {
		name += "/"
	}
	return Entry{Name: name, Dir: true, Declared: -1}
}

// Build serialises the entries into a zip archive.
func Build(entries []Entry) ([]byte, error) {
	var buf bytes.Buffer
	w := zip.NewWriter(&buf)
	for i := range entries {
		e := entries[i]
		data := e.Data
		if e.Nested != nil {
			nb, err := Build(e.Nested)
			if err != nil {
				return nil, err
			}
			data = nb
		}
		mod := e.Modified
		if mod.IsZero() {
			mod = time.Date(2020, 1, 2, 3, 4, 6, 0, time.UTC)
		}
		h := &zip.FileHeader{Name: e.Name, Modified: mod, Method: zip.Deflate}
		if e.Store {
			h.Method = zip.Store
		}
		if e.Link != "" {
			h.SetMode(os.ModeSymlink | 0o777)
			data = []byte(e.Link)
		}
		if e.Dir {
			h.Method = zip.Store
			if _, err := w.CreateHeader(h); err != nil {
				return nil, err
			}
			continue
		}
		if e.Declared < 0 && !e.BadCRC && e.DeclaredHuge == 0 {
			fw, err := w.CreateHeader(h)
			if err != nil {
				return nil, err
			}
			if _, err := fw.Write(data); err != nil {
				return nil, err
			}
			continue
		}
		// raw: we compress ourselves and lie in the header
		var comp bytes.Buffer
		if h.Method == zip.Deflate {
			fw, _ := flate.NewWriter(&comp, flate.DefaultCompression)
			_, _ = fw.Write(data)
			_ = fw.Close()
		} else {
			comp.Write(data)
		}
		h.CRC32 = crc32.ChecksumIEEE(data)
		if e.BadCRC {
			h.CRC32 ^= 0xdeadbeef
		}
		h.CompressedSize64 = uint64(comp.Len())
		h.UncompressedSize64 = uint64(len(data))
		if e.Declared >= 0 {
			h.UncompressedSize64 = uint64(e.Declared)
		}
		if e.DeclaredHuge != 0 {
			h.UncompressedSize64 = e.DeclaredHuge
		}
		rw, err := w.CreateRaw(h)
		if err != nil {
			return nil, err
		}
		if _, err := rw.Write(comp.Bytes()); err != nil {
			return nil, err
		}
	}
	if err := w.Close(); err != nil {
		return nil, err
	}
	return buf.Bytes(), nil
}
