// Package treegen generates and materialises directory trees for the filesystem checks.
package treegen

import (
	"math/rand/v2"
	"os"
	"path/filepath"
	"sort"
	"strings"
	"time"

	"github.com/spf13/afero"
)

// Node is one entry of a generated tree; Path is slash-separated and relative to the tree root.
type Node struct {
	Path    string      `json:"path"`
	Kind    string      `json:"kind"` // dir | file | link
	Size    int         `json:"size,omitempty"`
	Content []byte      `json:"-"`
	Target  string      `json:"target,omitempty"`
	Class   string      `json:"class,omitempty"` // link class
	Mode    os.FileMode `json:"mode,omitempty"`
	MTime   time.Time   `json:"mtime,omitempty"`
}

// Opts controls generation.
type Opts struct {
	MaxDepth   int
	MaxFanout  int
	MaxEntries int
	Name       func(rng *rand.Rand, depth, i int) string
	FileProb   float64
	MaxSize    int
	Content    func(rng *rand.Rand, size int) []byte
}

// DefaultName draws short names from a small alphabet.
func DefaultName(rng *rand.Rand, depth, i int) string {
	const al = "abcdxyz012._-"
	n := 1 + rng.IntN(5)
	var b strings.Builder
	for k := 0; k < n; k++ {
		c := al[rng.IntN(len(al))]
		if k == 0 && (c == '-') {
			c = 'q'
		}
		b.WriteByte(c)
	}
	s := b.String()
	if s == "." || s == ".." {
		s = "d" + s
	}
	return s
}

// RandContent returns size pseudo-random bytes (compressible half of the time).
func RandContent(rng *rand.Rand, size int) []byte {
	b := make([]byte, size)
	if rng.IntN(2) == 0 {
		pat := []byte("the quick brown fox ")
		for i := range b {
			b[i] = pat[i%len(pat)]
		}
		if size > 0 {
			b[0] = byte(rng.IntN(256))
		}
		return b
	}
	for i := range b {
		b[i] = byte(rng.Uint32())
	}
	return b
}

// Gen generates a tree of directories and regular files (parents before children).
func Gen(rng *rand.Rand, o Opts) []Node {
	if o.Name == nil {
		o.Name = DefaultName
	}
	if o.Content == nil {
		o.Content = RandContent
	}
	if o.MaxEntries <= 0 {
		o.MaxEntries = 60
	}
	var nodes []Node
	var rec func(prefix string, depth int)
	rec = func(prefix string, depth int) {
		if depth > o.MaxDepth {
			return
		}
		fan := 0
		if o.MaxFanout > 0 {
			fan = rng.IntN(o.MaxFanout + 1)
		}
		seen := map[string]bool{}
		for i := 0; i < fan && len(nodes) < o.MaxEntries; i++ {
			name := o.Name(rng, depth, i)
			if seen[strings.ToLower(name)] || name == "" {
				continue
			}
			seen[strings.ToLower(name)] = true
			p := name
			if prefix != "" {
				p = prefix + "/" + name
			}
			if rng.Float64() < o.FileProb || depth == o.MaxDepth {
				size := 0
				if o.MaxSize > 0 && rng.IntN(5) != 0 {
					size = rng.IntN(o.MaxSize + 1)
				}
				nodes = append(nodes, Node{Path: p, Kind: "file", Size: size, Content: o.Content(rng, size), Mode: 0o644})
			} else {
				nodes = append(nodes, Node{Path: p, Kind: "dir", Mode: 0o755})
				rec(p, depth+1)
			}
		}
	}
	rec("", 1)
	return nodes
}

// Dirs returns the directory paths of nodes (plus "" for the root).
func Dirs(nodes []Node) []string {
	d := []string{""}
	for _, n := range nodes {
		if n.Kind == "dir" {
			d = append(d, n.Path)
		}
	}
	return d
}

// MaterializeOS creates the tree under root (root itself is created). Links are created last;
// modes and mtimes are applied after everything exists (deepest first).
func MaterializeOS(root string, nodes []Node) error {
	if err := os.MkdirAll(root, 0o755); err != nil {
		return err
	}
	for _, n := range nodes {
		p := filepath.Join(root, filepath.FromSlash(n.Path))
		switch n.Kind {
		case "dir":
			if err := os.MkdirAll(p, 0o755); err != nil {
				return err
			}
		case "file":
			if err := os.MkdirAll(filepath.Dir(p), 0o755); err != nil {
				return err
			}
			if err := os.WriteFile(p, n.Content, 0o644); err != nil {
				return err
			}
		}
	}
	for _, n := range nodes {
		if n.Kind == "link" {
			p := filepath.Join(root, filepath.FromSlash(n.Path))
			if err := os.Symlink(n.Target, p); err != nil {
				return err
			}
		}
	}
	sorted := append([]Node(nil), nodes...)
	sort.Slice(sorted, func(i, j int) bool { return len(sorted[i].Path) > len(sorted[j].Path) })
	for _, n := range sorted {
		if n.Kind == "link" {
			continue
		}
		p := filepath.Join(root, filepath.FromSlash(n.Path))
		if !n.MTime.IsZero() {
			_ = os.Chtimes(p, n.MTime, n.MTime)
		}
		if n.Mode != 0 && n.Mode != 0o644 && n.Mode != 0o755 {
			_ = os.Chmod(p, n.Mode)
		}
	}
	return nil
}

// MaterializeAfero creates the link-free part of the tree on an afero filesystem.
func MaterializeAfero(fs afero.Fs, root string, nodes []Node) error {
	if err := fs.MkdirAll(root, 0o755); err != nil {
		return err
	}
	for _, n := range nodes {
		p := filepath.Join(root, filepath.FromSlash(n.Path))
		switch n.Kind {
		case "dir":
			if err := fs.MkdirAll(p, 0o755); err != nil {
				return err
			}
		case "file":
			if err := fs.MkdirAll(filepath.Dir(p), 0o755); err != nil {
				return err
			}
			if err := afero.WriteFile(fs, p, n.Content, 0o644); err != nil {
				return err
			}
		}
	}
	for _, n := range nodes {
		if n.Kind != "link" && !n.MTime.IsZero() {
			_ = fs.Chtimes(filepath.Join(root, filepath.FromSlash(n.Path)), n.MTime, n.MTime)
		}
	}
	return nil
}

// RestoreModes makes everything under root writable again (so scratch can be removed).
func RestoreModes(root string) {
	_ = filepath.Walk(root, func(p string, info os.FileInfo, err error) error {
		if err == nil && info.Mode()&os.ModeSymlink == 0 {
			if info.IsDir() {
				_ = os.Chmod(p, 0o755)
			} else {
				_ = os.Chmod(p, 0o644)
			}
		}
		return nil
	})
}
