// Package fsmon is the afero boundary monitor: a decorating afero.Fs (and afero.File) that records
// every backend call, classifies mutating operations, keeps a handle ledger and per-file write
// high-water marks, and offers interception points (Before/After) used for fault injection,
// cancellation triggers, operation budgets and the interleaving gate of package sched.
//
// The decorator holds no lock while the backend operation runs and never serialises operations.
package fsmon

import (
	"errors"
	"os"
	"path/filepath"
	"sync"
	"sync/atomic"
	"time"

	"github.com/spf13/afero"
)

// Op names.
const (
	OpCreate       = "Create"
	OpMkdir        = "Mkdir"
	OpMkdirAll     = "MkdirAll"
	OpOpen         = "Open"
	OpOpenFile     = "OpenFile"
	OpRemove       = "Remove"
	OpRemoveAll    = "RemoveAll"
	OpRename       = "Rename"
	OpStat         = "Stat"
	OpLstat        = "Lstat"
	OpChmod        = "Chmod"
	OpChown        = "Chown"
	OpChtimes      = "Chtimes"
	OpSymlink      = "Symlink"
	OpReadlink     = "Readlink"
	OpLink         = "Link"
	OpForceRemove  = "ForceRemove"
	OpFRead        = "File.Read"
	OpFReadAt      = "File.ReadAt"
	OpFWrite       = "File.Write"
	OpFWriteAt     = "File.WriteAt"
	OpFWriteString = "File.WriteString"
	OpFTruncate    = "File.Truncate"
	OpFSeek        = "File.Seek"
	OpFClose       = "File.Close"
	OpFReaddir     = "File.Readdir"
	OpFReaddirn    = "File.Readdirnames"
	OpFStat        = "File.Stat"
	OpFSync        = "File.Sync"
)

// Event is one backend call.
type Event struct {
	Seq    int64     `json:"seq"`
	Actor  string    `json:"actor,omitempty"`
	Op     string    `json:"op"`
	Path   string    `json:"path"`
	Path2  string    `json:"path2,omitempty"`
	Flag   int       `json:"flag,omitempty"`
	Len    int       `json:"len,omitempty"` // requested length for read/write
	N      int       `json:"n,omitempty"`   // bytes transferred
	Err    string    `json:"err,omitempty"`
	Mut    bool      `json:"mut,omitempty"`
	Handle int64     `json:"h,omitempty"`
	MTime  time.Time `json:"-"` // Chtimes mtime argument

	// Interception (set by Before):
	Inject     error `json:"-"` // if non-nil the op is not executed and this error is returned
	ShortWrite int   `json:"-"` // if >0 on a write: write only this many bytes and return (n, nil)
	FailAfter  error `json:"-"` // if non-nil: execute op, then return this error instead of its result
	// Effective is set when the backend operation really ran and succeeded (even if the caller was then
	// given an injected error through FailAfter).
	Effective bool `json:"-"`
	err       error
}

// Error returns the error the caller saw.
func (e *Event) Error() error { return e.err }

// IsMutating classifies an op (with OpenFile flags) as mutating.
func IsMutating(op string, flag int) bool {
	switch op {
	case OpCreate, OpMkdir, OpMkdirAll, OpRemove, OpRemoveAll, OpRename, OpChmod, OpChown, OpChtimes,
		OpSymlink, OpLink, OpForceRemove, OpFWrite, OpFWriteAt, OpFWriteString, OpFTruncate:
		return true
	case OpOpenFile:
		return flag&(os.O_WRONLY|os.O_RDWR|os.O_CREATE|os.O_TRUNC|os.O_APPEND) != 0
	}
	return false
}

// Monitor is shared by all actors decorating the same backend.
type Monitor struct {
	seq     atomic.Int64
	handles atomic.Int64

	// Before is called before the backend op runs (event has Seq, Op, paths). It may block (gate),
	// set e.Inject / e.ShortWrite / e.FailAfter, or trigger a cancellation.
	Before func(e *Event)
	// After is called after the op ran (or was injected), with N and the error filled in.
	After func(e *Event)

	mu      sync.Mutex
	Keep    bool // keep the events
	events  []Event
	open    map[int64]string // handle → path
	opened  int64
	closed  int64
	written map[string]int64 // path → high-water mark of bytes written through one handle lifetime
	total   int64
	ops     int64
	mutOps  int64
}

// NewMonitor returns a monitor.
func NewMonitor(keep bool) *Monitor {
	return &Monitor{Keep: keep, open: map[int64]string{}, written: map[string]int64{}}
}

// Tick returns the next value of the logical clock shared with the event sequence numbers.
func (m *Monitor) Tick() int64 { return m.seq.Add(1) }

// Reset clears the recorded state (not the hooks).
func (m *Monitor) Reset() {
	m.mu.Lock()
	m.events = nil
	m.open = map[int64]string{}
	m.opened, m.closed, m.total, m.ops, m.mutOps = 0, 0, 0, 0, 0
	m.written = map[string]int64{}
	m.mu.Unlock()
}

// Events returns a copy of the kept events.
func (m *Monitor) Events() []Event {
	m.mu.Lock()
	defer m.mu.Unlock()
	return append([]Event(nil), m.events...)
}

// Ops returns (all ops, mutating ops) seen so far.
func (m *Monitor) Ops() (int64, int64) {
	m.mu.Lock()
	defer m.mu.Unlock()
	return m.ops, m.mutOps
}

// OpenHandles returns the paths of handles opened and not yet closed.
func (m *Monitor) OpenHandles() []string {
	m.mu.Lock()
	defer m.mu.Unlock()
	l := make([]string, 0, len(m.open))
	for _, p := range m.open {
		l = append(l, p)
	}
	return l
}

// HandleCounts returns (opened, closed).
func (m *Monitor) HandleCounts() (int64, int64) {
	m.mu.Lock()
	defer m.mu.Unlock()
	return m.opened, m.closed
}

// Written returns the per-handle write high-water mark per path and the total bytes written.
func (m *Monitor) Written() (map[string]int64, int64) {
	m.mu.Lock()
	defer m.mu.Unlock()
	c := make(map[string]int64, len(m.written))
	for k, v := range m.written {
		c[k] = v
	}
	return c, m.total
}

func (m *Monitor) begin(actor, op, path, path2 string, flag, ln int, h int64) *Event {
	e := &Event{Actor: actor, Op: op, Path: path, Path2: path2, Flag: flag, Len: ln, Handle: h}
	e.Mut = IsMutating(op, flag)
	e.Seq = m.seq.Add(1)
	if m.Before != nil {
		m.Before(e)
	}
	return e
}

func (m *Monitor) end(e *Event, n int, err error) error {
	e.Effective = err == nil && e.Inject == nil
	if e.FailAfter != nil {
		err = e.FailAfter
	}
	e.N = n
	e.err = err
	if err != nil {
		e.Err = err.Error()
	}
	m.mu.Lock()
	m.ops++
	if e.Mut {
		m.mutOps++
	}
	if m.Keep {
		m.events = append(m.events, *e)
	}
	m.mu.Unlock()
	if m.After != nil {
		m.After(e)
	}
	return err
}

// ---------------------------------------------------------------------------------------------

// Fs is the decorator over a base afero.Fs for one actor.
type Fs struct {
	Base  afero.Fs
	Actor string
	Mon   *Monitor
}

// New wraps base. The returned afero.Fs exposes the same optional interfaces (Lstat, Symlink,
// Readlink, Chown, Link, ForceRemove) as base does, so the VFS takes the same code paths.
func New(base afero.Fs, actor string, mon *Monitor) afero.Fs {
	f := &Fs{Base: base, Actor: actor, Mon: mon}
	_, isLstater := base.(lstater)
	_, isSym := base.(symlinker)
	if isLstater && isSym {
		return &OsLikeFs{Fs: f}
	}
	if isLstater {
		return &LstatFs{Fs: f}
	}
	return f
}

type lstater interface {
	LstatIfPossible(string) (os.FileInfo, bool, error)
}
type symlinker interface {
	SymlinkIfPossible(string, string) error
}
type linkreader interface {
	ReadlinkIfPossible(string) (string, error)
}
type chowner interface {
	ChownIfPossible(string, int, int) error
}
type linker interface {
	LinkIfPossible(string, string) error
}
type forceRemover interface {
	ForceRemoveIfPossible(string) error
}

func (f *Fs) Name() string { return "fsmon(" + f.Base.Name() + ")" }

func (f *Fs) wrapFile(e *Event, file afero.File, err error, name string) (afero.File, error) {
	if e.FailAfter != nil && err == nil && file != nil {
		// the open took effect; the caller sees an error and will never close the handle: close it here
		_ = file.Close()
		file = nil
	}
	err = f.Mon.end(e, 0, err)
	if err != nil || file == nil {
		return nil, err
	}
	h := f.Mon.handles.Add(1)
	f.Mon.mu.Lock()
	f.Mon.open[h] = name
	f.Mon.opened++
	f.Mon.mu.Unlock()
	return &File{File: file, fs: f, h: h, path: name}, nil
}

func (f *Fs) Create(name string) (afero.File, error) {
	e := f.Mon.begin(f.Actor, OpCreate, name, "", 0, 0, 0)
	if e.Inject != nil {
		return nil, f.Mon.end(e, 0, e.Inject)
	}
	file, err := f.Base.Create(name)
	return f.wrapFile(e, file, err, name)
}

func (f *Fs) Open(name string) (afero.File, error) {
	e := f.Mon.begin(f.Actor, OpOpen, name, "", 0, 0, 0)
	if e.Inject != nil {
		return nil, f.Mon.end(e, 0, e.Inject)
	}
	file, err := f.Base.Open(name)
	return f.wrapFile(e, file, err, name)
}

func (f *Fs) OpenFile(name string, flag int, perm os.FileMode) (afero.File, error) {
	e := f.Mon.begin(f.Actor, OpOpenFile, name, "", flag, 0, 0)
	if e.Inject != nil {
		return nil, f.Mon.end(e, 0, e.Inject)
	}
	file, err := f.Base.OpenFile(name, flag, perm)
	return f.wrapFile(e, file, err, name)
}

func (f *Fs) simple(op, p1, p2 string, do func() error) error {
	e := f.Mon.begin(f.Actor, op, p1, p2, 0, 0, 0)
	if e.Inject != nil {
		return f.Mon.end(e, 0, e.Inject)
	}
	return f.Mon.end(e, 0, do())
}

func (f *Fs) Mkdir(name string, perm os.FileMode) error {
	return f.simple(OpMkdir, name, "", func() error { return f.Base.Mkdir(name, perm) })
}
func (f *Fs) MkdirAll(name string, perm os.FileMode) error {
	return f.simple(OpMkdirAll, name, "", func() error { return f.Base.MkdirAll(name, perm) })
}
func (f *Fs) Remove(name string) error {
	return f.simple(OpRemove, name, "", func() error { return f.Base.Remove(name) })
}
func (f *Fs) RemoveAll(name string) error {
	return f.simple(OpRemoveAll, name, "", func() error { return f.Base.RemoveAll(name) })
}
func (f *Fs) Rename(o, n string) error {
	return f.simple(OpRename, o, n, func() error { return f.Base.Rename(o, n) })
}
func (f *Fs) Chmod(name string, mode os.FileMode) error {
	return f.simple(OpChmod, name, "", func() error { return f.Base.Chmod(name, mode) })
}
func (f *Fs) Chown(name string, uid, gid int) error {
	return f.simple(OpChown, name, "", func() error { return f.Base.Chown(name, uid, gid) })
}
func (f *Fs) Chtimes(name string, a, mt time.Time) error {
	e := f.Mon.begin(f.Actor, OpChtimes, name, "", 0, 0, 0)
	e.MTime = mt
	if e.Inject != nil {
		return f.Mon.end(e, 0, e.Inject)
	}
	return f.Mon.end(e, 0, f.Base.Chtimes(name, a, mt))
}
func (f *Fs) Stat(name string) (os.FileInfo, error) {
	e := f.Mon.begin(f.Actor, OpStat, name, "", 0, 0, 0)
	if e.Inject != nil {
		return nil, f.Mon.end(e, 0, e.Inject)
	}
	fi, err := f.Base.Stat(name)
	err = f.Mon.end(e, 0, err)
	if err != nil {
		return nil, err
	}
	return fi, nil
}

// LstatFs adds LstatIfPossible (MemMapFs-like bases).
type LstatFs struct{ *Fs }

func (f *LstatFs) LstatIfPossible(name string) (os.FileInfo, bool, error) {
	e := f.Mon.begin(f.Actor, OpLstat, name, "", 0, 0, 0)
	if e.Inject != nil {
		return nil, false, f.Mon.end(e, 0, e.Inject)
	}
	fi, ok, err := f.Base.(lstater).LstatIfPossible(name)
	err = f.Mon.end(e, 0, err)
	if err != nil {
		return nil, ok, err
	}
	return fi, ok, nil
}

// OsLikeFs adds every optional interface of the extended OS filesystem.
type OsLikeFs struct{ *Fs }

var errNotImpl = errors.New("fsmon: base does not implement this optional interface")

func (f *OsLikeFs) LstatIfPossible(name string) (os.FileInfo, bool, error) {
	return (&LstatFs{f.Fs}).LstatIfPossible(name)
}
func (f *OsLikeFs) SymlinkIfPossible(o, n string) error {
	return f.simple(OpSymlink, n, o, func() error { return f.Base.(symlinker).SymlinkIfPossible(o, n) })
}
func (f *OsLikeFs) ReadlinkIfPossible(name string) (string, error) {
	var v string
	err := f.simple(OpReadlink, name, "", func() error {
		b, ok := f.Base.(linkreader)
		if !ok {
			return errNotImpl
		}
		var err error
		v, err = b.ReadlinkIfPossible(name)
		return err
	})
	return v, err
}
func (f *OsLikeFs) ChownIfPossible(name string, uid, gid int) error {
	return f.simple(OpChown, name, "", func() error {
		b, ok := f.Base.(chowner)
		if !ok {
			return f.Base.Chown(name, uid, gid)
		}
		return b.ChownIfPossible(name, uid, gid)
	})
}
func (f *OsLikeFs) LinkIfPossible(o, n string) error {
	return f.simple(OpLink, n, o, func() error {
		b, ok := f.Base.(linker)
		if !ok {
			return errNotImpl
		}
		return b.LinkIfPossible(o, n)
	})
}
func (f *OsLikeFs) ForceRemoveIfPossible(name string) error {
	return f.simple(OpForceRemove, name, "", func() error {
		b, ok := f.Base.(forceRemover)
		if !ok {
			return errNotImpl
		}
		return b.ForceRemoveIfPossible(name)
	})
}

// ---------------------------------------------------------------------------------------------

// File decorates an afero.File. The embedded field is named File on purpose: the library finds the
// underlying *os.File (for Fd()) by walking fields of that name.
type File struct {
	afero.File
	fs      *Fs
	h       int64
	path    string
	closed  atomic.Bool
	written int64
}

func (f *File) Name() string { return f.File.Name() }

func (f *File) ev(op string, ln int) *Event {
	return f.fs.Mon.begin(f.fs.Actor, op, f.path, "", 0, ln, f.h)
}

func (f *File) noteWrite(n int) {
	if n <= 0 {
		return
	}
	m := f.fs.Mon
	m.mu.Lock()
	f.written += int64(n)
	key := filepath.Clean(f.path)
	if f.written > m.written[key] {
		m.written[key] = f.written
	}
	m.total += int64(n)
	m.mu.Unlock()
}

func (f *File) Close() error {
	e := f.ev(OpFClose, 0)
	if e.Inject != nil {
		// an injected close error still releases the handle (otherwise the harness leaks fds)
		_ = f.File.Close()
		f.release()
		return f.fs.Mon.end(e, 0, e.Inject)
	}
	err := f.File.Close()
	f.release()
	return f.fs.Mon.end(e, 0, err)
}

func (f *File) release() {
	if f.closed.CompareAndSwap(false, true) {
		m := f.fs.Mon
		m.mu.Lock()
		delete(m.open, f.h)
		m.closed++
		m.mu.Unlock()
	}
}

func (f *File) Read(p []byte) (int, error) {
	e := f.ev(OpFRead, len(p))
	if e.Inject != nil {
		return 0, f.fs.Mon.end(e, 0, e.Inject)
	}
	n, err := f.File.Read(p)
	return n, f.fs.Mon.end(e, n, err)
}

func (f *File) ReadAt(p []byte, off int64) (int, error) {
	e := f.ev(OpFReadAt, len(p))
	if e.Inject != nil {
		return 0, f.fs.Mon.end(e, 0, e.Inject)
	}
	n, err := f.File.ReadAt(p, off)
	return n, f.fs.Mon.end(e, n, err)
}

func (f *File) Seek(off int64, whence int) (int64, error) {
	e := f.ev(OpFSeek, 0)
	if e.Inject != nil {
		return 0, f.fs.Mon.end(e, 0, e.Inject)
	}
	n, err := f.File.Seek(off, whence)
	return n, f.fs.Mon.end(e, 0, err)
}

func (f *File) Write(p []byte) (int, error) {
	e := f.ev(OpFWrite, len(p))
	if e.Inject != nil {
		return 0, f.fs.Mon.end(e, 0, e.Inject)
	}
	if e.ShortWrite > 0 && e.ShortWrite < len(p) {
		n, err := f.File.Write(p[:e.ShortWrite])
		f.noteWrite(n)
		return n, f.fs.Mon.end(e, n, err)
	}
	n, err := f.File.Write(p)
	f.noteWrite(n)
	return n, f.fs.Mon.end(e, n, err)
}

func (f *File) WriteAt(p []byte, off int64) (int, error) {
	e := f.ev(OpFWriteAt, len(p))
	if e.Inject != nil {
		return 0, f.fs.Mon.end(e, 0, e.Inject)
	}
	n, err := f.File.WriteAt(p, off)
	f.noteWrite(n)
	return n, f.fs.Mon.end(e, n, err)
}

func (f *File) WriteString(s string) (int, error) {
	e := f.ev(OpFWriteString, len(s))
	if e.Inject != nil {
		return 0, f.fs.Mon.end(e, 0, e.Inject)
	}
	n, err := f.File.WriteString(s)
	f.noteWrite(n)
	return n, f.fs.Mon.end(e, n, err)
}

func (f *File) Truncate(size int64) error {
	e := f.ev(OpFTruncate, 0)
	if e.Inject != nil {
		return f.fs.Mon.end(e, 0, e.Inject)
	}
	return f.fs.Mon.end(e, 0, f.File.Truncate(size))
}

func (f *File) Readdir(c int) ([]os.FileInfo, error) {
	e := f.ev(OpFReaddir, 0)
	if e.Inject != nil {
		return nil, f.fs.Mon.end(e, 0, e.Inject)
	}
	l, err := f.File.Readdir(c)
	return l, f.fs.Mon.end(e, len(l), err)
}

func (f *File) Readdirnames(c int) ([]string, error) {
	e := f.ev(OpFReaddirn, 0)
	if e.Inject != nil {
		return nil, f.fs.Mon.end(e, 0, e.Inject)
	}
	l, err := f.File.Readdirnames(c)
	return l, f.fs.Mon.end(e, len(l), err)
}

func (f *File) Stat() (os.FileInfo, error) {
	e := f.ev(OpFStat, 0)
	if e.Inject != nil {
		return nil, f.fs.Mon.end(e, 0, e.Inject)
	}
	fi, err := f.File.Stat()
	err = f.fs.Mon.end(e, 0, err)
	if err != nil {
		return nil, err
	}
	return fi, nil
}

func (f *File) Sync() error {
	e := f.ev(OpFSync, 0)
	if e.Inject != nil {
		return f.fs.Mon.end(e, 0, e.Inject)
	}
	return f.fs.Mon.end(e, 0, f.File.Sync())
}
