package vrun
