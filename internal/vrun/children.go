package vrun

import (
	"encoding/hex"
	"encoding/json"
	"fmt"
	"os"
	"os/exec"
	"path/filepath"
	"strconv"
	"sync"
	"time"
)

// Child-process mode: a check may split its cases over child processes (re-executions of its own
// binary) — needed when cases depend on process-global state (working directory, environment) or may
// crash/hang the process. A child runs the same main(); vrun.Start detects the child environment,
// Violation() only records, and Finish() writes a partial result that the coordinator merges.

type childViolation struct {
	Sig     Sig    `json:"sig"`
	What    string `json:"what"`
	Witness any    `json:"witness"`
}

type partial struct {
	Evaluations  int64               `json:"evaluations"`
	Distinct     []string            `json:"distinct"`
	Samples      []any               `json:"samples"`
	Obs          map[string]int64    `json:"obs"`
	Sets         map[string][]string `json:"sets"`
	Inconclusive map[string]int64    `json:"inconclusive"`
	Violations   []childViolation    `json:"violations"`
	MaxObs       map[string]bool     `json:"max_obs"`
}

func (r *Run) initChild() {
	idx, err1 := strconv.Atoi(os.Getenv("VERIF_CHILD_INDEX"))
	n, err2 := strconv.Atoi(os.Getenv("VERIF_CHILD_COUNT"))
	if err1 == nil && err2 == nil && n > 0 && os.Getenv("VERIF_PARTIAL") != "" {
		r.isChild, r.childIdx, r.childN, r.partialPath = true, idx, n, os.Getenv("VERIF_PARTIAL")
	}
}

// Progress records (in a child) what is about to be executed, so that the coordinator can attribute a crash.
func (r *Run) Progress(v any) {
	if !r.isChild {
		return
	}
	b, err := json.Marshal(v)
	if err == nil {
		_ = os.WriteFile(r.partialPath+".progress", b, 0o644)
	}
}

// Child reports whether this process is a child and which share (idx of n) it has.
func (r *Run) Child() (idx, n int, ok bool) { return r.childIdx, r.childN, r.isChild }

func (r *Run) finishChild() {
	r.mu.Lock()
	p := partial{Evaluations: r.evaluations, Samples: r.samples, Obs: r.obs, Sets: map[string][]string{}, Inconclusive: r.inconclusive, Violations: r.childViol}
	for k := range r.distinct {
		p.Distinct = append(p.Distinct, hex.EncodeToString(k[:]))
	}
	for k, m := range r.sets {
		for s := range m {
			p.Sets[k] = append(p.Sets[k], s)
		}
	}
	r.mu.Unlock()
	b, err := json.Marshal(p)
	if err == nil {
		err = os.WriteFile(r.partialPath, b, 0o644)
	}
	if err != nil {
		fmt.Fprintf(os.Stderr, "child partial: %v\n", err)
		removeScratch()
		os.Exit(3)
	}
	removeScratch()
	os.Exit(0)
}

// maxKeys are observation keys merged with max instead of sum.
var maxKeys = map[string]bool{}

// MergeMax declares that the named observation is merged from children by maximum, not by sum.
func MergeMax(keys ...string) {
	for _, k := range keys {
		maxKeys[k] = true
	}
}

// SpawnChildren runs n children of this binary in parallel (at most par at once; 0 = n), each with
// extraEnv, and merges their partial results. A child that crashes or times out is counted as
// inconclusive (its stderr tail is kept under evidence key child_failures).
func (r *Run) SpawnChildren(n, par int, extraEnv []string, timeout time.Duration) {
	if par <= 0 || par > n {
		par = n
	}
	dir := Scratch("children-" + r.ID)
	defer os.RemoveAll(dir)
	sem := make(chan struct{}, par)
	var wg sync.WaitGroup
	var fmu sync.Mutex
	var failures []string
	for i := 0; i < n; i++ {
		wg.Add(1)
		sem <- struct{}{}
		go func(i int) {
			defer func() { <-sem; wg.Done() }()
			pp := filepath.Join(dir, fmt.Sprintf("partial-%d.json", i))
			errPath := filepath.Join(dir, fmt.Sprintf("stderr-%d.txt", i))
			ef, _ := os.Create(errPath)
			bin := os.Args[0]
			if r.ChildBinary != "" {
				bin = r.ChildBinary
			}
			cmd := exec.Command(bin, "--tier", r.Tier)
			cmd.Env = append(os.Environ(), fmt.Sprintf("VERIF_CHILD_INDEX=%d", i), fmt.Sprintf("VERIF_CHILD_COUNT=%d", n), "VERIF_PARTIAL="+pp,
				fmt.Sprintf("VERIF_SEED=%d", r.Seed), "VERIF_TIER="+r.Tier)
			cmd.Env = append(cmd.Env, extraEnv...)
			cmd.Stdout = ef
			cmd.Stderr = ef
			done := make(chan error, 1)
			if err := cmd.Start(); err != nil {
				fmu.Lock()
				failures = append(failures, fmt.Sprintf("child %d: start: %v", i, err))
				fmu.Unlock()
				return
			}
			go func() { done <- cmd.Wait() }()
			var werr error
			select {
			case werr = <-done:
			case <-time.After(timeout):
				_ = cmd.Process.Signal(os.Interrupt)
				_ = cmd.Process.Kill()
				werr = fmt.Errorf("watchdog after %v", timeout)
				<-done
			}
			_ = ef.Close()
			if werr != nil || !r.mergePartial(pp) {
				tail, _ := os.ReadFile(errPath)
				if len(tail) > 1500 {
					tail = tail[len(tail)-1500:]
				}
				fmu.Lock()
				failures = append(failures, fmt.Sprintf("child %d: %v: %s", i, werr, string(tail)))
				fmu.Unlock()
				progress, _ := os.ReadFile(pp + ".progress")
				full, _ := os.ReadFile(errPath)
				if r.OnChildFailure != nil && r.OnChildFailure(string(progress), string(full)) {
					return // turned into a verdict by the check
				}
				r.Inconclusive("child process failed")
			}
		}(i)
	}
	wg.Wait()
	if len(failures) > 0 {
		r.Extra("child_failures", failures)
	}
	r.Obs("child_processes", int64(n))
}

func (r *Run) mergePartial(path string) bool {
	b, err := os.ReadFile(path)
	if err != nil {
		return false
	}
	var p partial
	if err := json.Unmarshal(b, &p); err != nil {
		return false
	}
	r.mu.Lock()
	r.evaluations += p.Evaluations
	for _, d := range p.Distinct {
		var k [16]byte
		raw, _ := hex.DecodeString(d)
		copy(k[:], raw)
		r.distinct[k] = struct{}{}
	}
	for _, s := range p.Samples {
		if len(r.samples) < r.maxSamples {
			r.samples = append(r.samples, s)
		}
	}
	for k, v := range p.Obs {
		if maxKeys[k] {
			if v > r.obs[k] {
				r.obs[k] = v
			}
		} else {
			r.obs[k] += v
		}
	}
	for k, l := range p.Sets {
		m := r.sets[k]
		if m == nil {
			m = map[string]struct{}{}
			r.sets[k] = m
		}
		for _, s := range l {
			m[s] = struct{}{}
		}
	}
	for k, v := range p.Inconclusive {
		r.inconclusive[k] += v
	}
	r.mu.Unlock()
	for _, v := range p.Violations {
		r.Violation(v.Sig, v.What, v.Witness)
	}
	return true
}
