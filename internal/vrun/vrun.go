// Package vrun is the run context shared by every check: tier/seed/replay handling, evidence
// bookkeeping (measured counts only), three-valued verdict bookkeeping, classification of violations
// against /verif/known_findings.json, replay-witness files, the VIOLATION / KNOWN-FINDING output lines
// and the exit code.
package vrun

import (
	"crypto/sha256"
	"encoding/binary"
	"encoding/json"
	"flag"
	"fmt"
	"math/rand/v2"
	"os"
	"path/filepath"
	"runtime"
	"sort"
	"strconv"
	"strings"
	"sync"
	"time"
)

// Sig is the structured signature of a violation: a small map of semantic classes (entry point,
// precondition class, effect class...). Known findings match on a subset of it.
type Sig map[string]string

func (s Sig) String() string {
	keys := make([]string, 0, len(s))
	for k := range s {
		keys = append(keys, k)
	}
	sort.Strings(keys)
	parts := make([]string, 0, len(keys))
	for _, k := range keys {
		parts = append(parts, k+"="+s[k])
	}
	return strings.Join(parts, " ")
}

type finding struct {
	Status   string `json:"status"`
	Property string `json:"property"`
	Class    string `json:"class"`
	What     string `json:"what"`
	Match    Sig    `json:"match"`
	Commit   string `json:"commit,omitempty"`
	Witness  any    `json:"witness,omitempty"`
}

type violation struct {
	Sig     Sig    `json:"signature"`
	What    string `json:"what"`
	Replay  string `json:"replay"`
	Witness any    `json:"witness,omitempty"`
}

// Run is the context of one check execution.
type Run struct {
	ID     string
	Level  string
	Tier   string
	Seed   int64
	Replay string // path of a witness to replay ("" = normal run)
	Root   string // /verif

	start time.Time

	mu           sync.Mutex
	evaluations  int64
	distinct     map[[16]byte]struct{}
	samples      []any
	maxSamples   int
	obs          map[string]int64
	sets         map[string]map[string]struct{}
	mins         map[string]int64
	rule         string
	assumptions  []string
	extra        map[string]any
	violations   []violation
	sigSeen      map[string]int
	knownHits    map[string]int
	knownWitness map[string]any
	known        []finding
	inconclusive map[string]int64
	exhaustive   *bool

	// OnChildFailure, if set, is called by SpawnChildren with the crashed child's last Progress record and its
	// output; it returns true when it turned the failure into a verdict (otherwise the failure is inconclusive).
	OnChildFailure func(progress string, output string) bool

	// ChildBinary, if set, is executed by SpawnChildren instead of this binary (e.g. a -race build of the same check).
	ChildBinary string

	// child-process mode (see children.go)
	childIdx, childN int
	isChild          bool
	partialPath      string
	childViol        []childViolation
}

// Start parses flags/environment and returns the run context.
//
//	--tier quick|thorough (or VERIF_TIER), VERIF_SEED (default 1), --replay <path>
func Start(id, level string) *Run {
	tier := os.Getenv("VERIF_TIER")
	if tier == "" {
		tier = "quick"
	}
	var replay string
	fs := flag.NewFlagSet(id, flag.ExitOnError)
	fs.StringVar(&tier, "tier", tier, "quick|thorough")
	fs.StringVar(&replay, "replay", "", "witness file to replay")
	_ = fs.Parse(os.Args[1:])
	if tier != "quick" && tier != "thorough" {
		fmt.Fprintf(os.Stderr, "unknown tier %q\n", tier)
		os.Exit(2)
	}
	seed := int64(1)
	if s := os.Getenv("VERIF_SEED"); s != "" {
		if v, err := strconv.ParseInt(s, 10, 64); err == nil {
			seed = v
		}
	}
	root := os.Getenv("VERIF_ROOT")
	if root == "" {
		root = "/verif"
	}
	r := &Run{
		ID: id, Level: level, Tier: tier, Seed: seed, Replay: replay, Root: root,
		start:        time.Now(),
		distinct:     map[[16]byte]struct{}{},
		maxSamples:   5,
		obs:          map[string]int64{},
		sets:         map[string]map[string]struct{}{},
		mins:         map[string]int64{},
		extra:        map[string]any{},
		sigSeen:      map[string]int{},
		knownHits:    map[string]int{},
		knownWitness: map[string]any{},
		inconclusive: map[string]int64{},
	}
	r.loadKnown()
	r.initChild()
	if replay == "" && !r.isChild {
		// witnesses of earlier runs must not be mistaken for this run's
		_ = os.RemoveAll(filepath.Join(root, "replay", id))
	}
	if ck := os.Getenv("VERIF_CHECKPOINT"); ck != "" && !r.isChild {
		// the counts reached so far, for the driver: should the process be brought down by a goroutine of the library
		// (tools/crash_classify.py) the evidence still says what had been explored until then
		go func() {
			for {
				time.Sleep(time.Second)
				r.mu.Lock()
				b, _ := json.Marshal(map[string]any{"evaluations": r.evaluations, "distinct_nontrivial": len(r.distinct), "rule": r.rule})
				r.mu.Unlock()
				if os.WriteFile(ck+".tmp", b, 0o644) == nil {
					_ = os.Rename(ck+".tmp", ck)
				}
			}
		}()
	}
	return r
}

func (r *Run) loadKnown() {
	b, err := os.ReadFile(filepath.Join(r.Root, "known_findings.json"))
	if err != nil {
		return
	}
	var all struct {
		Findings []finding `json:"findings"`
	}
	if err := json.Unmarshal(b, &all); err != nil {
		fmt.Fprintf(os.Stderr, "known_findings.json: %v\n", err)
		os.Exit(2)
	}
	for _, f := range all.Findings {
		if f.Property == r.ID {
			r.known = append(r.known, f)
		}
	}
}

// Quick reports whether this is the quick tier.
func (r *Run) Quick() bool { return r.Tier == "quick" }

// Pick returns q in the quick tier and t in the thorough tier.
func (r *Run) Pick(q, t int) int {
	if r.Quick() {
		return q
	}
	return t
}

// Rand returns a PRNG that is a pure function of (VERIF_SEED, stream, index).
func (r *Run) Rand(stream string, index int) *rand.Rand {
	h := sha256.Sum256([]byte(stream))
	s2 := binary.LittleEndian.Uint64(h[:8]) ^ (uint64(index) * 0x9e3779b97f4a7c15)
	return rand.New(rand.NewPCG(uint64(r.Seed), s2))
}

// Rule records how cases are generated and what non-trivial/distinct mean.
func (r *Run) Rule(s string) { r.mu.Lock(); r.rule = s; r.mu.Unlock() }

// Assume records an assumption / trusted-base statement.
func (r *Run) Assume(s ...string) { r.assumptions = append(r.assumptions, s...) }

// Exhaustive marks that the enumerated sub-space was covered completely.
func (r *Run) Exhaustive(b bool) { r.exhaustive = &b }

// Extra records an additional evidence key.
func (r *Run) Extra(k string, v any) {
	r.mu.Lock()
	r.extra[k] = v
	r.mu.Unlock()
}

// Case counts one evaluated case; canonical is its canonical form (used for distinctness) and
// nontrivial the result of the property's non-triviality predicate.
func (r *Run) Case(canonical string, nontrivial bool) {
	r.CaseN(canonical, nontrivial, 1)
}

// CaseN counts n evaluations that share one canonical form (e.g. an exhaustive sub-range).
func (r *Run) CaseN(canonical string, nontrivial bool, n int64) {
	var key [16]byte
	if nontrivial {
		h := sha256.Sum256([]byte(canonical))
		copy(key[:], h[:16])
	}
	r.mu.Lock()
	r.evaluations += n
	if nontrivial {
		r.distinct[key] = struct{}{}
	}
	r.mu.Unlock()
}

// Sample keeps up to a handful of actual cases for the evidence file.
func (r *Run) Sample(v any) {
	r.mu.Lock()
	if len(r.samples) < r.maxSamples {
		r.samples = append(r.samples, v)
	}
	r.mu.Unlock()
}

// WantSample reports whether more samples are wanted (to avoid building them needlessly).
func (r *Run) WantSample() bool {
	r.mu.Lock()
	defer r.mu.Unlock()
	return len(r.samples) < r.maxSamples
}

// Obs adds n to a named observation counter.
func (r *Run) Obs(key string, n int64) {
	r.mu.Lock()
	r.obs[key] += n
	r.mu.Unlock()
}

// ObsMax keeps the maximum of a named observation.
func (r *Run) ObsMax(key string, v int64) {
	r.mu.Lock()
	if v > r.obs[key] {
		r.obs[key] = v
	}
	r.mu.Unlock()
}

// ObsSet records membership of member in a named set (reported as a sorted list/count).
func (r *Run) ObsSet(key, member string) {
	r.mu.Lock()
	m := r.sets[key]
	if m == nil {
		m = map[string]struct{}{}
		r.sets[key] = m
	}
	m[member] = struct{}{}
	r.mu.Unlock()
}

// GetObs reads a counter.
func (r *Run) GetObs(key string) int64 {
	r.mu.Lock()
	defer r.mu.Unlock()
	return r.obs[key]
}

// SetSize returns the number of distinct members recorded under key.
func (r *Run) SetSize(key string) int {
	r.mu.Lock()
	defer r.mu.Unlock()
	return len(r.sets[key])
}

// Require declares a minimum observation count; a run that misses it exits 2 ("observed nothing").
func (r *Run) Require(key string, min int64) {
	r.mu.Lock()
	r.mins[key] = min
	r.mu.Unlock()
}

// Inconclusive counts a case whose verdict could not be decided.
func (r *Run) Inconclusive(reason string) {
	r.mu.Lock()
	r.inconclusive[reason]++
	r.mu.Unlock()
}

// Violation reports a refuting observation. It is classified against the known findings: a finding
// with status "known" whose match map is a subset of sig suppresses the VIOLATION line and is
// reported as KNOWN-FINDING instead. Returns true when the violation is NEW (not known).
func (r *Run) Violation(sig Sig, what string, witness any) bool {
	r.mu.Lock()
	defer r.mu.Unlock()
	if r.isChild {
		if len(r.childViol) < 200 {
			r.childViol = append(r.childViol, childViolation{Sig: sig, What: what, Witness: witness})
		} else {
			r.obs["violations_not_forwarded_by_child"]++
		}
		return true
	}
	for _, f := range r.known {
		if f.Status != "known" {
			continue
		}
		if subset(f.Match, sig) {
			r.knownHits[f.Class]++
			if _, ok := r.knownWitness[f.Class]; !ok {
				r.knownWitness[f.Class] = map[string]any{"signature": sig, "what": what, "witness": witness}
			}
			return false
		}
	}
	key := sig.String()
	r.sigSeen[key]++
	if r.sigSeen[key] > 3 || len(r.violations) >= 40 {
		// keep counting, but do not write unbounded numbers of witnesses
		r.obs["violations_not_written"]++
		return true
	}
	dir := filepath.Join(r.Root, "replay", r.ID)
	_ = os.MkdirAll(dir, 0o755)
	h := sha256.Sum256([]byte(key + what))
	path := filepath.Join(dir, fmt.Sprintf("%s-seed%d-%x-%d.json", r.Tier, r.Seed, h[:4], r.sigSeen[key]))
	v := violation{Sig: sig, What: what, Replay: path, Witness: witness}
	b, _ := json.MarshalIndent(map[string]any{
		"property": r.ID, "tier": r.Tier, "seed": r.Seed, "signature": sig, "what": what, "witness": witness,
	}, "", " ")
	_ = os.WriteFile(path, b, 0o644)
	r.violations = append(r.violations, v)
	fmt.Printf("VIOLATION property=%s replay=%s\n", r.ID, path)
	fmt.Printf("  what: %s\n  signature: %s\n", what, key)
	return true
}

func subset(m, sig Sig) bool {
	if len(m) == 0 {
		return false
	}
	for k, v := range m {
		if sig[k] != v {
			return false
		}
	}
	return true
}

// Violations returns the number of new (unknown) violations so far.
func (r *Run) Violations() int {
	r.mu.Lock()
	defer r.mu.Unlock()
	n := 0
	for _, c := range r.sigSeen {
		n += c
	}
	return n
}

// Finish writes the evidence file, prints the verdict lines and exits.
func (r *Run) Finish() {
	if r.isChild {
		r.finishChild()
		return
	}
	r.mu.Lock()
	defer r.mu.Unlock()
	cov := map[string]any{
		"evaluations":         r.evaluations,
		"distinct_nontrivial": len(r.distinct),
		"rule":                r.rule,
		"samples":             r.samples,
	}
	if r.samples == nil {
		cov["samples"] = []any{}
	}
	if r.exhaustive != nil {
		cov["exhaustive"] = *r.exhaustive
	}
	obs := map[string]any{}
	for k, v := range r.obs {
		obs[k] = v
	}
	for k, m := range r.sets {
		l := make([]string, 0, len(m))
		for s := range m {
			l = append(l, s)
		}
		sort.Strings(l)
		obs[k+"_count"] = len(l)
		if len(l) > 60 {
			l = append(l[:60:60], fmt.Sprintf("... %d more", len(l)-60))
		}
		obs[k] = l
	}
	cov["observed"] = obs
	inc := int64(0)
	for _, n := range r.inconclusive {
		inc += n
	}
	cov["inconclusive"] = inc
	if inc > 0 {
		cov["inconclusive_reasons"] = r.inconclusive
	}
	for k, v := range r.extra {
		cov[k] = v
	}
	// known findings
	kf := []any{}
	for _, f := range r.known {
		e := map[string]any{"class": f.Class, "status": f.Status, "what": f.What}
		if f.Status == "known" {
			e["reproduced_count"] = r.knownHits[f.Class]
			if w, ok := r.knownWitness[f.Class]; ok {
				e["first_witness"] = w
			}
		}
		if f.Commit != "" {
			e["commit"] = f.Commit
		}
		kf = append(kf, e)
	}
	cov["known_findings"] = kf
	nviol := 0
	sigs := []string{}
	for s, c := range r.sigSeen {
		nviol += c
		sigs = append(sigs, fmt.Sprintf("%dx %s", c, s))
	}
	sort.Strings(sigs)
	if len(sigs) > 0 {
		cov["violation_signatures"] = sigs
	}
	missing := []string{}
	for k, min := range r.mins {
		have := r.obs[k]
		if m, ok := r.sets[k]; ok {
			have = int64(len(m))
		}
		if k == "evaluations" {
			have = r.evaluations
		}
		if k == "distinct_nontrivial" {
			have = int64(len(r.distinct))
		}
		if have < min {
			missing = append(missing, fmt.Sprintf("%s: observed %d < required %d", k, have, min))
		}
	}
	sort.Strings(missing)
	if len(missing) > 0 {
		cov["minimum_observations_missed"] = missing
	}
	ev := map[string]any{
		"property_id": r.ID,
		"tier":        r.Tier,
		"seed":        r.Seed,
		"level":       r.Level,
		"coverage":    cov,
		"assumptions": r.assumptions,
		"wall_s":      time.Since(r.start).Seconds(),
		"violations":  nviol,
		"go":          runtime.Version(),
	}
	if r.assumptions == nil {
		ev["assumptions"] = []string{}
	}
	if r.Replay == "" {
		b, err := json.MarshalIndent(ev, "", " ")
		if err != nil {
			fmt.Fprintf(os.Stderr, "evidence marshal: %v\n", err)
			os.Exit(2)
		}
		_ = os.MkdirAll(filepath.Join(r.Root, "evidence"), 0o755)
		if err := os.WriteFile(filepath.Join(r.Root, "evidence", r.ID+".json"), append(b, '\n'), 0o644); err != nil {
			fmt.Fprintf(os.Stderr, "evidence write: %v\n", err)
			os.Exit(2)
		}
	}
	for _, f := range r.known {
		if f.Status != "known" {
			continue
		}
		if r.knownHits[f.Class] > 0 {
			fmt.Printf("KNOWN-FINDING: property=%s %s [class=%s, reproduced %d times]\n", r.ID, f.What, f.Class, r.knownHits[f.Class])
		} else {
			fmt.Printf("note: property=%s known finding class=%s was not reproduced in this run\n", r.ID, f.Class)
		}
	}
	fmt.Printf("%s %s seed=%d: evaluations=%d distinct_nontrivial=%d violations=%d inconclusive=%d wall=%.1fs\n",
		r.ID, r.Tier, r.Seed, r.evaluations, len(r.distinct), nviol, inc, time.Since(r.start).Seconds())
	removeScratch()
	if nviol > 0 {
		os.Exit(1)
	}
	if len(missing) > 0 {
		fmt.Printf("HARNESS-ERROR property=%s observed too little: %s\n", r.ID, strings.Join(missing, "; "))
		os.Exit(2)
	}
	os.Exit(0)
}

// Fatalf reports a harness error (never a verdict) and exits 2.
func (r *Run) Fatalf(format string, a ...any) {
	fmt.Printf("HARNESS-ERROR property=%s %s\n", r.ID, fmt.Sprintf(format, a...))
	removeScratch()
	os.Exit(2)
}

// Parallel runs fn(i) for i in [0,n) on up to workers goroutines (0 = GOMAXPROCS).
func Parallel(n, workers int, fn func(i int)) {
	if workers <= 0 {
		workers = runtime.GOMAXPROCS(0)
	}
	if workers > n {
		workers = n
	}
	if workers <= 1 {
		for i := 0; i < n; i++ {
			fn(i)
		}
		return
	}
	var wg sync.WaitGroup
	next := make(chan int, workers)
	for w := 0; w < workers; w++ {
		wg.Add(1)
		go func() {
			defer wg.Done()
			for i := range next {
				fn(i)
			}
		}()
	}
	for i := 0; i < n; i++ {
		next <- i
	}
	close(next)
	wg.Wait()
}

// Scratch returns (and creates) a fresh scratch directory for this process under $VERIF_SCRATCH.
func Scratch(prefix string) string {
	base := os.Getenv("VERIF_SCRATCH")
	if base == "" {
		base = "/var/tmp/verif-scratch"
	}
	_ = os.MkdirAll(base, 0o755)
	d, err := os.MkdirTemp(base, prefix+"-")
	if err != nil {
		fmt.Fprintf(os.Stderr, "scratch: %v\n", err)
		os.Exit(2)
	}
	scratchMu.Lock()
	scratchDirs = append(scratchDirs, d)
	scratchMu.Unlock()
	return d
}

// the scratch directories handed out by Scratch: removed when the run ends through Finish or Fatalf (deferred removals of
// the checks do not run then, the process exits)
var (
	scratchMu   sync.Mutex
	scratchDirs []string
)

func removeScratch() {
	scratchMu.Lock()
	dirs := scratchDirs
	scratchDirs = nil
	scratchMu.Unlock()
	for _, d := range dirs {
		_ = os.RemoveAll(d)
	}
}

// ReadReplay loads a witness file written by Violation.
func (r *Run) ReadReplay(into any) error {
	b, err := os.ReadFile(r.Replay)
	if err != nil {
		return err
	}
	var w struct {
		Witness json.RawMessage `json:"witness"`
	}
	if err := json.Unmarshal(b, &w); err != nil {
		return err
	}
	return json.Unmarshal(w.Witness, into)
}
