// Package snap takes snapshots of directory trees (never following symbolic links) and compares them.
package snap

import (
	"crypto/sha256"
	"encoding/hex"
	"fmt"
	"io"
	"os"
	"path/filepath"
	"sort"
	"strings"
	"syscall"
	"time"

	"github.com/spf13/afero"
)

// Entry describes one filesystem entry.
type Entry struct {
	Kind   string // "dir", "file", "link", "other"
	Size   int64
	Hash   string
	Target string
	Mode   os.FileMode
	MTime  time.Time
	Owner  string // "uid:gid" (OS snapshots only)
}

// Snap maps a slash-separated path relative to the root ("." for the root itself) to its entry.
type Snap map[string]Entry

// Options controls what is compared.
type Options struct {
	MTime bool // compare modification times
	Mode  bool // compare permission bits
	Owner bool // compare uid:gid
}

// TakeOS walks root on the real filesystem with Lstat.
func TakeOS(root string) (Snap, error) {
	s := Snap{}
	err := filepath.Walk(root, func(p string, info os.FileInfo, err error) error {
		if err != nil {
			if os.IsNotExist(err) {
				return nil
			}
			if os.IsPermission(err) {
				rel, _ := filepath.Rel(root, p)
				s[filepath.ToSlash(rel)] = Entry{Kind: "unreadable"}
				return nil
			}
			return err
		}
		rel, _ := filepath.Rel(root, p)
		rel = filepath.ToSlash(rel)
		e := Entry{Mode: info.Mode().Perm(), MTime: info.ModTime()}
		if st, ok := info.Sys().(*syscall.Stat_t); ok {
			e.Owner = fmt.Sprintf("%d:%d", st.Uid, st.Gid)
		}
		switch {
		case info.Mode()&os.ModeSymlink != 0:
			e.Kind = "link"
			e.Target, _ = os.Readlink(p)
		case info.IsDir():
			e.Kind = "dir"
		case info.Mode().IsRegular():
			e.Kind = "file"
			e.Size = info.Size()
			f, err := os.Open(p)
			if err == nil {
				h := sha256.New()
				_, _ = io.Copy(h, f)
				_ = f.Close()
				e.Hash = hex.EncodeToString(h.Sum(nil)[:12])
			} else {
				e.Hash = "unreadable"
			}
		default:
			e.Kind = "other"
		}
		s[rel] = e
		return nil
	})
	return s, err
}

// TakeAfero walks root on an afero filesystem.
func TakeAfero(fs afero.Fs, root string) (Snap, error) {
	s := Snap{}
	err := afero.Walk(fs, root, func(p string, info os.FileInfo, err error) error {
		if err != nil {
			if os.IsNotExist(err) {
				return nil
			}
			return err
		}
		rel, _ := filepath.Rel(root, p)
		rel = filepath.ToSlash(rel)
		e := Entry{Mode: info.Mode().Perm(), MTime: info.ModTime()}
		switch {
		case info.IsDir():
			e.Kind = "dir"
		default:
			e.Kind = "file"
			e.Size = info.Size()
			f, err := fs.Open(p)
			if err == nil {
				h := sha256.New()
				_, _ = io.Copy(h, f)
				_ = f.Close()
				e.Hash = hex.EncodeToString(h.Sum(nil)[:12])
			}
		}
		s[rel] = e
		return nil
	})
	return s, err
}

// Diff lists the differences between a and b restricted to paths for which keep returns true
// (keep nil = all paths).
func Diff(a, b Snap, opt Options, keep func(rel string) bool) []string {
	var out []string
	paths := map[string]struct{}{}
	for p := range a {
		paths[p] = struct{}{}
	}
	for p := range b {
		paths[p] = struct{}{}
	}
	for p := range paths {
		if keep != nil && !keep(p) {
			continue
		}
		ea, oka := a[p]
		eb, okb := b[p]
		switch {
		case oka && !okb:
			out = append(out, fmt.Sprintf("removed %s (%s)", p, ea.Kind))
		case !oka && okb:
			out = append(out, fmt.Sprintf("created %s (%s)", p, eb.Kind))
		default:
			if ea.Kind != eb.Kind {
				out = append(out, fmt.Sprintf("kind %s: %s -> %s", p, ea.Kind, eb.Kind))
				continue
			}
			if ea.Kind == "file" && (ea.Size != eb.Size || ea.Hash != eb.Hash) {
				out = append(out, fmt.Sprintf("content %s: size %d -> %d", p, ea.Size, eb.Size))
			}
			if ea.Kind == "link" && ea.Target != eb.Target {
				out = append(out, fmt.Sprintf("target %s: %s -> %s", p, ea.Target, eb.Target))
			}
			if opt.MTime && !ea.MTime.Equal(eb.MTime) {
				out = append(out, fmt.Sprintf("mtime %s: %s -> %s", p, ea.MTime.Format(time.RFC3339Nano), eb.MTime.Format(time.RFC3339Nano)))
			}
			if opt.Owner && ea.Owner != eb.Owner {
				out = append(out, fmt.Sprintf("owner %s: %s -> %s", p, ea.Owner, eb.Owner))
			}
			if opt.Mode && ea.Mode != eb.Mode {
				out = append(out, fmt.Sprintf("mode %s: %v -> %v", p, ea.Mode, eb.Mode))
			}
		}
	}
	sort.Strings(out)
	return out
}

// Under reports whether rel is dir or below it (slash paths).
func Under(rel, dir string) bool {
	if dir == "." || dir == "" {
		return true
	}
	return rel == dir || strings.HasPrefix(rel, dir+"/")
}

// String renders a snapshot compactly (sorted).
func (s Snap) String() string {
	keys := make([]string, 0, len(s))
	for k := range s {
		keys = append(keys, k)
	}
	sort.Strings(keys)
	var b strings.Builder
	for _, k := range keys {
		e := s[k]
		switch e.Kind {
		case "file":
			fmt.Fprintf(&b, "%s f %d %s\n", k, e.Size, e.Hash)
		case "link":
			fmt.Fprintf(&b, "%s l -> %s\n", k, e.Target)
		default:
			fmt.Fprintf(&b, "%s %s\n", k, e.Kind)
		}
	}
	return b.String()
}
