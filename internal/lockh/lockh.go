//go:build goexperiment.synctest

// Package lockh is the shared harness for the file-lock properties (C01, C17) and the lock-based
// shared cache (C16): a "world" inside a synctest bubble with an OS-backed lock directory, one
// decorated VFS per actor, the interleaving scheduler, the virtual-clock re-stamper, a
// client-boundary history and the online ownership monitor of the lock directory.
package lockh

import (
	"context"
	"fmt"
	iofs "io/fs"
	"os"
	"path/filepath"
	"strings"
	"sync"
	"sync/atomic"
	"syscall"
	"time"

	"github.com/sasha-s/go-deadlock"
	"github.com/spf13/afero"

	"github.com/ARM-software/golang-utils/utils/filesystem"

	"verif/internal/fsmon"
	"verif/internal/sched"
)

func init() {
	// go-deadlock would os.Exit(2) the monitor process after 30 s of lock wait; record instead.
	// Inside bubbles its pooled timers would also migrate between bubbles ("timer moved between synctest
	// bubbles"), so lock-order/timeout detection is switched off in the monitor process: the mutexes
	// then behave as plain sync mutexes, which does not change the library's semantics.
	deadlock.Opts.OnPotentialDeadlock = func() {}
	deadlock.Opts.Disable = true
}

const Period = 50 * time.Millisecond // the lock's heartbeat period (NewGenericRemoteLockFile)
const StaleAfter = 2 * Period

// HistOp is a client-boundary operation.
type HistOp struct {
	Actor string `json:"actor"`
	Op    string `json:"op"`
	Call  int64  `json:"call"`
	Ret   int64  `json:"ret"`
	CallT int64  `json:"call_ms"` // virtual ms since world start
	RetT  int64  `json:"ret_ms"`
	Err   string `json:"err,omitempty"`
	Val   string `json:"val,omitempty"`
}

// Incarnation is one life of the lock directory.
type Incarnation struct {
	ID        int
	Owner     string
	Birth     int64
	BirthT    time.Time
	Newest    time.Time // newest heartbeat/dir stamp
	Removed   bool
	RemovedBy string
	// FirstRemoveIn is the instant of the first effective removal of an entry inside the lock directory (somebody has
	// begun to release it: the directory is in a transitional state from then on).
	// GuttedBy names the actor which, from inside an Unlock that had begun before this incarnation existed (its retry
	// loop), removed an entry INSIDE this incarnation's directory: the successor's lock has been damaged by the
	// predecessor's release, what follows (an empty directory read as stale, a take-over) is a consequence.
	GuttedBy         string
	GuttedClass      string // the known class which explains the gutting (see the after hook)
	FirstRemoveIn    time.Time
	FirstRemoveInSeq int64 // its event sequence number (several events share one instant of the virtual clock)
	// EndKind tells how the incarnation ended: "owner" (removed by its creator), "foreign-stale" (removed by somebody else
	// while stale or while its owner was dead), "foreign-owner-releasing", "foreign-judged" (removed live by somebody else).
	EndKind string
}

// ForeignRemove is a removal of the lock directory by somebody who is not its creator.
type ForeignRemove struct {
	Seq         int64  `json:"seq"`
	Remover     string `json:"remover"`
	RemoverCall string `json:"remover_call"`
	Owner       string `json:"owner"`
	Inc         int    `json:"incarnation"`
	IncAtCall   int    `json:"incarnation_at_remover_decision_window_start"` // at its API call start or its last failed Mkdir of the lock directory
	AgeMs       int64  `json:"stamp_age_ms"`
	OwnerState  string `json:"owner_state"`
	Class       string `json:"class"`
	Judged      bool   `json:"judged_violation"`
}

// Created returns the number of lock directory incarnations created so far, Removed the number of those ended.
func (w *World) Created() int { return int(w.created.Load()) }
func (w *World) Removed() int { return int(w.removed.Load()) }

// World is one bubble's shared state.
type World struct {
	created, removed atomic.Int64 // lock directory incarnations created / ended so far
	Dir              string       // directory in which the lock directory lives
	LockID           string
	LockPath         string
	Base             afero.Fs
	Mon              *fsmon.Monitor
	S                *sched.Sched
	Slow             map[string]time.Duration // per actor: every backend operation of that actor takes that much longer
	SlowPath         map[string]string        // ... only the operations whose path contains this (empty: all)
	SlowOnce         map[string]bool          // ... only the first such operation (one stall)
	Rs               Stamper
	Mem              bool // in-memory backend (afero MemMapFs): its own modification times, on the bubble's clock
	Start            time.Time

	mu         sync.Mutex
	Hist       []HistOp
	Incs       []*Incarnation
	cur        *Incarnation
	curCall    map[string]string // actor → API call in progress
	incAtCall  map[string]int    // actor → incarnation id current when its call started
	rmTries    map[string]int    // actor → removals of the lock directory attempted in its current decision window
	winStart   map[string]time.Time
	dirEvents  []DirEvent
	releasing  map[string]bool // actor has begun a release of its own hold
	holding    map[string]bool // actor's acquire returned success and it has not begun release
	dead       map[string]bool // actor's context was cancelled (heartbeat not running any more)
	wasHolder  map[string]bool
	Foreign    []ForeignRemove
	Stamps     int64
	HbWrites   int64
	Events     []fsmon.Event
	KeepEvents bool

	// fault injection: actor "process stop" after its j-th backend operation
	opCount   map[string]int
	stopAfter map[string]int
	stopped   map[string]bool
	onStop    map[string]func()
	faults    map[string]Fault
	// FaultHit reports, per actor, the operation the injected fault landed on.
	FaultHit map[string]string
	// StampLog records every stamp applied to the lock directory or a file in it (in application order).
	StampLog []Stamp
}

// DirEvent is one state change of the lock directory (used to decide whether "stale" was a legitimate reading).
type DirEvent struct {
	At   time.Time
	Inc  int
	Kind string // stamp | create | remove
	Path string
	T    time.Time // stamp value
	Seq  int64     // backend operation the change belongs to: the changes of one operation (an entry removed or created and
	// the directory re-stamped for it) are one state change, as in a kernel
}

// staleReadable reports whether, at some instant in [from, to], the on-disk state of incarnation inc satisfied the
// library's staleness predicate (heartbeat files present: all older than the threshold; none: the directory older).
func (w *World) staleReadable(inc int, from, to time.Time) bool {
	return w.staleReadableMargin(inc, from, to, 0)
}

// staleReadableMargin is staleReadable with the threshold lowered by margin (real-time mode: the event log lags the kernel).
func (w *World) staleReadableMargin(inc int, from, to time.Time, margin time.Duration) bool {
	thr := (StaleAfter - margin).Milliseconds()
	files := map[string]time.Time{}
	var dir time.Time
	pred := func(at time.Time) bool {
		if at.Before(from) || at.After(to) {
			return false
		}
		if len(files) == 0 {
			return !dir.IsZero() && at.Sub(dir).Milliseconds() > thr
		}
		for _, m := range files {
			if at.Sub(m).Milliseconds() <= thr {
				return false
			}
		}
		return true
	}
	var lastSeq int64
	for _, ev := range w.dirEvents {
		if ev.Inc != inc {
			continue
		}
		if ev.At.After(to) {
			break
		}
		// the state before this event lasted until ev.At: ages only grow, so test at the end of that stretch (not between
		// the changes made by one and the same backend operation: nobody can have looked in between)
		if (ev.Seq == 0 || ev.Seq != lastSeq) && pred(ev.At) {
			return true
		}
		lastSeq = ev.Seq
		switch ev.Kind {
		case "create":
			if _, ok := files[ev.Path]; !ok {
				files[ev.Path] = ev.At
			}
		case "remove":
			delete(files, ev.Path)
		case "stamp":
			if w.isLockPath(ev.Path) {
				dir = ev.T
			} else if _, ok := files[ev.Path]; ok {
				files[ev.Path] = ev.T
			}
		}
	}
	return pred(to)
}

// StaleReadableDuring reports whether some incarnation of the lock directory could legitimately be read as stale at
// some instant of [from, to] (by the state-based predicate, i.e. ignoring the non-atomicity of the library's reading).
func (w *World) StaleReadableDuring(from, to time.Time) bool {
	return w.StaleReadableDuringMargin(from, to, 0)
}

// StaleReadableDuringMargin is StaleReadableDuring with the staleness threshold lowered by margin.
func (w *World) StaleReadableDuringMargin(from, to time.Time, margin time.Duration) bool {
	w.mu.Lock()
	defer w.mu.Unlock()
	for _, inc := range w.Incs {
		if inc.BirthT.After(to) {
			continue
		}
		if w.staleReadableMargin(inc.ID, from, to, margin) {
			return true
		}
	}
	return false
}

// Stamp is one modification-time stamp applied to the lock directory or a file inside it.
type Stamp struct {
	Seq      int64     `json:"seq"`
	Path     string    `json:"path"`
	T        time.Time `json:"t"`
	Explicit bool      `json:"explicit"`
	Actor    string    `json:"actor"`
	Inc      int       `json:"inc"`
}

var ErrStopped = fmt.Errorf("verif: process stopped (injected)")

// ErrInjected is the error returned by injected I/O faults.
var ErrInjected = fmt.Errorf("verif: injected I/O error")

// Fault describes one injected fault on an actor's K-th backend operation (counted from FaultAt).
type Fault struct {
	K    int
	Kind string // "err-before" (op not executed), "enoent-before" (op not executed, ENOENT returned), "err-after" (op executed, error returned), "short-write" (half of the bytes written, no error)
}

// FaultAt arms a fault for the actor (operation counting restarts at 0).
func (w *World) FaultAt(actor string, f Fault) {
	w.mu.Lock()
	w.opCount[actor] = 0
	w.faults[actor] = f
	w.mu.Unlock()
}

// StopAfter arranges that actor "dies" right after its j-th backend operation (counted from now):
// every later operation of the actor fails without effect; onStop (if non-nil) is called at that point
// (use it to cancel the actor's context so that its goroutines wind down).
func (w *World) StopAfter(actor string, j int, onStop func()) {
	w.mu.Lock()
	w.opCount[actor] = 0
	w.stopAfter[actor] = j
	w.onStop[actor] = onStop
	w.mu.Unlock()
}

// Stopped reports whether the actor has been stopped.
func (w *World) Stopped(actor string) bool {
	w.mu.Lock()
	defer w.mu.Unlock()
	return w.stopped[actor]
}

// OpCount returns the number of backend operations the actor has issued since StopAfter/start.
func (w *World) OpCount(actor string) int {
	w.mu.Lock()
	defer w.mu.Unlock()
	return w.opCount[actor]
}

func (w *World) before(e *fsmon.Event) {
	w.mu.Lock()
	if w.stopped[e.Actor] {
		w.mu.Unlock()
		e.Inject = ErrStopped
		return
	}
	w.opCount[e.Actor]++
	if f, ok := w.faults[e.Actor]; ok && f.K == w.opCount[e.Actor] {
		switch f.Kind {
		case "err-before":
			e.Inject = ErrInjected
		case "enoent-before":
			// the operation is not executed and reports "no such file or directory" (e.g. a network filesystem losing sight of an entry)
			e.Inject = &iofs.PathError{Op: strings.ToLower(e.Op), Path: e.Path, Err: syscall.ENOENT}
		case "err-after":
			e.FailAfter = ErrInjected
		case "short-write":
			if e.Len > 1 {
				e.ShortWrite = e.Len / 2
			}
		}
		w.FaultHit[e.Actor] = fmt.Sprintf("%s %s (%s)", e.Op, filepath.Base(e.Path), f.Kind)
		delete(w.faults, e.Actor)
	}
	slow := w.Slow[e.Actor]
	if sub := w.SlowPath[e.Actor]; sub != "" && !strings.Contains(e.Path, sub) && !strings.Contains(e.Path2, sub) {
		slow = 0
	}
	if slow > 0 && w.SlowOnce[e.Actor] {
		if e.Mut {
			delete(w.Slow, e.Actor) // a single stall, on the first operation that changes something
		} else {
			slow = 0
		}
	}
	w.mu.Unlock()
	if slow > 0 {
		time.Sleep(slow) // a slow backend for this actor (virtual time inside a bubble)
	}
	w.S.Gate(e)
	w.Rs.Before(e)
}

func (w *World) maybeStop(e *fsmon.Event) {
	w.mu.Lock()
	j, ok := w.stopAfter[e.Actor]
	var f func()
	if ok && j > 0 && w.opCount[e.Actor] >= j && !w.stopped[e.Actor] && e.Inject == nil {
		w.stopped[e.Actor] = true
		w.dead[e.Actor] = true
		w.Hist = append(w.Hist, HistOp{Actor: e.Actor, Op: "die", Call: w.Mon.Tick(), Ret: w.Mon.Tick(), CallT: w.ms(), RetT: w.ms(), Val: fmt.Sprintf("after op %d (%s %s)", j, e.Op, filepath.Base(e.Path))})
		f = w.onStop[e.Actor]
	}
	w.mu.Unlock()
	if f != nil {
		f()
	}
}

// NewWorld creates the world. dir must exist (real OS directory, fresh per case).
// Stamper feeds the world with the modification times objects get (see sched.Restamper and sched.StampObserver).
type Stamper interface {
	Before(e *fsmon.Event)
	After(e *fsmon.Event)
}

// NewWorld is a world over the OS filesystem.
func NewWorld(dir, lockID string, s *sched.Sched) *World {
	return NewWorldOn(filesystem.NewExtendedOsFs(), false, dir, lockID, s)
}

// NewMemWorld is a world over a fresh in-memory backend (dir is created in it).
func NewMemWorld(dir, lockID string, s *sched.Sched, createDir bool) *World {
	base := afero.NewMemMapFs()
	if createDir {
		_ = base.MkdirAll(dir, 0o755)
	}
	return NewWorldOn(base, true, dir, lockID, s)
}

func NewWorldOn(base afero.Fs, mem bool, dir, lockID string, s *sched.Sched) *World {
	w := &World{Dir: dir, LockID: lockID, Base: base, Mem: mem, Mon: fsmon.NewMonitor(false), S: s,
		curCall: map[string]string{}, incAtCall: map[string]int{}, rmTries: map[string]int{}, winStart: map[string]time.Time{}, releasing: map[string]bool{}, holding: map[string]bool{},
		dead: map[string]bool{}, wasHolder: map[string]bool{},
		opCount: map[string]int{}, stopAfter: map[string]int{}, stopped: map[string]bool{}, onStop: map[string]func(){},
		faults: map[string]Fault{}, FaultHit: map[string]string{}, Slow: map[string]time.Duration{}, SlowPath: map[string]string{}, SlowOnce: map[string]bool{}}
	w.LockPath = filepath.Join(dir, fmt.Sprintf("%v-%v", filesystem.LockFilePrefix, lockID))
	if mem {
		w.Rs = &sched.StampObserver{Base: w.Base, OnStamp: w.onStamp}
	} else {
		w.Rs = &sched.Restamper{Base: w.Base, OnStamp: w.onStamp}
	}
	w.Mon.Before = w.before
	w.Mon.After = w.after
	w.Start = time.Now()
	return w
}

// Names returns the sub-directory and the lock id used by the i-th scenario: most are plain, some hold characters
// which are special for pattern matching or shells (a lock path is a path like any other).
func Names(i int) (subdir, id string) {
	switch i % 7 {
	case 3:
		return "build[1]", "lk"
	case 5:
		return "out{debug,release}", "l*k?[a]"
	case 6:
		return "plain", "lk [x]"
	case 4:
		// the directory to lock does not exist (yet): see MissingDir
		return "not-there/yet", "lk"
	}
	return "", "lk"
}

// MemBackend reports whether the i-th scenario runs on the in-memory backend.
func MemBackend(i int) bool { return i%5 == 2 }

// MissingDir reports whether the directory of the i-th scenario is left uncreated.
func MissingDir(i int) bool { return i%7 == 4 }

// VFS returns a new library filesystem for an actor (own decorator, shared backend and monitor).
func (w *World) VFS(actor string) *filesystem.VFS {
	return filesystem.NewVirtualFileSystem(fsmon.New(w.Base, actor, w.Mon), filesystem.StandardFS, filesystem.IdentityPathConverterFunc).(*filesystem.VFS)
}

// NewLock returns a lock object for an actor.
func (w *World) NewLock(actor string, override bool) filesystem.ILock {
	return filesystem.NewGenericRemoteLockFile(w.VFS(actor), w.LockID, w.Dir, override)
}

// NewLockSpelt is NewLock with another spelling of the lock id: the library trims blanks around the id when it forms the
// path of the lock directory, so ids which differ by surrounding blanks only name the same lock.
func (w *World) NewLockSpelt(actor string, override bool, spelling int) filesystem.ILock {
	id := w.LockID
	switch spelling % 3 {
	case 1:
		id += "\n"
	case 2:
		id = " " + id + "  "
	}
	return filesystem.NewGenericRemoteLockFile(w.VFS(actor), id, w.Dir, override)
}

func (w *World) isLockPath(p string) bool {
	return filepath.Clean(p) == w.LockPath
}
func (w *World) inLockDir(p string) bool {
	return strings.HasPrefix(filepath.Clean(p), w.LockPath+string(filepath.Separator))
}

func (w *World) onStamp(path string, t time.Time, explicit bool, e *fsmon.Event) {
	w.mu.Lock()
	defer w.mu.Unlock()
	if w.cur == nil {
		return
	}
	if w.isLockPath(path) || w.inLockDir(path) {
		w.Stamps++
		if t.After(w.cur.Newest) {
			w.cur.Newest = t
		}
		w.StampLog = append(w.StampLog, Stamp{Seq: e.Seq, Path: path, T: t, Explicit: explicit, Actor: e.Actor, Inc: w.cur.ID})
		w.dirEvents = append(w.dirEvents, DirEvent{At: time.Now(), Inc: w.cur.ID, Kind: "stamp", Path: filepath.Clean(path), T: t, Seq: e.Seq})
	}
}

func (w *World) after(e *fsmon.Event) {
	// order matters: judge a removal against the stamps known before it, then re-stamp
	if (e.Op == fsmon.OpMkdir || e.Op == fsmon.OpMkdirAll) && w.isLockPath(e.Path) && !e.Effective {
		// a failed attempt to create the lock directory starts a new decision window of this actor
		// (TryLock: Mkdir fails -> IsStale? -> release + retry): remember which incarnation it looked at
		w.mu.Lock()
		if w.cur != nil {
			w.incAtCall[e.Actor] = w.cur.ID
		} else {
			w.incAtCall[e.Actor] = 0
		}
		w.rmTries[e.Actor] = 0
		w.winStart[e.Actor] = time.Now()
		w.mu.Unlock()
	}
	if e.Effective && w.inLockDir(e.Path) {
		w.mu.Lock()
		if w.cur != nil {
			switch {
			case e.Op == fsmon.OpCreate || (e.Op == fsmon.OpOpenFile && e.Flag&os.O_CREATE != 0):
				w.dirEvents = append(w.dirEvents, DirEvent{At: time.Now(), Inc: w.cur.ID, Kind: "create", Path: filepath.Clean(e.Path), Seq: e.Seq})
			case e.Op == fsmon.OpRemove || e.Op == fsmon.OpRemoveAll:
				w.dirEvents = append(w.dirEvents, DirEvent{At: time.Now(), Inc: w.cur.ID, Kind: "remove", Path: filepath.Clean(e.Path), Seq: e.Seq})
				if e.Actor != w.cur.Owner && w.incAtCall[e.Actor] != w.cur.ID && w.cur.GuttedBy == "" {
					// the remover's decision window began on ANOTHER incarnation: it acts on a verdict about a lock which is gone
					cls := ""
					switch {
					case (strings.HasPrefix(w.curCall[e.Actor], "Unlock") && w.wasHolder[e.Actor]) || w.rmTries[e.Actor] >= 1:
						cls = "unlock-retry-removes-successor"
					default:
						if k := w.incAtCall[e.Actor]; k >= 1 && k <= len(w.Incs) {
							la := w.Incs[k-1]
							if la.EndKind == "foreign-stale" || w.staleReadable(la.ID, w.winStart[e.Actor], time.Now()) {
								cls = "stale-takeover-toctou"
							}
						}
					}
					if cls != "" {
						w.cur.GuttedBy, w.cur.GuttedClass = e.Actor, cls
					}
				}
				if w.cur.FirstRemoveIn.IsZero() {
					w.cur.FirstRemoveIn = time.Now()
					w.cur.FirstRemoveInSeq = e.Seq
				}
			}
		}
		w.mu.Unlock()
	}
	if (e.Op == fsmon.OpRemove || e.Op == fsmon.OpRemoveAll) && w.isLockPath(e.Path) {
		w.mu.Lock()
		w.rmTries[e.Actor]++
		w.mu.Unlock()
	}
	if e.Effective {
		switch {
		case (e.Op == fsmon.OpMkdir || e.Op == fsmon.OpMkdirAll) && w.isLockPath(e.Path):
			w.mu.Lock()
			if w.cur == nil {
				inc := &Incarnation{ID: len(w.Incs) + 1, Owner: e.Actor, Birth: e.Seq, BirthT: time.Now(), Newest: time.Now()}
				w.Incs = append(w.Incs, inc)
				w.cur = inc
				w.created.Add(1)
			}
			w.mu.Unlock()
		case (e.Op == fsmon.OpRemove || e.Op == fsmon.OpRemoveAll) && w.isLockPath(e.Path):
			w.mu.Lock()
			if inc := w.cur; inc != nil {
				inc.Removed = true
				inc.RemovedBy = e.Actor
				if inc.Owner == e.Actor {
					inc.EndKind = "owner"
				}
				if inc.Owner != e.Actor {
					age := time.Since(inc.Newest)
					fr := ForeignRemove{Seq: e.Seq, Remover: e.Actor, RemoverCall: w.curCall[e.Actor], Owner: inc.Owner, Inc: inc.ID,
						IncAtCall: w.incAtCall[e.Actor], AgeMs: age.Milliseconds()}
					switch {
					case w.dead[inc.Owner]:
						fr.OwnerState = "dead"
					case w.releasing[inc.Owner]:
						fr.OwnerState = "releasing"
					case w.holding[inc.Owner]:
						fr.OwnerState = "holding"
					default:
						fr.OwnerState = "acquiring-or-failed"
					}
					stale := age.Milliseconds() > StaleAfter.Milliseconds()
					switch {
					case stale || fr.OwnerState == "dead":
						inc.EndKind = "foreign-stale"
					case fr.OwnerState == "releasing":
						inc.EndKind = "foreign-owner-releasing"
					default:
						inc.EndKind = "foreign-judged"
					}
					if !stale && fr.OwnerState != "dead" && fr.OwnerState != "releasing" {
						fr.Judged = true
						createdDuring := fr.IncAtCall != inc.ID
						// how did the incarnation the remover had looked at end? The check-then-act take-over race is only the
						// explanation if that incarnation really was a stale/dead lock that somebody legitimately took over.
						lookedAtEnd := ""
						lookedAtStale := false
						if fr.IncAtCall >= 1 && fr.IncAtCall <= len(w.Incs) {
							la := w.Incs[fr.IncAtCall-1]
							lookedAtEnd = la.EndKind
							// stamps of an incarnation stop when it ends (or when its holder begins to release): if its newest stamp is
							// older than the threshold now, "stale" may have been a legitimate reading of it at decision time
							_ = la.Newest
							// was "stale" a legitimate reading of the incarnation the remover had looked at, at some instant of its decision window?
							lookedAtStale = w.staleReadable(la.ID, w.winStart[e.Actor], time.Now())
						}
						switch {
						case inc.GuttedBy != "":
							// the heartbeat file of this lock had been removed by the retry loop of a predecessor's Unlock
							fr.Class = inc.GuttedClass
						case createdDuring && strings.HasPrefix(fr.RemoverCall, "Unlock") && w.wasHolder[e.Actor]:
							fr.Class = "unlock-retry-removes-successor"
						case createdDuring && w.rmTries[e.Actor] >= 2:
							// not the first removal attempt of this Unlock (possibly reached through ReleaseIfStale / override): its retry loop
							fr.Class = "unlock-retry-removes-successor"
						case createdDuring && (lookedAtEnd == "foreign-stale" || lookedAtStale):
							fr.Class = "stale-takeover-toctou"
						default:
							fr.Class = "foreign-remove-of-live-lock"
						}
					}
					w.Foreign = append(w.Foreign, fr)
				}
				w.cur = nil
				w.removed.Add(1)
			}
			w.mu.Unlock()
		case e.Op == fsmon.OpFWrite && w.inLockDir(e.Path):
			w.mu.Lock()
			w.HbWrites++
			w.mu.Unlock()
		}
	}
	if w.KeepEvents {
		w.mu.Lock()
		w.Events = append(w.Events, *e)
		w.mu.Unlock()
	}
	if e.Inject == nil {
		w.Rs.After(e)
	}
	w.maybeStop(e)
}

// CurrentInc returns the id of the live incarnation (0 = none).
func (w *World) CurrentInc() int {
	w.mu.Lock()
	defer w.mu.Unlock()
	if w.cur == nil {
		return 0
	}
	return w.cur.ID
}

// OwnsCurrent reports whether actor created the lock directory which exists now.
func (w *World) OwnsCurrent(actor string) bool {
	w.mu.Lock()
	defer w.mu.Unlock()
	return w.cur != nil && w.cur.Owner == actor
}

func (w *World) ms() int64 { return time.Since(w.Start).Milliseconds() }

// Call records a client-boundary call around f. kind: "acquire", "release", "other".
func (w *World) Call(actor, op, kind string, f func() (string, error)) error {
	w.mu.Lock()
	w.curCall[actor] = op
	w.rmTries[actor] = 0
	w.winStart[actor] = time.Now()
	if w.cur != nil {
		w.incAtCall[actor] = w.cur.ID
	} else {
		w.incAtCall[actor] = 0
	}
	if kind == "release" {
		if w.holding[actor] {
			w.wasHolder[actor] = true
		}
		w.releasing[actor] = true
		w.holding[actor] = false
	}
	h := HistOp{Actor: actor, Op: op, Call: w.Mon.Tick(), CallT: w.ms()}
	w.mu.Unlock()
	val, err := f()
	w.mu.Lock()
	h.Ret = w.Mon.Tick()
	h.RetT = w.ms()
	h.Val = val
	if err != nil {
		h.Err = err.Error()
	}
	if kind == "acquire" && err == nil {
		w.holding[actor] = true
		w.releasing[actor] = false
		w.wasHolder[actor] = false
	}
	if kind == "release" {
		w.releasing[actor] = false
	}
	delete(w.curCall, actor)
	w.Hist = append(w.Hist, h)
	w.mu.Unlock()
	return err
}

// Die marks the actor dead (its context has been cancelled: heartbeat stops) at the client boundary.
func (w *World) Die(actor string) {
	w.mu.Lock()
	w.dead[actor] = true
	w.Hist = append(w.Hist, HistOp{Actor: actor, Op: "die", Call: w.Mon.Tick(), Ret: w.Mon.Tick(), CallT: w.ms(), RetT: w.ms()})
	w.mu.Unlock()
}

// Sleep sleeps in virtual time, honouring ctx.
func Sleep(ctx context.Context, d time.Duration) {
	t := time.NewTimer(d)
	defer t.Stop()
	select {
	case <-t.C:
	case <-ctx.Done():
	}
}

// Hold is a hold interval in logical time.
type Hold struct {
	Actor     string `json:"actor"`
	From      int64  `json:"from"`
	To        int64  `json:"to"` // 0 = open until end
	FromMs    int64  `json:"from_ms"`
	ToMs      int64  `json:"to_ms"`
	AcquireOp string `json:"acquire_op"`
}

// Holds derives hold intervals [return of successful acquire, call of release or death).
func (w *World) Holds() []Hold {
	w.mu.Lock()
	defer w.mu.Unlock()
	open := map[string]*Hold{}
	var out []Hold
	closeHold := func(a string, at, atMs int64) {
		if h := open[a]; h != nil {
			h.To, h.ToMs = at, atMs
			out = append(out, *h)
			delete(open, a)
		}
	}
	// history is appended at return time; process in order of the relevant instants
	type inst struct {
		at   int64
		atMs int64
		a    string
		kind string
		op   string
	}
	var insts []inst
	for _, h := range w.Hist {
		switch {
		case h.Op == "die":
			insts = append(insts, inst{h.Call, h.CallT, h.Actor, "end", h.Op})
		case strings.HasPrefix(h.Op, "Unlock") || strings.HasPrefix(h.Op, "ReleaseIfStale"):
			insts = append(insts, inst{h.Call, h.CallT, h.Actor, "end", h.Op})
		case (strings.HasPrefix(h.Op, "TryLock") || strings.HasPrefix(h.Op, "Lock")) && h.Err == "":
			insts = append(insts, inst{h.Ret, h.RetT, h.Actor, "begin", h.Op})
		}
	}
	for i := 1; i < len(insts); i++ {
		for j := i; j > 0 && insts[j].at < insts[j-1].at; j-- {
			insts[j], insts[j-1] = insts[j-1], insts[j]
		}
	}
	for _, in := range insts {
		if in.kind == "begin" {
			closeHold(in.a, in.at, in.atMs)
			open[in.a] = &Hold{Actor: in.a, From: in.at, FromMs: in.atMs, AcquireOp: in.op}
		} else {
			closeHold(in.a, in.at, in.atMs)
		}
	}
	for _, h := range open {
		out = append(out, *h)
	}
	return out
}

// Overlap is a pair of holds that overlap in logical time.
type Overlap struct {
	A, B Hold
}

// Overlaps returns the pairs of hold intervals of different actors that overlap.
func Overlaps(holds []Hold) []Overlap {
	var out []Overlap
	for i := 0; i < len(holds); i++ {
		for j := i + 1; j < len(holds); j++ {
			a, b := holds[i], holds[j]
			if a.Actor == b.Actor {
				continue
			}
			if a.From > b.From {
				a, b = b, a
			}
			// b begins while a is still held
			if a.To == 0 || b.From < a.To {
				out = append(out, Overlap{a, b})
			}
		}
	}
	return out
}

// ForeignBetween returns the judged foreign removes with sequence numbers in (from, to].
func (w *World) ForeignBetween(from, to int64) []ForeignRemove {
	w.mu.Lock()
	defer w.mu.Unlock()
	var out []ForeignRemove
	for _, f := range w.Foreign {
		if f.Judged && f.Seq > from && f.Seq <= to {
			out = append(out, f)
		}
	}
	return out
}

// Snapshot returns copies for reporting.
func (w *World) Snapshot() (hist []HistOp, foreign []ForeignRemove, incs []Incarnation) {
	w.mu.Lock()
	defer w.mu.Unlock()
	hist = append(hist, w.Hist...)
	foreign = append(foreign, w.Foreign...)
	for _, i := range w.Incs {
		incs = append(incs, *i)
	}
	return
}
