//go:build goexperiment.synctest

// Package sched runs scenarios inside a testing/synctest bubble and controls the interleaving of
// their filesystem operations: every backend operation of every actor blocks at a gate
// (fsmon.Monitor.Before) and a scheduler goroutine, woken by synctest.Wait() when every other
// goroutine of the bubble is durably blocked, decides which gated operation runs next or whether
// virtual time advances. A schedule is the recorded sequence of choices.
package sched

import (
	"fmt"
	"math/rand/v2"
	"os"
	"path/filepath"
	"sort"
	"strings"
	"sync"
	"testing/synctest"
	"time"

	"github.com/spf13/afero"

	"verif/internal/fsmon"
)

// Pending is a gated operation.
type Pending struct {
	Actor string
	Op    string
	Path  string
	Seq   int64
	Since time.Time // virtual time at which it reached the gate
	N     int       // per-actor op index
	ch    chan struct{}
}

// Choice is one scheduling decision.
type Choice struct {
	Advance bool   `json:"adv,omitempty"`
	Actor   string `json:"a,omitempty"`
	Op      string `json:"op,omitempty"`
	N       int    `json:"n,omitempty"`
}

// Policy picks the next step. pending is sorted deterministically; canAdvance tells whether
// advancing virtual time is allowed now. Return -1 to advance time, else an index into pending.
type Policy interface {
	Choose(s *Sched, pending []*Pending, canAdvance bool) int
}

// Sched is one bubble's scheduler.
type Sched struct {
	Quantum    time.Duration // virtual time step (default 1ms)
	MaxGateAge time.Duration // a gated op is never kept waiting longer than this in virtual time (default 5ms)
	// CapExempt, if set, names operations to which MaxGateAge does not apply (a policy which keeps one actor waiting for an
	// event rather than for a time: a slow process, nothing else)
	CapExempt func(p *Pending) bool
	Policy    Policy
	Rng       *rand.Rand
	MaxSteps  int // safety bound on scheduling steps (default 2_000_000)

	mu        sync.Mutex
	pending   []*Pending
	perActor  map[string]int
	draining  bool
	Trace     []Choice
	KeepTrace bool
	Steps     int
	Advances  int
	Aborted   string
	// OnStep, if set, is called by the scheduler goroutine at each quiescent point before choosing.
	OnStep func()
}

// New returns a scheduler with the given policy and PRNG.
func New(p Policy, rng *rand.Rand) *Sched {
	return &Sched{Quantum: time.Millisecond, MaxGateAge: 5 * time.Millisecond, Policy: p, Rng: rng,
		MaxSteps: 2_000_000, perActor: map[string]int{}}
}

// NewPassthrough returns a scheduler whose gate never blocks (real-time mode: operations run as they come).
func NewPassthrough() *Sched {
	s := New(RandomWalk{}, nil)
	s.draining = true
	return s
}

// Gate is installed as fsmon.Monitor.Before: it blocks the calling goroutine until the scheduler
// releases the operation. It must be called from a goroutine of the bubble.
func (s *Sched) Gate(e *fsmon.Event) {
	s.mu.Lock()
	if s.draining {
		s.mu.Unlock()
		return
	}
	s.perActor[e.Actor]++
	p := &Pending{Actor: e.Actor, Op: e.Op, Path: e.Path, Seq: e.Seq, Since: time.Now(), N: s.perActor[e.Actor], ch: make(chan struct{})}
	s.pending = append(s.pending, p)
	s.mu.Unlock()
	<-p.ch
}

// Run executes scenario in a new goroutine of the current bubble and schedules until it returns.
// Must be called inside synctest.Run. After the scenario returns all gates are opened (drain mode);
// the scenario is responsible for stopping its background goroutines.
func (s *Sched) Run(scenario func()) {
	done := make(chan struct{})
	go func() {
		defer close(done)
		scenario()
	}()
	for {
		synctest.Wait()
		select {
		case <-done:
			s.drain()
			return
		default:
		}
		if s.OnStep != nil {
			s.OnStep()
		}
		s.Steps++
		if s.Steps > s.MaxSteps {
			s.Aborted = "step budget exhausted"
			s.drain()
			<-done
			return
		}
		s.mu.Lock()
		pend := append([]*Pending(nil), s.pending...)
		s.mu.Unlock()
		sort.Slice(pend, func(i, j int) bool {
			if pend[i].Actor != pend[j].Actor {
				return pend[i].Actor < pend[j].Actor
			}
			return pend[i].N < pend[j].N
		})
		if len(pend) == 0 {
			s.advance()
			continue
		}
		now := time.Now()
		canAdvance := true
		for _, p := range pend {
			if now.Sub(p.Since) >= s.MaxGateAge && !(s.CapExempt != nil && s.CapExempt(p)) {
				canAdvance = false
				break
			}
		}
		idx := s.Policy.Choose(s, pend, canAdvance)
		if idx < 0 && canAdvance {
			s.advance()
			continue
		}
		if idx < 0 || idx >= len(pend) {
			idx = 0
		}
		s.release(pend[idx])
	}
}

func (s *Sched) advance() {
	s.Advances++
	if s.KeepTrace {
		s.Trace = append(s.Trace, Choice{Advance: true})
	}
	time.Sleep(s.Quantum)
}

func (s *Sched) release(p *Pending) {
	s.mu.Lock()
	for i, q := range s.pending {
		if q == p {
			s.pending = append(s.pending[:i], s.pending[i+1:]...)
			break
		}
	}
	s.mu.Unlock()
	if s.KeepTrace {
		s.Trace = append(s.Trace, Choice{Actor: p.Actor, Op: p.Op, N: p.N})
	}
	close(p.ch)
}

func (s *Sched) drain() {
	s.mu.Lock()
	s.draining = true
	pend := s.pending
	s.pending = nil
	s.mu.Unlock()
	for _, p := range pend {
		close(p.ch)
	}
}

// TraceHash returns a short hash-like fingerprint of the schedule.
func (s *Sched) TraceHash() uint64 {
	var h uint64 = 1469598103934665603
	mix := func(b byte) { h ^= uint64(b); h *= 1099511628211 }
	for _, c := range s.Trace {
		if c.Advance {
			mix(0xff)
			continue
		}
		for i := 0; i < len(c.Actor); i++ {
			mix(c.Actor[i])
		}
		mix(byte(c.N))
		mix(byte(c.N >> 8))
	}
	return h
}

// ---------------------------------------------------------------------------------------------
// policies

// RandomWalk picks uniformly among gated ops; advances time with probability AdvanceP when allowed.
type RandomWalk struct{ AdvanceP float64 }

func (p RandomWalk) Choose(s *Sched, pend []*Pending, canAdvance bool) int {
	if canAdvance && s.Rng.Float64() < p.AdvanceP {
		return -1
	}
	return s.Rng.IntN(len(pend))
}

// PCT is a priority-based policy: every actor gets a random priority; the highest-priority gated
// actor runs; at D random step indices the running actor's priority drops below all others.
type PCT struct {
	AdvanceP float64
	D        int
	Horizon  int // expected number of steps, change points are drawn in [0,Horizon)
	prio     map[string]int
	points   map[int]bool
	low      int
}

func (p *PCT) Choose(s *Sched, pend []*Pending, canAdvance bool) int {
	if p.prio == nil {
		p.prio = map[string]int{}
		p.points = map[int]bool{}
		if p.Horizon <= 0 {
			p.Horizon = 400
		}
		for i := 0; i < p.D; i++ {
			p.points[s.Rng.IntN(p.Horizon)] = true
		}
	}
	if canAdvance && s.Rng.Float64() < p.AdvanceP {
		return -1
	}
	best := -1
	for i, q := range pend {
		if _, ok := p.prio[q.Actor]; !ok {
			p.prio[q.Actor] = 1000 + s.Rng.IntN(1000)
		}
		if best < 0 || p.prio[q.Actor] > p.prio[pend[best].Actor] {
			best = i
		}
	}
	if p.points[s.Steps] {
		p.low--
		p.prio[pend[best].Actor] = p.low
	}
	return best
}

// Delay is the targeted bounded-preemption policy: actor Victim is held before its op number AtN
// (per-actor index) for as long as allowed (other actors run, time advances), everything else runs
// in a fixed round-robin order. With a second (Victim2, AtN2) pair it is bound 2.
type Delay struct {
	Victim  string
	AtN     int
	Victim2 string
	AtN2    int
	HoldFor time.Duration // how long (virtual) the victim is held; 0 = as long as the gate-age cap allows
}

func (d Delay) held(p *Pending, now time.Time) bool {
	if (p.Actor == d.Victim && p.N == d.AtN) || (d.Victim2 != "" && p.Actor == d.Victim2 && p.N == d.AtN2) {
		if d.HoldFor > 0 && now.Sub(p.Since) >= d.HoldFor {
			return false
		}
		return true
	}
	return false
}

func (d Delay) Choose(s *Sched, pend []*Pending, canAdvance bool) int {
	now := time.Now()
	// run the oldest non-held op first
	best := -1
	for i, p := range pend {
		if d.held(p, now) {
			continue
		}
		if best < 0 || p.Seq < pend[best].Seq {
			best = i
		}
	}
	if best >= 0 {
		return best
	}
	if canAdvance {
		return -1
	}
	// gate-age cap reached: release the oldest held op
	for i, p := range pend {
		if best < 0 || p.Seq < pend[best].Seq {
			best = i
		}
	}
	return best
}

// Straddle keeps actor Victim waiting before its op number AtN until an event has happened (Count grows beyond its value
// at the beginning of the wait: e.g. the lock has been created anew or removed by somebody) and runs that op first
// thereafter: whatever the victim had read before the wait and what it reads after it belong to different states of the
// world. Everything else runs oldest first. The wait ends after MaxHold of virtual time at the latest.
type Straddle struct {
	Victim  string
	AtN     int
	MaxHold time.Duration
	Count   func() int
	// Eligible, if set, is asked once, when the victim's operation reaches the gate: false = the operation is kept waiting
	// only as long as MaxGateAge allows, like any other (an actor whose lock or heartbeat depends on it must not be stalled)
	Eligible func(p *Pending) bool
	eligible bool
	c0       int
	holding  bool
	Done     bool // the held op has been let go
	Fired    bool // ... because the event happened (not because MaxHold elapsed)
}

// Exempt is the CapExempt of the policy.
func (d *Straddle) Exempt(p *Pending) bool {
	return !d.Done && d.holding && d.eligible && p.Actor == d.Victim && p.N == d.AtN
}

func (d *Straddle) Choose(s *Sched, pend []*Pending, canAdvance bool) int {
	now := time.Now()
	v := -1
	if !d.Done {
		for i, p := range pend {
			if p.Actor == d.Victim && p.N == d.AtN {
				v = i
			}
		}
	}
	if v >= 0 {
		if !d.holding {
			d.holding, d.c0 = true, d.Count()
			d.eligible = d.Eligible == nil || d.Eligible(pend[v])
		}
		if !d.eligible && now.Sub(pend[v].Since) >= s.MaxGateAge {
			d.Done = true
			return v
		}
		if c := d.Count(); c > d.c0 || now.Sub(pend[v].Since) >= d.MaxHold {
			d.Done, d.Fired = true, c > d.c0
			return v
		}
	}
	best := -1
	for i, p := range pend {
		if i == v {
			continue
		}
		if best < 0 || p.Seq < pend[best].Seq {
			best = i
		}
	}
	if best >= 0 {
		return best
	}
	if canAdvance {
		return -1
	}
	if v >= 0 {
		d.Done = true
		return v
	}
	return 0
}

// ---------------------------------------------------------------------------------------------
// virtual-clock re-stamping

// Restamper emulates a filesystem whose clock is the (virtual) process clock: after every operation
// that makes the kernel stamp an mtime it re-stamps the object (and the parent directory when an
// entry was created or removed) with time.Now() of the bubble. Install as fsmon.Monitor.After (or call
// from it). It works directly on the base filesystem, so the re-stamps are not library events.
type Restamper struct {
	Base afero.Fs
	mu   sync.Mutex
	// Stamps receives every stamp (kernel-equivalent re-stamps and explicit Chtimes) if non-nil.
	OnStamp func(path string, t time.Time, explicit bool, e *fsmon.Event)
	existed sync.Map // event Seq → the target existed before the operation (see Before)
}

// Before records, for operations which create their target only when it is missing, whether it was there: a kernel
// stamps the parent directory only when an entry is really added. Call it right before the operation runs
// (after the gate).
func (r *Restamper) Before(e *fsmon.Event) {
	switch e.Op {
	case fsmon.OpCreate, fsmon.OpMkdirAll:
	case fsmon.OpOpenFile:
		if e.Flag&os.O_CREATE == 0 {
			return
		}
	default:
		return
	}
	if _, err := r.Base.Stat(e.Path); err == nil {
		r.existed.Store(e.Seq, true)
	}
}

func (r *Restamper) didExist(e *fsmon.Event) bool {
	_, ok := r.existed.LoadAndDelete(e.Seq)
	return ok
}

func (r *Restamper) stamp(path string, e *fsmon.Event) {
	now := time.Now()
	if err := r.Base.Chtimes(path, now, now); err == nil && r.OnStamp != nil {
		r.OnStamp(path, now, false, e)
	}
}

// After is the fsmon After hook.
func (r *Restamper) After(e *fsmon.Event) {
	existed := r.didExist(e)
	if !e.Effective {
		return
	}
	switch e.Op {
	case fsmon.OpMkdir:
		r.stamp(e.Path, e)
		r.stamp(filepath.Dir(e.Path), e)
	case fsmon.OpMkdirAll:
		if !existed {
			r.stamp(e.Path, e)
			r.stamp(filepath.Dir(e.Path), e)
		}
	case fsmon.OpCreate:
		r.stamp(e.Path, e)
		if !existed {
			r.stamp(filepath.Dir(e.Path), e)
		}
	case fsmon.OpOpenFile:
		if e.Flag&os.O_TRUNC != 0 || (e.Flag&os.O_CREATE != 0 && !existed) {
			r.stamp(e.Path, e)
		}
		if e.Flag&os.O_CREATE != 0 && !existed {
			r.stamp(filepath.Dir(e.Path), e)
		}
	case fsmon.OpFWrite, fsmon.OpFWriteAt, fsmon.OpFWriteString, fsmon.OpFTruncate:
		r.stamp(e.Path, e)
	case fsmon.OpRemove, fsmon.OpRemoveAll:
		r.stamp(filepath.Dir(e.Path), e)
	case fsmon.OpRename:
		r.stamp(filepath.Dir(e.Path), e)
		r.stamp(filepath.Dir(e.Path2), e)
	case fsmon.OpChtimes:
		if r.OnStamp != nil {
			r.OnStamp(e.Path, e.MTime, true, e)
		}
	}
}

// StampObserver is the counterpart of Restamper for a backend whose own clock already is the process clock (afero's
// MemMapFs inside a bubble): nothing is re-stamped, the modification times the backend itself gave to the object and to
// its parent directory are read back after every effective mutating operation and reported when they changed. What the
// backend does NOT stamp (MemMapFs leaves a directory's time alone when entries are added or removed) stays unstamped.
type StampObserver struct {
	Base    afero.Fs
	OnStamp func(path string, t time.Time, explicit bool, e *fsmon.Event)
	mu      sync.Mutex
	last    map[string]time.Time
}

func (o *StampObserver) Before(e *fsmon.Event) {}

func (o *StampObserver) look(path string, explicit bool, e *fsmon.Event) {
	fi, err := o.Base.Stat(path)
	if err != nil {
		o.mu.Lock()
		delete(o.last, path)
		o.mu.Unlock()
		return
	}
	t := fi.ModTime()
	o.mu.Lock()
	if o.last == nil {
		o.last = map[string]time.Time{}
	}
	prev, known := o.last[path]
	o.last[path] = t
	o.mu.Unlock()
	if (!known || !prev.Equal(t)) && o.OnStamp != nil {
		o.OnStamp(path, t, explicit, e)
	}
}

// After is the fsmon After hook.
func (o *StampObserver) After(e *fsmon.Event) {
	if e.Effective && (e.Op == fsmon.OpFClose || e.Op == fsmon.OpFSync) {
		// MemMapFs stamps a file again when a writable handle on it is closed or synced
		o.look(e.Path, false, e)
		return
	}
	if !e.Effective || !e.Mut {
		return
	}
	switch e.Op {
	case fsmon.OpRemove, fsmon.OpRemoveAll:
		o.mu.Lock()
		for p := range o.last {
			if p == e.Path || strings.HasPrefix(p, e.Path+string(filepath.Separator)) {
				delete(o.last, p)
			}
		}
		o.mu.Unlock()
		o.look(filepath.Dir(e.Path), false, e)
	case fsmon.OpRename:
		o.look(e.Path2, false, e)
		o.look(filepath.Dir(e.Path), false, e)
		o.look(filepath.Dir(e.Path2), false, e)
	case fsmon.OpChtimes:
		o.look(e.Path, true, e)
	default:
		o.look(e.Path, false, e)
		o.look(filepath.Dir(e.Path), false, e)
	}
}

// Bubble runs f inside a synctest bubble and converts a bubble deadlock panic into a returned string.
func Bubble(f func()) (deadlock string) {
	defer func() {
		if p := recover(); p != nil {
			msg := fmt.Sprint(p)
			deadlock = msg
		}
	}()
	synctest.Run(f)
	return ""
}
