// Package sched: see sched.go (needs GOEXPERIMENT=synctest).
package sched
