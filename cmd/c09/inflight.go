package main

import (
	"context"
	"fmt"
	"os"
	"path/filepath"
	"sync/atomic"
	"time"

	"github.com/ARM-software/golang-utils/utils/filesystem"
	"github.com/spf13/afero"

	"verif/internal/fsmon"
	"verif/internal/vrun"
)

// partC: a controlled schedule for the fan-out of the garbage collection. Every goroutine of the fan-out is
// held inside its j-th backend operation on its entry (what a slow backend does) until all of them got
// there; the context is then cancelled and the operations released (j: the position which leaves most to do). Whatever the goroutines still do
// afterwards began after the cancellation instant. The number of goroutines is the number of entries: the
// further operations are counted for two directory sizes.
func partC(r *vrun.Run, scratch string) {
	for _, mem := range []bool{true, false} {
		backend := map[bool]string{false: "os", true: "mem"}[mem]
		var after [2]int64
		var held [2]int64
		sizes := [2]int{r.Pick(300, 500), r.Pick(1200, 4000)}
		holdAt, most := 1, int64(-1)
		for j := 1; j <= 12; j++ {
			a, _, err := allInFlight(mem, scratch, 100, j)
			if err != nil {
				r.Inconclusive("all-in-flight: " + trunc(err.Error(), 60))
				return
			}
			if a > most {
				holdAt, most = j, a
			}
		}
		r.ObsMax("all_in_flight_"+backend+"_held_inside_entry_operation_number", int64(holdAt))
		for i, n := range sizes {
			a, h, err := allInFlight(mem, scratch, n, holdAt)
			if err != nil {
				r.Inconclusive("all-in-flight: " + trunc(err.Error(), 60))
				return
			}
			after[i], held[i] = a, h
			r.Case(fmt.Sprintf("GarbageCollectWithContext#all-in-flight|%s|n=%d", backend, n), true)
			r.ObsMax(fmt.Sprintf("all_in_flight_%s_entries_held_in_their_removal_n%d", backend, i), h)
			r.ObsMax(fmt.Sprintf("all_in_flight_%s_ops_after_cancel_n%d", backend, i), a)
		}
		r.Sample(map[string]any{"scenario": "garbage collection of a flat directory, every entry held in its removal, then cancel", "backend": backend,
			"entries": sizes, "held_inside_entry_operation_number": holdAt, "entries_in_flight_at_cancel": held, "ops_after_cancel": after})
		for i := range sizes {
			if after[i] > flatBound {
				r.Violation(vrun.Sig{"clause": "context-ends-while-running", "effect": "entries-in-flight-of-unbounded-fan-out-finish", "ep": "GarbageCollectWithContext"},
					fmt.Sprintf("GarbageCollectWithContext over a flat directory of %d entries (%s): %d entries were in flight when the context was cancelled and %d further backend operations were issued (bound %d); with %d entries: %d in flight, %d further operations",
						sizes[i], backend, held[i], after[i], flatBound, sizes[0], held[0], after[0]),
					map[string]any{"backend": backend, "entries": sizes, "entries_in_flight_at_cancel": held, "ops_after_cancel": after})
				break
			}
		}
	}
}

func allInFlight(mem bool, scratch string, n int, holdAt int) (opsAfter, heldAtCancel int64, err error) {
	var base afero.Fs
	root := "/sb"
	if mem {
		base = afero.NewMemMapFs()
	} else {
		base = filesystem.NewExtendedOsFs()
		d, e := os.MkdirTemp(scratch, "sb-")
		if e != nil {
			return 0, 0, e
		}
		root = d
		defer os.RemoveAll(d)
	}
	flat := filepath.Join(root, "flat")
	if err = base.MkdirAll(flat, 0o755); err != nil {
		return
	}
	perEntry := map[string]*atomic.Int64{} // backend operations begun on each entry; read-only map
	for i := 0; i < n; i++ {
		p := filepath.Join(flat, fmt.Sprintf("f%05d", i))
		if err = afero.WriteFile(base, p, []byte("x"), 0o644); err != nil {
			return
		}
		perEntry[p] = &atomic.Int64{}
	}
	ctx, cancel := context.WithCancel(context.Background())
	defer cancel()
	var cancelled atomic.Bool
	var after, held atomic.Int64
	release := make(chan struct{})
	mon := fsmon.NewMonitor(false)
	mon.Before = func(e *fsmon.Event) {
		if cancelled.Load() {
			after.Add(1)
			return
		}
		if st := perEntry[e.Path]; st != nil && st.Add(1) == int64(holdAt) {
			held.Add(1)
			<-release
		}
	}
	fsType := filesystem.StandardFS
	if mem {
		fsType = filesystem.InMemoryFS
	}
	vfs := filesystem.NewVirtualFileSystem(fsmon.New(base, "a", mon), fsType, filesystem.IdentityPathConverterFunc)
	done := make(chan error, 1)
	go func() { done <- vfs.GarbageCollectWithContext(ctx, flat, 0) }()
	// settle: every entry held, or no further entry arriving (a bounded fan-out never holds them all)
	last, quiet := int64(-1), 0
	for i := 0; i < 6000 && held.Load() < int64(n) && quiet < 100; i++ {
		time.Sleep(5 * time.Millisecond)
		if h := held.Load(); h == last {
			quiet++
		} else {
			last, quiet = h, 0
		}
	}
	heldAtCancel = held.Load()
	cancelled.Store(true)
	cancel()
	close(release)
	select {
	case <-done:
	case <-time.After(120 * time.Second):
		return 0, 0, fmt.Errorf("watchdog: call did not return within 120 s")
	}
	lastOps, quiet := after.Load(), 0
	for i := 0; i < 1000 && quiet < 5; i++ {
		time.Sleep(10 * time.Millisecond)
		if a := after.Load(); a == lastOps {
			quiet++
		} else {
			lastOps, quiet = a, 0
		}
	}
	return after.Load(), heldAtCancel, nil
}
