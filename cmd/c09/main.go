// C09 — cancellation is honoured everywhere; context-aware I/O yields exact prefixes.
//
// Part A (streams): safeio.ReadAtMost/ReadAll/CopyDataWithContext/CopyNWithContext/WriteString and the
// limited file reads run against instrumented readers/writers (scripted chunk sizes, zero-length reads,
// error at byte k, with/without ReaderFrom/WriterTo, cancellation fired from inside the k-th Read); the
// monitor logs every Read/Write with the context state at entry.
// Part B (filesystem entry points): every context-accepting method of filesystem.FS (enumerated by
// reflection; a method without an invoker is a harness error) runs on trees of several hundred entries on
// both backends through the fsmon decorator: with a context that is already done (no mutating backend
// operation, unchanged snapshot, cancelled/timeout kind) and with a context that is cancelled from inside
// the k-th backend operation, for every k (quick: every k ≤ 50 then a seeded sample): at most B further
// backend operations, cancelled/timeout kind.
package main

import (
	"archive/zip"
	"bytes"
	"context"
	"errors"
	"fmt"
	"io"
	"math/rand/v2"
	"os"
	"os/user"
	"path/filepath"
	"reflect"
	"sort"
	"strings"
	"sync"
	"sync/atomic"
	"syscall"
	"time"

	"github.com/spf13/afero"

	"github.com/ARM-software/golang-utils/utils/commonerrors"
	"github.com/ARM-software/golang-utils/utils/filesystem"
	"github.com/ARM-software/golang-utils/utils/hashing"

	"verif/internal/fsmon"
	"verif/internal/snap"
	"verif/internal/treegen"
	"verif/internal/vrun"
)

const flatEntries = 2000 // entries of the flat directory garbage-collected by one fan-out
const flatBound = 1000   // further backend operations allowed there (≤ 1/2 operation per entry left; in-flight goroutines finish their entry)
// startedBound: fan-out, entries first touched after the cancellation instant. Goroutines which had passed their context
// check and were parked on the library's own (contended) resource mutex before their first backend operation are
// legitimately among them: observed 0-1 on an idle machine, 141 once in ~1700 thorough-tier cancellations on a loaded
// one. A loop which keeps starting entries touches every remaining one (thousands in the flat directory).
const startedBound = 600
const bound = 128 // further backend operations allowed after the cancellation instant (sequential entry points)

// ---------------------------------------------------------------------------------------------
// Part B: filesystem entry points

type env struct {
	vfs  filesystem.FS
	root string
	mem  bool
}

func (e *env) p(rel string) string { return filepath.Join(e.root, rel) }

type entryPoint struct {
	needs            string // fixtures: s(rc tree) w(ide dir) b(ig file) z(ip archive); derived in needsOf
	name             string
	method           string // FS method exercised (for the reflection coverage check)
	mutating         bool
	fanout           bool // fans out goroutines (GarbageCollect): different bound
	refuseUntilChown bool // backend removals fail with EPERM until a Chown went through
	call             func(ctx context.Context, e *env) error
}

func nopWalk(path string, info os.FileInfo, err error) error { return err }

func entryPoints() []entryPoint {
	lim := filesystem.NewLimits(1<<30, 1<<34, 1<<20, 100, true)
	return []entryPoint{
		{name: "WalkWithContext", method: "WalkWithContext", call: func(ctx context.Context, e *env) error { return e.vfs.WalkWithContext(ctx, e.p("src"), nopWalk) }},
		{name: "WalkWithContextAndExclusionPatterns", method: "WalkWithContextAndExclusionPatterns", call: func(ctx context.Context, e *env) error {
			return e.vfs.WalkWithContextAndExclusionPatterns(ctx, e.p("src"), nopWalk, "^never-matches-zzz$")
		}},
		{name: "LsRecursive", method: "LsRecursive", call: func(ctx context.Context, e *env) error {
			_, err := e.vfs.LsRecursive(ctx, e.p("src"), true)
			return err
		}},
		{name: "LsRecursiveWithExclusionPatterns", method: "LsRecursiveWithExclusionPatterns", call: func(ctx context.Context, e *env) error {
			_, err := e.vfs.LsRecursiveWithExclusionPatterns(ctx, e.p("src"), false, "^never-matches-zzz$")
			return err
		}},
		{name: "LsRecursiveWithExclusionPatternsAndLimits", method: "LsRecursiveWithExclusionPatternsAndLimits", call: func(ctx context.Context, e *env) error {
			_, err := e.vfs.LsRecursiveWithExclusionPatternsAndLimits(ctx, e.p("src"), lim, true)
			return err
		}},
		{name: "LsRecursiveFromOpenedDirectory", method: "LsRecursiveFromOpenedDirectory", call: func(ctx context.Context, e *env) error {
			d, err := e.vfs.GenericOpen(e.p("src"))
			if err != nil {
				return err
			}
			defer func() { _ = d.Close() }()
			_, err = e.vfs.LsRecursiveFromOpenedDirectory(ctx, d, true)
			return err
		}},
		{name: "ListDirTreeWithContext", method: "ListDirTreeWithContext", call: func(ctx context.Context, e *env) error {
			var l []string
			return e.vfs.ListDirTreeWithContext(ctx, e.p("src"), &l)
		}},
		{name: "ListDirTreeWithContextAndExclusionPatterns", method: "ListDirTreeWithContextAndExclusionPatterns", call: func(ctx context.Context, e *env) error {
			var l []string
			return e.vfs.ListDirTreeWithContextAndExclusionPatterns(ctx, e.p("src"), &l, "^never-matches-zzz$")
		}},
		{name: "SubDirectoriesWithContext", method: "SubDirectoriesWithContext", call: func(ctx context.Context, e *env) error {
			_, err := e.vfs.SubDirectoriesWithContext(ctx, e.p("wide"))
			return err
		}},
		{name: "SubDirectoriesWithContextAndExclusionPatterns", method: "SubDirectoriesWithContextAndExclusionPatterns", call: func(ctx context.Context, e *env) error {
			_, err := e.vfs.SubDirectoriesWithContextAndExclusionPatterns(ctx, e.p("wide"), "^never-matches-zzz$")
			return err
		}},
		{name: "CopyWithContext", method: "CopyWithContext", mutating: true, call: func(ctx context.Context, e *env) error {
			return e.vfs.CopyWithContext(ctx, e.p("src"), e.p("dst/copy"))
		}},
		{name: "CopyWithContextAndExclusionPatterns", method: "CopyWithContextAndExclusionPatterns", mutating: true, call: func(ctx context.Context, e *env) error {
			return e.vfs.CopyWithContextAndExclusionPatterns(ctx, e.p("src"), e.p("dst/copy"), "^never-matches-zzz$")
		}},
		{name: "CopyToDirectoryWithContext", method: "CopyToDirectoryWithContext", mutating: true, call: func(ctx context.Context, e *env) error {
			return e.vfs.CopyToDirectoryWithContext(ctx, e.p("src"), e.p("dst/into"))
		}},
		{name: "CopyToFileWithContext", method: "CopyToFileWithContext", mutating: true, call: func(ctx context.Context, e *env) error {
			return e.vfs.CopyToFileWithContext(ctx, e.p("big.bin"), e.p("dst/big-copy.bin"))
		}},
		{name: "MoveWithContext(rename)", method: "MoveWithContext", mutating: true, call: func(ctx context.Context, e *env) error {
			return e.vfs.MoveWithContext(ctx, e.p("src"), e.p("dst/moved"))
		}},
		// a file moved INTO a directory which does not exist yet (destination written with a trailing separator), and moves
		// which are refused or trivial: the destination is resolved, and possibly created, before anything is moved
		{name: "MoveWithContext(file-into-missing-dir/)", method: "MoveWithContext", mutating: true, call: func(ctx context.Context, e *env) error {
			return e.vfs.MoveWithContext(ctx, e.p("big.bin"), e.p("dst/not-there-yet")+string(filepath.Separator))
		}},
		{name: "MoveWithContext(missing-source)", method: "MoveWithContext", mutating: true, call: func(ctx context.Context, e *env) error {
			return e.vfs.MoveWithContext(ctx, e.p("no-such-entry"), e.p("dst/x"))
		}},
		{name: "MoveWithContext(onto-itself)", method: "MoveWithContext", mutating: true, call: func(ctx context.Context, e *env) error {
			return e.vfs.MoveWithContext(ctx, e.p("big.bin"), e.p("big.bin"))
		}},
		{name: "RemoveWithContext", method: "RemoveWithContext", mutating: true, call: func(ctx context.Context, e *env) error { return e.vfs.RemoveWithContext(ctx, e.p("src")) }},
		{name: "RemoveWithContextAndExclusionPatterns", method: "RemoveWithContextAndExclusionPatterns", mutating: true, call: func(ctx context.Context, e *env) error {
			return e.vfs.RemoveWithContextAndExclusionPatterns(ctx, e.p("src"), "^never-matches-zzz$")
		}},
		{name: "RemoveWithPrivileges", method: "RemoveWithPrivileges", mutating: true, call: func(ctx context.Context, e *env) error { return e.vfs.RemoveWithPrivileges(ctx, e.p("src")) }},
		// every removal is refused (EPERM) until the ownership of the tree was changed: the privileged removal goes through
		// its second attempt, and past it when that one fails for another reason than the context
		{name: "RemoveWithPrivileges#refused-until-chown", method: "RemoveWithPrivileges", mutating: true, refuseUntilChown: true, call: func(ctx context.Context, e *env) error {
			return e.vfs.RemoveWithPrivileges(ctx, e.p("src"))
		}},
		{name: "CleanDirWithContext", method: "CleanDirWithContext", mutating: true, call: func(ctx context.Context, e *env) error { return e.vfs.CleanDirWithContext(ctx, e.p("src")) }},
		{name: "CleanDirWithContextAndExclusionPatterns", method: "CleanDirWithContextAndExclusionPatterns", mutating: true, call: func(ctx context.Context, e *env) error {
			return e.vfs.CleanDirWithContextAndExclusionPatterns(ctx, e.p("src"), "^never-matches-zzz$")
		}},
		{name: "GarbageCollectWithContext", method: "GarbageCollectWithContext", mutating: true, fanout: true, call: func(ctx context.Context, e *env) error {
			return e.vfs.GarbageCollectWithContext(ctx, e.p("src"), 0)
		}},
		{name: "GarbageCollectWithContext#flat", method: "GarbageCollectWithContext", mutating: true, fanout: true, call: func(ctx context.Context, e *env) error {
			return e.vfs.GarbageCollectWithContext(ctx, e.p("flat"), 0)
		}},
		{name: "ChmodRecursively", method: "ChmodRecursively", mutating: true, call: func(ctx context.Context, e *env) error { return e.vfs.ChmodRecursively(ctx, e.p("src"), 0o755) }},
		{name: "ChownRecursively", method: "ChownRecursively", mutating: true, call: func(ctx context.Context, e *env) error {
			return e.vfs.ChownRecursively(ctx, e.p("src"), os.Getuid(), os.Getgid())
		}},
		{name: "ChangeOwnershipRecursively", method: "ChangeOwnershipRecursively", mutating: true, call: func(ctx context.Context, e *env) error {
			u, err := user.Current()
			if err != nil {
				return err
			}
			return e.vfs.ChangeOwnershipRecursively(ctx, e.p("src"), u)
		}},
		{name: "ZipWithContext", method: "ZipWithContext", mutating: true, call: func(ctx context.Context, e *env) error {
			return e.vfs.ZipWithContext(ctx, e.p("src"), e.p("dst/out.zip"))
		}},
		{name: "ZipWithContextAndLimits", method: "ZipWithContextAndLimits", mutating: true, call: func(ctx context.Context, e *env) error {
			return e.vfs.ZipWithContextAndLimits(ctx, e.p("src"), e.p("dst/out.zip"), lim)
		}},
		{name: "ZipWithContextAndLimitsAndExclusionPatterns", method: "ZipWithContextAndLimitsAndExclusionPatterns", mutating: true, call: func(ctx context.Context, e *env) error {
			return e.vfs.ZipWithContextAndLimitsAndExclusionPatterns(ctx, e.p("src"), e.p("dst/out.zip"), lim, "^never-matches-zzz$")
		}},
		{name: "UnzipWithContext", method: "UnzipWithContext", mutating: true, call: func(ctx context.Context, e *env) error {
			_, err := e.vfs.UnzipWithContext(ctx, e.p("tree.zip"), e.p("dst/unz"))
			return err
		}},
		{name: "UnzipWithContextAndLimits", method: "UnzipWithContextAndLimits", mutating: true, call: func(ctx context.Context, e *env) error {
			_, err := e.vfs.UnzipWithContextAndLimits(ctx, e.p("tree.zip"), e.p("dst/unz"), lim)
			return err
		}},
		{name: "ReadFileWithContext", method: "ReadFileWithContext", call: func(ctx context.Context, e *env) error {
			_, err := e.vfs.ReadFileWithContext(ctx, e.p("big.bin"))
			return err
		}},
		{name: "ReadFileWithContextAndLimits", method: "ReadFileWithContextAndLimits", call: func(ctx context.Context, e *env) error {
			_, err := e.vfs.ReadFileWithContextAndLimits(ctx, e.p("big.bin"), lim)
			return err
		}},
		{name: "ReadFileContent", method: "ReadFileContent", call: func(ctx context.Context, e *env) error {
			f, err := e.vfs.GenericOpen(e.p("big.bin"))
			if err != nil {
				return err
			}
			defer func() { _ = f.Close() }()
			_, err = e.vfs.ReadFileContent(ctx, f, lim)
			return err
		}},
		{name: "WriteFileWithContext", method: "WriteFileWithContext", mutating: true, call: func(ctx context.Context, e *env) error {
			return e.vfs.WriteFileWithContext(ctx, e.p("dst/written.bin"), bigData, 0o644)
		}},
		{name: "WriteToFile", method: "WriteToFile", mutating: true, call: func(ctx context.Context, e *env) error {
			_, err := e.vfs.WriteToFile(ctx, e.p("dst/written2.bin"), &chunkReader{data: bigData, chunk: 4096}, 0o644)
			return err
		}},
		{name: "FileHashWithContext", method: "FileHashWithContext", call: func(ctx context.Context, e *env) error {
			_, err := e.vfs.FileHashWithContext(ctx, hashing.HashSha256, e.p("big.bin"))
			return err
		}},
		{name: "IsZipWithContext", method: "IsZipWithContext", call: func(ctx context.Context, e *env) error {
			_, err := e.vfs.IsZipWithContext(ctx, e.p("tree.zip"))
			return err
		}},
	}
}

var bigData = func() []byte {
	b := make([]byte, 3<<20)
	for i := range b {
		b[i] = byte(i*7 + i>>8)
	}
	return b
}()

type chunkReader struct {
	data  []byte
	off   int
	chunk int
}

func (c *chunkReader) Read(p []byte) (int, error) {
	if c.off >= len(c.data) {
		return 0, io.EOF
	}
	n := c.chunk
	if n > len(p) {
		n = len(p)
	}
	if n > len(c.data)-c.off {
		n = len(c.data) - c.off
	}
	copy(p, c.data[c.off:c.off+n])
	c.off += n
	return n, nil
}

var (
	treeNodes []treegen.Node
	treeZip   []byte
)

func buildFixtures(r *vrun.Run) {
	rng := r.Rand("c09-tree", 0)
	// a deep-and-wide tree of a few hundred entries
	for len(treeNodes) < 260 {
		treeNodes = treegen.Gen(rng, treegen.Opts{MaxDepth: 5, MaxFanout: 7, MaxEntries: 420, FileProb: 0.6, MaxSize: 1500,
			Name: func(_ *rand.Rand, depth, i int) string { return fmt.Sprintf("n%d_%d", depth, i) }})
	}
	var buf bytes.Buffer
	w := zip.NewWriter(&buf)
	for _, n := range treeNodes {
		if n.Kind == "dir" {
			_, _ = w.Create(n.Path + "/")
		} else {
			f, _ := w.Create(n.Path)
			_, _ = f.Write(n.Content)
		}
	}
	_ = w.Close()
	treeZip = buf.Bytes()
}

func needsOf(name string) string {
	switch {
	case strings.HasSuffix(name, "#flat"):
		return "f"
	case strings.HasPrefix(name, "SubDirectories"):
		return "w"
	case strings.HasPrefix(name, "ReadFile"), name == "FileHashWithContext", name == "CopyToFileWithContext":
		return "b"
	case strings.HasPrefix(name, "Unzip"), name == "IsZipWithContext":
		return "z"
	case strings.HasPrefix(name, "Write"):
		return ""
	}
	return "s"
}

func setup(base afero.Fs, root string, needs string) error {
	if strings.Contains(needs, "s") {
		if err := treegen.MaterializeAfero(base, filepath.Join(root, "src"), treeNodes); err != nil {
			return err
		}
	}
	if strings.Contains(needs, "f") {
		// one flat directory: every entry is handled by its own goroutine of the same fan-out
		if err := base.MkdirAll(filepath.Join(root, "flat"), 0o755); err != nil {
			return err
		}
		for i := 0; i < flatEntries; i++ {
			if err := afero.WriteFile(base, filepath.Join(root, "flat", fmt.Sprintf("f%04d", i)), []byte("x"), 0o644); err != nil {
				return err
			}
		}
	}
	if strings.Contains(needs, "w") {
		for i := 0; i < 600; i++ {
			if err := base.MkdirAll(filepath.Join(root, "wide", fmt.Sprintf("d%03d", i)), 0o755); err != nil {
				return err
			}
		}
	}
	if err := base.MkdirAll(filepath.Join(root, "dst"), 0o755); err != nil {
		return err
	}
	if strings.Contains(needs, "b") {
		if err := afero.WriteFile(base, filepath.Join(root, "big.bin"), bigData, 0o644); err != nil {
			return err
		}
	}
	if strings.Contains(needs, "z") {
		return afero.WriteFile(base, filepath.Join(root, "tree.zip"), treeZip, 0o644)
	}
	return nil
}

type pathState struct {
	before atomic.Bool  // a backend operation on this path began before the cancellation instant
	after  atomic.Int64 // backend operations on this path begun after it
}

type runResult struct {
	err         error
	ops         int64 // total backend ops of the call
	opsAfter    int64 // backend ops that began after the cancellation instant
	mutAfter    int64
	cancelled   bool
	listStarted int64 // directory listings started before cancel (GC bound)
	// fan-out entry points: per-path view of what happened after the cancellation instant
	startedAfter   int64 // distinct paths whose very first backend operation began after the cancellation instant
	maxPerPath     int64 // largest number of operations begun after the cancellation instant on one path
	maxPerPathName string
	startedSample  []string
	trace          []string
}

// runOnce executes ep on a fresh sandbox with the context cancelled from inside the k-th backend
// operation (k<0: never; k==0: before the call).
func runOnce(ep entryPoint, mem bool, scratch string, k int64, keepTrace bool) (*runResult, snap.Snap, snap.Snap, error) {
	var base afero.Fs
	root := "/sb"
	if mem {
		base = afero.NewMemMapFs()
	} else {
		base = filesystem.NewExtendedOsFs()
		d, err := os.MkdirTemp(scratch, "sb-")
		if err != nil {
			return nil, nil, nil, err
		}
		root = d
		defer os.RemoveAll(d)
	}
	if err := setup(base, root, needsOf(ep.name)); err != nil {
		return nil, nil, nil, err
	}
	var before, after snap.Snap
	takeSnap := func() snap.Snap {
		var s snap.Snap
		if mem {
			s, _ = snap.TakeAfero(base, root)
		} else {
			s, _ = snap.TakeOS(root)
		}
		return s
	}
	if k == 0 {
		before = takeSnap()
	}
	ctx, cancel := context.WithCancel(context.Background())
	if k%2 == 0 {
		// half of the runs end their context with a caller-defined cause: the kind reported is still cancelled/timeout
		cctx, ccancel := context.WithCancelCause(context.Background())
		ctx, cancel = cctx, func() { ccancel(errShuttingDown) }
	}
	defer cancel()
	res := &runResult{}
	var count, after64, mutAfter, lists atomic.Int64
	var cancelledAt atomic.Int64
	mon := fsmon.NewMonitor(false)
	var tmu sync.Mutex
	states := map[string]*pathState{} // read-only once the call has started
	if ep.fanout {
		_ = afero.Walk(base, root, func(p string, _ os.FileInfo, err error) error {
			if err == nil {
				states[p] = &pathState{}
			}
			return nil
		})
	}
	var chowned atomic.Bool
	mon.Before = func(e *fsmon.Event) {
		if ep.refuseUntilChown {
			switch e.Op {
			case fsmon.OpChown:
				chowned.Store(true)
			case fsmon.OpRemove, fsmon.OpRemoveAll:
				if !chowned.Load() {
					e.Inject = &os.PathError{Op: "remove", Path: e.Path, Err: syscall.EPERM}
				}
			}
		}
		isAfter := cancelledAt.Load() != 0
		if st := states[e.Path]; st != nil {
			// lock-free: a lock here would queue the goroutines of the fan-out between their context check and this hook
			if isAfter {
				st.after.Add(1)
			} else {
				st.before.Store(true)
			}
		}
		if isAfter {
			after64.Add(1)
			if e.Mut {
				mutAfter.Add(1)
			}
		} else if e.Op == fsmon.OpFReaddirn || e.Op == fsmon.OpFReaddir {
			lists.Add(1)
		}
		if keepTrace {
			tmu.Lock()
			if len(res.trace) < 400 || cancelledAt.Load() != 0 {
				res.trace = append(res.trace, fmt.Sprintf("%d %s %s after-cancel=%v", e.Seq, e.Op, strings.TrimPrefix(e.Path, root), cancelledAt.Load() != 0))
			}
			tmu.Unlock()
		}
	}
	mon.After = func(e *fsmon.Event) {
		n := count.Add(1)
		if k > 0 && n == k {
			// the instant is published once cancel() has returned: an operation is only counted as "after" when the
			// context check preceding it could already see the cancellation
			cancel()
			cancelledAt.Store(e.Seq)
		}
	}
	fsType := filesystem.StandardFS
	if mem {
		fsType = filesystem.InMemoryFS
	}
	e := &env{vfs: filesystem.NewVirtualFileSystem(fsmon.New(base, "a", mon), fsType, filesystem.IdentityPathConverterFunc), root: root, mem: mem}
	if k == 0 {
		cancel()
		cancelledAt.Store(-1)
	}
	done := make(chan error, 1)
	go func() { done <- ep.call(ctx, e) }()
	select {
	case res.err = <-done:
	case <-time.After(120 * time.Second):
		return nil, nil, nil, errors.New("watchdog: call did not return within 120 s")
	}
	if ep.fanout {
		// goroutines of the fan-out may outlive the call: wait for the backend to become quiet (not a verdict, just settling)
		last, quiet := count.Load(), 0
		for i := 0; i < 1000 && quiet < 5; i++ {
			time.Sleep(10 * time.Millisecond)
			if n := count.Load(); n == last {
				quiet++
			} else {
				last, quiet = n, 0
			}
		}
	}
	res.ops = count.Load()
	res.opsAfter = after64.Load()
	res.mutAfter = mutAfter.Load()
	res.cancelled = cancelledAt.Load() != 0
	res.listStarted = lists.Load()
	if ep.fanout {
		for p, st := range states {
			n := st.after.Load()
			if n > 0 && !st.before.Load() {
				res.startedAfter++
				if len(res.startedSample) < 12 {
					res.startedSample = append(res.startedSample, strings.TrimPrefix(p, root))
				}
			}
			if n > res.maxPerPath {
				res.maxPerPath, res.maxPerPathName = n, strings.TrimPrefix(p, root)
			}
		}
	}
	if k == 0 {
		after = takeSnap()
	}
	return res, before, after, nil
}

var errShuttingDown = errors.New("service is shutting down (caller-defined cause)")

func kindOK(err error) bool {
	return commonerrors.Any(err, commonerrors.ErrCancelled, commonerrors.ErrTimeout)
}

func partB(r *vrun.Run, scratch string) {
	eps := entryPoints()
	// reflection coverage: every FS method taking a context must have an invoker
	covered := map[string]bool{}
	for _, ep := range eps {
		covered[ep.method] = true
	}
	t := reflect.TypeOf((*filesystem.FS)(nil)).Elem()
	ctxType := reflect.TypeOf((*context.Context)(nil)).Elem()
	var missing []string
	nctx := 0
	for i := 0; i < t.NumMethod(); i++ {
		m := t.Method(i)
		if m.Type.NumIn() > 0 && m.Type.In(0) == ctxType {
			nctx++
			if !covered[m.Name] {
				missing = append(missing, m.Name)
			}
		}
	}
	r.Obs("context_accepting_fs_methods", int64(nctx))
	if len(missing) > 0 {
		r.Fatalf("context-accepting FS methods without an invoker in the monitor: %v", missing)
	}
	type job struct {
		ep  entryPoint
		mem bool
		k   int64
		n   int64
	}
	var jobs []job
	for _, ep := range eps {
		for _, mem := range []bool{false, true} {
			if mem && (ep.name == "ChownRecursively" || ep.name == "ChangeOwnershipRecursively" || ep.name == "RemoveWithPrivileges") {
				// ownership is not implemented by the in-memory backend (documented); still run pre-cancelled below
			}
			dry, _, _, err := runOnce(ep, mem, scratch, -1, false)
			if err != nil {
				r.Fatalf("dry run %s: %v", ep.name, err)
			}
			backend := map[bool]string{false: "os", true: "mem"}[mem]
			r.ObsSet("entry_points", backend+"/"+ep.name)
			if dry.err != nil {
				r.ObsSet("entry_points_failing_uncancelled(not judged beyond pre-cancel)", backend+"/"+ep.name+": "+trunc(dry.err.Error(), 80))
			}
			r.ObsMax("ops_uncancelled_"+ep.name, dry.ops)
			jobs = append(jobs, job{ep, mem, 0, dry.ops})
			if dry.err != nil {
				continue
			}
			rng := r.Rand("c09-k-"+ep.name+backend, 0)
			for k := int64(1); k <= dry.ops; k++ {
				if r.Quick() && k > 50 && rng.IntN(r.Pick(120, 1)) != 0 {
					continue
				}
				if strings.HasSuffix(ep.name, "#flat") && k > 20 && rng.IntN(r.Pick(400, 40)) != 0 {
					continue
				}
				if !r.Quick() && dry.ops > 3000 && k > 200 && rng.IntN(4) != 0 {
					continue
				}
				jobs = append(jobs, job{ep, mem, k, dry.ops})
			}
		}
	}
	r.Obs("cancellation_runs_planned", int64(len(jobs)))
	vrun.Parallel(len(jobs), 0, func(i int) {
		j := jobs[i]
		backend := map[bool]string{false: "os", true: "mem"}[j.mem]
		res, before, after, err := runOnce(j.ep, j.mem, scratch, j.k, false)
		if err != nil {
			r.Inconclusive(trunc(err.Error(), 60))
			return
		}
		canon := fmt.Sprintf("%s|%s|k=%d", j.ep.name, backend, j.k)
		if i%701 == 3 && r.WantSample() {
			r.Sample(map[string]any{"entry_point": j.ep.name, "backend": backend, "cancel_inside_backend_op": j.k, "ops_uncancelled": j.n, "ops_after_cancel": res.opsAfter, "mutating_ops_after_cancel": res.mutAfter, "result": fmt.Sprint(res.err)})
		}
		witness := func() map[string]any {
			again, _, _, _ := runOnce(j.ep, j.mem, scratch, j.k, true)
			var tr []string
			if again != nil {
				tr = again.trace
				if len(tr) > 300 {
					tr = tr[len(tr)-300:]
				}
			}
			return map[string]any{"entry_point": j.ep.name, "backend": backend, "cancel_after_op": j.k, "ops_uncancelled": j.n, "ops_after_cancel": res.opsAfter,
				"mutating_ops_after_cancel": res.mutAfter, "result": fmt.Sprint(res.err), "trace_of_a_rerun": tr}
		}
		if j.k == 0 {
			r.Case(canon, true)
			r.Obs("pre_cancelled_runs_judged", 1)
			if res.mutAfter > 0 {
				r.Violation(vrun.Sig{"clause": "context-done-at-call", "effect": "mutating-backend-op", "ep": j.ep.name, "backend": backend},
					fmt.Sprintf("%s with an already cancelled context issued %d mutating backend operations", j.ep.name, res.mutAfter), witness())
			}
			if d := snap.Diff(before, after, snap.Options{MTime: true}, nil); len(d) > 0 {
				r.Violation(vrun.Sig{"clause": "context-done-at-call", "effect": "snapshot-changed", "ep": j.ep.name, "backend": backend},
					fmt.Sprintf("%s with an already cancelled context changed the tree: %s", j.ep.name, strings.Join(d[:min(3, len(d))], "; ")), witness())
			}
			if !kindOK(res.err) {
				r.Violation(vrun.Sig{"clause": "context-done-at-call", "effect": "wrong-kind", "ep": j.ep.name, "backend": backend},
					fmt.Sprintf("%s with an already cancelled context returned %v", j.ep.name, res.err), witness())
			}
			return
		}
		remaining := j.n - j.k
		b := int64(bound)
		if j.ep.fanout {
			b = 17 * (1 + res.listStarted*8)
		}
		if strings.HasSuffix(j.ep.name, "#flat") {
			b = flatBound
		}
		decisive := remaining >= 10*b
		if j.ep.fanout {
			decisive = remaining >= 4*b
		}
		r.Case(canon, decisive)
		r.ObsMax("max_ops_after_cancel_"+j.ep.name, res.opsAfter)
		if !res.cancelled {
			r.Obs("runs_where_the_cancel_point_was_not_reached", 1)
			return
		}
		if !decisive {
			r.Obs("runs_not_judged_(remaining_work_too_small)", 1)
			// still: the kind, if an error is returned because of the cancellation, is judged below only when decisive
			return
		}
		r.Obs("mid_run_cancellations_judged", 1)
		if j.ep.fanout {
			// One goroutine per entry: what each of them does once the context has ended is judged per entry.
			// (a) no work is started for an entry after the cancellation instant, beyond the goroutines which were between
			//     their context check and their first backend operation at that instant;
			// (b) an entry already being handled gets a bounded number of further operations;
			// (c) the total is then (entries in flight) × (b): the fan-out being unbounded, so is the total.
			r.ObsMax("max_entries_started_after_cancel_"+j.ep.name, res.startedAfter)
			r.ObsMax("max_ops_after_cancel_on_one_entry_"+j.ep.name, res.maxPerPath)
			switch {
			case res.startedAfter > startedBound:
				w := witness()
				w["entries_first_touched_after_cancel"] = res.startedAfter
				w["some_of_them"] = res.startedSample
				r.Violation(vrun.Sig{"clause": "context-ends-while-running", "effect": "work-started-on-new-entries", "ep": j.ep.name, "backend": backend},
					fmt.Sprintf("%s: context cancelled inside backend op %d of %d; %d entries were first touched after that instant (bound %d), e.g. %v", j.ep.name, j.k, j.n, res.startedAfter, startedBound, res.startedSample), w)
			case res.maxPerPath > bound:
				r.Violation(vrun.Sig{"clause": "context-ends-while-running", "effect": "too-many-further-backend-ops-on-one-entry", "ep": j.ep.name, "backend": backend},
					fmt.Sprintf("%s: context cancelled inside backend op %d of %d; %d further backend operations were issued on %s (bound %d)", j.ep.name, j.k, j.n, res.maxPerPath, res.maxPerPathName, bound), witness())
			case res.opsAfter > b:
				w := witness()
				w["entries_first_touched_after_cancel"] = res.startedAfter
				w["max_ops_after_cancel_on_one_entry"] = res.maxPerPath
				r.Violation(vrun.Sig{"clause": "context-ends-while-running", "effect": "entries-in-flight-of-unbounded-fan-out-finish", "ep": strings.TrimSuffix(j.ep.name, "#flat")},
					fmt.Sprintf("%s: context cancelled inside backend op %d of %d; %d further backend operations were issued (bound %d) by the goroutines already handling an entry (at most %d on one entry, %d entries first touched afterwards)", j.ep.name, j.k, j.n, res.opsAfter, b, res.maxPerPath, res.startedAfter), w)
			case !kindOK(res.err):
				r.Violation(vrun.Sig{"clause": "context-ends-while-running", "effect": "wrong-kind", "ep": j.ep.name, "backend": backend, "result": resultClass(res.err)},
					fmt.Sprintf("%s: context cancelled inside backend op %d of %d (≥ %d operations of work left); returned %v", j.ep.name, j.k, j.n, remaining, res.err), witness())
			}
			return
		}
		if res.opsAfter > b {
			r.Violation(vrun.Sig{"clause": "context-ends-while-running", "effect": "too-many-further-backend-ops", "ep": j.ep.name, "backend": backend},
				fmt.Sprintf("%s: context cancelled inside backend op %d of %d; %d further backend operations were issued (bound %d)", j.ep.name, j.k, j.n, res.opsAfter, b), witness())
		} else if !kindOK(res.err) {
			r.Violation(vrun.Sig{"clause": "context-ends-while-running", "effect": "wrong-kind", "ep": j.ep.name, "backend": backend, "result": resultClass(res.err)},
				fmt.Sprintf("%s: context cancelled inside backend op %d of %d (≥ %d operations of work left); returned %v", j.ep.name, j.k, j.n, remaining, res.err), witness())
		}
	})
}

func resultClass(err error) string {
	if err == nil {
		return "nil"
	}
	return "other-error"
}

func trunc(s string, n int) string {
	if len(s) > n {
		return s[:n]
	}
	return s
}

func main() {
	r := vrun.Start("C09", "fault_enumeration")
	scratch := vrun.Scratch("c09")
	defer os.RemoveAll(scratch)
	r.Rule("the enumerated fault is 'the context ends at instant k': part B runs every context-accepting filesystem.FS method (found by reflection) on a tree of ~400 entries (+150 sub-directories, a 3 MiB file, a ~400-entry archive) on both backends with the context already done (k=0) and cancelled from inside the k-th backend operation for every k up to the uncancelled operation count (quick: every k ≤ 50 and a seeded 1/120 sample beyond; thorough: all k, 1/4 sample beyond k=200 for entry points with > 3000 operations); " +
		"part A runs the safeio helpers and limited file reads on instrumented streams over lengths 0..2^20 around buffer boundaries × max/n ∈ {−1,0,len−1,len,len+1,2·len} × chunk scripts × error/cancel at byte k × ReaderFrom/WriterTo present or not. " +
		"non-trivial = part B runs where ≥ 10·B operations of work remained at the cancellation instant (B=128; GarbageCollect: 4×(17×(1+8×listings started))) and all pre-cancelled runs; part A cases with a boundary length, a fault or a cancellation; distinct = (entry point, backend, k) resp. canonical stream case.")
	r.Assume("B = 128 further backend operations for sequential entry points (calibrated: the maximum observed on the current tree is 72 — one directory removal issues ~70 redundant existence/emptiness probes before its next context check — while uncancelled runs take 1 000–10 000 operations)", "cancellation is triggered synchronously inside the k-th backend operation, so 'after the k-th operation' is exact",
		"ownership changes run as the current user (no-op)", "real-time watchdog of 120 s per call → inconclusive")
	buildFixtures(r)
	partA(r)
	partB(r, scratch)
	partC(r, scratch)
	r.Require("pre_cancelled_runs_judged", 60)
	r.Require("mid_run_cancellations_judged", int64(r.Pick(800, 40000)))
	r.Require("entry_points", 70)
	r.Require("stream_cases", int64(r.Pick(15000, 25000)))
	r.Finish()
}

var _ = sort.Strings
