package main

import (
	"bytes"
	"context"
	"errors"
	"fmt"
	"io"
	"os"
	"path/filepath"
	"time"

	"github.com/spf13/afero"

	"github.com/ARM-software/golang-utils/utils/commonerrors"
	"github.com/ARM-software/golang-utils/utils/filesystem"
	"github.com/ARM-software/golang-utils/utils/safeio"

	"verif/internal/vrun"
)

var errScripted = errors.New("scripted reader failure")

type sReader struct {
	data      []byte
	off       int
	chunks    []int
	ci        int
	zeroEvery int
	failAt    int // -1: never; otherwise fail once off >= failAt
	failErr   error
	cancelAt  int // -1: never; otherwise cancel() from inside the Read during which off reaches cancelAt
	cancel    func()
	ctx       context.Context
	calls     int
	afterDone int // Read calls that STARTED while ctx.Err() != nil
	lastZero  bool
	eofWith   bool // return the last chunk together with io.EOF
}

func (s *sReader) Read(p []byte) (int, error) {
	s.calls++
	if s.ctx != nil && s.ctx.Err() != nil {
		s.afterDone++
	}
	if s.failAt >= 0 && s.off >= s.failAt {
		return 0, s.failErr
	}
	if s.zeroEvery > 0 && s.calls%s.zeroEvery == 0 && !s.lastZero && len(p) > 0 {
		s.lastZero = true
		return 0, nil
	}
	s.lastZero = false
	if s.off >= len(s.data) {
		return 0, io.EOF
	}
	n := len(p)
	if len(s.chunks) > 0 {
		c := s.chunks[s.ci%len(s.chunks)]
		s.ci++
		if c < n {
			n = c
		}
	}
	if n > len(s.data)-s.off {
		n = len(s.data) - s.off
	}
	if s.failAt >= 0 && s.off+n > s.failAt {
		n = s.failAt - s.off
	}
	copy(p, s.data[s.off:s.off+n])
	s.off += n
	if s.cancelAt >= 0 && s.off >= s.cancelAt && s.cancel != nil {
		s.cancel()
		s.cancel = nil
	}
	if s.eofWith && s.off >= len(s.data) && n > 0 {
		return n, io.EOF
	}
	return n, nil
}

// sReaderWT additionally implements io.WriterTo.
type sReaderWT struct{ *sReader }

func (s sReaderWT) WriteTo(w io.Writer) (int64, error) {
	var total int64
	buf := make([]byte, 777)
	for {
		n, err := s.Read(buf)
		if n > 0 {
			m, werr := w.Write(buf[:n])
			total += int64(m)
			if werr != nil {
				return total, werr
			}
		}
		if err == io.EOF {
			return total, nil
		}
		if err != nil {
			return total, err
		}
	}
}

type sWriter struct {
	buf       bytes.Buffer
	calls     int
	ctx       context.Context
	afterDone int
	cancelAt  int // -1: never; otherwise cancel() from inside the Write during which the total reaches cancelAt
	cancel    func()
}

func (w *sWriter) Write(p []byte) (int, error) {
	w.calls++
	if w.ctx != nil && w.ctx.Err() != nil {
		w.afterDone++
	}
	n, err := w.buf.Write(p)
	if w.cancelAt >= 0 && w.buf.Len() >= w.cancelAt && w.cancel != nil {
		w.cancel()
		w.cancel = nil
	}
	return n, err
}

type sWriterRF struct{ *sWriter }

func (w sWriterRF) ReadFrom(r io.Reader) (int64, error) {
	var total int64
	buf := make([]byte, 1234)
	for {
		n, err := r.Read(buf)
		if n > 0 {
			_, _ = w.Write(buf[:n])
			total += int64(n)
		}
		if err == io.EOF {
			return total, nil
		}
		if err != nil {
			return total, err
		}
	}
}

var chunkScripts = [][]int{nil, {1}, {7}, {511}, {512}, {513}, {32767}, {32768}, {32769}, {4096, 1, 4095, 3}, {1, 2, 3, 5, 8, 13, 21, 34, 55, 89, 144, 233, 377}}

func lengths(r *vrun.Run) []int {
	l := []int{0, 1, 2, 7, 511, 512, 513, 1023, 1024, 1025, 4095, 4096, 4097, 32767, 32768, 32769, 65535, 65536, 65537}
	if !r.Quick() {
		l = append(l, 1<<20-1, 1<<20, 1<<20+1, 300000)
	} else {
		l = append(l, 1<<20)
	}
	return l
}

func isPrefix(p, full []byte) bool { return len(p) <= len(full) && bytes.Equal(p, full[:len(p)]) }

type streamCase struct {
	Helper  string `json:"helper"`
	Len     int    `json:"len"`
	Max     int64  `json:"max_or_n"`
	Script  int    `json:"chunk_script"`
	Zero    int    `json:"zero_read_every"`
	EOFWith bool   `json:"eof_with_data"`
	WT      bool   `json:"writer_to"`
	RF      bool   `json:"reader_from"`
	Fault   string `json:"fault"` // none | fail | unexpected-eof | cancel | precancelled | deadline
	At      int    `json:"at"`
	// Wrapped: the source and the destination handed to the helper are themselves context-aware streams of the library,
	// bound to somebody else's context which stays alive (a long-lived logger or connection used under a per-request context)
	Wrapped bool `json:"streams_already_bound_to_a_live_context,omitempty"`
}

func runStream(r *vrun.Run, c streamCase) {
	src := bigData[:c.Len]
	ctx, cancel := context.WithCancel(context.Background())
	defer cancel()
	if c.Fault == "deadline" {
		var cancel2 func()
		ctx, cancel2 = context.WithDeadline(context.Background(), time.Now().Add(-time.Second))
		defer cancel2()
	}
	sr := &sReader{data: src, chunks: chunkScripts[c.Script], zeroEvery: c.Zero, failAt: -1, cancelAt: -1, ctx: ctx, eofWith: c.EOFWith}
	switch c.Fault {
	case "fail":
		sr.failAt, sr.failErr = c.At, errScripted
	case "unexpected-eof":
		sr.failAt, sr.failErr = c.At, io.ErrUnexpectedEOF
	case "cancel":
		sr.cancelAt, sr.cancel = c.At, cancel
	case "precancelled":
		cancel()
	}
	var reader io.Reader = sr
	if c.WT {
		reader = sReaderWT{sr}
	}
	sw := &sWriter{ctx: ctx, cancelAt: -1}
	if c.Fault == "cancel-in-write" {
		sw.cancelAt, sw.cancel = c.At, cancel
	}
	var writer io.Writer = sw
	if c.RF {
		writer = sWriterRF{sw}
	}
	if c.Wrapped {
		live, stop := context.WithCancel(context.Background())
		defer stop()
		reader = safeio.NewContextualReader(live, reader)
		writer = safeio.ContextualWriter(live, writer)
		r.Obs("stream_cases_on_streams_already_bound_to_a_live_context", 1)
	}
	var got []byte
	var err error
	var count int64 = -1
	want := src
	switch c.Helper {
	case "ReadAtMost":
		if c.Max >= 0 && int(c.Max) < len(src) {
			want = src[:c.Max]
		}
		got, err = safeio.ReadAtMost(ctx, reader, c.Max, int64(c.At%3-1)*int64(c.Len))
	case "ReadAll":
		got, err = safeio.ReadAll(ctx, reader)
	case "CopyDataWithContext":
		count, err = safeio.CopyDataWithContext(ctx, reader, writer)
		got = sw.buf.Bytes()
	case "CopyNWithContext":
		if int(c.Max) < len(src) {
			want = src[:c.Max]
		}
		count, err = safeio.CopyNWithContext(ctx, reader, writer, c.Max)
		got = sw.buf.Bytes()
	case "WriteString":
		var n int
		n, err = safeio.WriteString(ctx, writer, string(src))
		count = int64(n)
		got = sw.buf.Bytes()
	}
	canon := fmt.Sprintf("%+v", c)
	nontrivial := c.Fault != "none" || c.Len == 0 || c.Max == int64(c.Len) || c.Max == int64(c.Len)+1 || c.Max == int64(c.Len)-1 || c.Len%512 <= 1 || c.Len%512 == 511
	r.Case(canon, nontrivial)
	if nontrivial && c.Len == 4097 && c.Script == 3 && r.WantSample() {
		r.Sample(map[string]any{"stream_case": c, "result": fmt.Sprint(err), "delivered_bytes": len(got), "read_calls": sr.calls})
	}
	r.Obs("stream_cases", 1)
	r.Obs("stream_read_calls_observed", int64(sr.calls))
	r.ObsSet("stream_helpers", c.Helper+"/"+c.Fault)
	sig := func(effect string) vrun.Sig {
		return vrun.Sig{"part": "streams", "helper": c.Helper, "fault": c.Fault, "effect": effect}
	}
	wit := map[string]any{"case": c, "result": fmt.Sprint(err), "delivered_bytes": len(got), "expected_bytes": len(want), "count": count, "reads": sr.calls, "reads_started_after_done": sr.afterDone}
	// delivered bytes are always a prefix of the source
	if !isPrefix(got, src) {
		r.Violation(sig("delivered-bytes-not-a-prefix"), fmt.Sprintf("%s delivered %d bytes that are not a prefix of the source", c.Helper, len(got)), wit)
		return
	}
	switch c.Fault {
	case "none":
		if err == nil {
			if !bytes.Equal(got, want) {
				r.Violation(sig("wrong-length"), fmt.Sprintf("%s(len=%d, max/n=%d) succeeded with %d bytes instead of %d", c.Helper, c.Len, c.Max, len(got), len(want)), wit)
			} else if count >= 0 && count != int64(len(want)) && c.Helper != "ReadAtMost" {
				r.Violation(sig("wrong-count"), fmt.Sprintf("%s reported %d bytes but transferred %d", c.Helper, count, len(want)), wit)
			}
			if c.Helper == "CopyNWithContext" && c.Max > int64(c.Len) {
				r.Violation(sig("copyN-short-source-accepted"), fmt.Sprintf("CopyNWithContext(n=%d) over a %d-byte source returned nil", c.Max, c.Len), wit)
			}
		} else {
			switch {
			case len(want) == 0 && commonerrors.Any(err, commonerrors.ErrEmpty) && len(got) == 0:
				// accepted: nothing to deliver
			case c.Helper == "CopyNWithContext" && c.Max > int64(c.Len):
				if !commonerrors.Any(err, commonerrors.ErrEOF) {
					r.Violation(sig("eof-not-reported-as-eof-kind"), fmt.Sprintf("CopyNWithContext(n=%d) over a %d-byte source failed with %v, not the EOF kind", c.Max, c.Len, err), wit)
				}
			default:
				r.Violation(sig("healthy-source-failed"), fmt.Sprintf("%s(len=%d, max/n=%d) on a healthy source failed: %v", c.Helper, c.Len, c.Max, err), wit)
			}
		}
	case "fail", "unexpected-eof":
		reached := c.At < len(want) || (c.Helper == "CopyNWithContext" && c.Max > int64(c.Len))
		if reached && c.Helper != "WriteString" {
			if err == nil {
				r.Violation(sig("reader-error-swallowed"), fmt.Sprintf("%s returned nil although the reader failed at byte %d", c.Helper, c.At), wit)
			} else if c.Fault == "unexpected-eof" && !commonerrors.Any(err, commonerrors.ErrEOF) {
				r.Violation(sig("eof-not-reported-as-eof-kind"), fmt.Sprintf("%s: io.ErrUnexpectedEOF from the reader reported as %v", c.Helper, err), wit)
			}
		}
	case "cancel-in-write":
		// the context ends while a Write is in progress: no further Read may be started on the source
		if sr.afterDone > 0 {
			r.Violation(sig("read-started-after-context-done"), fmt.Sprintf("%s started %d Read(s) on the source after the context had been cancelled during a Write", c.Helper, sr.afterDone), wit)
		}
		if len(want)-c.At > 200000 && err == nil {
			r.Violation(sig("cancellation-ignored"), fmt.Sprintf("%s returned nil although the context was cancelled at byte %d of %d", c.Helper, c.At, len(want)), wit)
		}
	case "cancel":
		if sr.afterDone > 0 {
			r.Violation(sig("read-started-after-context-done"), fmt.Sprintf("%s started %d Read(s) on the source after the context had been cancelled", c.Helper, sr.afterDone), wit)
		}
		if c.Helper != "WriteString" && c.At < len(want) && len(want)-c.At > 70000 {
			// plenty of data left: the helper cannot have finished
			if err == nil {
				r.Violation(sig("cancellation-ignored"), fmt.Sprintf("%s returned nil although the context was cancelled at byte %d of %d", c.Helper, c.At, len(want)), wit)
			} else if !commonerrors.Any(err, commonerrors.ErrCancelled, commonerrors.ErrTimeout) {
				r.Violation(sig("wrong-kind"), fmt.Sprintf("%s cancelled at byte %d returned %v", c.Helper, c.At, err), wit)
			}
		}
	case "precancelled", "deadline":
		if sr.calls > 0 || sw.calls > 0 {
			r.Violation(sig("stream-touched-with-done-context"), fmt.Sprintf("%s issued %d Read / %d Write calls although the context was already done", c.Helper, sr.calls, sw.calls), wit)
		}
		if !commonerrors.Any(err, commonerrors.ErrCancelled, commonerrors.ErrTimeout) {
			r.Violation(sig("wrong-kind"), fmt.Sprintf("%s with a done context returned %v", c.Helper, err), wit)
		} else if c.Fault == "deadline" && !commonerrors.Any(err, commonerrors.ErrTimeout) {
			r.Violation(sig("deadline-not-timeout-kind"), fmt.Sprintf("%s with an expired deadline returned %v", c.Helper, err), wit)
		}
	}
}

func partA(r *vrun.Run) {
	var cases []streamCase
	rng := r.Rand("c09-streams", 0)
	helpers := []string{"ReadAtMost", "ReadAll", "CopyDataWithContext", "CopyNWithContext", "WriteString"}
	for _, h := range helpers {
		for _, L := range lengths(r) {
			maxes := []int64{-1}
			if h == "ReadAtMost" {
				maxes = []int64{-1, 0, int64(L) - 1, int64(L), int64(L) + 1, 2 * int64(L)}
			}
			if h == "CopyNWithContext" {
				maxes = []int64{0, int64(L) - 1, int64(L), int64(L) + 1, 2*int64(L) + 3}
			}
			for _, m := range maxes {
				if m < -1 || (h == "CopyNWithContext" && m < 0) {
					continue
				}
				for sc := range chunkScripts {
					if h == "WriteString" && sc > 0 {
						continue
					}
					base := streamCase{Helper: h, Len: L, Max: m, Script: sc, Fault: "none", At: rng.IntN(3)}
					variants := []streamCase{base}
					v := base
					v.Zero = 3
					variants = append(variants, v)
					v = base
					v.EOFWith = true
					variants = append(variants, v)
					v = base
					v.WT = true
					variants = append(variants, v)
					v = base
					v.RF = true
					variants = append(variants, v)
					if L > 0 {
						for _, f := range []string{"fail", "unexpected-eof", "cancel"} {
							v = base
							v.Fault = f
							v.At = []int{0, 1, L / 2, L - 1}[rng.IntN(4)]
							if f == "cancel" && L > 100000 {
								v.At = rng.IntN(L / 4)
							}
							variants = append(variants, v)
						}
					}
					if L > 0 && (h == "CopyDataWithContext" || h == "CopyNWithContext") {
						for _, rf := range []bool{false, true} {
							v = base
							v.Fault = "cancel-in-write"
							v.RF = rf
							v.At = []int{1, L / 3, L / 2, L - 1}[rng.IntN(4)]
							if L > 100000 {
								v.At = rng.IntN(L / 4)
							}
							variants = append(variants, v)
						}
					}
					if sc%4 == 0 {
						v = base
						v.Fault = "precancelled"
						variants = append(variants, v)
						v = base
						v.Fault = "deadline"
						variants = append(variants, v)
					}
					cases = append(cases, variants...)
				}
			}
		}
	}
	for i, n := 0, len(cases); i < n; i++ {
		if i%3 == 1 {
			c := cases[i]
			c.Wrapped = true
			cases = append(cases, c)
		}
	}
	vrun.Parallel(len(cases), 0, func(i int) { runStream(r, cases[i]) })

	// limited file reads on both backends
	for _, mem := range []bool{false, true} {
		var vfs filesystem.FS
		root := "/lim"
		if mem {
			vfs = filesystem.NewInMemoryFileSystem()
		} else {
			vfs = filesystem.NewStandardFileSystem()
			root = vrun.Scratch("c09-lim")
			defer func(d string) { _ = vfs.Rm(d) }(root)
		}
		_ = vfs.MkDir(root)
		for _, S := range []int{1, 100, 4096, 65537, 1 << 20} {
			p := filepath.Join(root, fmt.Sprintf("f%d.bin", S))
			if err := vfs.WriteFile(p, bigData[:S], 0o644); err != nil {
				r.Fatalf("write fixture: %v", err)
			}
			for _, M := range []int64{int64(S) - 1, int64(S), int64(S) + 1, 1} {
				lim := filesystem.NewLimits(M, 1<<40, 1<<20, 100, false)
				for _, ep := range []string{"ReadFileWithLimits", "ReadFileWithContextAndLimits"} {
					var b []byte
					var err error
					if ep == "ReadFileWithLimits" {
						b, err = vfs.ReadFileWithLimits(p, lim)
					} else {
						b, err = vfs.ReadFileWithContextAndLimits(context.Background(), p, lim)
					}
					r.Case(fmt.Sprintf("%s|%v|%d|%d", ep, mem, S, M), true)
					r.Obs("limited_file_reads_judged", 1)
					backend := map[bool]string{false: "os", true: "mem"}[mem]
					wit := map[string]any{"entry_point": ep, "backend": backend, "file_size": S, "max_file_size": M, "result": fmt.Sprint(err), "bytes": len(b)}
					if int64(S) > M {
						if !commonerrors.Any(err, commonerrors.ErrTooLarge) {
							r.Violation(vrun.Sig{"part": "limited-file-read", "effect": "larger-file-not-refused-as-too-large", "ep": ep, "backend": backend},
								fmt.Sprintf("%s of a %d-byte file with MaxFileSize %d returned %d bytes, err=%v", ep, S, M, len(b), err), wit)
						}
					} else if err != nil || !bytes.Equal(b, bigData[:S]) {
						r.Violation(vrun.Sig{"part": "limited-file-read", "effect": "fitting-file-not-read-exactly", "ep": ep, "backend": backend},
							fmt.Sprintf("%s of a %d-byte file with MaxFileSize %d returned %d bytes, err=%v", ep, S, M, len(b), err), wit)
					}
				}
			}
		}
	}
	// files whose content is longer than the size their metadata reports (kernel pseudo-files; a backend which does not
	// know sizes; a file appended to after its size was looked at): a limited read still delivers at most the limit
	type sizeless struct {
		backend string
		fs      filesystem.FS
		path    string
		n       int
	}
	var targets []sizeless
	osfs := filesystem.NewStandardFileSystem()
	for _, p := range []string{"/proc/version", "/proc/filesystems", "/proc/self/status", "/proc/cpuinfo"} {
		b, err := os.ReadFile(p)
		st, err2 := os.Stat(p)
		if err != nil || err2 != nil || len(b) < 8 || st.Size() != 0 {
			continue
		}
		targets = append(targets, sizeless{"os(kernel pseudo-file)", osfs, p, len(b)})
	}
	zmem := afero.NewMemMapFs()
	zfs := filesystem.NewVirtualFileSystem(zeroSizeFs{zmem}, filesystem.StandardFS, filesystem.IdentityPathConverterFunc)
	_ = zmem.MkdirAll("/sizeless", 0o755)
	for _, S := range []int{100, 4097, 65537} {
		p := fmt.Sprintf("/sizeless/f%d.bin", S)
		if err := afero.WriteFile(zmem, p, bigData[:S], 0o644); err == nil {
			targets = append(targets, sizeless{"backend reporting size 0", zfs, p, S})
		}
	}
	for _, t := range targets {
		for _, M := range []int64{1, 7, int64(t.n) / 2, int64(t.n) - 1} {
			if M < 1 {
				continue
			}
			lim := filesystem.NewLimits(M, 1<<40, 1<<20, 100, false)
			for _, ep := range []string{"ReadFileWithLimits", "ReadFileWithContextAndLimits"} {
				var b []byte
				var err error
				if ep == "ReadFileWithLimits" {
					b, err = t.fs.ReadFileWithLimits(t.path, lim)
				} else {
					b, err = t.fs.ReadFileWithContextAndLimits(context.Background(), t.path, lim)
				}
				r.Case(fmt.Sprintf("%s|sizeless|%s|%s|%d", ep, t.backend, t.path, M), true)
				r.Obs("limited_reads_of_files_longer_than_their_reported_size_judged", 1)
				r.ObsSet("files_longer_than_their_reported_size", t.backend+": "+t.path)
				if int64(len(b)) > M {
					r.Violation(vrun.Sig{"part": "limited-file-read", "effect": "more-than-the-limit-delivered", "ep": ep, "backend": t.backend},
						fmt.Sprintf("%s(%s) with MaxFileSize %d delivered %d bytes (content of about %d bytes, reported size 0), err=%v", ep, t.path, M, len(b), t.n, err),
						map[string]any{"entry_point": ep, "backend": t.backend, "path": t.path, "max_file_size": M, "bytes": len(b), "result": fmt.Sprint(err)})
				}
			}
		}
	}
}

// zeroSizeFs reports a size of 0 for every regular file; contents are served normally.
type zeroSizeFs struct{ afero.Fs }

type zeroInfo struct{ os.FileInfo }

func (z zeroInfo) Size() int64 {
	if z.FileInfo.IsDir() {
		return z.FileInfo.Size()
	}
	return 0
}

type zeroFile struct{ afero.File }

func (f zeroFile) Stat() (os.FileInfo, error) {
	fi, err := f.File.Stat()
	if err != nil {
		return fi, err
	}
	return zeroInfo{fi}, nil
}

func (z zeroSizeFs) Stat(name string) (os.FileInfo, error) {
	fi, err := z.Fs.Stat(name)
	if err != nil {
		return fi, err
	}
	return zeroInfo{fi}, nil
}

func (z zeroSizeFs) Open(name string) (afero.File, error) {
	f, err := z.Fs.Open(name)
	if err != nil {
		return nil, err
	}
	return zeroFile{f}, nil
}

func (z zeroSizeFs) OpenFile(name string, flag int, perm os.FileMode) (afero.File, error) {
	f, err := z.Fs.OpenFile(name, flag, perm)
	if err != nil {
		return nil, err
	}
	return zeroFile{f}, nil
}
