//go:build goexperiment.synctest

// C16 — shared cache: a successful Fetch installs one complete stored version.
//
// (a) fault enumeration: a Store is re-run with a fault at every backend operation k it issues and for
// every fault kind (error before the operation, error after it took effect, short write, process stop),
// with 1..3 versions stored beforehand, for both cache kinds; then recovery (wait until the dead
// client's lock is stale + CleanEntry) and a fault-free Fetch by a fresh client; faults during Fetch too.
// (b) interleavings: 2..4 clients (own decorated VFS, shared OS directory) run Store/Fetch/CleanEntry
// mixes under the gate scheduler; the Store/Fetch history is checked for linearizability against a
// register model with porcupine (failed Stores may or may not have taken effect).
// Everything runs in a synctest bubble: lock time-outs, heartbeats and staleness are on the virtual clock.
package main

import (
	"context"
	"fmt"
	"os"
	"path/filepath"
	"sort"
	"strings"
	"sync"
	"time"

	"github.com/anishathalye/porcupine"

	"github.com/ARM-software/golang-utils/utils/sharedcache"

	"verif/internal/lockh"
	"verif/internal/sched"
	"verif/internal/snap"
	"verif/internal/vrun"
	"verif/internal/zipgen"
)

const key = "k1"

var scratch string

type caseSpec struct {
	Mode     string  `json:"mode"` // fault | interleave
	Kind     string  `json:"cache_kind"`
	Prev     int     `json:"previous_versions"`
	FaultOp  string  `json:"faulted_call,omitempty"` // store | fetch
	K        int     `json:"k,omitempty"`
	Fault    string  `json:"fault,omitempty"`
	SlowMs   int     `json:"slow_client_ms_per_operation,omitempty"` // interleave: every backend operation of client c0 takes that long (its Store outlasts the cache timeout)
	Clients  int     `json:"clients,omitempty"`
	Policy   string  `json:"policy,omitempty"`
	AdvanceP float64 `json:"advance_p,omitempty"`
	Index    int     `json:"index"`
	Stream   string  `json:"stream"`
	// Reuse: every client fetches into one workspace of its own, which therefore holds whatever its previous Fetch left
	Reuse bool `json:"clients_reuse_their_workspace,omitempty"`
	// Ignore: the caches are configured with a list of filesystem items to ignore (it concerns the listing of the cache
	// entries); some stored versions hold entries with such names
	Ignore string `json:"filesystem_items_to_ignore,omitempty"`
}

// ignoreList is the configured list of items to ignore of the cases which have one.
const ignoreList = ".snapshot,.*~,lost\\+found"

// makeVersion writes version v's source tree (every file embeds the version id; a manifest lists the files).
func makeVersion(root string, v int) string {
	dir := filepath.Join(root, fmt.Sprintf("src-v%d", v))
	files := map[string]string{}
	n := 2 + v%4
	for i := 0; i < n; i++ {
		p := fmt.Sprintf("data/f%d.txt", i)
		if i%2 == 1 {
			p = fmt.Sprintf("data/sub%d/g%d.bin", v%3, i)
		}
		files[p] = fmt.Sprintf("version=%d file=%d %s", v, i, strings.Repeat(fmt.Sprintf("<%d>", v), 50+v*7+i))
	}
	// some versions carry archives (a stored tree is installed as it is: archives inside it stay archives)
	if v%2 == 0 {
		inner := []zipgen.Entry{zipgen.E("inner.txt", []byte(fmt.Sprintf("version=%d inner", v))), zipgen.E("d/deep.txt", []byte(strings.Repeat("x", 100+v)))}
		if b, err := zipgen.Build(inner); err == nil {
			files[fmt.Sprintf("lib/dep%d.jar", v%5)] = string(b)
			if v%4 == 0 {
				files["dist/bundle.zip"] = string(b)
			}
		}
	}
	// entries named like items a cache may be told to ignore (network share snapshots, editor backups): part of the
	// version like any other, and absent from the versions stored next
	if v%3 == 1 {
		files["data/.snapshot/state.txt"] = fmt.Sprintf("version=%d snapshot", v)
		files[fmt.Sprintf("__snapshots__/s%d.json", v)] = fmt.Sprintf("{\"version\":%d}", v)
		files["data/notes.txt~"] = fmt.Sprintf("version=%d backup", v)
		files["lost+found/x"] = fmt.Sprintf("version=%d", v)
	}
	var names []string
	for p := range files {
		names = append(names, p)
	}
	sort.Strings(names)
	files["manifest.txt"] = fmt.Sprintf("version=%d\n%s\n", v, strings.Join(names, "\n"))
	for p, c := range files {
		fp := filepath.Join(dir, p)
		_ = os.MkdirAll(filepath.Dir(fp), 0o755)
		_ = os.WriteFile(fp, []byte(c), 0o644)
	}
	return dir
}

func contentSnap(dir string) string {
	s, err := snap.TakeOS(dir)
	if err != nil {
		return "error: " + err.Error()
	}
	return s.String()
}

type world struct {
	w        *lockh.World
	root     string
	remote   string
	kind     string
	versions map[int]string // version id → content snapshot of its source tree
	srcDir   map[int]string
	mu       sync.Mutex
	nextDest int
	reuse    bool
	ignore   string
}

func (x *world) cache(actor string) sharedcache.ISharedCacheRepository {
	cfg := &sharedcache.Configuration{RemoteStoragePath: x.remote, Timeout: 2 * time.Second, FilesystemItemsToIgnore: x.ignore}
	vfs := x.w.VFS(actor)
	var c sharedcache.ISharedCacheRepository
	var err error
	if x.kind == "mutable" {
		c, err = sharedcache.NewSharedMutableCacheRepository(cfg, vfs)
	} else {
		c, err = sharedcache.NewSharedImmutableCacheRepository(cfg, vfs)
	}
	if err != nil {
		panic(err)
	}
	return c
}

func (x *world) version(v int) string {
	x.mu.Lock()
	defer x.mu.Unlock()
	if d, ok := x.srcDir[v]; ok {
		return d
	}
	d := makeVersion(x.root, v)
	x.srcDir[v] = d
	x.versions[v] = contentSnap(d)
	return d
}

func (x *world) newDest(actor string) string {
	x.mu.Lock()
	defer x.mu.Unlock()
	x.nextDest++
	if x.reuse {
		return filepath.Join(x.root, "dest", "workspace-of-"+actor)
	}
	return filepath.Join(x.root, "dest", fmt.Sprintf("%s-%d", actor, x.nextDest))
}

// identify returns the version id installed in dest (0 = not a complete version).
func (x *world) identify(dest string) (int, string) {
	got := contentSnap(dest)
	x.mu.Lock()
	defer x.mu.Unlock()
	for v, s := range x.versions {
		if s == got {
			return v, got
		}
	}
	return 0, got
}

type op struct {
	Actor string `json:"actor"`
	Op    string `json:"op"`
	V     int    `json:"version"`
	Call  int64  `json:"call"`
	Ret   int64  `json:"ret"`
	Err   string `json:"err,omitempty"`
	Dest  string `json:"-"`
	Snap  string `json:"installed_tree,omitempty"`
}

type result struct {
	sc       caseSpec
	x        *world
	s        *sched.Sched
	deadlock string
	ops      []op
	mu       sync.Mutex
	storeOps int
	faultHit string
	notes    []string
}

func (res *result) record(o op) {
	res.mu.Lock()
	res.ops = append(res.ops, o)
	res.mu.Unlock()
}

func (res *result) store(ctx context.Context, actor string, c sharedcache.ISharedCacheRepository, v int) error {
	o := op{Actor: actor, Op: "Store", V: v, Call: res.x.w.Mon.Tick()}
	err := c.Store(ctx, key, res.x.version(v))
	o.Ret = res.x.w.Mon.Tick()
	if err != nil {
		o.Err = err.Error()
	}
	res.record(o)
	return err
}

func (res *result) fetch(ctx context.Context, actor string, c sharedcache.ISharedCacheRepository) (int, error) {
	dest := res.x.newDest(actor)
	o := op{Actor: actor, Op: "Fetch", Call: res.x.w.Mon.Tick(), Dest: dest}
	err := c.Fetch(ctx, key, dest)
	o.Ret = res.x.w.Mon.Tick()
	if err != nil {
		o.Err = err.Error()
	} else {
		o.V, o.Snap = res.x.identify(dest)
		if o.V != 0 {
			o.Snap = ""
		}
	}
	res.record(o)
	return o.V, err
}

func runCase(r *vrun.Run, sc caseSpec) *result {
	res := &result{sc: sc}
	root, err := os.MkdirTemp(scratch, "c16-")
	if err != nil {
		r.Fatalf("scratch: %v", err)
	}
	defer os.RemoveAll(root)
	remote := filepath.Join(root, "remote")
	_ = os.MkdirAll(filepath.Join(remote, key), 0o755)
	_ = os.MkdirAll(filepath.Join(root, "dest"), 0o755)
	rng := r.Rand(sc.Stream+"-sched", sc.Index)
	var pol sched.Policy
	switch sc.Policy {
	case "pct":
		pol = &sched.PCT{AdvanceP: sc.AdvanceP, D: 3, Horizon: 3000}
	case "random":
		pol = sched.RandomWalk{AdvanceP: sc.AdvanceP}
	default:
		pol = sched.Delay{Victim: "nobody"}
	}
	s := sched.New(pol, rng)
	s.MaxSteps = 3_000_000
	res.s = s
	res.deadlock = sched.Bubble(func() {
		w := lockh.NewWorld(filepath.Join(remote, key), "SharedMutableCache-"+key, s)
		x := &world{w: w, root: root, remote: remote, kind: sc.Kind, versions: map[int]string{}, srcDir: map[int]string{}, reuse: sc.Reuse, ignore: sc.Ignore}
		res.x = x
		s.Run(func() {
			ctx, cancel := context.WithTimeout(context.Background(), 60*time.Second)
			defer cancel()
			if sc.Mode == "fault" {
				faultScenario(ctx, r, res)
			} else {
				interleaveScenario(ctx, r, res)
			}
			cancel()
		})
	})
	return res
}

func faultScenario(ctx context.Context, r *vrun.Run, res *result) {
	x, sc := res.x, res.sc
	p := x.cache("p")
	for v := 1; v <= sc.Prev; v++ {
		if err := res.store(ctx, "p", p, v); err != nil {
			res.notes = append(res.notes, fmt.Sprintf("setup store v%d failed: %v", v, err))
			return
		}
		lockh.Sleep(ctx, 5*time.Millisecond)
	}
	newV := sc.Prev + 1
	f := x.cache("f")
	fctx, fcancel := context.WithCancel(ctx)
	defer fcancel()
	arm := func() {
		switch sc.Fault {
		case "none":
			x.w.StopAfter("f", 1<<30, nil)
		case "stop":
			x.w.StopAfter("f", sc.K, fcancel)
		default:
			x.w.StopAfter("f", 1<<30, nil) // resets the op counter
			x.w.FaultAt("f", lockh.Fault{K: sc.K, Kind: sc.Fault})
		}
	}
	if sc.FaultOp == "store" {
		arm()
		_ = res.store(fctx, "f", f, newV)
		res.storeOps = x.w.OpCount("f")
	} else {
		arm()
		_, _ = res.fetch(fctx, "f", f)
		res.storeOps = x.w.OpCount("f")
	}
	res.faultHit = x.w.FaultHit["f"]
	if sc.Fault == "stop" && x.w.Stopped("f") {
		res.faultHit = "process stop"
	}
	// recovery: let a dead client's lock go stale, clean, then a fault-free fetch by a fresh client
	lockh.Sleep(ctx, 3*lockh.Period+10*time.Millisecond)
	rc := x.cache("r")
	o := op{Actor: "r", Op: "CleanEntry", Call: x.w.Mon.Tick()}
	if err := rc.CleanEntry(ctx, key); err != nil {
		o.Err = err.Error()
	}
	o.Ret = x.w.Mon.Tick()
	res.record(o)
	_, _ = res.fetch(ctx, "r", rc)
	// and once more by yet another client (the first recovery fetch may itself have repaired hash files)
	_, _ = res.fetch(ctx, "r2", x.cache("r2"))
	// A-B-A: the version stored before the interrupted Store is stored again by a fresh client; when that reports
	// success a fault-free Fetch must install it
	if sc.FaultOp == "store" && sc.Prev >= 1 {
		if err := res.store(ctx, "h", x.cache("h"), sc.Prev); err == nil {
			_, _ = res.fetch(ctx, "h2", x.cache("h2"))
		}
	}
}

func interleaveScenario(ctx context.Context, r *vrun.Run, res *result) {
	x, sc := res.x, res.sc
	p := x.cache("p")
	for v := 1; v <= sc.Prev; v++ {
		_ = res.store(ctx, "p", p, v)
	}
	var wg sync.WaitGroup
	if sc.SlowMs > 0 {
		// slow only where the package is transferred: the client gets the lock at once and then stays inside for long
		x.w.Slow["c0"] = time.Duration(sc.SlowMs) * time.Millisecond
		x.w.SlowPath["c0"] = filepath.Join(x.remote, key) + string(filepath.Separator) + "cache.zip"
		x.w.SlowOnce["c0"] = sc.SlowMs >= 1000 // one long stall on the first operation on the package, or every operation a bit slow
	}
	for c := 0; c < sc.Clients; c++ {
		name := fmt.Sprintf("c%d", c)
		wg.Add(1)
		go func(ci int) {
			defer wg.Done()
			rng := r.Rand(sc.Stream+"-client-"+name, sc.Index)
			cache := x.cache(name)
			nops := 2 + rng.IntN(3)
			if sc.SlowMs > 0 && ci > 0 {
				// the others arrive while the slow client is inside its Store, and stay for a while
				// (the cache timeout is 2 s: they come both before and after it has elapsed)
				lockh.Sleep(ctx, time.Duration([]int{400, 2200, 2300, 2500, 2800}[(ci+sc.Index)%5]+rng.IntN(200))*time.Millisecond)
				nops += 2
			}
			for i := 0; i < nops; i++ {
				pick := rng.IntN(7)
				if sc.SlowMs > 0 && ci == 0 && i == 0 {
					pick = 0 // the slow client starts with a Store
				}
				if sc.SlowMs > 0 && ci > 0 && i == 0 {
					pick = 6 // the first thing another client does is clean the entry
				}
				if sc.SlowMs > 0 && ci > 0 && i == 1 {
					pick = 0 // ... then it stores
				}
				switch pick {
				case 0, 1, 2:
					_ = res.store(ctx, name, cache, 100+ci*10+i)
				case 3, 4, 5:
					_, _ = res.fetch(ctx, name, cache)
				default:
					o := op{Actor: name, Op: "CleanEntry", Call: x.w.Mon.Tick()}
					if err := cache.CleanEntry(ctx, key); err != nil {
						o.Err = err.Error()
					}
					o.Ret = x.w.Mon.Tick()
					res.record(o)
				}
				lockh.Sleep(ctx, time.Duration(rng.IntN(8))*time.Millisecond)
			}
		}(c)
	}
	wg.Wait()
	// quiescent epilogue: after every client finished, a fetch must see the register's final value
	_, _ = res.fetch(ctx, "final", x.cache("final"))
}

// register model for porcupine
type regIn struct {
	Op string
	V  int
	Ok bool
}

func model() porcupine.Model {
	nm := porcupine.NondeterministicModel{
		Init: func() []interface{} { return []interface{}{0} },
		Step: func(state, input, output interface{}) []interface{} {
			st := state.(int)
			in := input.(regIn)
			switch in.Op {
			case "Store":
				if in.Ok {
					return []interface{}{in.V}
				}
				return []interface{}{st, in.V} // a failed / interrupted store may or may not have taken effect
			case "Fetch":
				if !in.Ok {
					return []interface{}{st}
				}
				if in.V == st {
					return []interface{}{st}
				}
				return nil
			}
			return []interface{}{st}
		},
		Equal: func(a, b interface{}) bool { return a.(int) == b.(int) },
		DescribeOperation: func(input, output interface{}) string {
			in := input.(regIn)
			return fmt.Sprintf("%s(v%d) ok=%v", in.Op, in.V, in.Ok)
		},
	}
	return nm.ToModel()
}

func analyse(r *vrun.Run, res *result) {
	sc := res.sc
	if res.x == nil || res.deadlock != "" {
		r.Inconclusive("bubble panic: " + trunc(res.deadlock, 150))
		return
	}
	if res.s.Aborted != "" {
		r.Inconclusive(res.s.Aborted)
		return
	}
	if len(res.notes) > 0 {
		r.Inconclusive("setup failed: " + trunc(res.notes[0], 100))
		return
	}
	ops := res.ops
	sort.SliceStable(ops, func(i, j int) bool { return ops[i].Call < ops[j].Call })
	witness := func() map[string]any {
		remote := contentSnap(res.x.remote)
		return map[string]any{"case": sc, "operations": ops, "fault_landed_on": res.faultHit, "remote_directory": remote}
	}
	stored := map[int]op{}
	for _, o := range ops {
		if o.Op == "Store" {
			stored[o.V] = o
		}
	}
	r.ObsSet("cache_kinds", sc.Kind)
	if sc.Reuse {
		r.Obs("cases_whose_clients_fetch_into_the_workspace_of_their_previous_fetch", 1)
	}
	if sc.Ignore != "" {
		r.Obs("cases_with_a_configured_list_of_items_to_ignore", 1)
	}
	nontrivial := false
	switch sc.Mode {
	case "fault":
		if sc.Fault != "none" && res.faultHit == "" {
			r.Obs("fault_points_beyond_issued_ops", 1)
			r.Case(fmt.Sprintf("%+v", sc), false)
			return
		}
		nontrivial = sc.Fault != "none"
		r.ObsSet("fault_kinds", sc.Fault)
		r.ObsSet("fault_landing_ops", sc.FaultOp+":"+strings.SplitN(res.faultHit, " ", 2)[0])
		r.Obs("faulted_runs", 1)
		newV := sc.Prev + 1
		var faulted op
		var recov []op
		for _, o := range ops {
			if o.Actor == "f" {
				faulted = o
			}
			if (o.Actor == "r" || o.Actor == "r2") && o.Op == "Fetch" {
				recov = append(recov, o)
			}
		}
		faultClass := sc.Fault + "@" + opClass(res.faultHit)
		if sc.FaultOp == "fetch" {
			// a Fetch that reports success under a fault must still have installed one complete stored version
			if faulted.Err == "" {
				r.Obs("faulted_fetches_that_succeeded", 1)
				if faulted.V == 0 {
					r.Violation(vrun.Sig{"oracle": "fetch-installs-complete-version", "mode": "fault-during-fetch", "cache": sc.Kind, "fault": faultClass},
						fmt.Sprintf("Fetch returned nil under fault %q but the destination is not a complete stored version", res.faultHit), witness())
				}
			}
		}
		storeOK := sc.FaultOp == "store" && faulted.Err == "" && sc.Fault != "stop"
		if storeOK {
			r.Obs("faulted_stores_that_reported_success", 1)
		}
		for _, o := range recov {
			if o.Err == "" {
				r.Obs("recovery_fetches_succeeded", 1)
				if o.V == 0 {
					r.Violation(vrun.Sig{"oracle": "fetch-installs-complete-version", "mode": "after-interrupted-" + sc.FaultOp, "cache": sc.Kind, "fault": faultClass},
						fmt.Sprintf("after a %s interrupted by %q, Fetch returned nil with a tree that is no complete stored version", sc.FaultOp, res.faultHit), witness())
				} else if o.V > newV || (sc.FaultOp == "fetch" && o.V != sc.Prev) {
					r.Violation(vrun.Sig{"oracle": "fetch-installs-stored-version", "cache": sc.Kind}, fmt.Sprintf("Fetch installed v%d which was never stored", o.V), witness())
				} else if storeOK && o.V != newV {
					r.Violation(vrun.Sig{"oracle": "successful-store-is-visible", "effect": "older-version-fetched", "cache": sc.Kind, "fault": faultClass},
						fmt.Sprintf("Store(v%d) reported success (fault %q) but a later Fetch installed v%d", newV, res.faultHit, o.V), witness())
				}
			} else {
				r.Obs("recovery_fetches_failed", 1)
				if storeOK {
					r.Violation(vrun.Sig{"oracle": "successful-store-is-visible", "effect": "later-fetch-fails", "cache": sc.Kind, "fault": faultClass},
						fmt.Sprintf("Store(v%d) reported success (fault %q) but a later fault-free Fetch fails: %s", newV, res.faultHit, trunc(o.Err, 160)), witness())
					break
				}
				if sc.Fault == "none" {
					r.Violation(vrun.Sig{"oracle": "fault-free-fetch", "cache": sc.Kind}, "fault-free Store followed by a Fetch that fails: "+trunc(o.Err, 160), witness())
					break
				}
			}
		}
		// re-store of the previous version after the interrupted Store
		var restore, refetch *op
		for i := range ops {
			switch {
			case ops[i].Actor == "h" && ops[i].Op == "Store":
				restore = &ops[i]
			case ops[i].Actor == "h2" && ops[i].Op == "Fetch":
				refetch = &ops[i]
			}
		}
		if restore != nil && restore.Err == "" && refetch != nil {
			r.Obs("restores_of_the_previous_version_judged", 1)
			switch {
			case refetch.Err != "":
				r.Violation(vrun.Sig{"oracle": "successful-store-is-visible", "effect": "later-fetch-fails", "mode": "re-store-of-previous-version", "cache": sc.Kind, "fault": faultClass},
					fmt.Sprintf("after a Store(v%d) interrupted by %q, Store(v%d) reported success but a later fault-free Fetch fails: %s", newV, res.faultHit, restore.V, trunc(refetch.Err, 160)), witness())
			case refetch.V != restore.V:
				r.Violation(vrun.Sig{"oracle": "successful-store-is-visible", "effect": "other-version-fetched", "mode": "re-store-of-previous-version", "cache": sc.Kind, "fault": faultClass},
					fmt.Sprintf("after a Store(v%d) interrupted by %q, Store(v%d) reported success but a later Fetch installed v%d", newV, res.faultHit, restore.V, refetch.V), witness())
			}
		}
	case "interleave":
		nontrivial = true
		r.ObsSet("policies", sc.Policy)
		r.ObsSet("schedules", fmt.Sprintf("%s-%d", sc.Stream, sc.Index))
		var pops []porcupine.Operation
		for i, o := range ops {
			switch o.Op {
			case "Fetch":
				if o.Err == "" {
					r.Obs("successful_fetches_judged", 1)
					if o.V == 0 {
						r.Violation(vrun.Sig{"oracle": "fetch-installs-complete-version", "mode": "concurrent", "cache": sc.Kind},
							"Fetch returned nil with a destination that is no complete stored version (partial, mixed or corrupt)", witness())
						continue
					}
					so, ok := stored[o.V]
					if !ok || so.Call > o.Ret {
						r.Violation(vrun.Sig{"oracle": "fetch-installs-stored-version", "mode": "concurrent", "cache": sc.Kind},
							fmt.Sprintf("Fetch installed v%d whose Store had not been invoked before the Fetch returned", o.V), witness())
						continue
					}
				}
				pops = append(pops, porcupine.Operation{ClientId: i, Input: regIn{Op: "Fetch", V: o.V, Ok: o.Err == ""}, Call: o.Call, Output: nil, Return: o.Ret})
			case "Store":
				pops = append(pops, porcupine.Operation{ClientId: i, Input: regIn{Op: "Store", V: o.V, Ok: o.Err == ""}, Call: o.Call, Output: nil, Return: o.Ret})
				if o.Err == "" {
					r.Obs("successful_stores", 1)
				}
			}
		}
		// porcupine wants small dense client ids: one per actor
		ids := map[string]int{}
		for i := range pops {
			a := ops[pops[i].ClientId].Actor
			if _, ok := ids[a]; !ok {
				ids[a] = len(ids)
			}
			pops[i].ClientId = ids[a]
		}
		resu, _ := porcupine.CheckOperationsVerbose(model(), pops, 20*time.Second)
		r.Obs("histories_checked_for_linearizability", 1)
		r.Obs("history_operations", int64(len(pops)))
		switch resu {
		case porcupine.Illegal:
			r.Violation(vrun.Sig{"oracle": "linearizability", "cache": sc.Kind},
				"the Store/Fetch history is not linearizable w.r.t. the register model (a successful Fetch returned a version that cannot be the latest successful Store)", witness())
		case porcupine.Unknown:
			r.Inconclusive("linearizability checker timed out")
		}
	}
	r.Case(fmt.Sprintf("%+v", sc), nontrivial)
	if r.WantSample() && nontrivial && sc.Index%7 == 3 {
		r.Sample(map[string]any{"case": sc, "operations": ops, "fault_landed_on": res.faultHit})
	}
}

func opClass(hit string) string {
	// "OpenFile cache.zip.hash (err-before)" → op + file class
	parts := strings.Fields(hit)
	if len(parts) < 2 {
		return hit
	}
	f := parts[1]
	switch {
	case strings.HasSuffix(f, ".hash"):
		f = "hash-file"
	case strings.HasSuffix(f, ".part"):
		f = "part-file"
	case strings.HasSuffix(f, ".zip"):
		f = "package"
	case strings.HasSuffix(f, ".lock") || strings.HasPrefix(f, "lockfile"):
		f = "lock"
	default:
		f = "other"
	}
	return parts[0] + ":" + f
}

func trunc(s string, n int) string {
	if len(s) > n {
		return s[:n]
	}
	return s
}

func main() {
	r := vrun.Start("C16", "fault_enumeration")
	scratch = vrun.Scratch("c16")
	defer os.RemoveAll(scratch)
	_ = os.MkdirAll(filepath.Join(scratch, "tmp"), 0o755)
	_ = os.Setenv("TMPDIR", filepath.Join(scratch, "tmp"))
	r.Rule("fault cases (the enumerated fault): for each cache kind × 1..3 previously stored versions, a dry run counts the N backend operations of Store (and of Fetch); then every k ≤ N × fault kind {error before op k, 'no such file' before op k, error after op k took effect, short write (write ops), process stop after op k} is injected into Store (resp. Fetch), followed by recovery (wait > 2 heartbeat periods of virtual time, CleanEntry) and two fault-free Fetches by fresh clients. " +
		"interleaving cases: 2..4 clients × 2..4 operations from {Store(unique version), Fetch, CleanEntry} under random/PCT schedules at filesystem-operation granularity, checked with porcupine against a register model (failed stores may or may not take effect). " +
		"non-trivial = a fault really landed on an operation / any interleaving case; distinct = case parameters.")
	r.Assume("synctest bubble + re-stamper (filesystem clock = process clock)", "ext4, one kernel", "a short write returns (n<len, nil) at the afero boundary", "process stop = every later backend operation of that client fails without effect and its context is cancelled",
		"known C01 lock defects may let two mutable-cache clients into the critical section; consequences observed here are reported under this property")

	if r.Replay != "" {
		var wit struct {
			Case caseSpec `json:"case"`
		}
		if err := r.ReadReplay(&wit); err != nil {
			r.Fatalf("replay: %v", err)
		}
		rr := runCase(r, wit.Case)
		for _, o := range rr.ops {
			fmt.Printf("  replayed: %-8s %-10s v%-4d call=%-6d ret=%-6d %s\n", o.Actor, o.Op, o.V, o.Call, o.Ret, trunc(o.Err, 110))
		}
		analyse(r, rr)
		r.Finish()
	}

	var cases []caseSpec
	for _, kind := range []string{"mutable", "immutable"} {
		prevs := []int{1}
		if !r.Quick() {
			prevs = []int{0, 1, 2, 3}
		}
		for _, prev := range prevs {
			for _, fop := range []string{"store", "fetch"} {
				if fop == "fetch" && prev == 0 {
					continue
				}
				dry := runCase(r, caseSpec{Mode: "fault", Kind: kind, Prev: prev, FaultOp: fop, Fault: "none", Stream: "dry"})
				analyse(r, dry)
				n := dry.storeOps
				r.ObsMax("operations_in_one_"+fop+"_"+kind, int64(n))
				for k := 1; k <= n; k++ {
					for _, f := range []string{"err-before", "enoent-before", "err-after", "short-write", "stop"} {
						if fop == "fetch" && f == "stop" {
							continue
						}
						cases = append(cases, caseSpec{Mode: "fault", Kind: kind, Prev: prev, FaultOp: fop, K: k, Fault: f, Stream: "fault"})
					}
				}
			}
		}
	}
	nf := len(cases)
	ni := r.Pick(1500, 60000)
	for i := 0; i < ni; i++ {
		rng := r.Rand("c16-gen", i)
		cases = append(cases, caseSpec{Mode: "interleave", Kind: []string{"mutable", "immutable"}[i%2], Prev: rng.IntN(2), Clients: 2 + rng.IntN(3),
			Policy: []string{"random", "pct", "random"}[rng.IntN(3)], AdvanceP: []float64{0.05, 0.2, 0.4}[rng.IntN(3)], Stream: "il"})
		if i%10 == 7 {
			c := &cases[len(cases)-1]
			c.SlowMs = []int{150 + rng.IntN(250), 2400 + rng.IntN(900)}[rng.IntN(2)]
			if c.Clients < 3 {
				c.Clients = 3
			}
		}
	}
	for i := range cases {
		cases[i].Index = i
		cases[i].Reuse = i%2 == 1
		if i%3 == 1 {
			cases[i].Ignore = ignoreList
		}
	}
	r.Obs("fault_cases_enumerated", int64(nf))
	vrun.Parallel(len(cases), 0, func(i int) { analyse(r, runCase(r, cases[i])) })
	twoKeys(r)
	r.Require("faulted_runs", 1000)
	r.Require("fault_kinds", 5)
	r.Require("recovery_fetches_succeeded", 300)
	r.Require("histories_checked_for_linearizability", int64(ni*9/10))
	r.Require("successful_fetches_judged", 500)
	r.Finish()
}
