//go:build goexperiment.synctest

package main

import (
	"context"
	"fmt"
	"os"
	"path/filepath"
	"strings"
	"time"

	"github.com/ARM-software/golang-utils/utils/commonerrors"
	"github.com/ARM-software/golang-utils/utils/filesystem"
	"github.com/ARM-software/golang-utils/utils/sharedcache"

	"verif/internal/vrun"
)

// "… one complete version previously passed to Store FOR THAT KEY": two keys are in use at once. The pairs are chosen among
// those the cache kind accepts (keys holding a path separator are entries in nested directories of the immutable cache; the
// lock-based cache refuses them on Store, which is then the end of that pair) and look alike: same last element, one the
// last element of the other, one a prefix of the other. Sequential calls, no faults: the only question is whose tree a
// Fetch installs, also after the other key has been cleaned or removed.
func twoKeys(r *vrun.Run) {
	pairs := [][2]string{{"team-a/linux-release", "team-b/linux-release"}, {"products/tool/entry", "entry"}, {"abc", "abcd"}, {"k", "k/k"}, {"x-1", "x_1"}}
	for _, kind := range []string{"immutable", "mutable"} {
		for pi, pair := range pairs {
			root, err := os.MkdirTemp(scratch, "c16-keys-")
			if err != nil {
				r.Fatalf("scratch: %v", err)
			}
			func() {
				defer os.RemoveAll(root)
				remote := filepath.Join(root, "remote")
				_ = os.MkdirAll(remote, 0o755)
				cfg := &sharedcache.Configuration{RemoteStoragePath: remote, Timeout: 2 * time.Second}
				vfs := filesystem.NewStandardFileSystem()
				var c sharedcache.ISharedCacheRepository
				if kind == "mutable" {
					c, err = sharedcache.NewSharedMutableCacheRepository(cfg, vfs)
				} else {
					c, err = sharedcache.NewSharedImmutableCacheRepository(cfg, vfs)
				}
				if err != nil {
					r.Fatalf("cache: %v", err)
				}
				ctx, cancel := context.WithTimeout(context.Background(), 2*time.Minute)
				defer cancel()
				snaps := map[int]string{}
				src := func(v int) string {
					d := makeVersion(root, v)
					snaps[v] = contentSnap(d)
					return d
				}
				canon := fmt.Sprintf("two-keys|%s|%q|%q", kind, pair[0], pair[1])
				rel := "unrelated-directories"
				if strings.HasPrefix(pair[1], pair[0]+"/") || strings.HasPrefix(pair[0], pair[1]+"/") {
					rel = "one-key-names-a-directory-above-the-other"
				}
				// versions 11.. for the first key, 21.. for the second
				if e := c.Store(ctx, pair[0], src(11+pi)); e != nil {
					r.Obs("key_pairs_refused_by_the_cache_kind", 1)
					r.Case(canon, false)
					return
				}
				if e := c.Store(ctx, pair[1], src(21+pi)); e != nil {
					r.Obs("key_pairs_refused_by_the_cache_kind", 1)
					r.Case(canon, false)
					return
				}
				r.Case(canon, true)
				r.Obs("key_pairs_in_use_at_once", 1)
				n := 0
				expect := func(step, key string, v int) {
					n++
					dest := filepath.Join(root, "dest", fmt.Sprintf("d%d", n))
					if e := c.Fetch(ctx, key, dest); e != nil {
						if commonerrors.Any(e, commonerrors.ErrTimeout, commonerrors.ErrCancelled, commonerrors.ErrLocked, commonerrors.ErrStaleLock) {
							// the lock-based cache works in real time here: a machine too busy to grant the lock in time says nothing
							r.Inconclusive("two-keys scenario: a Fetch ran out of time waiting for the cache lock")
							return
						}
						if v != 0 {
							r.Violation(vrun.Sig{"oracle": "fetch-for-that-key", "cache": kind, "effect": "fetch-failed", "step": step, "keys": rel},
								fmt.Sprintf("%s cache, keys %q and %q: %s: Fetch(%q) failed although version %d was stored for it: %v", kind, pair[0], pair[1], step, key, v, e),
								map[string]any{"keys": pair, "step": step, "key": key, "error": e.Error()})
						}
						return
					}
					r.Obs("fetches_judged_with_two_keys_in_use", 1)
					got := contentSnap(dest)
					if v == 0 || got != snaps[v] {
						whose := "an unknown tree"
						for w, s := range snaps {
							if s == got {
								whose = fmt.Sprintf("version %d", w)
							}
						}
						r.Violation(vrun.Sig{"oracle": "fetch-for-that-key", "cache": kind, "effect": "tree-of-another-key-or-none-expected", "step": step, "keys": rel},
							fmt.Sprintf("%s cache, keys %q and %q: %s: Fetch(%q) installed %s, expected version %d (0 = nothing stored for it any more)", kind, pair[0], pair[1], step, key, whose, v),
							map[string]any{"keys": pair, "step": step, "key": key, "installed": got})
					}
				}
				expect("after both stores", pair[0], 11+pi)
				expect("after both stores", pair[1], 21+pi)
				_ = c.Store(ctx, pair[0], src(12+pi+10))
				expect("after a second store for the first key", pair[1], 21+pi)
				expect("after a second store for the first key", pair[0], 12+pi+10)
				_ = c.CleanEntry(ctx, pair[0])
				expect("after CleanEntry of the first key", pair[1], 21+pi)
				expect("after CleanEntry of the first key", pair[0], 12+pi+10)
				_ = c.RemoveEntry(ctx, pair[1])
				expect("after RemoveEntry of the second key", pair[0], 12+pi+10)
			}()
		}
	}
}
