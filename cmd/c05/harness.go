package main

// harness mode: one case in one process. The harness is a child sub-reaper, so every descendant of
// the library's subprocess stays a descendant of the harness when its parent dies and can be found,
// judged and cleaned up. The library is driven through its public API only.

import (
	"bytes"
	"context"
	"encoding/json"
	"fmt"
	"os"
	"regexp"
	"runtime"
	"sort"
	"strconv"
	"strings"
	"sync"
	"sync/atomic"
	"time"

	"github.com/sasha-s/go-deadlock"
	"golang.org/x/sys/unix"

	"github.com/ARM-software/golang-utils/utils/subprocess"
	"github.com/ARM-software/golang-utils/utils/subprocess/supervisor"
)

// Bounds. None of them decides a violation on its own: see judge() in main.go.
var (
	boundG       = 15 * time.Second // generous bound for the awaited call to return
	boundCausal  = 2 * time.Second  // "returned within 2 s after OUR kill"
	boundAfter   = 10 * time.Second // how much longer a call may take after the tree is dead
	boundGrace   = 5 * time.Second  // time given to signalled processes to actually die
	boundReady   = 30 * time.Second // tree construction
	sleepConfigS = 600              // configured life of every node (40 x G)
)

type survivor struct {
	Pid          int    `json:"pid"`
	StartTime    uint64 `json:"starttime"`
	Pgrp         int    `json:"pgrp"`
	State        string `json:"state"`
	ID           string `json:"node_id,omitempty"`
	Flags        string `json:"node_flags"`
	Registered   bool   `json:"registered"`
	PendingFatal bool   `json:"sigkill_or_sigterm_pending"`
}

type result struct {
	CancelPending bool     `json:"cancel_call_pending_after_2s,omitempty"`
	Case          caseSpec `json:"case"`
	HarnessPid    int      `json:"harness_pid"`
	Errors        []string `json:"harness_errors,omitempty"`
	StartErr      string   `json:"start_error,omitempty"`
	Vacuous       string   `json:"vacuous,omitempty"` // the stop met no running subprocess: nothing is demanded

	Phase             string `json:"phase"` // of the tree at the stop request: nothing spawned | during spawn | ready
	IsOnAtStop        bool   `json:"ison_at_stop"`
	RegisteredAtStop  int    `json:"registered_at_stop"`
	LiveInGroupAtStop int    `json:"live_in_group_at_stop"`
	ExemptAtStop      int    `json:"exempt_at_stop"`
	RootExitedAtStop  bool   `json:"root_exited_at_stop"`

	PreScanUs int64 `json:"pre_stop_observation_us_informational"`
	StopLagUs int64 `json:"stop_issued_us_after_call_informational"`

	Awaited  string `json:"awaited"` // whose completion marks "the stop is over"
	Returned bool   `json:"returned_by_itself"`
	ReturnMs int64  `json:"return_ms_informational"`
	CallErr  string `json:"call_error,omitempty"`

	Survivors        []survivor `json:"survivors,omitempty"` // alive, in group, no fatal signal pending, after return+grace
	SurvivorsPending int        `json:"survivors_with_signal_pending,omitempty"`
	KillInProgress   bool       `json:"library_kill_in_progress,omitempty"`

	NotReturnedAtG       bool       `json:"not_returned_at_G,omitempty"`
	SurvivorsAtG         []survivor `json:"survivors_at_G,omitempty"`
	ReturnedAfterOurKill bool       `json:"returned_after_our_kill,omitempty"`
	AfterKillMs          int64      `json:"after_kill_ms_informational,omitempty"`
	LateReturn           bool       `json:"late_return_after_kill,omitempty"`
	NeverReturned        bool       `json:"never_returned,omitempty"`
	StuckState           string     `json:"stuck_goroutine_state,omitempty"`
	StuckStructural      bool       `json:"stuck_structural,omitempty"`

	StartInProgressAtStop bool `json:"start_in_progress_at_stop,omitempty"`
	IsOnChecked           bool `json:"ison_checked"`
	IsOnAfter             bool `json:"ison_after"`
	IsOnStructural        bool `json:"ison_after_library_quiescent,omitempty"`

	DescendantsJudged int `json:"descendants_judged"`
	ExemptAliveAfter  int `json:"exempt_alive_after"`
	RegistryOnly      int `json:"survivors_missed_by_ancestry_scan,omitempty"`
	NewGeneration     int `json:"new_generation_processes,omitempty"`

	Goroutines      string `json:"goroutines,omitempty"`
	DeadlockReports int    `json:"go_deadlock_reports,omitempty"`
	DeadlockLog     string `json:"go_deadlock_log,omitempty"`
	LogLines        int64  `json:"log_lines"`
	Leftover        int    `json:"leftover_after_cleanup"`
	CleanupKilled   int    `json:"cleanup_killed"`
}

// memLoggers is the logs.Loggers the subprocess writes to (content is don't-care here).
// With slowStarted set, recording the announcement "Started process [pid]" takes that long (a remote or
// congested sink): Start() is then still in progress although the process exists and has been announced.
type memLoggers struct {
	lines       atomic.Int64
	slowStarted time.Duration
	announced   chan struct{}
	once        sync.Once
}

func (m *memLoggers) Close() error                 { return nil }
func (m *memLoggers) Check() error                 { return nil }
func (m *memLoggers) SetLogSource(string) error    { return nil }
func (m *memLoggers) SetLoggerSource(string) error { return nil }
func (m *memLoggers) LogError(...interface{})      { m.lines.Add(1) }
func (m *memLoggers) Log(args ...interface{}) {
	m.lines.Add(1)
	if m.slowStarted > 0 && len(args) > 0 && strings.HasPrefix(fmt.Sprint(args[0]), "Started process [") {
		m.once.Do(func() { close(m.announced) })
		time.Sleep(m.slowStarted)
	}
}

type lockedBuf struct {
	mu sync.Mutex
	b  bytes.Buffer
}

func (l *lockedBuf) Write(p []byte) (int, error) {
	l.mu.Lock()
	defer l.mu.Unlock()
	if l.b.Len() < 8192 {
		l.b.Write(p)
	}
	return len(p), nil
}
func (l *lockedBuf) String() string { l.mu.Lock(); defer l.mu.Unlock(); return l.b.String() }

type harness struct {
	cs       caseSpec
	registry string
	self     pstat
	res      *result
	preStop  map[[2]uint64]bool // identities alive before the stop (to tell a Restart generation apart)
	judged   map[[2]uint64]bool
}

func ident(pid int, start uint64) [2]uint64 { return [2]uint64{uint64(pid), start} }

// view is one observation of the tree.
type view struct {
	in     []pstat // alive, descendant of the harness, same session, not the harness' group: in the child's group
	exempt []pstat // alive descendants that left the group (setsid)
	newGen []pstat // alive processes of a generation started by Restart (legitimately running)
}

func (h *harness) observe() view {
	// registry first: whoever is registered and alive is then part of the snapshot taken afterwards
	entries, _ := readRegistry(h.registry)
	all := scanAll()
	desc := descendantsOf(all, h.self.Pid)
	regGen := map[[2]uint64]int{} // identity -> generation (pid of the root that built it)
	regRoot := map[[2]uint64]bool{}
	for _, e := range entries {
		if e.Pid != 0 {
			g, _ := strconv.Atoi(e.Gen)
			regGen[ident(e.Pid, e.StartTime)] = g
			regRoot[ident(e.Pid, e.StartTime)] = e.ID == "0"
		}
	}
	// After Restart a new generation is legitimately running: its root is a child of the harness that
	// did not exist before the stop and is a group leader (or registered itself as a root).
	newRoots := map[int]bool{}
	if h.cs.Stop == "Restart" && h.preStop != nil {
		for _, d := range desc {
			id := ident(d.Pid, d.StartTime)
			if d.PPid == h.self.Pid && d.Sid == h.self.Sid && !h.preStop[id] && (d.Pgrp == d.Pid || regRoot[id]) {
				newRoots[d.Pid] = true
			}
		}
	}
	inNewGen := func(d pstat) bool {
		if len(newRoots) == 0 {
			return false
		}
		if newRoots[d.Pgrp] || newRoots[regGen[ident(d.Pid, d.StartTime)]] {
			return true
		}
		for cur, depth := d, 0; depth < 64; depth++ {
			if newRoots[cur.Pid] {
				return true
			}
			next, ok := all[cur.PPid]
			if !ok || cur.PPid == h.self.Pid {
				return false
			}
			cur = next
		}
		return false
	}
	var v view
	for _, d := range desc {
		if !d.alive() {
			continue
		}
		switch {
		case d.Sid != h.self.Sid: // setsid()'ed: left the group
			v.exempt = append(v.exempt, d)
		case inNewGen(d):
			v.newGen = append(v.newGen, d)
		default:
			v.in = append(v.in, d)
		}
	}
	// cross-check with what the nodes reported themselves
	seen := map[[2]uint64]bool{}
	for _, d := range v.in {
		seen[ident(d.Pid, d.StartTime)] = true
	}
	for _, e := range entries {
		if e.Pid == 0 || strings.Contains(e.Flags, "s") {
			continue
		}
		gen, _ := strconv.Atoi(e.Gen)
		if newRoots[gen] {
			continue
		}
		if st, ok := stillSame(e.Pid, e.StartTime); ok && st.Sid == h.self.Sid && !seen[ident(e.Pid, e.StartTime)] {
			v.in = append(v.in, st)
			h.res.RegistryOnly++
		}
	}
	sort.Slice(v.in, func(i, j int) bool { return v.in[i].Pid < v.in[j].Pid })
	return v
}

// observeFast finds the processes of the tree right after the call without reading the whole of /proc:
// pids are handed out sequentially, so anything spawned since the call is just below the most
// recently allocated pid (last field of /proc/loadavg). Used for the bookkeeping of the early stop
// instants only (what existed at the stop, which generation a Restart replaced), never for a verdict.
func (h *harness) observeFast() (v view) {
	last := 0
	if b, err := os.ReadFile("/proc/loadavg"); err == nil {
		f := strings.Fields(string(b))
		if len(f) > 0 {
			last, _ = strconv.Atoi(f[len(f)-1])
		}
	}
	if last == 0 {
		return h.observe()
	}
	pidMax := 32768
	if b, err := os.ReadFile("/proc/sys/kernel/pid_max"); err == nil {
		if n, err := strconv.Atoi(strings.TrimSpace(string(b))); err == nil {
			pidMax = n
		}
	}
	mine := map[int]bool{h.self.Pid: true}
	var cand []pstat
	for i := 0; i < 400; i++ {
		pid := last - i
		if pid < 2 {
			pid += pidMax - 1
		}
		if st, ok := readStat(pid); ok && pid != h.self.Pid {
			cand = append(cand, st)
		}
	}
	for round := 0; round < 6; round++ { // children, grandchildren, ...
		for _, st := range cand {
			if mine[st.PPid] {
				mine[st.Pid] = true
			}
		}
	}
	for _, st := range cand {
		if !mine[st.Pid] || !st.alive() || !isThreadGroupLeader(st.Pid) {
			continue // /proc/<tid> also answers for threads, which readdir never lists
		}
		if st.Sid != h.self.Sid {
			v.exempt = append(v.exempt, st)
		} else {
			v.in = append(v.in, st)
		}
	}
	return
}

func (h *harness) describe(ps []pstat) (out []survivor) {
	entries, _ := readRegistry(h.registry)
	byID := map[[2]uint64]regEntry{}
	for _, e := range entries {
		if e.Pid != 0 {
			byID[ident(e.Pid, e.StartTime)] = e
		}
	}
	for _, p := range ps {
		s := survivor{Pid: p.Pid, StartTime: p.StartTime, Pgrp: p.Pgrp, State: p.State, PendingFatal: pendingFatal(p.Pid)}
		if e, ok := byID[ident(p.Pid, p.StartTime)]; ok {
			s.Registered, s.ID, s.Flags = true, e.ID, e.Flags
		}
		out = append(out, s)
	}
	return
}

func (h *harness) note(ps []pstat) {
	for _, p := range ps {
		h.judged[ident(p.Pid, p.StartTime)] = true
	}
}

var reHeader = regexp.MustCompile(`^goroutine \d+ \[([^\]]*)\]`)

// goroutineDump returns the goroutines that are inside the library, os/exec or go-deadlock.
func goroutineDump() (kept []string) {
	buf := make([]byte, 1<<20)
	buf = buf[:runtime.Stack(buf, true)]
	for _, blk := range strings.Split(string(buf), "\n\n") {
		if strings.Contains(blk, "golang-utils/utils/") || strings.Contains(blk, "os/exec.") {
			kept = append(kept, blk)
		}
	}
	return
}

func joinDump(blocks []string) string {
	s := strings.Join(blocks, "\n\n")
	if len(s) > 24000 {
		s = s[:24000] + "\n...[truncated]"
	}
	return s
}

func blockState(blk string) string {
	if m := reHeader.FindStringSubmatch(blk); m != nil {
		return m[1]
	}
	return "?"
}

func isParked(state string) bool {
	return !strings.HasPrefix(state, "running") && !strings.HasPrefix(state, "runnable") && state != "?"
}

// libraryQuiescent: no goroutine of the library is running or runnable, and none is inside the
// tree-kill code: nothing is left that could still change the outcome.
func libraryQuiescent(blocks []string) (quiescent, killing bool) {
	quiescent = true
	for _, b := range blocks {
		if strings.Contains(b, "utils/proc.kill") || strings.Contains(b, "KillWithChildren") {
			killing = true
		}
		if !strings.Contains(b, "golang-utils/utils/subprocess") && !strings.Contains(b, "golang-utils/utils/proc") {
			continue
		}
		if !isParked(blockState(b)) {
			quiescent = false
		}
	}
	if killing {
		quiescent = false
	}
	return
}

// libraryGoroutines counts the goroutines that are inside the subprocess or proc packages.
func libraryGoroutines() (n int) {
	for _, b := range goroutineDump() {
		if strings.Contains(b, "golang-utils/utils/subprocess") || strings.Contains(b, "golang-utils/utils/proc") {
			n++
		}
	}
	return
}

func harnessMain() {
	_ = unix.Prctl(unix.PR_SET_CHILD_SUBREAPER, 1, 0, 0, 0)
	var dlCount atomic.Int64
	dlLog := &lockedBuf{}
	deadlock.Opts.OnPotentialDeadlock = func() { dlCount.Add(1) } // default: os.Exit(2) after 30 s
	deadlock.Opts.LogBuf = dlLog

	res := &result{HarnessPid: os.Getpid()}
	resPath := os.Getenv("VERIF_C05_RESULT")
	h := &harness{registry: os.Getenv("VERIF_C05_REGISTRY"), self: selfStat(), res: res, judged: map[[2]uint64]bool{}}
	if err := json.Unmarshal([]byte(os.Getenv("VERIF_C05_CASE")), &h.cs); err != nil || resPath == "" || h.registry == "" {
		fmt.Fprintln(os.Stderr, "harness: bad environment:", err)
		os.Exit(3)
	}
	res.Case = h.cs
	if v := os.Getenv("VERIF_C05_G_MS"); v != "" { // development aid only
		if ms, err := strconv.Atoi(v); err == nil {
			boundG = time.Duration(ms) * time.Millisecond
		}
	}
	if f, err := os.OpenFile(h.registry, os.O_CREATE|os.O_WRONLY, 0o644); err == nil {
		f.Close()
	}
	loggers := &memLoggers{announced: make(chan struct{})}
	if h.cs.SlowStartLogMs > 0 {
		loggers.slowStarted = time.Duration(h.cs.SlowStartLogMs) * time.Millisecond
	}
	h.run(loggers)
	res.LogLines = loggers.lines.Load()
	res.DeadlockReports = int(dlCount.Load())
	res.DeadlockLog = dlLog.String()
	h.cleanup()
	b, _ := json.MarshalIndent(res, "", " ")
	if err := os.WriteFile(resPath+".tmp", b, 0o644); err == nil {
		_ = os.Rename(resPath+".tmp", resPath)
	}
	os.Exit(0)
}

type asyncCall struct {
	done chan struct{}
	err  error
}

func goCall(f func() error) *asyncCall {
	c := &asyncCall{done: make(chan struct{})}
	go func() {
		c.err = f()
		close(c.done)
	}()
	return c
}

func isDone(ch <-chan struct{}) bool {
	select {
	case <-ch:
		return true
	default:
		return false
	}
}

func (h *harness) run(loggers *memLoggers) {
	cs, res := h.cs, h.res
	selfExe, err := os.Executable()
	if err != nil {
		res.Errors = append(res.Errors, "executable: "+err.Error())
		return
	}
	launcher := ""
	if cs.Launcher != "" {
		launcher = h.registry + ".launcher"
		_ = os.Remove(launcher)
		if err := os.Symlink(selfExe, launcher); err != nil {
			res.Errors = append(res.Errors, "launcher: "+err.Error())
			return
		}
		defer func() { _ = os.Remove(launcher) }()
		selfExe = launcher
	}
	shape, _ := json.Marshal(cs.Shape)
	args := []string{ptreeArg, h.registry, "", "0", string(shape)}

	// the context the subprocess is bound to
	created := time.Now()
	var parent context.Context
	var cancel context.CancelFunc
	if cs.Stop == "context-deadline" {
		parent, cancel = context.WithTimeout(context.Background(), time.Duration(cs.DelayMs)*time.Millisecond)
	} else {
		parent, cancel = context.WithCancel(context.Background())
	}
	defer cancel()

	// start
	var cur atomic.Pointer[subprocess.Subprocess]
	isOn := func() bool { p := cur.Load(); return p != nil && p.IsOn() }
	var mainCall, startCall *asyncCall
	t0 := time.Now()
	switch cs.Start {
	case "Execute":
		p, err := subprocess.New(parent, loggers, "", "", "", selfExe, args...)
		if err != nil {
			res.Errors = append(res.Errors, "New: "+err.Error())
			return
		}
		cur.Store(p)
		t0 = time.Now()
		mainCall = goCall(p.Execute)
		res.Awaited = "Execute"
	case "Start":
		p, err := subprocess.New(parent, loggers, "", "", "", selfExe, args...)
		if err != nil {
			res.Errors = append(res.Errors, "New: "+err.Error())
			return
		}
		cur.Store(p)
		t0 = time.Now()
		if cs.SlowStartLogMs > 0 {
			// Start() runs in a goroutine of its own: the stop is requested once the process has been announced
			// ("Started process [pid]") while the sink is still busy recording that announcement
			startCall = goCall(p.Start)
			select {
			case <-loggers.announced:
			case <-startCall.done:
				if startCall.err != nil {
					res.StartErr = startCall.err.Error()
				}
				res.Vacuous = "Start was over before its announcement was seen"
				return
			case <-time.After(boundReady):
				res.Errors = append(res.Errors, "start never announced")
				return
			}
			t0 = time.Now()
		} else if cs.DoubleStart {
			gate := make(chan struct{})
			c1 := goCall(func() error { <-gate; return p.Start() })
			c2 := goCall(func() error { <-gate; return p.Start() })
			close(gate)
			for _, c := range []*asyncCall{c1, c2} {
				select {
				case <-c.done:
				case <-time.After(boundReady):
					res.Errors = append(res.Errors, "a Start() call did not return")
					return
				}
			}
			if c1.err != nil && c2.err != nil {
				res.StartErr = c1.err.Error()
				res.Vacuous = "both Start calls failed: nothing was running"
				return
			}
		} else if err := p.Start(); err != nil {
			res.StartErr = err.Error()
			res.Vacuous = "Start failed (context already over): nothing was running"
			return
		}
	case "Supervisor":
		sup := supervisor.NewSupervisor(func(ctx context.Context) (*subprocess.Subprocess, error) {
			p, err := subprocess.New(ctx, loggers, "", "", "", selfExe, args...)
			if err == nil {
				cur.Store(p)
			}
			return p, err
		}, supervisor.WithRestartDelay(time.Duration(sleepConfigS)*time.Second)) // one generation only
		t0 = time.Now()
		mainCall = goCall(func() error { return sup.Run(parent) })
		res.Awaited = "supervisor Run"
	}

	// the instant of the stop
	var lastSample atomic.Pointer[view]
	switch cs.Anchor {
	case "announced":
		time.Sleep(time.Duration(cs.DelayMs) * time.Millisecond)
		res.StartInProgressAtStop = startCall != nil && !isDone(startCall.done)
	case "call":
		if d := time.Until(t0.Add(time.Duration(cs.DelayMs) * time.Millisecond)); d > 0 {
			time.Sleep(d)
		}
	case "ready":
		ready := false
		for start := time.Now(); time.Since(start) < boundReady; {
			if h.isReady() {
				ready = true
				break
			}
			if mainCall != nil && isDone(mainCall.done) {
				break
			}
			time.Sleep(time.Millisecond)
		}
		if !ready && (mainCall == nil || !isDone(mainCall.done)) && res.Vacuous == "" {
			res.Errors = append(res.Errors, "tree never became ready")
			return
		}
		if ready && cs.DelayMs > 0 {
			time.Sleep(time.Duration(cs.DelayMs) * time.Millisecond)
		}
	case "create":
		// deadline: the stop comes by itself; sample the tree while waiting
		for !isDone(parent.Done()) && time.Since(created) < time.Duration(cs.DelayMs)*time.Millisecond+boundReady {
			// order matters: the call is seen returned first, the deadline seen not yet over second
			if mainCall != nil && isDone(mainCall.done) && !isDone(parent.Done()) {
				res.Vacuous = "the call had already returned before the deadline"
				return
			}
			if time.Until(created.Add(time.Duration(cs.DelayMs)*time.Millisecond)) > 30*time.Millisecond {
				v := h.observe()
				lastSample.Store(&v)
			}
			select {
			case <-parent.Done():
			case <-time.After(20 * time.Millisecond):
			}
		}
	}

	if launcher != "" {
		_ = os.Remove(launcher)
	}
	// state at the stop request
	if mainCall != nil && isDone(mainCall.done) && cs.Stop != "context-deadline" {
		res.Vacuous = "the call had already returned before the stop request"
		return
	}
	// The instants 0/1/5 ms after the call must not be delayed by reading /proc: there the tree is
	// looked at right AFTER the stop was issued (bookkeeping only: what existed around the stop).
	// Restart needs to know the old generation beforehand.
	lateScan := cs.Anchor == "call" && cs.Stop != "Restart"
	fill := func(pre view) {
		h.preStop = map[[2]uint64]bool{}
		for _, p := range append(append([]pstat{}, pre.in...), pre.exempt...) {
			h.preStop[ident(p.Pid, p.StartTime)] = true
		}
		h.note(pre.in)
		res.LiveInGroupAtStop = len(pre.in)
		res.ExemptAtStop = len(pre.exempt)
	}
	preStart := time.Now()
	switch {
	case lateScan:
	case cs.Anchor == "create":
		if v := lastSample.Load(); v != nil {
			fill(*v)
		}
	case cs.Anchor == "call":
		fill(h.observeFast())
	default:
		fill(h.observe())
	}
	res.PreScanUs = time.Since(preStart).Microseconds()
	regState := func() {
		entries, _ := readRegistry(h.registry)
		ready, rootRegistered, rootAlive := false, false, false
		res.RegisteredAtStop = 0
		for _, e := range entries {
			if e.Ready {
				ready = true
			}
			if e.Pid != 0 {
				res.RegisteredAtStop++
				if e.ID == "0" {
					rootRegistered = true
					if _, ok := stillSame(e.Pid, e.StartTime); ok {
						rootAlive = true
					}
				}
			}
		}
		// only a root with the x flag ever exits by itself; for a deadline the registry is read after the
		// deadline fired, when the library may already have killed a root that was running
		res.RootExitedAtStop = cs.Shape.has('x') && rootRegistered && !rootAlive
		switch {
		case ready:
			res.Phase = "ready"
		case res.RegisteredAtStop > 0 || res.LiveInGroupAtStop > 0:
			res.Phase = "during spawn"
		default:
			res.Phase = "nothing spawned yet"
		}
	}
	if !lateScan {
		regState()
	}
	res.IsOnAtStop = isOn()

	// the stop request
	var stopCall *asyncCall
	if cs.Stop == "Cancel" && !res.IsOnAtStop && cs.Anchor != "announced" {
		// Cancel() ends the context of the current run only; issued before the run has begun it is
		// legitimately without effect (Execute creates a fresh context)
		res.Vacuous = "Cancel() before the subprocess was on"
		return
	}
	stopAt := time.Now()
	res.StopLagUs = stopAt.Sub(t0).Microseconds()
	switch cs.Stop {
	case "context-cancel":
		cancel()
	case "context-deadline":
		<-parent.Done()
		stopAt = time.Now()
	case "Cancel":
		// issued from another goroutine, as a user would: a Cancel() that does not come back must not take the monitor with it
		cancelCall := goCall(func() error { cur.Load().Cancel(); return nil })
		select {
		case <-cancelCall.done:
		case <-time.After(2 * time.Second):
			res.CancelPending = true // Cancel() had not returned 2 s after it was issued
		}
	case "Stop":
		stopCall = goCall(cur.Load().Stop)
		res.Awaited = "Stop"
	case "Restart+context-cancel", "Restart+Cancel":
		// a longer history: the subprocess is restarted first (waited for), its replacement is cancelled
		rc := goCall(cur.Load().Restart)
		select {
		case <-rc.done:
		case <-time.After(boundG):
			res.Errors = append(res.Errors, "the Restart preceding the stop did not return")
			return
		}
		if rc.err != nil {
			res.Errors = append(res.Errors, "the Restart preceding the stop failed: "+rc.err.Error())
			return
		}
		time.Sleep(time.Duration(50+cs.DelayMs) * time.Millisecond)
		res.IsOnAtStop = isOn()
		fill(h.observe())
		regState()
		stopAt = time.Now()
		if cs.Stop == "Restart+Cancel" {
			cancelCall := goCall(func() error { cur.Load().Cancel(); return nil })
			select {
			case <-cancelCall.done:
			case <-time.After(2 * time.Second):
				res.CancelPending = true
			}
		} else {
			cancel()
		}
	case "Restart":
		stopCall = goCall(cur.Load().Restart)
		res.Awaited = "Restart"
	}
	if lateScan {
		fill(h.observeFast())
		regState()
	}

	// what marks the end of the stop
	var done <-chan struct{}
	switch {
	case stopCall != nil:
		done = stopCall.done
	case mainCall != nil:
		done = mainCall.done
	default:
		res.Awaited = "IsOn()==false"
		ch := make(chan struct{})
		done = ch
		go func() {
			for i := 0; i < 120000; i++ {
				if !isOn() {
					close(ch)
					return
				}
				time.Sleep(time.Millisecond)
			}
		}()
	}
	callErr := func() {
		var e error
		if stopCall != nil && isDone(stopCall.done) {
			e = stopCall.err
		} else if mainCall != nil && isDone(mainCall.done) {
			e = mainCall.err
		}
		if e != nil {
			res.CallErr = e.Error()
		}
	}
	checkIsOn := cs.Stop != "Restart" // after Restart a new process is legitimately on

	select {
	case <-done:
		res.Returned = true
		res.ReturnMs = time.Since(stopAt).Milliseconds()
	case <-time.After(boundG):
	}

	if res.Returned {
		callErr()
		// the stop is over. Signalled processes get time to die; what is then alive with no fatal
		// signal pending was not terminated.
		var v view
		empty := 0
		for start := time.Now(); ; {
			v = h.observe()
			h.note(v.in)
			if len(v.in) == 0 && (!checkIsOn || !isOn()) {
				// /proc is not read atomically: a process whose parent died mid-scan can be missed
				// once, so "nobody left" needs two consecutive observations
				if empty++; empty >= 2 {
					break
				}
				continue
			}
			empty = 0
			if time.Since(start) > boundGrace {
				break
			}
			time.Sleep(10 * time.Millisecond)
		}
		res.NewGeneration = len(v.newGen)
		res.ExemptAliveAfter = len(v.exempt)
		if len(v.in) > 0 {
			for _, s := range h.describe(v.in) {
				if s.PendingFatal {
					res.SurvivorsPending++
				} else {
					res.Survivors = append(res.Survivors, s)
				}
			}
			blocks := goroutineDump()
			_, res.KillInProgress = libraryQuiescent(blocks)
			res.Goroutines = joinDump(blocks)
		}
		if checkIsOn {
			res.IsOnChecked = true
			res.IsOnAfter = isOn()
			if res.IsOnAfter {
				blocks := goroutineDump()
				res.IsOnStructural, _ = libraryQuiescent(blocks)
				res.Goroutines = joinDump(blocks)
			}
		}
		res.DescendantsJudged = len(h.judged)
		return
	}

	// not over after G although every node is configured to live 40 x G: causal test
	res.NotReturnedAtG = true
	v := h.observe()
	h.note(v.in)
	res.SurvivorsAtG = h.describe(v.in)
	res.ExemptAliveAfter = len(v.exempt)
	res.Goroutines = joinDump(goroutineDump())
	if isDone(done) { // came back by itself in the meantime: slow, not stuck
		res.NotReturnedAtG = false
		res.LateReturn = true
		res.DescendantsJudged = len(h.judged)
		return
	}
	if len(v.in) > 0 {
		killAt := time.Now()
		h.killAll(v.in)
		select {
		case <-done:
			res.ReturnedAfterOurKill = true
			res.AfterKillMs = time.Since(killAt).Milliseconds()
		case <-time.After(boundCausal):
		}
	}
	if !res.ReturnedAfterOurKill {
		select {
		case <-done:
			res.LateReturn = true
		case <-time.After(boundAfter):
			// the whole group is dead and the call is still not over: where is it?
			res.NeverReturned = true
			frame := map[string]string{"Execute": "(*Subprocess).Execute", "Stop": "(*Subprocess).Stop", "Restart": "(*Subprocess).Restart",
				"supervisor Run": "(*Supervisor).Run", "IsOn()==false": "(*Subprocess).stop"}[res.Awaited]
			find := func() string {
				for _, b := range goroutineDump() {
					if strings.Contains(b, frame) {
						return blockState(b) + "|" + stackFuncs(b)
					}
				}
				return ""
			}
			a, na := find(), libraryGoroutines()
			time.Sleep(time.Second)
			b, nb := find(), libraryGoroutines()
			res.StuckState = b
			res.StuckStructural = a != "" && a == b && isParked(strings.SplitN(b, "|", 2)[0]) && !isDone(done)
			if res.Awaited == "IsOn()==false" && na == 0 && nb == 0 && !isDone(done) {
				// IsOn() is still true and no goroutine of the library exists any more that could ever clear it
				res.StuckStructural, res.StuckState = true, "no goroutine of the library is left"
			}
			res.Goroutines = joinDump(goroutineDump())
		}
	}
	callErr()
	if checkIsOn && isDone(done) {
		res.IsOnChecked = true
		for start := time.Now(); isOn() && time.Since(start) < boundGrace; {
			time.Sleep(10 * time.Millisecond)
		}
		res.IsOnAfter = isOn()
		if res.IsOnAfter {
			blocks := goroutineDump()
			res.IsOnStructural, _ = libraryQuiescent(blocks)
		}
	}
	res.DescendantsJudged = len(h.judged)
}

// stackFuncs reduces a goroutine block to its function names (addresses and arguments change).
func stackFuncs(blk string) string {
	var fs []string
	for _, l := range strings.Split(blk, "\n") {
		if strings.HasPrefix(l, "\t") || strings.HasPrefix(l, "goroutine ") {
			continue
		}
		if i := strings.LastIndexByte(l, '('); i > 0 {
			l = l[:i]
		}
		fs = append(fs, l)
	}
	return strings.Join(fs, "<")
}

func (h *harness) isReady() bool {
	entries, _ := readRegistry(h.registry)
	for _, e := range entries {
		if e.Ready {
			return true
		}
	}
	return false
}

// killAll kills the given processes by identity and their groups.
func (h *harness) killAll(ps []pstat) (n int) {
	groups := map[int]bool{}
	for _, p := range ps {
		if killIdentity(p.Pid, p.StartTime, unix.SIGKILL) {
			n++
		}
		if p.Pgrp != h.self.Pgrp && p.Pgrp > 1 {
			groups[p.Pgrp] = true
		}
	}
	for g := range groups {
		// the group id stays reserved while a member (checked above by identity) existed; a vanished
		// group yields ESRCH
		_ = unix.Kill(-g, unix.SIGKILL)
	}
	return
}

// cleanup leaves nothing of this case running: every descendant of the harness (exempt ones
// included) is killed by identity and by group, the registry is removed (nodes leave by themselves
// when it is gone), zombies are reaped.
func (h *harness) cleanup() {
	for round := 0; round < 50; round++ {
		var live []pstat
		for _, d := range descendantsOf(scanAll(), h.self.Pid) {
			if d.alive() {
				live = append(live, d)
			}
		}
		entries, _ := readRegistry(h.registry)
		for _, e := range entries {
			if e.Pid == 0 {
				continue
			}
			if st, ok := stillSame(e.Pid, e.StartTime); ok {
				dup := false
				for _, l := range live {
					if l.Pid == st.Pid {
						dup = true
					}
				}
				if !dup {
					live = append(live, st)
				}
			}
		}
		if len(live) == 0 {
			break
		}
		h.res.CleanupKilled += h.killAll(live)
		time.Sleep(20 * time.Millisecond)
	}
	_ = os.Remove(h.registry)
	for i := 0; i < 2000; i++ {
		var ws unix.WaitStatus
		pid, err := unix.Wait4(-1, &ws, unix.WNOHANG, nil)
		if err == unix.ECHILD {
			break
		}
		if pid <= 0 {
			time.Sleep(time.Millisecond)
		}
	}
	for _, d := range descendantsOf(scanAll(), h.self.Pid) {
		if d.alive() {
			h.res.Leftover++
		}
	}
}
