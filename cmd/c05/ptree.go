package main

// ptree mode: the command the library is asked to run. It builds the process tree described by a
// shape and every node reports {pid, pgid, sid, starttime} to the registry file of the case before the
// root announces readiness.
//
//	argv: <self> --c05-ptree <registry> <gen> <id> <node-json>
//
// Flags of a node: h = keep the inherited stdout/stderr open (the others redirect both to /dev/null;
// the root always keeps them), i = ignore SIGTERM, x = exit as soon as its own subtree has registered
// (leaving its children running), s = setsid() first (leaves the group: exempt from the property),
// e = once its subtree has registered (and, for the root, readiness was announced) the node replaces itself by
// another program (`exec sleep`): same pid, same group, same streams, another name.

import (
	"encoding/json"
	"fmt"
	"os"
	"os/exec"
	"os/signal"
	"strconv"
	"strings"
	"syscall"
	"time"

	"golang.org/x/sys/unix"
)

const ptreeArg = "--c05-ptree"

// node is one process of a shape.
type node struct {
	F string  `json:"f"`
	K []*node `json:"k,omitempty"`
}

func (n *node) has(f byte) bool { return strings.IndexByte(n.F, f) >= 0 }

func (n *node) count() int {
	c := 1
	for _, k := range n.K {
		c += k.count()
	}
	return c
}

// String is the canonical text of a shape, e.g. "-[h,x[-]]".
func (n *node) String() string {
	s := n.F
	if s == "" {
		s = "-"
	}
	if len(n.K) > 0 {
		parts := make([]string, len(n.K))
		for i, k := range n.K {
			parts[i] = k.String()
		}
		s += "[" + strings.Join(parts, ",") + "]"
	}
	return s
}

func (n *node) ids(prefix string, out *[]string) {
	*out = append(*out, prefix)
	for i, k := range n.K {
		k.ids(prefix+"."+strconv.Itoa(i), out)
	}
}

// regEntry is one line of the registry.
type regEntry struct {
	Gen       string `json:"gen"`
	ID        string `json:"id,omitempty"`
	Pid       int    `json:"pid,omitempty"`
	Pgid      int    `json:"pgid,omitempty"`
	Sid       int    `json:"sid,omitempty"`
	StartTime uint64 `json:"starttime,omitempty"`
	Flags     string `json:"flags,omitempty"`
	Ready     bool   `json:"ready,omitempty"`
	Err       string `json:"error,omitempty"`
}

func appendRegistry(path string, e regEntry) {
	b, _ := json.Marshal(e)
	b = append(b, '\n')
	f, err := os.OpenFile(path, os.O_WRONLY|os.O_APPEND, 0)
	if err != nil {
		return // registry removed: the case is over
	}
	_, _ = f.Write(b) // one write with O_APPEND: lines never interleave
	_ = f.Close()
}

func readRegistry(path string) (entries []regEntry, exists bool) {
	b, err := os.ReadFile(path)
	if err != nil {
		return nil, false
	}
	for _, line := range strings.Split(string(b), "\n") {
		if line == "" {
			continue
		}
		var e regEntry
		if json.Unmarshal([]byte(line), &e) == nil {
			entries = append(entries, e)
		}
	}
	return entries, true
}

func ptreeMain(args []string) {
	if len(args) != 4 {
		fmt.Fprintln(os.Stderr, "ptree: bad arguments")
		os.Exit(3)
	}
	registry, gen, id := args[0], args[1], args[2]
	var n node
	if err := json.Unmarshal([]byte(args[3]), &n); err != nil {
		fmt.Fprintln(os.Stderr, "ptree: bad shape:", err)
		os.Exit(3)
	}
	isRoot := gen == ""
	if isRoot {
		gen = strconv.Itoa(os.Getpid())
	}
	if n.has('s') {
		_, _ = unix.Setsid()
	}
	if n.has('i') {
		signal.Ignore(syscall.SIGTERM)
	}
	self, err := os.Executable()
	if err != nil {
		appendRegistry(registry, regEntry{Gen: gen, ID: id, Err: err.Error()})
		os.Exit(3)
	}
	// children inherit this node's stdout/stderr as they are now (the pipes of the library)
	for i, k := range n.K {
		spec, _ := json.Marshal(k)
		c := exec.Command(self, ptreeArg, registry, gen, id+"."+strconv.Itoa(i), string(spec))
		c.Stdout = os.Stdout
		c.Stderr = os.Stderr
		if err := c.Start(); err != nil {
			appendRegistry(registry, regEntry{Gen: gen, ID: id + "." + strconv.Itoa(i), Err: "spawn: " + err.Error()})
		}
	}
	if !isRoot && !n.has('h') {
		if fd, err := unix.Open("/dev/null", unix.O_RDWR, 0); err == nil {
			_ = unix.Dup3(fd, 1, 0)
			_ = unix.Dup3(fd, 2, 0)
			_ = unix.Close(fd)
		}
	}
	st := selfStat()
	appendRegistry(registry, regEntry{Gen: gen, ID: id, Pid: st.Pid, Pgid: st.Pgrp, Sid: st.Sid, StartTime: st.StartTime, Flags: n.F})

	if isRoot || n.has('x') || n.has('e') {
		var want []string
		n.ids(id, &want)
		if !waitRegistered(registry, gen, want) {
			os.Exit(0) // registry gone or subtree never completed: nothing more to do
		}
		if isRoot {
			appendRegistry(registry, regEntry{Gen: gen, Ready: true})
			fmt.Fprintln(os.Stdout, "READY")
		}
		if n.has('x') {
			os.Exit(0)
		}
		if n.has('e') {
			// a launcher handing over to the real program
			_ = syscall.Exec("/bin/sleep", []string{"sleep", "150"}, os.Environ())
		}
	}
	// "sleep 600": far longer than any bound of the monitor. The node leaves as soon as the registry
	// of its case is removed, so that nothing can outlive the run even if every kill missed it.
	deadline := time.Now().Add(600 * time.Second)
	for time.Now().Before(deadline) {
		time.Sleep(500 * time.Millisecond)
		if _, err := os.Stat(registry); err != nil {
			break
		}
	}
	os.Exit(0)
}

// waitRegistered polls the registry until every id of want is registered for gen (bounded).
func waitRegistered(registry, gen string, want []string) bool {
	for i := 0; i < 30000; i++ {
		entries, ok := readRegistry(registry)
		if !ok {
			return false
		}
		have := map[string]bool{}
		for _, e := range entries {
			if e.Gen == gen && e.Pid != 0 {
				have[e.ID] = true
			}
		}
		all := true
		for _, w := range want {
			if !have[w] {
				all = false
				break
			}
		}
		if all {
			return true
		}
		time.Sleep(2 * time.Millisecond)
	}
	return false
}
