package main

// procmon: /proc sampling. Identity of a process is (pid, starttime); pid_max is 32768 here so pids
// do recycle. Nothing in this file decides a verdict by reading a clock.

import (
	"bytes"
	"os"
	"strconv"
	"strings"

	"golang.org/x/sys/unix"
)

// pstat is the subset of /proc/<pid>/stat the monitor uses.
type pstat struct {
	Pid       int    `json:"pid"`
	Comm      string `json:"comm,omitempty"`
	State     string `json:"state"`
	PPid      int    `json:"ppid"`
	Pgrp      int    `json:"pgrp"`
	Sid       int    `json:"sid"`
	StartTime uint64 `json:"starttime"`
}

func (s pstat) alive() bool { return s.State != "Z" && s.State != "X" && s.State != "x" }

// readStat parses /proc/<pid>/stat. ok=false when the process does not exist (any more).
func readStat(pid int) (st pstat, ok bool) {
	b, err := os.ReadFile("/proc/" + strconv.Itoa(pid) + "/stat")
	if err != nil {
		return st, false
	}
	return parseStat(b)
}

func parseStat(b []byte) (st pstat, ok bool) {
	l := bytes.IndexByte(b, '(')
	r := bytes.LastIndexByte(b, ')')
	if l < 0 || r < 0 || r < l {
		return st, false
	}
	pid, err := strconv.Atoi(strings.TrimSpace(string(b[:l])))
	if err != nil {
		return st, false
	}
	f := strings.Fields(string(b[r+1:]))
	// f[0]=state(3) f[1]=ppid(4) f[2]=pgrp(5) f[3]=session(6) ... f[19]=starttime(22)
	if len(f) < 20 {
		return st, false
	}
	st.Pid = pid
	st.Comm = string(b[l+1 : r])
	st.State = f[0]
	st.PPid, _ = strconv.Atoi(f[1])
	st.Pgrp, _ = strconv.Atoi(f[2])
	st.Sid, _ = strconv.Atoi(f[3])
	st.StartTime, _ = strconv.ParseUint(f[19], 10, 64)
	return st, true
}

// selfStat reads /proc/self/stat.
func selfStat() pstat {
	b, err := os.ReadFile("/proc/self/stat")
	if err != nil {
		return pstat{Pid: os.Getpid()}
	}
	st, _ := parseStat(b)
	return st
}

// scanAll reads the stat of every process in /proc.
func scanAll() map[int]pstat {
	out := map[int]pstat{}
	d, err := os.Open("/proc")
	if err != nil {
		return out
	}
	names, _ := d.Readdirnames(-1)
	d.Close()
	for _, n := range names {
		if n[0] < '0' || n[0] > '9' {
			continue
		}
		pid, err := strconv.Atoi(n)
		if err != nil {
			continue
		}
		if st, ok := readStat(pid); ok {
			out[pid] = st
		}
	}
	return out
}

// descendantsOf returns every process of the snapshot whose parent chain reaches root (root itself
// excluded). With the harness being a child sub-reaper, orphans keep being its descendants.
func descendantsOf(all map[int]pstat, root int) []pstat {
	memo := map[int]bool{}
	var isDesc func(pid, depth int) bool
	isDesc = func(pid, depth int) bool {
		if pid == root {
			return true
		}
		if pid <= 1 || depth > 64 {
			return false
		}
		if v, ok := memo[pid]; ok {
			return v
		}
		st, ok := all[pid]
		if !ok {
			return false
		}
		v := isDesc(st.PPid, depth+1)
		memo[pid] = v
		return v
	}
	var out []pstat
	for pid, st := range all {
		if pid == root {
			continue
		}
		if isDesc(st.PPid, 0) {
			out = append(out, st)
		}
	}
	return out
}

// pendingFatal reports whether SIGKILL or SIGTERM is pending for pid (thread or process level).
// A process that is alive with no such signal pending has not been signalled: it is a survivor, not a
// process that merely has not been scheduled yet to die.
func pendingFatal(pid int) bool {
	b, err := os.ReadFile("/proc/" + strconv.Itoa(pid) + "/status")
	if err != nil {
		return false
	}
	var mask uint64
	for _, line := range strings.Split(string(b), "\n") {
		if strings.HasPrefix(line, "SigPnd:") || strings.HasPrefix(line, "ShdPnd:") {
			v, _ := strconv.ParseUint(strings.TrimSpace(line[7:]), 16, 64)
			mask |= v
		}
	}
	const kill = 1 << (9 - 1)
	const term = 1 << (15 - 1)
	return mask&(kill|term) != 0
}

// stillSame reports whether (pid,starttime) still names a process that is not a zombie.
func stillSame(pid int, start uint64) (pstat, bool) {
	st, ok := readStat(pid)
	if !ok || st.StartTime != start || !st.alive() {
		return st, false
	}
	return st, true
}

// killIdentity sends sig to (pid,starttime) through a pidfd so that a recycled pid is never hit.
func killIdentity(pid int, start uint64, sig unix.Signal) bool {
	fd, err := unix.PidfdOpen(pid, 0)
	if err != nil {
		return false
	}
	defer unix.Close(fd)
	st, ok := readStat(pid)
	if !ok || st.StartTime != start {
		return false
	}
	return unix.PidfdSendSignal(fd, sig, nil, 0) == nil
}

func cmdline(pid int) string {
	b, err := os.ReadFile("/proc/" + strconv.Itoa(pid) + "/cmdline")
	if err != nil {
		return ""
	}
	return string(bytes.ReplaceAll(b, []byte{0}, []byte{' '}))
}

// isThreadGroupLeader: /proc/<n>/stat also exists for thread ids; a process has Tgid == Pid.
func isThreadGroupLeader(pid int) bool {
	b, err := os.ReadFile("/proc/" + strconv.Itoa(pid) + "/status")
	if err != nil {
		return false
	}
	for _, line := range strings.Split(string(b), "\n") {
		if strings.HasPrefix(line, "Tgid:") {
			v, _ := strconv.Atoi(strings.TrimSpace(line[5:]))
			return v == pid
		}
	}
	return false
}
