package main

import (
	"fmt"
	"math/rand/v2"

	"verif/internal/vrun"
)

// caseSpec is one case: how the command is started, how it is stopped, the process tree it builds and
// the instant of the stop.
type caseSpec struct {
	Index      int    `json:"index"`
	Start      string `json:"start"`       // Execute | Start | Supervisor
	Stop       string `json:"stop"`        // context-cancel | context-deadline | Cancel | Stop | Restart
	ShapeClass string `json:"shape_class"` // see shapeClasses
	Shape      *node  `json:"shape"`
	ShapeText  string `json:"shape_text"`
	Anchor     string `json:"anchor"`   // call | ready | create (deadline: measured from the creation of the context)
	DelayMs    int    `json:"delay_ms"` // stop issued DelayMs after the anchor
	Pipes      string `json:"pipes"`    // "held by descendant" | "released by descendants"
	Directed   bool   `json:"directed,omitempty"`
	// Launcher: "" | "removed before the stop": the command is started through a link which is deleted once the
	// tree is ready (a launcher script cleaned up, a tool replaced by an upgrade): the running processes do not care.
	Launcher string `json:"launcher,omitempty"`
	// SlowStartLogMs > 0: the caller's log sink takes that long to record "Started process [pid]"; the stop is
	// requested DelayMs after the sink has been handed that announcement (anchor "announced"), Start() still running.
	SlowStartLogMs int `json:"slow_start_log_ms,omitempty"`
	// DoubleStart: Start() (documented idempotent) is called by two goroutines at the same moment
	DoubleStart bool `json:"start_called_twice_at_once,omitempty"`
}

func (c caseSpec) canonical() string {
	s := fmt.Sprintf("start=%s stop=%s class=%s shape=%s at=%s+%dms", c.Start, c.Stop, c.ShapeClass, c.ShapeText, c.Anchor, c.DelayMs)
	if c.Launcher != "" {
		s += " launcher=" + c.Launcher
	}
	if c.SlowStartLogMs > 0 {
		s += fmt.Sprintf(" slow-start-log=%dms", c.SlowStartLogMs)
	}
	if c.DoubleStart {
		s += " start-called-twice-at-once"
	}
	return s
}

type combo struct{ start, stop string }

// Stop()/Restart() are documented as "to be used in combination with Start" (executor.go), and the
// supervisor owns its Subprocess: those combinations are outside the documented use and not judged.
var combos = []combo{
	{"Execute", "context-cancel"}, {"Execute", "context-deadline"}, {"Execute", "Cancel"},
	{"Start", "context-cancel"}, {"Start", "context-deadline"}, {"Start", "Cancel"}, {"Start", "Stop"}, {"Start", "Restart"},
	{"Supervisor", "context-cancel"}, {"Supervisor", "context-deadline"},
}

var shapeClasses = []string{
	"single process",
	"chain",
	"fan",
	"background child holding pipes",
	"double-fork daemon in group",
	"TERM-ignoring leaves",
	"parent exits first",
	"leader execs another program",
}

const randomClass = "random tree"

var deadlinesMs = []int{1, 5, 20, 100, 400, 1000, 2000}

func leaf(f string) *node { return &node{F: f} }

func chain(n int, leafFlags string) *node {
	cur := leaf(leafFlags)
	for i := 1; i < n; i++ {
		cur = &node{K: []*node{cur}}
	}
	return &node{K: []*node{cur}}
}

// exemptBranch is a setsid()'ed child with a child of its own: both leave the group (and the session)
// and are don't-care for the property. They never hold the pipes (a survivor that legitimately holds
// the pipes is a region the property statement does not settle).
func exemptBranch() *node { return &node{F: "s", K: []*node{leaf("")}} }

func buildShape(class string, rng *rand.Rand, start string) *node {
	var root *node
	switch class {
	case "single process":
		return &node{}
	case "chain":
		root = chain(1+rng.IntN(4), "")
	case "fan":
		root = &node{}
		for i, n := 0, 1+rng.IntN(6); i < n; i++ {
			root.K = append(root.K, leaf(""))
		}
	case "background child holding pipes":
		// `cmd &` style: the root starts 1..3 children that keep stdout/stderr; sometimes the holder is
		// a grandchild
		root = &node{}
		n := 1 + rng.IntN(3)
		for i := 0; i < n; i++ {
			if i > 0 && rng.IntN(3) == 0 {
				root.K = append(root.K, leaf(""))
			} else if rng.IntN(3) == 0 {
				root.K = append(root.K, &node{K: []*node{leaf("h")}})
			} else {
				root.K = append(root.K, leaf("h"))
			}
		}
	case "leader execs another program":
		// a launcher: starts helpers, then replaces itself by the real program (its name changes, its pid does not)
		root = &node{F: "e"}
		for i, n := 0, 1+rng.IntN(3); i < n; i++ {
			k := leaf("")
			if rng.IntN(3) == 0 {
				k = leaf("h")
			}
			if rng.IntN(4) == 0 {
				k.F += "e"
			}
			root.K = append(root.K, k)
		}
	case "double-fork daemon in group":
		// root -> intermediate that exits -> daemon (orphaned, still in the group)
		d := leaf("")
		if rng.IntN(2) == 0 {
			d = leaf("h")
		}
		if rng.IntN(3) == 0 {
			d.K = []*node{leaf("")}
		}
		root = &node{K: []*node{{F: "x", K: []*node{d}}}}
		if rng.IntN(2) == 0 {
			root.K = append(root.K, leaf(""))
		}
	case "TERM-ignoring leaves":
		if rng.IntN(2) == 0 {
			root = chain(1+rng.IntN(3), "i")
		} else {
			root = &node{}
			for i, n := 0, 1+rng.IntN(4); i < n; i++ {
				f := "i"
				if i > 0 && rng.IntN(3) == 0 {
					f = ""
				}
				root.K = append(root.K, leaf(f))
			}
		}
		if rng.IntN(3) == 0 {
			root.F = "i"
		}
	case "parent exits first":
		// the command itself exits while its children go on. Under Execute / the supervisor the call is
		// still in progress only when a child keeps the pipes, so there a holder is always present.
		root = &node{F: "x"}
		n := 1 + rng.IntN(3)
		for i := 0; i < n; i++ {
			f := ""
			if (i == 0 && start != "Start") || rng.IntN(2) == 0 {
				f = "h"
			}
			c := leaf(f)
			if rng.IntN(3) == 0 {
				c.K = []*node{leaf("")}
			}
			root.K = append(root.K, c)
		}
	case randomClass:
		budget := 1 + rng.IntN(7)
		root = &node{}
		var grow func(n *node, depth int)
		grow = func(n *node, depth int) {
			for budget > 0 && depth < 4 && rng.IntN(3) != 0 {
				budget--
				c := &node{}
				if rng.IntN(4) == 0 {
					c.F += "h"
				}
				if rng.IntN(4) == 0 {
					c.F += "i"
				}
				n.K = append(n.K, c)
				grow(c, depth+1)
				if len(c.K) > 0 && rng.IntN(4) == 0 {
					c.F += "x"
				}
			}
		}
		grow(root, 0)
		if len(root.K) == 0 {
			root.K = append(root.K, leaf(""))
		}
	}
	if class != randomClass && rng.IntN(4) == 0 {
		root.K = append(root.K, exemptBranch())
	} else if class == randomClass && rng.IntN(3) == 0 {
		root.K = append(root.K, exemptBranch())
	}
	return root
}

// holdsPipes: does a non-root node that stays in the group keep the inherited pipes?
func holdsPipes(n *node, isRoot bool) bool {
	if n.has('s') {
		return false
	}
	if !isRoot && n.has('h') {
		return true
	}
	for _, k := range n.K {
		if holdsPipes(k, false) {
			return true
		}
	}
	return false
}

func pickInstant(c *caseSpec, idx int, rng *rand.Rand) {
	if c.Stop == "context-deadline" {
		c.Anchor, c.DelayMs = "create", deadlinesMs[idx%len(deadlinesMs)]
		return
	}
	switch idx % 7 {
	case 0:
		c.Anchor, c.DelayMs = "call", 0
	case 1:
		c.Anchor, c.DelayMs = "call", 1
	case 2:
		c.Anchor, c.DelayMs = "call", 5
	case 3:
		c.Anchor, c.DelayMs = "ready", 0
	case 4:
		c.Anchor, c.DelayMs = "ready", 10+rng.IntN(41)
	case 5:
		c.Anchor, c.DelayMs = "ready", 50+rng.IntN(151)
	default:
		c.Anchor, c.DelayMs = "ready", 10+rng.IntN(191)
	}
}

// genCases: the case list is a pure function of (VERIF_SEED, tier).
func genCases(r *vrun.Run) []caseSpec {
	var out []caseSpec
	add := func(cb combo, class string, instant int, rng *rand.Rand) {
		c := caseSpec{Index: len(out), Start: cb.start, Stop: cb.stop, ShapeClass: class}
		c.Shape = buildShape(class, rng, cb.start)
		c.ShapeText = c.Shape.String()
		c.Pipes = "released by descendants"
		if holdsPipes(c.Shape, true) {
			c.Pipes = "held by descendant"
		}
		pickInstant(&c, instant, rng)
		if class == "leader execs another program" {
			// the hand-over to the other program follows the announcement of readiness: stop once it has happened
			c.Anchor, c.DelayMs = "ready", 40+rng.IntN(120)
		}
		out = append(out, c)
	}
	// Directed cases, present in every run (every seed, both tiers), first in the list so that their wait
	// for the bound G overlaps with the rest: the command exits at once while one background child keeps
	// the pipes, the call is still in progress, the context is cancelled 50 ms after readiness (the root
	// has exited and been reaped by then). They exercise the classes recorded in known_findings.json.
	for _, start := range []string{"Execute", "Supervisor"} {
		c := caseSpec{Index: len(out), Start: start, Stop: "context-cancel", ShapeClass: "parent exits first",
			Shape: &node{F: "x", K: []*node{leaf("h")}}, Anchor: "ready", DelayMs: 50, Pipes: "held by descendant", Directed: true}
		c.ShapeText = c.Shape.String()
		out = append(out, c)
	}
	// the executable the command was started from is no longer there when the stop is requested
	for i, cb := range []combo{{"Start", "Stop"}, {"Start", "context-cancel"}, {"Start", "Cancel"}, {"Execute", "context-cancel"}, {"Execute", "Cancel"}} {
		rng := r.Rand("c05-launcher", i)
		class := []string{"fan", "chain", "background child holding pipes"}[(i+int(r.Seed))%3]
		c := caseSpec{Index: len(out), Start: cb.start, Stop: cb.stop, ShapeClass: class, Anchor: "ready", DelayMs: 10 + rng.IntN(100), Launcher: "removed before the stop"}
		c.Shape = buildShape(class, rng, cb.start)
		c.ShapeText = c.Shape.String()
		c.Pipes = "released by descendants"
		if holdsPipes(c.Shape, true) {
			c.Pipes = "held by descendant"
		}
		out = append(out, c)
	}
	// the stop arrives while Start() is still recording its announcement through a slow sink
	for i, stop := range []string{"Stop", "Cancel", "context-cancel"} {
		rng := r.Rand("c05-slow-start", i)
		class := []string{"fan", "chain", "background child holding pipes", "TERM-ignoring leaves"}[(i+int(r.Seed))%4]
		c := caseSpec{Index: len(out), Start: "Start", Stop: stop, ShapeClass: class, Anchor: "announced", DelayMs: rng.IntN(200), SlowStartLogMs: 400}
		c.Shape = buildShape(class, rng, "Start")
		c.ShapeText = c.Shape.String()
		c.Pipes = "released by descendants"
		if holdsPipes(c.Shape, true) {
			c.Pipes = "held by descendant"
		}
		out = append(out, c)
	}
	// Start() called by two goroutines at the same moment, then stopped
	for i, stop := range []string{"Restart", "Stop", "Cancel", "context-cancel", "Restart", "Restart", "Restart"} {
		rng := r.Rand("c05-double-start", i)
		class := []string{"fan", "chain", "single process", "background child holding pipes"}[(i+int(r.Seed))%4]
		c := caseSpec{Index: len(out), Start: "Start", Stop: stop, ShapeClass: class, Anchor: "ready", DelayMs: 20 + rng.IntN(100), DoubleStart: true}
		c.Shape = buildShape(class, rng, "Start")
		c.ShapeText = c.Shape.String()
		c.Pipes = "released by descendants"
		if holdsPipes(c.Shape, true) {
			c.Pipes = "held by descendant"
		}
		out = append(out, c)
	}
	// a longer history: Start, Restart, and only then the end of the context
	for i, stop := range []string{"Restart+context-cancel", "Restart+Cancel"} {
		rng := r.Rand("c05-restart-then", i)
		class := []string{"fan", "chain", "single process"}[(i+int(r.Seed))%3]
		c := caseSpec{Index: len(out), Start: "Start", Stop: stop, ShapeClass: class, Anchor: "ready", DelayMs: rng.IntN(100)}
		c.Shape = buildShape(class, rng, "Start")
		c.ShapeText = c.Shape.String()
		c.Pipes = "released by descendants"
		if holdsPipes(c.Shape, true) {
			c.Pipes = "held by descendant"
		}
		out = append(out, c)
	}
	if r.Quick() {
		// every start x stop combination on every shape class; the instants rotate so that each
		// combination and each class meets every instant class
		for ci, cb := range combos {
			for si, class := range shapeClasses {
				rng := r.Rand("c05-quick", ci*len(shapeClasses)+si)
				add(cb, class, ci+si+int(r.Seed%7+7), rng)
			}
		}
		return out
	}
	classes := append(append([]string{}, shapeClasses...), randomClass, randomClass)
	for i := 0; i < 1500; i++ {
		rng := r.Rand("c05-thorough", i)
		cb := combos[rng.IntN(len(combos))]
		class := classes[rng.IntN(len(classes))]
		add(cb, class, rng.IntN(7), rng)
		if c := &out[len(out)-1]; c.Anchor == "ready" && c.Stop != "Restart" && c.Start != "Supervisor" && rng.IntN(5) == 0 {
			c.Launcher = "removed before the stop"
		}
		if c := &out[len(out)-1]; c.Start == "Start" && c.Launcher == "" && (c.Stop == "Stop" || c.Stop == "Cancel" || c.Stop == "context-cancel") && rng.IntN(6) == 0 {
			c.Anchor, c.DelayMs, c.SlowStartLogMs = "announced", rng.IntN(250), 300+rng.IntN(300)
		}
		if c := &out[len(out)-1]; c.Start == "Start" && c.Launcher == "" && c.SlowStartLogMs == 0 && c.Anchor == "ready" && rng.IntN(6) == 0 {
			c.DoubleStart = true
		}
		if c := &out[len(out)-1]; c.Start == "Start" && c.Launcher == "" && c.SlowStartLogMs == 0 && !c.DoubleStart && c.Anchor == "ready" && c.Stop == "context-cancel" && rng.IntN(4) == 0 {
			c.Stop = []string{"Restart+context-cancel", "Restart+Cancel"}[rng.IntN(2)]
		}
	}
	return out
}
