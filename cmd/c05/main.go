// C05 — cancelling a subprocess terminates its whole process tree, promptly.
//
// One binary, three modes:
//
//	coordinator (default)            generates the cases, runs one HARNESS process per case in parallel,
//	                                 judges the recorded observations, cleans up, writes the evidence;
//	harness (VERIF_C05_MODE=harness) child sub-reaper; drives the library (Execute / Start / supervisor)
//	                                 on a command that is this binary in ptree mode, issues the stop
//	                                 (context cancel, deadline, Cancel, Stop, Restart) at the instant
//	                                 of the case and observes /proc;
//	ptree (argv[1]=--c05-ptree)      builds the process tree of the case; every node registers
//	                                 (pid, pgid, sid, starttime) before the root announces readiness.
//
// Oracle (from the property statement): once the stop is over — Execute / Stop / Restart / supervisor
// Run returned, or for Start + asynchronous stop IsOn() turned false — every process of the tree that
// is still in the child's process group must be dead (gone or zombie; identity = pid+starttime) and
// IsOn() must be false. "Returns within a bounded time rather than waiting for surviving descendants"
// is decided causally, never by a stopwatch: when the stop is not over after G = 15 s although every
// node is configured to live 600 s, the harness kills the survivors itself; the stop being over within
// 2 s after that kill (and not before it) shows that it was waiting for them.
package main

import (
	"encoding/json"
	"fmt"
	"os"
	"os/exec"
	"path/filepath"
	"strings"
	"sync"
	"syscall"
	"time"

	"golang.org/x/sys/unix"

	"verif/internal/vrun"
)

func main() {
	if len(os.Args) > 1 && os.Args[1] == ptreeArg {
		ptreeMain(os.Args[2:])
		return
	}
	if os.Getenv("VERIF_C05_MODE") == "harness" {
		harnessMain()
		return
	}
	coordinator()
}

func coordinator() {
	r := vrun.Start("C05", "exploration")
	r.Rule("every run starts with 2 directed cases (Execute and supervisor on tree x[h]: the command exits while a background child holds the pipes; context cancel 50 ms after readiness). " +
		"quick: every documented start x stop combination (Execute x {context cancel, deadline, Cancel}; Start x {context cancel, deadline, Cancel, Stop, Restart}; " +
		"supervisor x {context cancel, deadline}) on every shape class (single process, chain 1..4, fan 1..6, background children holding the pipes, " +
		"double-fork daemon inside the group, TERM-ignoring leaves, parent exiting first), shape parameters and an optional setsid()'ed (exempt) branch drawn from " +
		"Rand(seed, case); the stop instant rotates over {0, 1, 5 ms after the call, at readiness, 10..200 ms after readiness} (deadlines: 1 ms..2 s from context creation). " +
		"thorough: 1500 random combinations incl. random trees. A case is non-trivial when at the stop request the call was still in progress and at least one process of " +
		"the tree had been spawned (registered itself or was seen in /proc); distinct = distinct (start, stop, shape, instant).")
	r.Assume(
		"Linux /proc/<pid>/stat (state, ppid, pgrp, session, starttime) and /proc/<pid>/status (SigPnd/ShdPnd) are truthful; identity of a process is (pid, starttime)",
		"PR_SET_CHILD_SUBREAPER re-parents every orphan of the tree to the harness, so a process of the tree that never registered is still found by ancestry",
		"the nodes of a tree never change their process group except through setsid(): a process is 'still in the child's process group' when it is a descendant of the harness that is still in the harness' session; setsid()'ed nodes and their children are exempt and never hold the pipes",
		"Stop()/Restart() during Execute or on a supervised Subprocess are outside the documented use ('should be used in combination with Start') and are not exercised",
		"a stop request that finds the call already returned (command ended by itself) demands nothing",
		"wall-clock bounds (G=15 s, 2 s causal window, 5 s for signalled processes to die) only select which structural witness is looked for; exceeding one without witness is inconclusive",
	)

	self, err := os.Executable()
	if err != nil {
		r.Fatalf("executable: %v", err)
	}
	scratch := vrun.Scratch("c05")
	defer os.RemoveAll(scratch)

	var cases []caseSpec
	if r.Replay != "" {
		var w result
		if err := r.ReadReplay(&w); err != nil {
			r.Fatalf("replay: %v", err)
		}
		w.Case.Index = 0
		cases = []caseSpec{w.Case}
	} else {
		cases = genCases(r)
	}
	workers := r.Pick(28, 32)
	var mu sync.Mutex
	sweptTotal := 0
	vrun.Parallel(len(cases), workers, func(i int) {
		res, swept := runCase(self, scratch, cases[i])
		mu.Lock()
		sweptTotal += swept
		mu.Unlock()
		judge(r, cases[i], res)
	})
	r.Obs("processes_swept_by_coordinator_after_harness", int64(sweptTotal))

	// nothing of any case may be left running
	left := sweep(scratch)
	if left > 0 {
		time.Sleep(300 * time.Millisecond)
		if again := sweep(scratch); again > 0 {
			_ = os.RemoveAll(scratch)
			r.Fatalf("%d ptree processes survived the final sweep", again)
		}
	}
	r.Obs("ptree_processes_found_by_final_sweep", int64(left))
	_ = os.RemoveAll(scratch)

	if r.Replay == "" {
		r.Require("start_x_stop", int64(len(combos)))
		r.Require("shape_class", int64(len(shapeClasses)))
		r.Require("phase_at_stop", 2)
		r.Require("directed_cases_precondition_met", 2)
		r.Require("cases_tree_alive_at_stop", int64(r.Pick(25, 600)))
		r.Require("descendants_judged", int64(r.Pick(60, 1500)))
		r.Require("ison_checks", int64(r.Pick(20, 400)))
		r.Require("cases_stop_over_by_itself", int64(r.Pick(20, 400)))
	}
	r.Finish()
}

// runCase runs one harness process and returns its result (nil = harness failure).
func runCase(self, scratch string, cs caseSpec) (*result, int) {
	dir := filepath.Join(scratch, fmt.Sprintf("case-%05d", cs.Index))
	_ = os.MkdirAll(dir, 0o755)
	registry := filepath.Join(dir, "registry")
	resPath := filepath.Join(dir, "result.json")
	spec, _ := json.Marshal(cs)
	cmd := exec.Command(self)
	cmd.Env = append(os.Environ(), "VERIF_C05_MODE=harness", "VERIF_C05_CASE="+string(spec), "VERIF_C05_RESULT="+resPath, "VERIF_C05_REGISTRY="+registry)
	errFile, _ := os.Create(filepath.Join(dir, "stderr"))
	cmd.Stdout, cmd.Stderr = errFile, errFile
	cmd.SysProcAttr = &syscall.SysProcAttr{Setpgid: true}
	var res *result
	if err := cmd.Start(); err == nil {
		waited := make(chan struct{})
		go func() { _ = cmd.Wait(); close(waited) }()
		select {
		case <-waited:
		case <-time.After(boundG + boundCausal + boundAfter + boundGrace + boundReady + 60*time.Second):
			_ = cmd.Process.Kill() // harness watchdog: never a verdict
			<-waited
		}
		if b, err := os.ReadFile(resPath); err == nil {
			var x result
			if json.Unmarshal(b, &x) == nil {
				res = &x
			}
		}
	}
	if errFile != nil {
		errFile.Close()
	}
	if res == nil {
		if b, _ := os.ReadFile(filepath.Join(dir, "stderr")); len(b) > 0 {
			if len(b) > 2000 {
				b = b[:2000]
			}
			fmt.Fprintf(os.Stderr, "case %d: harness produced no result: %s\n", cs.Index, b)
		}
	}
	_ = os.Remove(registry)
	swept := sweep(registry)
	_ = os.RemoveAll(dir)
	return res, swept
}

// sweep kills every ptree process whose command line mentions needle (a registry path / the scratch
// directory of this run) and returns how many it found.
func sweep(needle string) int {
	n := 0
	me := os.Getpid()
	for pid, st := range scanAll() {
		if pid == me || !st.alive() {
			continue
		}
		cl := cmdline(pid)
		if strings.Contains(cl, ptreeArg) && strings.Contains(cl, needle) {
			if killIdentity(pid, st.StartTime, unix.SIGKILL) {
				n++
			}
		}
	}
	return n
}

var dumpMu sync.Mutex

func instantClass(cs caseSpec) string {
	switch {
	case cs.Anchor == "create":
		return fmt.Sprintf("deadline %d ms after context creation", cs.DelayMs)
	case cs.Anchor == "call":
		return fmt.Sprintf("%d ms after the call", cs.DelayMs)
	case cs.Anchor == "announced":
		return "while Start() is still recording its announcement"
	case cs.DelayMs == 0:
		return "at readiness"
	case cs.DelayMs <= 50:
		return "10..50 ms after readiness"
	}
	return "51..200 ms after readiness"
}

func summarize(s []survivor) string {
	parts := []string{}
	for _, x := range s {
		if x.PendingFatal {
			continue
		}
		id := x.ID
		if id == "" {
			id = "unregistered"
		}
		parts = append(parts, fmt.Sprintf("node %s(flags %q) pid %d state %s", id, x.Flags, x.Pid, x.State))
	}
	return strings.Join(parts, "; ")
}

func unsignalled(s []survivor) (n int) {
	for _, x := range s {
		if !x.PendingFatal {
			n++
		}
	}
	return
}

// judge turns the observations of one case into the three-valued verdict.
func judge(r *vrun.Run, cs caseSpec, res *result) {
	canon := cs.canonical()
	if p := os.Getenv("VERIF_C05_DUMP"); p != "" && res != nil { // development aid
		b, _ := json.Marshal(res)
		dumpMu.Lock()
		if f, err := os.OpenFile(p, os.O_CREATE|os.O_APPEND|os.O_WRONLY, 0o644); err == nil {
			_, _ = f.Write(append(b, '\n'))
			f.Close()
		}
		dumpMu.Unlock()
	}
	if res == nil {
		r.Case(canon, false)
		r.Inconclusive("harness produced no result (watchdog or crash)")
		return
	}
	r.Obs("cleanup_processes_killed_by_harness", int64(res.CleanupKilled))
	if res.Leftover > 0 {
		r.Obs("harness_cleanup_leftovers", int64(res.Leftover))
	}
	if res.DeadlockReports > 0 {
		r.Obs("go_deadlock_reports", int64(res.DeadlockReports))
	}
	if len(res.Errors) > 0 {
		r.Case(canon, false)
		r.Inconclusive("harness: " + res.Errors[0])
		return
	}
	if res.Vacuous != "" {
		r.Case(canon, false)
		r.Obs("cases_vacuous_no_running_subprocess_at_stop", 1)
		return
	}
	nontrivial := res.LiveInGroupAtStop > 0 || res.RegisteredAtStop > 0
	r.Case(canon, nontrivial)
	if cs.Directed && nontrivial && res.RootExitedAtStop && res.IsOnAtStop {
		r.Obs("directed_cases_precondition_met", 1)
	}
	if r.WantSample() && nontrivial {
		r.Sample(map[string]any{"case": canon, "phase": res.Phase, "awaited": res.Awaited, "returned_by_itself": res.Returned,
			"live_in_group_at_stop": res.LiveInGroupAtStop, "descendants_judged": res.DescendantsJudged, "survivors": len(res.Survivors) + len(res.SurvivorsAtG),
			"ison_after": res.IsOnAfter, "exempt_alive_after": res.ExemptAliveAfter})
	}
	r.ObsSet("start_x_stop", cs.Start+" x "+cs.Stop)
	r.ObsSet("shape_class", cs.ShapeClass)
	r.ObsSet("phase_at_stop", res.Phase)
	r.ObsSet("instant", instantClass(cs))
	r.ObsSet("awaited", res.Awaited)
	if cs.Launcher != "" {
		r.Obs("cases_whose_executable_was_removed_before_the_stop", 1)
	}
	if cs.DoubleStart {
		r.Obs("cases_started_by_two_concurrent_Start_calls", 1)
	}
	if res.StartInProgressAtStop {
		r.Obs("cases_stopped_while_Start_was_still_in_progress", 1)
	}
	if strings.HasPrefix(cs.Stop, "Restart+") {
		r.Obs("cases_restarted_before_the_context_ended", 1)
	}
	if nontrivial {
		r.Obs("cases_tree_alive_at_stop", 1)
	}
	if res.IsOnAtStop {
		r.Obs("cases_ison_true_at_stop", 1)
	}
	if res.RootExitedAtStop {
		r.Obs("cases_root_already_exited_at_stop", 1)
	}
	r.Obs("descendants_judged", int64(res.DescendantsJudged))
	r.Obs("exempt_setsid_processes_alive_after_stop_ignored", int64(res.ExemptAliveAfter))
	r.Obs("new_generation_processes_after_restart_ignored", int64(res.NewGeneration))
	r.Obs("log_lines_seen", res.LogLines)
	if res.RegistryOnly > 0 {
		r.Obs("survivors_found_by_registry_only", int64(res.RegistryOnly))
	}
	if res.IsOnChecked {
		r.Obs("ison_checks", 1)
	}

	root := "running at stop"
	if res.RootExitedAtStop {
		root = "exited before stop"
	}
	stopClass := "context end (cancel, deadline, Cancel())"
	if cs.Stop == "Stop" || cs.Stop == "Restart" {
		stopClass = "Stop()/Restart()"
	}
	isOnAtStop := "true"
	if !res.IsOnAtStop {
		isOnAtStop = "false"
	}
	sig := func(effect string) vrun.Sig {
		return vrun.Sig{"start": cs.Start, "stop": cs.Stop, "stop-class": stopClass, "shape-class": cs.ShapeClass, "pipes": cs.Pipes, "root": root,
			"ison-at-stop": isOnAtStop, "effect": effect}
	}
	where := fmt.Sprintf("%s + %s, tree %s (%s), stop at %s+%dms [%s, IsOn()=%v at the stop]", cs.Start, cs.Stop, cs.ShapeText, cs.ShapeClass, cs.Anchor, cs.DelayMs, res.Phase, res.IsOnAtStop)

	if res.Returned {
		r.Obs("cases_stop_over_by_itself", 1)
		r.ObsMax("max_return_ms_informational", res.ReturnMs)
		switch {
		case len(res.Survivors) > 0 && res.KillInProgress:
			r.Inconclusive("survivors while a library kill was still in progress")
		case len(res.Survivors) > 0:
			r.Obs("violating_observations", 1)
			r.Violation(sig("descendant survived"),
				fmt.Sprintf("%s: %s was over but %d process(es) of the group are alive with no signal pending: %s", where, res.Awaited, len(res.Survivors), summarize(res.Survivors)), res)
		}
		if res.SurvivorsPending > 0 {
			r.Inconclusive("signalled processes not dead within the grace period")
		}
	} else if res.NotReturnedAtG {
		r.Obs("cases_stop_not_over_at_G", 1)
		n := unsignalled(res.SurvivorsAtG)
		switch {
		case res.ReturnedAfterOurKill:
			r.Obs("violating_observations", 1)
			eff := "call waited for survivor"
			if res.Awaited == "IsOn()==false" {
				eff = "IsOn stayed true until survivor was killed"
			}
			r.Violation(sig(eff),
				fmt.Sprintf("%s: %s not over after G; over %d ms after the monitor killed the %d surviving process(es) itself: %s", where, res.Awaited, res.AfterKillMs, len(res.SurvivorsAtG), summarize(res.SurvivorsAtG)), res)
			if n > 0 {
				r.Violation(sig("descendant survived"),
					fmt.Sprintf("%s: %d process(es) of the group alive with no signal pending while %s was waiting for them: %s", where, n, res.Awaited, summarize(res.SurvivorsAtG)), res)
			}
		case res.NeverReturned && res.StuckStructural:
			r.Obs("violating_observations", 1)
			eff := "call never returned"
			if res.Awaited == "IsOn()==false" {
				eff = "IsOn stayed true after the tree was dead"
			}
			r.Violation(sig(eff),
				fmt.Sprintf("%s: %s still not over although the whole group is dead; %s", where, res.Awaited, res.StuckState), res)
		case res.NeverReturned:
			r.Inconclusive("stop not over after the tree was dead, no structural witness")
		default:
			r.Inconclusive("stop over late, not attributable to the survivors")
		}
	} else if res.LateReturn {
		r.Inconclusive("stop over just after G by itself")
	}
	if res.IsOnChecked && res.IsOnAfter {
		if res.IsOnStructural {
			r.Obs("violating_observations", 1)
			r.Violation(sig("IsOn true after stop"), fmt.Sprintf("%s: IsOn() is still true after %s was over and the library is quiescent", where, res.Awaited), res)
		} else {
			r.Inconclusive("IsOn true after stop while library goroutines were still runnable")
		}
	}
}
