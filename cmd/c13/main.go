// C13 — loggers are goroutine-safe and lose nothing.
//
// The program (built with -race) is a coordinator which re-executes ITSELF as a child process once per
// logger configuration × repetition (env C13_CHILD=<case JSON>, GORACE="halt_on_error=0 log_path=..."
// so that a data race neither aborts the child nor is lost). A child builds ONE logger configuration
// with an observable sink, runs P concurrent producers mixing Log / LogError (and on some producers
// SetLogSource / SetLoggerSource / Append / AppendLogger), waits for them (asynchronous loggers: waits
// for quiescence, BEFORE Close), parses the sink back into message ids and judges:
//
//	every produced id exactly as often as from a single goroutine (never lost, never duplicated);
//	every sink line carries at most one id, complete with payload and CRC (never truncated/interleaved);
//	composites: every member has every message;
//	ring-buffered loggers: produced − delivered ≤ reported dropped;
//
// and the coordinator counts the race detector's reports whose access stacks pass through
// /repo/utils/logs.
package main

import (
	"context"
	"encoding/json"
	"fmt"
	"os"
	"os/exec"
	"path/filepath"
	"sort"
	"strings"
	"sync"
	"time"

	"verif/internal/vrun"
)

var simpleCtors = []string{
	"string", "plainstring", "std", "pipe", "file", "fileonly", "json", "json-std", "json-multiwriter", "json-multiwriter-faulty-first", "json-multiwriter-faulty-first",
	"logr-stdr", "logr-stdout", "logr-quiet", "zap", "logrus-text", "logrus-json", "hclog", "hclog-json",
	"slog-text", "slog-json", "logr-from-loggers", "logr-plain-from-loggers", "hclog-wrapper",
	"quiet", "quiet-string", "noop", "multiple-default",
}

var ringSizes = []int{1, 2, 3, 8, 64, 1024}

func buildCases(r *vrun.Run, scratch string) []Case {
	reps := r.Pick(4, 20)
	total := r.Pick(3200, 12000) // messages per child, split over the producers
	quickP := []int{2, 4, 8, 8, 8, 16, 32}
	thorP := []int{2, 3, 4, 5, 8, 8, 12, 16, 24, 32, 32}
	var cases []Case
	add := func(c Case) {
		c.Idx = len(cases)
		rng := r.Rand("c13-case", c.Idx)
		ps := quickP
		if !r.Quick() {
			ps = thorP
		}
		c.P = ps[rng.IntN(len(ps))]
		if c.Rep == 0 {
			c.P = 8
		}
		t := total
		if c.Slow || len(c.Members)+len(c.Appends) > 2 {
			t = total / 2
		}
		if c.PaceEvery == 1 {
			t = total / 4
		}
		c.N = t / c.P
		c.Procs = []int{2, 4, 4, 8}[rng.IntN(4)]
		c.Seed = r.Seed*1000003 + int64(c.Idx)
		c.Dir = filepath.Join(scratch, fmt.Sprintf("case%04d", c.Idx))
		cases = append(cases, c)
	}
	for rep := 0; rep < reps; rep++ {
		for _, ct := range simpleCtors {
			add(Case{Ctor: ct, Rep: rep, SetSrc: rep%3 != 1})
		}
		// composites of 1..4 recording members
		for ci, ct := range []string{"multiple", "combined"} {
			rng := r.Rand("c13-members", rep*2+ci)
			m := (rep+3*ci)%4 + 1
			var ms []string
			for i := 0; i < m; i++ {
				ms = append(ms, memberKinds[rng.IntN(len(memberKinds))])
			}
			add(Case{Ctor: ct, Rep: rep, Members: ms, SetSrc: rep%3 != 1})
			// ... and with members appended while the producers run
			kinds := append(append([]string{}, memberKinds...), "logr", "logr")
			n0 := 1 + rng.IntN(2)
			n1 := 1 + rng.IntN(5)
			var m0, m1 []string
			for i := 0; i < n0; i++ {
				m0 = append(m0, memberKinds[rng.IntN(len(memberKinds))])
			}
			for i := 0; i < n1; i++ {
				m1 = append(m1, kinds[rng.IntN(len(kinds))])
			}
			add(Case{Ctor: ct, Rep: rep, Members: m0, Appends: m1, SetSrc: rep%3 == 0})
		}
		// composites built from a caller's slice with spare capacity, then appended to on both sides
		for si, sh := range []struct{ ctor, hist string }{{"combined", "caller-append"}, {"combined", "second-composite"},
			{"multiple", []string{"caller-append", "second-composite"}[rep%2]}} {
			rng := r.Rand("c13-shared", rep*3+si)
			n := (rep+si)%3 + 1
			var ms []string
			for i := 0; i < n; i++ {
				ms = append(ms, memberKinds[rng.IntN(len(memberKinds))])
			}
			ap := []string{memberKinds[rng.IntN(len(memberKinds))], memberKinds[rng.IntN(len(memberKinds))]}
			add(Case{Ctor: sh.ctor, Rep: rep, Members: ms, Appends: ap, Shared: sh.hist, SetSrc: rep%2 == 1})
		}
	}
	// ring-buffered asynchronous loggers: ring sizes × slow/fast sink, poller and waiter
	polls := []int{0, 500, 2000, 10000}
	// producer pacing {pause µs, every n messages}: saturating (huge drop batches), nearly keeping up (single drops), keeping up (no drop)
	paces := [][2]int{{0, 1}, {1000, 1}, {300, 16}, {3000, 1}, {2000, 16}}
	areps := r.Pick(2, 8)
	for rep := 0; rep < areps; rep++ {
		for ri, ring := range ringSizes {
			for si, slow := range []bool{false, true} {
				rng := r.Rand("c13-async", (rep*len(ringSizes)+ri)*2+si)
				pc := paces[(rep*3+ri*2+si)%len(paces)]
				add(Case{Ctor: "async", Rep: rep, Ring: ring, Slow: slow, PollUS: polls[rng.IntN(len(polls))], PaceUS: pc[0], PaceEvery: pc[1], SetSrc: rng.IntN(2) == 0})
			}
			rng := r.Rand("c13-jsonslow", rep*len(ringSizes)+ri)
			pc := paces[(rep*3+ri*2+3)%len(paces)]
			add(Case{Ctor: "json-slow", Rep: rep, Ring: ring, Slow: (ri+rep)%2 == 0, PollUS: polls[rng.IntN(len(polls))], PaceUS: pc[0], PaceEvery: pc[1], SetSrc: rng.IntN(2) == 0})
		}
		add(Case{Ctor: "async-std", Rep: rep, Ring: []int{8, 64, 1024}[rep%3], PollUS: polls[1+rep%3], SetSrc: false})
	}
	return cases
}

func (c Case) label() string {
	l := c.Ctor
	if c.Shared != "" {
		return l + "+shared-slice:" + c.Shared
	}
	if len(c.Appends) > 0 {
		l += "+append"
	}
	return l
}

type outcome struct {
	res     *Result
	races   []raceReport
	files   int
	timeout bool
	crash   string // stderr tail when the child died without a result
	err     string
}

func runChildProcess(self string, c Case, timeout time.Duration) outcome {
	var o outcome
	if err := os.MkdirAll(c.Dir, 0o755); err != nil {
		o.err = err.Error()
		return o
	}
	spec, _ := json.Marshal(c)
	so, err1 := os.OpenFile(c.stdout(), os.O_CREATE|os.O_WRONLY|os.O_APPEND, 0o644)
	se, err2 := os.OpenFile(c.stderr(), os.O_CREATE|os.O_WRONLY|os.O_APPEND, 0o644)
	if err1 != nil || err2 != nil {
		o.err = fmt.Sprint(err1, err2)
		return o
	}
	defer so.Close()
	defer se.Close()
	ctx, cancel := context.WithTimeout(context.Background(), timeout)
	defer cancel()
	cmd := exec.CommandContext(ctx, self)
	racePrefix := filepath.Join(c.Dir, "race")
	env := []string{}
	for _, e := range os.Environ() {
		if strings.HasPrefix(e, "GORACE=") || strings.HasPrefix(e, "GOMAXPROCS=") || strings.HasPrefix(e, "C13_CHILD=") {
			continue
		}
		env = append(env, e)
	}
	cmd.Env = append(env, "C13_CHILD="+string(spec),
		"GORACE=halt_on_error=0 exitcode=0 atexit_sleep_ms=0 log_path="+racePrefix,
		fmt.Sprintf("GOMAXPROCS=%d", c.Procs))
	cmd.Stdout, cmd.Stderr = so, se
	cmd.WaitDelay = 5 * time.Second
	runErr := cmd.Run()
	o.races, o.files = readRaceLogs(racePrefix)
	if b, err := os.ReadFile(filepath.Join(c.Dir, "result.json")); err == nil {
		var res Result
		if err := json.Unmarshal(b, &res); err == nil {
			o.res = &res
			return o
		}
		o.err = "unreadable result: " + err.Error()
		return o
	}
	if ctx.Err() != nil {
		o.timeout = true
		return o
	}
	tail, _ := os.ReadFile(c.stderr())
	if i := strings.Index(string(tail), "panic:"); i >= 0 {
		tail = tail[i:]
	} else if i := strings.Index(string(tail), "fatal error:"); i >= 0 {
		tail = tail[i:]
	} else if len(tail) > 3000 {
		tail = tail[len(tail)-3000:]
	}
	if len(tail) > 6000 {
		tail = tail[:6000]
	}
	o.crash = string(tail)
	o.err = fmt.Sprintf("child died without a result: %v", runErr)
	return o
}

func runCanary(self, scratch string) int {
	dir := filepath.Join(scratch, "canary")
	_ = os.MkdirAll(dir, 0o755)
	cmd := exec.Command(self)
	prefix := filepath.Join(dir, "race")
	cmd.Env = append(os.Environ(), "C13_CHILD=canary", "GORACE=halt_on_error=0 exitcode=0 atexit_sleep_ms=0 log_path="+prefix, "GOMAXPROCS=4")
	_ = cmd.Run()
	reps, _ := readRaceLogs(prefix)
	n := 0
	for _, rr := range reps {
		if rr.Harness && strings.Contains(rr.Frames, "main.canaryMain") {
			n++
		}
	}
	return n
}

type raceAgg struct {
	rr       raceReport
	count    int
	stacks   map[string]struct{}
	ctors    map[string]struct{}
	first    Case
	inner    map[string]int // innermost library frame pairs seen under this entry pair
	mutators bool           // EVERY report came from a workload with SetLogSource/SetLoggerSource/Append callers next to Log/LogError
}

func main() {
	if spec := os.Getenv("C13_CHILD"); spec != "" {
		childMain(spec)
		return
	}
	r := vrun.Start("C13", "exploration")
	if !raceEnabled {
		r.Fatalf("this check must be built with -race (the race detector is part of its oracle)")
	}
	self, err := os.Executable()
	if err != nil {
		r.Fatalf("cannot find own executable: %v", err)
	}
	scratch := vrun.Scratch("c13")
	defer os.RemoveAll(scratch)

	r.Rule("one case = one child process running one logger configuration (constructor × members/appends × ring size × sink speed × poll interval) " +
		"with P∈[2,32] producers × N messages `m<producer>-<seq>-<O|E> <payload 1..2000> <crc32>` mixing Log/LogError (+SetLogSource/SetLoggerSource/Append on some producers), " +
		"under the race detector; P, N, GOMAXPROCS, member kinds and poll interval are drawn from r.Rand(stream, case index); " +
		"non-trivial = at least two producers were inside the workload at the same time and every producer completed its messages; distinct = canonical configuration string")
	r.Assume("the recording sinks handed to the constructors are themselves goroutine-safe (one mutex), like os.File or a locked zap WriteSyncer: the property is about the loggers",
		"race reports are attributed to the property only if one of the two ACCESS stacks has a frame in utils/logs (creation stacks are ignored); reports wholly inside third-party sink libraries are observations",
		"exactly-once is judged against the multiplicity measured from a single goroutine immediately before the concurrent phase (a logger that copies every message to two places sequentially is not a concurrency loss)",
		"asynchronous loggers are read at quiescence (accounting balanced, or no delivery and no drop report for 4 s) BEFORE Close; over-reporting of drops is don't-care; messages the third-party ring still holds back (reader parked on a slot whose sequence number was skipped) count as buffered: the ring is flushed with ring+1 paced filler lines per stream and only what is unaccounted AFTER that is a violation",
		"ordering between producers, line prefixes, timestamps and which std stream a message lands on are don't-care",
		"held on the schedules that occurred in these runs; the race detector only sees races on executed paths")

	var cases []Case
	if r.Replay != "" {
		var w struct {
			Case *Case `json:"case"`
		}
		if err := r.ReadReplay(&w); err != nil || w.Case == nil {
			r.Fatalf("replay witness has no case: %v", err)
		}
		for i := 0; i < 6; i++ {
			c := *w.Case
			c.Idx = i
			c.Dir = filepath.Join(scratch, fmt.Sprintf("replay%02d", i))
			cases = append(cases, c)
		}
	} else {
		cases = buildCases(r, scratch)
	}

	canary := runCanary(self, scratch)
	r.Obs("race_canary_detected", int64(canary))
	if canary == 0 {
		r.Fatalf("the deliberate race of the canary child was not reported through GORACE log_path: race oracle inactive")
	}

	var mu sync.Mutex
	aggs := map[string]*raceAgg{}
	ext := map[string]int{}
	var harnessErrs []string
	var functional []Finding
	workers := 8
	if v := os.Getenv("C13_WORKERS"); v != "" {
		fmt.Sscan(v, &workers)
	}
	vrun.Parallel(len(cases), workers, func(i int) {
		c := cases[i]
		o := runChildProcess(self, c, 300*time.Second)
		keep := os.Getenv("C13_KEEP") != ""
		defer func() {
			if !keep {
				os.RemoveAll(c.Dir)
			}
		}()
		r.Obs("children_run", 1)
		r.Obs("race_log_files", int64(o.files))
		// race reports
		mu.Lock()
		for _, rr := range o.races {
			r.Obs("race_reports_total", 1)
			switch {
			case rr.Lib:
				r.Obs("race_reports_in_library", 1)
				key := rr.Entry // de-duplicated by the pair of outermost library frames
				a := aggs[key]
				if a == nil {
					a = &raceAgg{rr: rr, stacks: map[string]struct{}{}, ctors: map[string]struct{}{}, inner: map[string]int{}, first: c, mutators: true}
					aggs[key] = a
				}
				a.inner[rr.Frames]++
				if !(c.SetSrc || len(c.Appends) > 0) {
					a.mutators = false
				}
				a.count++
				a.stacks[rr.StackKey] = struct{}{}
				a.ctors[c.label()] = struct{}{}
			case rr.Harness:
				harnessErrs = append(harnessErrs, "data race inside the harness itself:\n"+rr.Text)
			default:
				r.Obs("race_reports_third_party_only", 1)
				ext[c.label()+": "+rr.Frames]++
			}
		}
		mu.Unlock()
		if o.timeout {
			r.Inconclusive("child watchdog (300 s) fired without a structural witness: " + c.label())
			r.Case(c.canonical(), false)
			return
		}
		if o.res == nil {
			if (strings.HasPrefix(o.crash, "panic:") || strings.HasPrefix(o.crash, "fatal error:")) && strings.Contains(o.crash, "/utils/logs") {
				r.Case(c.canonical(), true)
				head := strings.SplitN(o.crash, "\n", 2)[0]
				r.Violation(vrun.Sig{"ctor": c.Ctor, "effect": "crash", "phase": "concurrent"},
					fmt.Sprintf("%s: the process crashed under concurrent logging: %s", c.Ctor, head),
					map[string]any{"case": c, "stderr": o.crash})
				return
			}
			mu.Lock()
			harnessErrs = append(harnessErrs, fmt.Sprintf("%s: %s\n%s", c.canonical(), o.err, o.crash))
			mu.Unlock()
			return
		}
		res := o.res
		if res.HarnessError != "" {
			mu.Lock()
			harnessErrs = append(harnessErrs, c.canonical()+": "+res.HarnessError)
			mu.Unlock()
			return
		}
		if res.Inconclusive != "" {
			r.Inconclusive(res.Inconclusive)
			r.Case(c.canonical(), false)
			return
		}
		nontrivial := res.MaxActive >= 2 && res.Produced == int64(c.P*c.N) && c.P >= 2
		r.Case(c.canonical(), nontrivial)
		r.Obs("children_completed", 1)
		r.ObsSet("constructors", c.label())
		r.ObsSet("producers", fmt.Sprint(c.P))
		r.ObsSet("gomaxprocs", fmt.Sprint(c.Procs))
		r.Obs("messages_produced", res.Produced)
		r.Obs("messages_output_stream", res.ProducedO)
		r.Obs("messages_error_stream", res.ProducedE)
		r.Obs("messages_verified_exactly_once_intact", res.Verified)
		r.Obs("line_framings_judged_against_lines_logged_alone", res.FramingJudged)
		r.Obs("groups_without_framing_reference", res.FramingNotCalibrated)
		r.Obs("writes_of_slow_writers_behind_a_ring_checked_for_overlap", res.AsyncSinkWrites)
		r.Obs("sink_lines_parsed", res.SinkLines)
		r.Obs("sink_lines_with_id", res.IDLines)
		r.Obs("producer_switches_in_sinks", res.Switches)
		r.ObsMax("max_concurrent_producers", res.MaxActive)
		r.ObsMax("payload_max_bytes", int64(res.MaxPayload))
		r.Obs("set_log_source_calls", res.SetLogSrc)
		r.Obs("set_logger_source_calls", res.SetLoggerSrc)
		r.Obs("set_source_errors", res.SetErrors)
		r.Obs("append_calls", res.AppendCalls)
		r.Obs("messages_judged_against_appended_member", res.AppendJudged)
		r.Obs("messages_judged_absent_from_non_member", res.NonMemberJudged)
		r.Obs("quiet_output_leaked", res.QuietLeak)
		if len(c.Members)+len(c.Appends) > 0 {
			r.ObsSet("composite_member_counts", fmt.Sprint(len(c.Members)+len(c.Appends)))
			for _, m := range append(append([]string{}, c.Members...), c.Appends...) {
				r.ObsSet("member_kinds", m)
			}
		}
		for g, k := range res.Multiplicity {
			if k != [2]int{1, 1} {
				r.ObsSet("sequential_multiplicity_not_1", fmt.Sprintf("%s/%s out=%d err=%d", c.label(), g, k[0], k[1]))
			}
		}
		if res.AsyncProduced > 0 {
			r.ObsSet("ring_sizes", fmt.Sprint(c.Ring))
			r.ObsSet("async_configurations", fmt.Sprintf("%s ring=%d slow=%v poll=%dus", c.Ctor, c.Ring, c.Slow, c.PollUS))
			r.Obs("async_produced", res.AsyncProduced)
			r.Obs("async_delivered", res.AsyncDeliv)
			r.Obs("async_reported_dropped", res.AsyncReported)
			r.Obs("async_drop_reports", res.AsyncReports)
			if res.AsyncStuck > 0 {
				r.Obs("async_cases_ring_held_messages_back_until_flushed(buffered,not_judged)", 1)
				r.Obs("async_messages_held_back_until_flushed", res.AsyncStuck)
			}
			if res.AsyncReported > 0 {
				r.Obs("async_cases_with_reported_drops", 1)
			}
			if res.AsyncDeliv == res.AsyncProduced {
				r.Obs("async_cases_without_any_drop", 1)
			}
			d := res.AsyncDeliv + res.AsyncReported - res.AsyncProduced
			if d > 0 {
				r.Obs("async_cases_over_reporting(dont_care)", 1)
			} else if d == 0 {
				r.Obs("async_cases_exact_accounting", 1)
			}
			if os.Getenv("C13_VERBOSE") != "" {
				fmt.Printf("async %-9s ring=%-4d slow=%-5v poll=%-5d pace=%-4d/%-2d P=%-2d produced=%d delivered=%d reported=%d (in %d reports) slack=%d workload=%dms\n",
					c.Ctor, c.Ring, c.Slow, c.PollUS, c.PaceUS, c.PaceEvery, c.P, res.AsyncProduced, res.AsyncDeliv, res.AsyncReported, res.AsyncReports, d, res.WorkloadMS)
			}
		}
		for _, n := range res.Notes {
			r.ObsSet("notes", c.label()+": "+n)
		}
		if r.WantSample() && (c.Idx%17 == 3 || r.Replay != "") {
			r.Sample(map[string]any{"case": c, "produced": res.Produced, "verified": res.Verified, "sink_lines": res.SinkLines,
				"max_concurrent_producers": res.MaxActive, "first_sink_lines": res.SampleLines, "race_reports": len(o.races)})
		}
		if len(res.Findings) > 0 {
			mu.Lock()
			functional = append(functional, res.Findings...)
			mu.Unlock()
			keep = keep || os.Getenv("C13_KEEP_FAILED") != ""
		}
	})

	// race reports attributed to the library, de-duplicated by the pair of library frames
	keys := make([]string, 0, len(aggs))
	for k := range aggs {
		keys = append(keys, k)
	}
	sort.Strings(keys)
	r.Obs("race_distinct_library_frame_pairs", int64(len(keys)))
	for _, k := range keys {
		a := aggs[k]
		var ctors []string
		for c := range a.ctors {
			ctors = append(ctors, c)
		}
		sort.Strings(ctors)
		var inner []string
		for f := range a.inner {
			inner = append(inner, f)
		}
		sort.Strings(inner)
		r.Violation(vrun.Sig{"effect": "data-race", "entry": a.rr.Entry, "entry_types": a.rr.EntryTypes, "frames": inner[0], "with_setters": fmt.Sprint(a.mutators)},
			fmt.Sprintf("data race between goroutines inside %s (innermost library frames %v): %d report(s), %d distinct stack pair(s), configurations %v",
				a.rr.Entry, inner, a.count, len(a.stacks), ctors),
			map[string]any{"case": a.first, "reports": a.count, "distinct_stack_pairs": len(a.stacks), "configurations": ctors,
				"innermost_library_frames": a.inner, "first_report": a.rr.Text})
	}
	// functional findings of the children: at most two witnesses per signature (the rest is counted)
	sort.SliceStable(functional, func(i, j int) bool {
		return vrun.Sig(functional[i].Sig).String() < vrun.Sig(functional[j].Sig).String()
	})
	seen := map[string]int{}
	for _, f := range functional {
		k := vrun.Sig(f.Sig).String()
		seen[k]++
		if seen[k] > 2 {
			r.Obs("further_occurrences_of_reported_signatures", 1)
			continue
		}
		r.Violation(vrun.Sig(f.Sig), f.What, f.Witness)
	}
	for k, n := range ext {
		r.ObsSet("third_party_only_races", fmt.Sprintf("%s x%d", k, n))
	}
	if len(harnessErrs) > 0 {
		sort.Strings(harnessErrs)
		for i, e := range harnessErrs {
			if i < 5 {
				fmt.Println("harness problem:", e)
			}
		}
		r.Fatalf("%d child(ren) failed for harness reasons (first: %s)", len(harnessErrs), strings.SplitN(harnessErrs[0], "\n", 2)[0])
	}
	if r.Replay == "" {
		r.Require("children_completed", int64(len(cases)*9/10))
		r.Require("constructors", int64(len(simpleCtors)+10))
		r.Require("messages_judged_absent_from_non_member", 5000)
		r.Require("ring_sizes", int64(len(ringSizes)))
		r.Require("composite_member_counts", 4)
		r.Require("producers", 3)
		r.Require("messages_verified_exactly_once_intact", int64(r.Pick(100000, 1000000)))
		r.Require("payload_max_bytes", 2000)
		r.Require("set_log_source_calls", 50)
		r.Require("set_logger_source_calls", 50)
		r.Require("append_calls", 4)
		r.Require("messages_judged_against_appended_member", 1000)
		r.Require("async_cases_with_reported_drops", 3)
		r.Require("race_canary_detected", 1)
		r.Require("max_concurrent_producers", 2)
		r.Require("distinct_nontrivial", int64(len(cases)*8/10))
	}
	os.RemoveAll(scratch)
	r.Finish()
}
