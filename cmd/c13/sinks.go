package main

import (
	"bytes"
	"errors"
	"fmt"
	"os"
	"regexp"
	"strconv"
	"sync"
	"sync/atomic"
	"time"
)

// recSink is the observable sink handed to the constructors which take a writer. It is itself safe for
// concurrent use (one mutex around an append-only buffer), like the real sinks of the library
// (os.File, a locked zap WriteSyncer ...): the property is about the loggers, not about a sink which
// is not goroutine-safe in the first place.
type recSink struct {
	mu      sync.Mutex
	buf     bytes.Buffer
	writes  atomic.Int64
	delay   time.Duration
	source  string
	closed  bool
	sources int
	// failEvery > 0: every failEvery-th Write fails (alternately with an error and with a short write) — a member
	// with transient trouble; what it holds is not judged
	failEvery int
	// inflight/overlaps: Write entered while another Write on the same sink was still running
	inflight atomic.Int32
	overlaps atomic.Int64
}

var errSinkTrouble = errors.New("c13: transient sink failure")

func (s *recSink) Write(p []byte) (int, error) {
	if s.inflight.Add(1) > 1 {
		s.overlaps.Add(1)
	}
	defer s.inflight.Add(-1)
	if s.failEvery > 0 {
		if k := s.writes.Add(1); k%int64(s.failEvery) == 0 {
			if (k/int64(s.failEvery))%2 == 0 {
				return 0, errSinkTrouble
			}
			return len(p) / 2, nil
		}
	}
	if s.delay > 0 {
		time.Sleep(s.delay)
	}
	s.mu.Lock()
	s.buf.Write(p)
	s.mu.Unlock()
	s.writes.Add(1)
	return len(p), nil
}

func (s *recSink) Sync() error { return nil }

func (s *recSink) Close() error {
	s.mu.Lock()
	s.closed = true
	s.mu.Unlock()
	return nil
}

func (s *recSink) SetSource(src string) error {
	s.mu.Lock()
	s.source = src
	s.sources++
	s.mu.Unlock()
	return nil
}

func (s *recSink) Content() string {
	s.mu.Lock()
	defer s.mu.Unlock()
	return s.buf.String()
}

var reDropped = regexp.MustCompile(`Logger dropped (\d+) messages`)

// dropCounter is the `droppedMessagesLogger` handed to the asynchronous constructors: it adds up the
// counts the library reports ("Logger dropped %d messages").
type dropCounter struct {
	mu      sync.Mutex
	total   atomic.Int64
	reports atomic.Int64
	other   []string
}

func (d *dropCounter) Close() error                 { return nil }
func (d *dropCounter) Check() error                 { return nil }
func (d *dropCounter) SetLogSource(string) error    { return nil }
func (d *dropCounter) SetLoggerSource(string) error { return nil }
func (d *dropCounter) Log(o ...interface{})         { d.take(fmt.Sprint(o...)) }
func (d *dropCounter) LogError(o ...interface{})    { d.take(fmt.Sprint(o...)) }

func (d *dropCounter) take(s string) {
	m := reDropped.FindStringSubmatch(s)
	if m == nil {
		d.mu.Lock()
		if len(d.other) < 5 {
			d.other = append(d.other, s)
		}
		d.mu.Unlock()
		return
	}
	n, _ := strconv.ParseInt(m[1], 10, 64)
	d.total.Add(n)
	d.reports.Add(1)
}

// sinkReader reads an observable sink back.
type sinkReader struct {
	name string
	read func() string
}

func fileReader(name, path string) sinkReader {
	return sinkReader{name: name, read: func() string {
		b, err := os.ReadFile(path)
		if err != nil {
			return ""
		}
		return string(b)
	}}
}

func recReader(name string, s *recSink) sinkReader {
	return sinkReader{name: name, read: s.Content}
}
