package main

import (
	"os"
	"path/filepath"
	"sort"
	"strings"
)

// raceReport is one "WARNING: DATA RACE" block of a GORACE log file.
type raceReport struct {
	Text       string
	Lib        bool   // one of the two access stacks has a frame of the library's logs package
	Frames     string // innermost library frame of each access stack (sorted pair; "ext:<func>" when a stack has none)
	Entry      string // outermost library frame of each access stack (sorted pair)
	EntryTypes string // receiver types of Entry (sorted pair)
	Harness    bool   // no library frame and the innermost frames are harness code (main.*)
	StackKey   string // both access stacks, line numbers stripped
}

type frame struct{ fn, file string }

func isLib(f frame) bool {
	return strings.Contains(f.fn, "golang-utils/utils/logs.") || strings.Contains(f.fn, "golang-utils/utils/logs/") ||
		strings.Contains(f.file, "/utils/logs/")
}

func short(fn string) string {
	fn = strings.TrimSuffix(fn, "()")
	if i := strings.LastIndex(fn, "/"); i >= 0 {
		fn = fn[i+1:]
	}
	if strings.HasPrefix(fn, "logs.") {
		fn = fn[len("logs."):]
	}
	fn = strings.ReplaceAll(fn, "(*", "")
	fn = strings.ReplaceAll(fn, ")", "")
	return fn
}

func parseRaceLog(text string) []raceReport {
	var out []raceReport
	for _, blk := range strings.Split(text, "==================") {
		if !strings.Contains(blk, "WARNING: DATA RACE") {
			continue
		}
		var stacks [][]frame
		var cur []frame
		inAccess := false
		lines := strings.Split(blk, "\n")
		flush := func() {
			if inAccess {
				stacks = append(stacks, cur)
			}
			cur, inAccess = nil, false
		}
		for i := 0; i < len(lines); i++ {
			l := lines[i]
			if l == "" {
				continue
			}
			if !strings.HasPrefix(l, " ") {
				flush()
				if strings.Contains(l, " at 0x") && strings.Contains(l, " by ") {
					inAccess = true
				}
				continue
			}
			if strings.HasPrefix(l, "  ") && !strings.HasPrefix(l, "   ") {
				f := frame{fn: strings.TrimSpace(l)}
				if i+1 < len(lines) && strings.HasPrefix(lines[i+1], "      ") {
					f.file = strings.TrimSpace(lines[i+1])
					i++
				}
				cur = append(cur, f)
			}
		}
		flush()
		rr := raceReport{Text: strings.TrimSpace(blk)}
		var inner, outer, keys []string
		allMain := len(stacks) > 0
		for _, st := range stacks {
			in, ou := "", ""
			var k []string
			for _, f := range st {
				k = append(k, short(f.fn))
				if isLib(f) {
					rr.Lib = true
					if in == "" {
						in = short(f.fn)
					}
					ou = short(f.fn)
				}
			}
			if in == "" {
				name := "?"
				for _, f := range st {
					if !strings.HasPrefix(f.fn, "runtime.") && !strings.HasPrefix(f.fn, "sync/atomic.") {
						name = short(f.fn)
						break
					}
				}
				in, ou = "ext:"+name, "ext:"+name
				if !strings.HasPrefix(name, "main.") {
					allMain = false
				}
			} else {
				allMain = false
			}
			inner = append(inner, in)
			outer = append(outer, ou)
			keys = append(keys, strings.Join(k, "<"))
		}
		sort.Strings(inner)
		sort.Strings(outer)
		sort.Strings(keys)
		rr.Frames = strings.Join(inner, "|")
		rr.Entry = strings.Join(outer, "|")
		var ts []string
		for _, o := range outer {
			if i := strings.Index(o, "."); i >= 0 && !strings.HasPrefix(o, "ext:") {
				o = o[:i]
			}
			ts = append(ts, o)
		}
		rr.EntryTypes = strings.Join(ts, "|")
		rr.StackKey = strings.Join(keys, " || ")
		rr.Harness = !rr.Lib && allMain
		out = append(out, rr)
	}
	return out
}

// readRaceLogs reads every file GORACE wrote for the given log_path prefix.
func readRaceLogs(prefix string) (reports []raceReport, files int) {
	matches, _ := filepath.Glob(prefix + ".*")
	for _, m := range matches {
		b, err := os.ReadFile(m)
		if err != nil {
			continue
		}
		files++
		reports = append(reports, parseRaceLog(string(b))...)
	}
	return
}
