package main

import (
	"encoding/json"
	"fmt"
	"hash/crc32"
	"math/rand/v2"
	"os"
	"path/filepath"
	"regexp"
	"runtime"
	"sort"
	"strconv"
	"strings"
	"sync"
	"sync/atomic"
	"time"

	"github.com/ARM-software/golang-utils/utils/logs"
)

// Finding is one refuting observation made by a child.
type Finding struct {
	Sig     map[string]string `json:"sig"`
	What    string            `json:"what"`
	Witness any               `json:"witness"`
}

// Result is what a child reports to the coordinator.
type Result struct {
	Case                 Case              `json:"case"`
	Findings             []Finding         `json:"findings"`
	Notes                []string          `json:"notes,omitempty"`
	Inconclusive         string            `json:"inconclusive,omitempty"`
	HarnessError         string            `json:"harness_error,omitempty"`
	Produced             int64             `json:"produced"`
	ProducedO            int64             `json:"produced_output"`
	ProducedE            int64             `json:"produced_error"`
	AsyncSinkWrites      int64             `json:"async_sink_writes"`
	FramingJudged        int64             `json:"framing_judged"`
	FramingNotCalibrated int64             `json:"framing_not_calibrated"`
	Verified             int64             `json:"verified"`   // (group, id) pairs found with exactly the expected multiplicity, intact
	SinkLines            int64             `json:"sink_lines"` // lines parsed back
	IDLines              int64             `json:"id_lines"`   // lines carrying a message id
	Switches             int64             `json:"switches"`   // adjacent sink lines from different producers (actual interleaving of producers)
	MaxActive            int64             `json:"max_active"` // most producers inside the workload at once
	SetLogSrc            int64             `json:"set_log_source_calls"`
	SetLoggerSrc         int64             `json:"set_logger_source_calls"`
	SetErrors            int64             `json:"set_source_errors"`
	AppendCalls          int64             `json:"append_calls"`
	NonMemberJudged      int64             `json:"non_member_judged"` // messages checked to be ABSENT from a sink that is not a member of the composite they went through
	AppendJudged         int64             `json:"append_judged"`     // messages begun after a concurrent Append returned, judged against the appended member
	Groups               int               `json:"groups"`
	Multiplicity         map[string][2]int `json:"sequential_multiplicity,omitempty"`
	MaxPayload           int               `json:"max_payload"`
	MinPayload           int               `json:"min_payload"`
	AsyncProduced        int64             `json:"async_produced,omitempty"`
	AsyncDeliv           int64             `json:"async_delivered,omitempty"`
	AsyncReported        int64             `json:"async_reported_dropped,omitempty"`
	AsyncReports         int64             `json:"async_drop_reports,omitempty"`
	AsyncStuck           int64             `json:"async_held_back_until_flush,omitempty"`
	QuietLeak            int64             `json:"quiet_output_leaked,omitempty"`
	WorkloadMS           int64             `json:"workload_ms"`
	SampleLines          []string          `json:"sample_lines,omitempty"`
}

const alphabet = "jkqvwxz"

var (
	reStart = regexp.MustCompile(`m(\d+)-(\d+)-([OE]) `)
	reFull  = regexp.MustCompile(`m(\d+)-(\d+)-([OE]) ([jkqvwxz]+) ([0-9a-f]{8})`)
	reFrag  = regexp.MustCompile(`[jkqvwxz]{6,}`)
)

type msg struct {
	text   string
	stream byte
}

// genMessages is the deterministic message list of one producer: "m<producer>-<seq>-<O|E> <payload> <crc32>".
func genMessages(seed int64, p, n int) []msg {
	rng := rand.New(rand.NewPCG(uint64(seed), uint64(p)*0x9e3779b97f4a7c15+1))
	out := make([]msg, n+1)
	for s := 1; s <= n; s++ {
		var l int
		switch x := rng.IntN(100); {
		case x < 55:
			l = 1 + rng.IntN(40)
		case x < 88:
			l = 41 + rng.IntN(360)
		default:
			l = 401 + rng.IntN(1600)
		}
		if s == 1 {
			l = 1
		}
		if s == 2 {
			l = 2000
		}
		stream := byte('O')
		if rng.IntN(2) == 1 {
			stream = 'E'
		}
		pl := make([]byte, l)
		for i := range pl {
			pl[i] = alphabet[rng.IntN(len(alphabet))]
		}
		body := fmt.Sprintf("%d-%d-%c %s", p, s, stream, pl)
		out[s] = msg{text: fmt.Sprintf("m%s %08x", body, crc32.ChecksumIEEE([]byte(body))), stream: stream}
	}
	return out
}

// parsed is the content of a group of sinks parsed back into message ids.
type parsed struct {
	count     map[[2]int]int // (producer, seq) -> intact occurrences
	lines     int64
	idLines   int64
	switches  int64
	torn      []string
	interl    []string
	corrupt   []string
	fragments []string
	frames    map[string]int    // framing (line minus its message, volatile parts removed) of the lines carrying one valid message of a producer
	frameEx   map[string]string // one example line per framing
	ref       map[string]bool   // framings of the lines logged alone (sequential calibration)
	nTorn     int
	nInterl   int
	nCorrupt  int
	nFrag     int
	order     [][2]int
}

func clip(s string) string {
	if len(s) > 300 {
		return s[:150] + " ...[" + strconv.Itoa(len(s)) + " bytes]... " + s[len(s)-120:]
	}
	return s
}

func keep(l *[]string, s string) {
	if len(*l) < 4 {
		*l = append(*l, clip(s))
	}
}

var reVolatile = regexp.MustCompile(`[0-9.:+\-]+`)
var reSource = regexp.MustCompile(`\b(lsrc|src|sn)\b`)

// framing is what a sink line holds around its message: the decoration the logger adds (prefix, JSON envelope...),
// with digits, time punctuation and the source names (which the workload changes) removed.
func framing(line, message string) string {
	f := strings.Replace(line, message, "<M>", 1)
	f = reVolatile.ReplaceAllString(f, "")
	f = reSource.ReplaceAllString(f, "S")
	return strings.Join(strings.Fields(f), " ")
}

func (p *parsed) add(content string, streams map[[2]int]byte) {
	last := -1
	for _, line := range strings.Split(content, "\n") {
		if line == "" {
			continue
		}
		p.lines++
		if !strings.Contains(line, "-O ") && !strings.Contains(line, "-E ") {
			if f := reFrag.FindString(line); f != "" {
				p.nFrag++
				keep(&p.fragments, line)
			}
			continue
		}
		starts := reStart.FindAllStringIndex(line, -1)
		if len(starts) == 0 {
			if f := reFrag.FindString(line); f != "" {
				p.nFrag++
				keep(&p.fragments, line)
			}
			continue
		}
		p.idLines++
		fulls := reFull.FindAllStringSubmatchIndex(line, -1)
		valid := 0
		for _, m := range fulls {
			prod, _ := strconv.Atoi(line[m[2]:m[3]])
			seq, _ := strconv.Atoi(line[m[4]:m[5]])
			body := line[m[2]:m[9]]
			want := fmt.Sprintf("%08x", crc32.ChecksumIEEE([]byte(body)))
			id := [2]int{prod, seq}
			st, known := streams[id]
			if want != line[m[10]:m[11]] || !known || st != line[m[6]] {
				p.nCorrupt++
				keep(&p.corrupt, line)
				continue
			}
			valid++
			p.count[id]++
			if prod != last && last >= 0 {
				p.switches++
			}
			last = prod
		}
		if valid == 1 && len(starts) == 1 && len(fulls) == 1 {
			m := fulls[0]
			prod, _ := strconv.Atoi(line[m[2]:m[3]])
			f := framing(line, line[m[0]:m[1]])
			if prod == 0 {
				if p.ref == nil {
					p.ref = map[string]bool{}
				}
				p.ref[f] = true
			} else {
				if p.frames == nil {
					p.frames, p.frameEx = map[string]int{}, map[string]string{}
				}
				p.frames[f]++
				if _, ok := p.frameEx[f]; !ok {
					p.frameEx[f] = clip(line)
				}
			}
		}
		if len(starts) > valid {
			p.nTorn++
			keep(&p.torn, line)
		}
		tokens := map[string]struct{}{}
		for _, st := range starts {
			tokens[line[st[0]:st[1]]] = struct{}{}
		}
		if len(tokens) >= 2 {
			p.nInterl++
			keep(&p.interl, line)
		}
	}
}

func writeResult(c Case, res *Result) {
	b, _ := json.Marshal(res)
	tmp := filepath.Join(c.Dir, "result.json.tmp")
	_ = os.WriteFile(tmp, b, 0o644)
	_ = os.Rename(tmp, filepath.Join(c.Dir, "result.json"))
}

// canary races on purpose in harness code: proves that the race detector is active in children and that
// its reports reach the coordinator through GORACE log_path.
var canaryShared int

func canaryMain() {
	var wg sync.WaitGroup
	for i := 0; i < 2; i++ {
		wg.Add(1)
		go func() {
			defer wg.Done()
			for j := 0; j < 1000; j++ {
				canaryShared++
			}
		}()
	}
	wg.Wait()
	os.Exit(0)
}

func childMain(spec string) {
	if spec == "canary" {
		canaryMain()
	}
	var c Case
	if err := json.Unmarshal([]byte(spec), &c); err != nil {
		fmt.Fprintf(os.Stderr, "c13 child: bad spec: %v\n", err)
		os.Exit(3)
	}
	res := &Result{Case: c, Findings: []Finding{}}
	// a panic propagates: the runtime prints the stack to the stderr file and the coordinator classifies it
	runChild(c, res)
	writeResult(c, res)
	os.Exit(0)
}

func runChild(c Case, res *Result) {
	b, err := c.build()
	if err != nil {
		res.HarnessError = err.Error()
		return
	}
	res.Groups = len(b.groups)
	lg := b.lg
	if err := lg.Check(); err != nil {
		res.Notes = append(res.Notes, "Check(): "+err.Error())
	}

	// deterministic messages; producer 0 = sequential calibration messages
	all := make([][]msg, c.P+1)
	streams := map[[2]int]byte{}
	const ncal = 6
	all[0] = genMessages(c.Seed, 0, ncal)
	for s := 1; s <= ncal; s++ { // calibration alternates O, E
		st := byte('O')
		if s%2 == 0 {
			st = 'E'
		}
		body := fmt.Sprintf("0-%d-%c %s", s, st, strings.Repeat("q", s))
		all[0][s] = msg{text: fmt.Sprintf("m%s %08x", body, crc32.ChecksumIEEE([]byte(body))), stream: st}
		streams[[2]int{0, s}] = st
	}
	res.MinPayload, res.MaxPayload = 1<<30, 0
	for p := 1; p <= c.P; p++ {
		all[p] = genMessages(c.Seed, p, c.N)
		for s := 1; s <= c.N; s++ {
			streams[[2]int{p, s}] = all[p][s].stream
			// payload length = text - id - crc
			l := len(all[p][s].text) - 10 - len(fmt.Sprintf("m%d-%d-O", p, s))
			if l > res.MaxPayload {
				res.MaxPayload = l
			}
			if l < res.MinPayload {
				res.MinPayload = l
			}
			res.Produced++
			if all[p][s].stream == 'O' {
				res.ProducedO++
			} else {
				res.ProducedE++
			}
		}
	}

	// sequential calibration (not for the ring-buffered loggers: they may legitimately drop)
	calibrated := !b.async && !b.noSink
	if calibrated {
		for s := 1; s <= ncal; s++ {
			if all[0][s].stream == 'O' {
				lg.Log(all[0][s].text)
			} else {
				lg.LogError(all[0][s].text)
			}
		}
	}

	// concurrent workload
	nApp := len(b.appendFns)
	appended := make([]atomic.Int32, nApp+1)
	masks := make([][]uint8, c.P+1)
	for p := 1; p <= c.P; p++ {
		masks[p] = make([]uint8, c.N+1)
	}
	var active, maxActive, setLog, setLogger, setErr, appendCalls, progress atomic.Int64
	start := make(chan struct{})
	var wg sync.WaitGroup
	setters := 0
	for p := 1; p <= c.P; p++ {
		role := ""
		if c.SetSrc {
			switch {
			case p%4 == 1 && setters < 6:
				role = "setlog"
				setters++
			case p%4 == 2 && setters < 6:
				role = "setlogger"
				setters++
			}
		}
		wg.Add(1)
		go func(p int, role string) {
			defer wg.Done()
			tgt := lg
			if b.target != nil {
				tgt = b.target(p)
			}
			<-start
			a := active.Add(1)
			for {
				m := maxActive.Load()
				if a <= m || maxActive.CompareAndSwap(m, a) {
					break
				}
			}
			every := c.N/4 + 1
			for s := 1; s <= c.N; s++ {
				if role != "" && s%every == every/2 {
					src := fmt.Sprintf("s%dn%d", p, s/every)
					var e error
					if role == "setlog" {
						e = lg.SetLogSource(src)
						setLog.Add(1)
					} else {
						e = lg.SetLoggerSource(src)
						setLogger.Add(1)
					}
					if e != nil {
						setErr.Add(1)
					}
				}
				if nApp > 0 {
					for j := 0; j < nApp; j++ {
						// even cases: producer 1 appends one member after the other; odd cases: the members are appended by
						// different producers at the same message index, i.e. concurrently
						due := p == 1 && s == (j+1)*c.N/(nApp+2)+1
						if c.Idx%2 == 1 {
							due = p == j%c.P+1 && s == c.N/3+1
						}
						if due {
							if e := b.appendFns[j](); e != nil {
								setErr.Add(1)
							} else {
								appended[j].Store(1)
							}
							appendCalls.Add(1)
						}
					}
				}
				if nApp > 0 && c.Idx%2 == 1 && b.extraAppend != nil && p <= 8 && (s == c.N/3+1 || s == 2*c.N/3+1) {
					if e := b.extraAppend(); e != nil {
						setErr.Add(1)
					}
					appendCalls.Add(1)
				}
				if nApp > 0 {
					var mk uint8
					for j := 0; j < nApp; j++ {
						if appended[j].Load() == 1 {
							mk |= 1 << j
						}
					}
					masks[p][s] = mk
				}
				if c.PaceUS > 0 && s%c.PaceEvery == 0 {
					time.Sleep(time.Duration(c.PaceUS) * time.Microsecond)
				}
				m := all[p][s]
				if m.stream == 'O' {
					tgt.Log(m.text)
				} else {
					tgt.LogError(m.text)
				}
				progress.Add(1)
			}
			active.Add(-1)
		}(p, role)
	}
	t0 := time.Now()
	close(start)
	// The producers have a finite amount of work. Should none of their calls return for a while, the goroutines are looked
	// at: when every goroutine that is inside the logs package waits for a mutex of that package (twice, two seconds
	// apart, the same goroutines in the same places) nobody is left who could ever release it — the producers are blocked
	// for ever and their messages never reach the sink. Anything else (somebody is writing, sleeping, runnable) is not a
	// witness and the wait goes on until the coordinator's watchdog (inconclusive).
	joined := make(chan struct{})
	go func() { wg.Wait(); close(joined) }()
	lastProgress, stalled := int64(-1), 0
wait:
	for {
		select {
		case <-joined:
			break wait
		case <-time.After(2 * time.Second):
		}
		cur := progress.Load()
		if cur != lastProgress {
			lastProgress, stalled = cur, 0
			continue
		}
		if stalled++; stalled < 5 {
			continue
		}
		k1, n1, _ := logsWaiters()
		time.Sleep(2 * time.Second)
		k2, n2, dump := logsWaiters()
		if progress.Load() == cur && n1 > 0 && n1 == n2 && k1 != "" && k1 == k2 {
			res.Findings = append(res.Findings, Finding{Sig: sig(c, &group{kind: "all"}, "producers-blocked-for-ever-inside-the-logger", "concurrent"),
				What: fmt.Sprintf("%s: no call of the %d producers has returned for %d s and all %d goroutines inside the logs package wait for one of its mutexes (same places 2 s apart): deadlock, %d of %d messages accepted",
					c.Ctor, c.P, 2*stalled+2, n2, cur, c.P*c.N),
				Witness: map[string]any{"case": c, "calls_returned": cur, "goroutines": dump}})
			res.Produced = cur
			writeResult(c, res)
			os.Exit(0)
		}
		stalled = 0
	}
	res.WorkloadMS = time.Since(t0).Milliseconds()
	res.MaxActive = maxActive.Load()
	res.SetLogSrc, res.SetLoggerSrc, res.SetErrors, res.AppendCalls = setLog.Load(), setLogger.Load(), setErr.Load(), appendCalls.Load()

	if b.noSink {
		_ = lg.Close()
		return
	}

	// asynchronous loggers: wait for quiescence BEFORE Close (what is still buffered at Close is not judged)
	if b.async {
		settled := quiesce(b, c, res.Produced)
		if !settled {
			res.Inconclusive = "asynchronous logger still delivering after the generous wait"
			return
		}
		// The third-party ring can hold messages back for ever when a writer's slot was taken from under it (its
		// sequence number is then never stored and the reader waits on that empty slot until the ring wraps):
		// such messages are still BUFFERED, neither dropped nor delivered, and the next `ring` messages release
		// them (delivered, or reported as dropped). Buffered messages are not judged, so when the accounting does
		// not balance the ring is flushed with paced id-less filler lines from one goroutine and read again.
		if d := asyncDeficit(c, b, streams, res.Produced); d > 0 {
			res.AsyncStuck = d
			for i := 0; i <= c.Ring; i++ {
				lg.Log("filler")
				lg.LogError("filler")
				time.Sleep(time.Millisecond)
			}
			if !quiesce(b, c, 1<<62) {
				res.Inconclusive = "asynchronous logger still delivering after the flush"
				return
			}
		}
	}

	// parse every group back
	per := make([]*parsed, len(b.groups))
	for gi, g := range b.groups {
		pp := &parsed{count: map[[2]int]int{}}
		for _, s := range g.sinks {
			content := s.read()
			if gi == 0 && len(res.SampleLines) == 0 {
				for _, l := range strings.SplitN(content, "\n", 8) {
					if len(res.SampleLines) < 6 && l != "" {
						res.SampleLines = append(res.SampleLines, clip(l))
					}
				}
			}
			pp.add(content, streams)
		}
		per[gi] = pp
		res.SinkLines += pp.lines
		res.IDLines += pp.idLines
		if gi == 0 {
			res.Switches = pp.switches
		}
	}

	res.Multiplicity = map[string][2]int{}
	for gi, g := range b.groups {
		judgeGroup(c, b, g, per[gi], all, masks, calibrated, res)
	}
	if b.async {
		judgeAsync(c, b, per[0], res)
		// the ring hands the messages to the slow writer from ONE goroutine: a writer which is not goroutine-safe is fine behind it
		for i, s := range b.asyncRecs {
			res.AsyncSinkWrites += s.writes.Load()
			if n := s.overlaps.Load(); n > 0 {
				res.Findings = append(res.Findings, Finding{Sig: sig(c, b.groups[0], "slow-writer-entered-concurrently", "concurrent"),
					What:    fmt.Sprintf("%s (ring %d): the slow writer #%d behind the ring buffer was entered %d time(s) while another of its Write calls was still running", c.Ctor, c.Ring, i, n),
					Witness: map[string]any{"case": c, "overlapping_writes": n}})
				break
			}
		}
	}
	if err := lg.Close(); err != nil {
		res.Notes = append(res.Notes, "Close(): "+err.Error())
	}
	for _, cl := range b.closers {
		_ = cl.Close()
	}
	runtime.KeepAlive(lg)
}

var reGoroutineHead = regexp.MustCompile(`^goroutine (\d+) \[([^\],]+)`)

// logsWaiters looks at all goroutines: n = those with a frame of the logs package; key = their ids and wait reasons when
// every one of them waits for a sync mutex (empty otherwise); dump = their stacks.
func logsWaiters() (key string, n int, dump string) {
	buf := make([]byte, 4<<20)
	buf = buf[:runtime.Stack(buf, true)]
	var keys, kept []string
	all := true
	for _, blk := range strings.Split(string(buf), "\n\n") {
		if !strings.Contains(blk, "golang-utils/utils/logs") {
			continue
		}
		n++
		kept = append(kept, blk)
		m := reGoroutineHead.FindStringSubmatch(blk)
		if m == nil {
			all = false
			continue
		}
		switch st := m[2]; {
		case strings.HasPrefix(st, "sync.RWMutex"), strings.HasPrefix(st, "sync.Mutex"), st == "semacquire":
			keys = append(keys, m[1]+":"+st)
		default:
			all = false
		}
	}
	dump = strings.Join(kept, "\n\n")
	if len(dump) > 20000 {
		dump = dump[:20000] + "\n...[truncated]"
	}
	if !all || n == 0 {
		return "", n, dump
	}
	sort.Strings(keys)
	return strings.Join(keys, " "), n, dump
}

func sig(c Case, g *group, effect, phase string) map[string]string {
	m := map[string]string{"ctor": c.Ctor, "effect": effect, "phase": phase, "sink": g.kind}
	if c.Shared != "" {
		m["history"] = "shared-slice:" + c.Shared
	}
	return m
}

func judgeGroup(c Case, b *built, g *group, pp *parsed, all [][]msg, masks [][]uint8, calibrated bool, res *Result) {
	if g.unjudged {
		return
	}
	// sequential multiplicity of this group, per stream
	k := [2]int{1, 1}
	fromOK := func(p int) bool { return g.from == nil || g.from(p) }
	var strays []string
	nStray := 0
	stray := func(p, s, got int) {
		res.NonMemberJudged++
		if got > 0 {
			nStray++
			if len(strays) < 8 {
				strays = append(strays, fmt.Sprintf("m%d-%d-%c x%d", p, s, all[p][s].stream, got))
			}
		}
	}
	if calibrated && !fromOK(0) {
		for s := 1; s < len(all[0]); s++ {
			stray(0, s, pp.count[[2]int{0, s}])
		}
	}
	if calibrated && g.appendBit < 0 && fromOK(0) {
		var ks [2][]int
		for s := 1; s < len(all[0]); s++ {
			i := 0
			if all[0][s].stream == 'E' {
				i = 1
			}
			ks[i] = append(ks[i], pp.count[[2]int{0, s}])
		}
		for i := 0; i < 2; i++ {
			k[i] = ks[i][0]
			for _, v := range ks[i] {
				if v != k[i] {
					res.Findings = append(res.Findings, Finding{Sig: sig(c, g, "inconsistent-multiplicity", "sequential"),
						What:    fmt.Sprintf("%s: sequential messages delivered to %s with different multiplicities %v", c.Ctor, g.name, ks[i]),
						Witness: map[string]any{"case": c, "group": g.name, "multiplicities": ks}})
					break
				}
			}
		}
		res.Multiplicity[g.name] = k
		want := [2]int{1, 1}
		if b.quiet {
			want[0] = k[0] // discarding the output stream is the documented purpose of the quiet logger
			if k[0] != 0 {
				res.QuietLeak += int64(k[0])
			}
		}
		if !g.secondary && !b.roundtrip && k != want {
			eff := "lost"
			if len(b.groups) > 1 {
				eff = "member-missing"
			}
			if k[0] > want[0] || k[1] > want[1] {
				eff = "duplicated"
			}
			res.Findings = append(res.Findings, Finding{Sig: sig(c, g, eff, "sequential"),
				What:    fmt.Sprintf("%s: even from ONE goroutine a message reaches %s %d (output) / %d (error) times instead of once", c.Ctor, g.name, k[0], k[1]),
				Witness: map[string]any{"case": c, "group": g.name, "multiplicity_output_error": k}})
		}
		if g.secondary && k == [2]int{0, 0} {
			return // nothing is copied there
		}
	}
	if b.quiet {
		k[0] = -1 // don't care
	}

	// intactness of every line
	report := func(effect string, n int, samples []string, what string) {
		if n == 0 {
			return
		}
		res.Findings = append(res.Findings, Finding{Sig: sig(c, g, effect, "concurrent"),
			What:    fmt.Sprintf("%s: %d sink line(s) of %s %s", c.Ctor, n, g.name, what),
			Witness: map[string]any{"case": c, "group": g.name, "count": n, "lines": samples}})
	}
	report("torn", pp.nTorn, pp.torn, "carry a message id without its complete payload+checksum (truncated / overwritten)")
	report("interleaved", pp.nInterl, pp.interl, "carry two different message ids (messages interleaved within a line)")
	report("corrupt", pp.nCorrupt, pp.corrupt, "carry a well-formed message whose checksum/stream does not match what was produced")
	report("fragment", pp.nFrag, pp.fragments, "carry a payload fragment without any id")
	// framing: a line carrying a message of the concurrent workload looks like a line logged alone
	// (only for workloads without SetLogSource/SetLoggerSource/Append callers: several adapters legitimately grow
	// their decoration with every source they are given)
	ref := pp.ref
	if (c.SetSrc && c.Ctor != "async") || len(b.appendFns) > 0 {
		ref = nil
	} else if len(ref) == 0 {
		ref = framingReference(c)
	}
	if len(ref) > 0 && !b.roundtrip {
		res.FramingJudged += int64(len(pp.frames))
		n := 0
		var ex []string
		for f, cnt := range pp.frames {
			if !ref[f] {
				n += cnt
				if len(ex) < 4 {
					ex = append(ex, pp.frameEx[f])
				}
			}
		}
		var refs []string
		for f := range ref {
			refs = append(refs, f)
		}
		if n > 0 {
			res.Findings = append(res.Findings, Finding{Sig: sig(c, g, "misframed", "concurrent"),
				What:    fmt.Sprintf("%s: %d sink line(s) of %s carry one message but not the decoration of a line logged alone (decoration of another message in the same line, or a message without its own)", c.Ctor, n, g.name),
				Witness: map[string]any{"case": c, "group": g.name, "count": n, "lines": ex, "framing_of_lines_logged_alone": refs}})
		}
	} else if !b.roundtrip {
		res.FramingNotCalibrated++
	}

	if b.async {
		// exactly-once is replaced by the drop accounting (judgeAsync); duplicates are still judged
		var dups []string
		n := 0
		for id, cnt := range pp.count {
			if cnt > 1 {
				n++
				if len(dups) < 8 {
					dups = append(dups, fmt.Sprintf("m%d-%d x%d", id[0], id[1], cnt))
				}
			}
		}
		if n > 0 {
			res.Findings = append(res.Findings, Finding{Sig: sig(c, g, "duplicated", "concurrent"),
				What:    fmt.Sprintf("%s: %d message(s) delivered more than once to %s", c.Ctor, n, g.name),
				Witness: map[string]any{"case": c, "group": g.name, "ids": dups}})
		}
		return
	}

	// exactly k times each
	var lost, dup []string
	nLost, nDup := 0, 0
	for p := 1; p <= c.P; p++ {
		for s := 1; s <= c.N; s++ {
			i := 0
			if all[p][s].stream == 'E' {
				i = 1
			}
			want := k[i]
			if want < 0 {
				continue
			}
			got := pp.count[[2]int{p, s}]
			if !fromOK(p) {
				stray(p, s, got)
				continue
			}
			if g.appendBit >= 0 {
				if masks[p][s]&(1<<g.appendBit) == 0 {
					// begun before (or while) the member was appended: may or may not be there
					if got > want {
						nDup++
						if len(dup) < 8 {
							dup = append(dup, fmt.Sprintf("m%d-%d-%c x%d", p, s, all[p][s].stream, got))
						}
					}
					continue
				}
				res.AppendJudged++
			}
			switch {
			case got == want:
				res.Verified++
			case got < want:
				nLost++
				if len(lost) < 8 {
					lost = append(lost, fmt.Sprintf("m%d-%d-%c (payload %d bytes) x%d/%d", p, s, all[p][s].stream, len(all[p][s].text), got, want))
				}
			default:
				nDup++
				if len(dup) < 8 {
					dup = append(dup, fmt.Sprintf("m%d-%d-%c x%d/%d", p, s, all[p][s].stream, got, want))
				}
			}
		}
	}
	if nStray > 0 {
		res.Findings = append(res.Findings, Finding{Sig: sig(c, g, "non-member-received-messages", "concurrent"),
			What:    fmt.Sprintf("%s: %s was never made a member of the composite, yet it received %d message(s) logged through it", c.Ctor, g.name, nStray),
			Witness: map[string]any{"case": c, "group": g.name, "received": nStray, "ids": strays}})
	}
	lostEffect := "lost"
	if len(b.groups) > 1 && !g.secondary {
		lostEffect = "member-missing"
	}
	if nLost > 0 {
		res.Findings = append(res.Findings, Finding{Sig: sig(c, g, lostEffect, "concurrent"),
			What:    fmt.Sprintf("%s: %d of %d produced message(s) missing from %s after all %d producers joined", c.Ctor, nLost, res.Produced, g.name, c.P),
			Witness: map[string]any{"case": c, "group": g.name, "missing": nLost, "ids": lost}})
	}
	if nDup > 0 {
		res.Findings = append(res.Findings, Finding{Sig: sig(c, g, "duplicated", "concurrent"),
			What:    fmt.Sprintf("%s: %d message(s) found more often than from a single goroutine in %s", c.Ctor, nDup, g.name),
			Witness: map[string]any{"case": c, "group": g.name, "ids": dup}})
	}
}

func stdReported(c Case) (total, reports int64) {
	for _, f := range []string{c.stdout(), c.stderr()} {
		b, _ := os.ReadFile(f)
		for _, m := range reDropped.FindAllSubmatch(b, -1) {
			n, _ := strconv.ParseInt(string(m[1]), 10, 64)
			total += n
			reports++
		}
	}
	return
}

// asyncDeficit = produced − delivered − reported as dropped, read from the sinks right now.
func asyncDeficit(c Case, b *built, streams map[[2]int]byte, produced int64) int64 {
	pp := &parsed{count: map[[2]int]int{}}
	for _, s := range b.groups[0].sinks {
		pp.add(s.read(), streams)
	}
	var delivered int64
	for id := range pp.count {
		if id[0] >= 1 {
			delivered++
		}
	}
	var reported int64
	if b.drop != nil {
		reported = b.drop.total.Load()
	} else {
		reported, _ = stdReported(c)
	}
	return produced - delivered - reported
}

func judgeAsync(c Case, b *built, pp *parsed, res *Result) {
	g := b.groups[0]
	var delivered int64
	for id := range pp.count {
		if id[0] >= 1 {
			delivered++
		}
	}
	var reported, reports int64
	if b.drop != nil {
		reported, reports = b.drop.total.Load(), b.drop.reports.Load()
	} else {
		reported, reports = stdReported(c)
	}
	res.AsyncProduced, res.AsyncDeliv, res.AsyncReported, res.AsyncReports = res.Produced, delivered, reported, reports
	res.Verified += delivered
	if res.Produced-delivered > reported {
		res.Findings = append(res.Findings, Finding{Sig: sig(c, g, "unreported-drop", "concurrent"),
			What: fmt.Sprintf("%s (ring %d): produced %d, delivered %d at quiescence, but only %d reported as dropped (%d reports): %d message(s) vanished unreported",
				c.Ctor, c.Ring, res.Produced, delivered, reported, reports, res.Produced-delivered-reported),
			Witness: map[string]any{"case": c, "produced": res.Produced, "delivered": delivered, "reported_dropped": reported, "drop_reports": reports,
				"unaccounted_before_flushing_the_ring": res.AsyncStuck}})
	}
}

// quiesce waits until the asynchronous logger has nothing left to deliver: either the accounting already
// balances (delivered writes + reported drops >= produced) or nothing moved for a long window.
func quiesce(b *built, c Case, produced int64) bool {
	progress := func() int64 {
		var v int64
		if b.drop != nil {
			v = b.drop.total.Load()
		}
		if len(b.asyncRecs) > 0 {
			for _, s := range b.asyncRecs {
				v += s.writes.Load()
			}
			return v
		}
		for _, f := range []string{c.stdout(), c.stderr()} {
			if st, err := os.Stat(f); err == nil {
				v += st.Size()
			}
		}
		return v
	}
	window := 4 * time.Second
	if len(b.asyncRecs) == 0 {
		window = 1500 * time.Millisecond
	}
	begin := time.Now()
	last, lastChange := progress(), time.Now()
	still := 0 // consecutive polls without movement (guards against the whole process having been stopped for a while)
	for {
		if len(b.asyncRecs) > 0 && last >= produced {
			// every produced message is accounted for (delivered or reported): let in-flight writes land
			time.Sleep(20 * time.Millisecond)
			return true
		}
		time.Sleep(10 * time.Millisecond)
		runtime.Gosched()
		if v := progress(); v != last {
			last, lastChange, still = v, time.Now(), 0
		} else {
			still++
		}
		if time.Since(lastChange) > window && still >= 100 {
			return true
		}
		if time.Since(begin) > 90*time.Second {
			return false
		}
	}
}

// framingReference logs two messages alone through a fresh instance of the ring-buffered constructors (which get no
// sequential calibration in the judged instance because they may drop) and returns the framings of the resulting lines.
func framingReference(c Case) map[string]bool {
	var lg logs.Loggers
	var err error
	var sinks []*recSink
	poll := time.Millisecond
	switch c.Ctor {
	case "async":
		so, se := &recSink{}, &recSink{}
		sinks = []*recSink{so, se}
		lg, err = logs.NewAsynchronousLoggers(so, se, 64, poll, "lsrc", "src", &dropCounter{})
	case "json-slow":
		s := &recSink{}
		sinks = []*recSink{s}
		lg, err = logs.NewJSONLoggerForSlowWriter(s, 64, poll, "lsrc", "src", &dropCounter{})
	default:
		return nil
	}
	if err != nil || lg == nil {
		return nil
	}
	defer func() { _ = lg.Close() }()
	ref := map[string]bool{}
	for i, st := range []byte{'O', 'E', 'O', 'E'} {
		body := fmt.Sprintf("0-%d-%c %s", i+1, st, strings.Repeat("q", i+1))
		text := fmt.Sprintf("m%s %08x", body, crc32.ChecksumIEEE([]byte(body)))
		if st == 'O' {
			lg.Log(text)
		} else {
			lg.LogError(text)
		}
		for w := 0; w < 400; w++ {
			found := false
			for _, s := range sinks {
				if strings.Contains(s.Content(), text) {
					found = true
				}
			}
			if found {
				break
			}
			time.Sleep(5 * time.Millisecond)
		}
	}
	for _, s := range sinks {
		for _, line := range strings.Split(s.Content(), "\n") {
			if m := reFull.FindStringIndex(line); m != nil {
				ref[framing(line, line[m[0]:m[1]])] = true
			}
		}
	}
	return ref
}
