package main

import (
	"fmt"
	"log"
	"path/filepath"
	"runtime"
	"strings"
	"time"

	"github.com/go-logr/stdr"
	"github.com/hashicorp/go-hclog"
	"github.com/sirupsen/logrus"
	"go.uber.org/zap"
	"go.uber.org/zap/zapcore"
	"golang.org/x/exp/slog"

	"github.com/ARM-software/golang-utils/utils/logs"
	"github.com/ARM-software/golang-utils/utils/logs/logrimp"
)

// Case is one child execution: one logger configuration, one workload.
type Case struct {
	Idx       int      `json:"idx"`
	Ctor      string   `json:"ctor"`
	Rep       int      `json:"rep"`
	P         int      `json:"producers"`
	N         int      `json:"messages_per_producer"`
	Seed      int64    `json:"seed"`
	Members   []string `json:"members,omitempty"`              // composite: initial recording members
	Appends   []string `json:"appends,omitempty"`              // composite: members appended while producers run
	Shared    string   `json:"shared_slice_history,omitempty"` // composite built from a caller slice with spare capacity: "caller-append" | "second-composite"
	Ring      int      `json:"ring,omitempty"`
	Slow      bool     `json:"slow_sink,omitempty"`
	PollUS    int      `json:"poll_us,omitempty"`
	SetSrc    bool     `json:"set_sources"`
	PaceUS    int      `json:"pace_us,omitempty"` // producers pause this long every PaceEvery messages (lets a ring-buffered logger nearly keep up: small, frequent drops)
	PaceEvery int      `json:"pace_every,omitempty"`
	Procs     int      `json:"gomaxprocs"`
	Dir       string   `json:"dir"`
}

func (c Case) canonical() string {
	return fmt.Sprintf("%s%s rep=%d P=%d N=%d members=%v appends=%v ring=%d slow=%v poll=%dus pace=%dus/%d setsrc=%v procs=%d",
		c.Ctor, map[bool]string{true: " shared=" + c.Shared, false: ""}[c.Shared != ""], c.Rep, c.P, c.N, c.Members, c.Appends, c.Ring, c.Slow, c.PollUS, c.PaceUS, c.PaceEvery, c.SetSrc, c.Procs)
}

// group is a set of sinks which together must hold every message once (a logger's own sink(s), or one
// member of a composite).
type group struct {
	name      string
	kind      string // implementation class of the sink (part of a violation's signature)
	sinks     []sinkReader
	secondary bool             // an additional sink nobody promised (e.g. stderr copy of NewFileLogger): multiplicity is calibrated only
	from      func(p int) bool // nil: every producer's messages are expected; else only those of producers p with from(p) — the others must be ABSENT (this sink is not a member of the composite they log through)
	unjudged  bool             // a member with scripted transient failures: nothing is demanded of what it holds
	appendBit int              // -1: present from the start; k: appended while running, completeness judged only for messages begun after Append returned
}

type built struct {
	lg        logs.Loggers
	multi     logs.IMultipleLoggers
	groups    []*group
	noSink    bool // noop: race freedom only
	quiet     bool // output stream is discarded by design
	roundtrip bool // converter round trip, not in the property's constructor list: sequential multiplicity is an observation
	async     bool
	drop      *dropCounter // async: reported drops; nil => parsed from the std streams
	asyncRecs []*recSink
	target    func(p int) logs.Loggers // nil: every producer logs through lg
	closers   []logs.Loggers
	appendFns []func() error // composite: the concurrent Append calls (one per Appends entry)
	// extraAppend appends one more member which discards everything (it changes nothing the sinks see): called by several
	// producers at once in the odd cases, so that Append meets Append, Log and the source setters from many sides
	extraAppend func() error
}

const slowDelay = 300 * time.Microsecond

func (c Case) stdout() string { return filepath.Join(c.Dir, "stdout") }
func (c Case) stderr() string { return filepath.Join(c.Dir, "stderr") }

// member builds one recording logger of the given kind.
func (c Case) member(kind string, i int) (logs.Loggers, *group, error) {
	name := fmt.Sprintf("member%d:%s", i, kind)
	switch kind {
	case "string":
		l, err := logs.NewStringLogger("mem")
		if err != nil {
			return nil, nil, err
		}
		return l, &group{name: name, sinks: []sinkReader{{name, l.GetLogContent}}, appendBit: -1}, nil
	case "plainstring":
		l, err := logs.NewPlainStringLogger()
		if err != nil {
			return nil, nil, err
		}
		return l, &group{name: name, sinks: []sinkReader{{name, l.GetLogContent}}, appendBit: -1}, nil
	case "json":
		s := &recSink{}
		l, err := logs.NewJSONLogger(s, "mem", "src")
		return l, &group{name: name, sinks: []sinkReader{recReader(name, s)}, appendBit: -1}, err
	case "stdr":
		s := &recSink{}
		l, err := logs.NewLogrLogger(stdr.New(log.New(s, "", 0)), "mem")
		return l, &group{name: name, sinks: []sinkReader{recReader(name, s)}, appendBit: -1}, err
	case "zap":
		s := &recSink{}
		l, err := logs.NewZapLogger(newZap(s), "mem")
		return l, &group{name: name, sinks: []sinkReader{recReader(name, s)}, appendBit: -1}, err
	case "slog":
		s := &recSink{}
		l, err := logs.NewSlogLogger(slog.New(slog.NewJSONHandler(s, nil)), "mem")
		return l, &group{name: name, sinks: []sinkReader{recReader(name, s)}, appendBit: -1}, err
	case "fileonly":
		p := filepath.Join(c.Dir, fmt.Sprintf("member%d.log", i))
		l, err := logs.NewFileOnlyLogger(p, "mem")
		return l, &group{name: name, sinks: []sinkReader{fileReader(name, p)}, appendBit: -1}, err
	}
	return nil, nil, fmt.Errorf("unknown member kind %q", kind)
}

// buildShared replays the history "composite built from a caller's slice which has spare capacity, then both sides
// append": base := make([]Loggers, n, n+4); c := New...(base...); c.Append(mX); and then either the caller appends a
// stranger to ITS slice, or a second composite c2 is built from the same base slice and gets its own member.
// The composite's members are c's business alone: mX must keep receiving every message logged through c, and the
// stranger (never a member of c) must receive nothing from c.
func (c Case) buildShared(b *built) error {
	if len(c.Appends) != 2 {
		return fmt.Errorf("shared-slice case needs two appended kinds")
	}
	n := len(c.Members)
	base := make([]logs.Loggers, n, n+4)
	for i, k := range c.Members {
		l, g, e := c.member(k, i)
		if e != nil {
			return e
		}
		base[i] = l
		b.groups = append(b.groups, g)
	}
	mk := func(list []logs.Loggers) (logs.IMultipleLoggers, error) {
		if c.Ctor == "multiple" {
			return logs.NewMultipleLoggers("lsrc", list...)
		}
		return logs.NewCombinedLoggers(list...)
	}
	comp, err := mk(base)
	if err != nil {
		return err
	}
	mX, gX, err := c.member(c.Appends[0], n)
	if err != nil {
		return err
	}
	gX.name = "appended-member:" + c.Appends[0]
	if err = comp.Append(mX); err != nil {
		return err
	}
	st, gS, err := c.member(c.Appends[1], n+1)
	if err != nil {
		return err
	}
	gS.name = "stranger:" + c.Appends[1]
	switch c.Shared {
	case "caller-append":
		base = append(base, st) // the caller goes on using ITS slice
		gS.from = func(int) bool { return false }
	case "second-composite":
		c2, e := mk(base)
		if e != nil {
			return e
		}
		if e = c2.Append(st); e != nil {
			return e
		}
		// even producers log through c2, all others (and the sequential calibration) through c
		viaC2 := func(p int) bool { return p >= 1 && p%2 == 0 }
		b.target = func(p int) logs.Loggers {
			if viaC2(p) {
				return c2
			}
			return comp
		}
		gX.from = func(p int) bool { return !viaC2(p) }
		gS.from = viaC2
		b.closers = append(b.closers, c2)
	default:
		return fmt.Errorf("unknown shared-slice history %q", c.Shared)
	}
	runtime.KeepAlive(base)
	b.groups = append(b.groups, gX, gS)
	b.multi, b.lg = comp, comp
	return nil
}

var memberKinds = []string{"string", "plainstring", "json", "stdr", "zap", "slog", "fileonly"}

func newZap(s *recSink) *zap.Logger {
	core := zapcore.NewCore(zapcore.NewJSONEncoder(zap.NewProductionEncoderConfig()), s, zapcore.InfoLevel)
	return zap.New(core)
}

func (c Case) stdGroup() *group {
	return &group{name: "std", sinks: []sinkReader{fileReader("stdout", c.stdout()), fileReader("stderr", c.stderr())}, appendBit: -1}
}

func one(name string, s *recSink) []*group {
	return []*group{{name: name, sinks: []sinkReader{recReader(name, s)}, appendBit: -1}}
}

// build constructs the logger configuration of the case with observable sinks.
func (c Case) build() (*built, error) {
	b := &built{}
	var err error
	poll := time.Duration(c.PollUS) * time.Microsecond
	switch c.Ctor {
	case "string":
		var l *logs.StringLoggers
		l, err = logs.NewStringLogger("lsrc")
		if err == nil {
			b.lg = l
			b.groups = []*group{{name: "string", sinks: []sinkReader{{"content", l.GetLogContent}}, appendBit: -1}}
		}
	case "plainstring":
		var l *logs.StringLoggers
		l, err = logs.NewPlainStringLogger()
		if err == nil {
			b.lg = l
			b.groups = []*group{{name: "plainstring", sinks: []sinkReader{{"content", l.GetLogContent}}, appendBit: -1}}
		}
	case "std":
		b.lg, err = logs.NewStdLogger("lsrc")
		b.groups = []*group{c.stdGroup()}
	case "pipe":
		b.lg, err = logs.NewPipeLogger()
		b.groups = []*group{c.stdGroup()}
	case "file":
		p := filepath.Join(c.Dir, "file.log")
		b.lg, err = logs.NewFileLogger(p, "lsrc")
		b.groups = []*group{
			{name: "file", sinks: []sinkReader{fileReader("file", p)}, appendBit: -1},
			{name: "file-std-copy", sinks: []sinkReader{fileReader("stdout", c.stdout()), fileReader("stderr", c.stderr())}, secondary: true, appendBit: -1},
		}
	case "fileonly":
		p := filepath.Join(c.Dir, "file.log")
		b.lg, err = logs.NewFileOnlyLogger(p, "lsrc")
		b.groups = []*group{
			{name: "file", sinks: []sinkReader{fileReader("file", p)}, appendBit: -1},
			{name: "file-std-copy", sinks: []sinkReader{fileReader("stdout", c.stdout()), fileReader("stderr", c.stderr())}, secondary: true, appendBit: -1},
		}
	case "json":
		s := &recSink{}
		b.lg, err = logs.NewJSONLogger(s, "lsrc", "src")
		b.groups = one("json", s)
	case "json-multiwriter":
		// JSON logger over the library's compound writer: both writers must receive every message
		s1, s2 := &recSink{}, &recSink{}
		var w *logs.MultipleWritersWithSource
		w, err = logs.NewMultipleWritersWithSource(s1, s2)
		if err != nil {
			break
		}
		b.lg, err = logs.NewJSONLogger(w, "lsrc", "src")
		b.groups = []*group{
			{name: "writer0", sinks: []sinkReader{recReader("writer0", s1)}, appendBit: -1},
			{name: "writer1", sinks: []sinkReader{recReader("writer1", s2)}, appendBit: -1},
		}
	case "json-multiwriter-faulty-first":
		// the first writer of the compound writer has transient trouble (an error or a short write every 5th call): the
		// healthy writers behind it still receive every message
		s1, s2, s3 := &recSink{failEvery: 5}, &recSink{}, &recSink{}
		var w *logs.MultipleWritersWithSource
		w, err = logs.NewMultipleWritersWithSource(s1, s2, s3)
		if err != nil {
			break
		}
		b.lg, err = logs.NewJSONLogger(w, "lsrc", "src")
		b.groups = []*group{
			{name: "writer0(faulty)", sinks: []sinkReader{recReader("writer0", s1)}, appendBit: -1, unjudged: true},
			{name: "writer1", sinks: []sinkReader{recReader("writer1", s2)}, appendBit: -1},
			{name: "writer2", sinks: []sinkReader{recReader("writer2", s3)}, appendBit: -1},
		}
	case "json-std":
		b.lg, err = logs.NewJSONLogger(&logs.StdWriter{}, "lsrc", "src")
		b.groups = []*group{c.stdGroup()}
	case "logr-stdr":
		s := &recSink{}
		b.lg, err = logs.NewLogrLogger(stdr.New(log.New(s, "", log.LstdFlags)), "lsrc")
		b.groups = one("stdr", s)
	case "logr-stdout":
		b.lg, err = logs.NewLogrLogger(logrimp.NewStdOutLogr(), "lsrc")
		b.groups = []*group{c.stdGroup()}
	case "logr-quiet":
		s := &recSink{}
		b.lg, err = logs.NewLogrLogger(logrimp.NewQuietLogger(stdr.New(log.New(s, "", 0))), "lsrc")
		b.groups = one("stdr", s)
		b.quiet = true
	case "zap":
		s := &recSink{}
		b.lg, err = logs.NewZapLogger(newZap(s), "lsrc")
		b.groups = one("zap", s)
	case "logrus-text":
		s := &recSink{}
		l := logrus.New()
		l.SetOutput(s)
		l.SetFormatter(&logrus.TextFormatter{DisableColors: true})
		b.lg, err = logs.NewLogrusLogger(l, "lsrc")
		b.groups = one("logrus", s)
	case "logrus-json":
		s := &recSink{}
		l := logrus.New()
		l.SetOutput(s)
		l.SetFormatter(&logrus.JSONFormatter{})
		b.lg, err = logs.NewLogrusLogger(l, "lsrc")
		b.groups = one("logrus", s)
	case "hclog":
		s := &recSink{}
		b.lg, err = logs.NewHclogLogger(hclog.New(&hclog.LoggerOptions{Output: s, Level: hclog.Info}), "lsrc")
		b.groups = one("hclog", s)
	case "hclog-json":
		s := &recSink{}
		b.lg, err = logs.NewHclogLogger(hclog.New(&hclog.LoggerOptions{Output: s, Level: hclog.Info, JSONFormat: true}), "lsrc")
		b.groups = one("hclog", s)
	case "slog-text":
		s := &recSink{}
		b.lg, err = logs.NewSlogLogger(slog.New(slog.NewTextHandler(s, nil)), "lsrc")
		b.groups = one("slog", s)
	case "slog-json":
		s := &recSink{}
		b.lg, err = logs.NewSlogLogger(slog.New(slog.NewJSONHandler(s, nil)), "lsrc")
		b.groups = one("slog", s)
	case "logr-from-loggers", "logr-plain-from-loggers", "hclog-wrapper":
		// Loggers -> logr.Logger / hclog.Logger -> Loggers round trips over a JSON logger on a recorder.
		s := &recSink{}
		var base logs.Loggers
		base, err = logs.NewJSONLogger(s, "base", "src")
		if err != nil {
			break
		}
		switch c.Ctor {
		case "logr-from-loggers":
			b.lg, err = logs.NewLogrLogger(logs.NewLogrLoggerFromLoggers(base), "lsrc")
		case "logr-plain-from-loggers":
			b.lg, err = logs.NewLogrLogger(logs.NewPlainLogrLoggerFromLoggers(base), "lsrc")
		default:
			var h hclog.Logger
			h, err = logs.NewHclogWrapper(base)
			if err != nil {
				break
			}
			b.lg, err = logs.NewHclogLogger(h, "lsrc")
		}
		b.groups = one("base-json", s)
		b.roundtrip = true
	case "quiet":
		s := &recSink{}
		var base logs.Loggers
		base, err = logs.NewJSONLogger(s, "base", "src")
		if err != nil {
			break
		}
		b.lg, err = logs.NewQuietLogger(base)
		b.groups = one("base-json", s)
		b.quiet = true
	case "quiet-string":
		var base *logs.StringLoggers
		base, err = logs.NewStringLogger("base")
		if err != nil {
			break
		}
		b.lg, err = logs.NewQuietLogger(base)
		b.groups = []*group{{name: "base-string", sinks: []sinkReader{{"content", base.GetLogContent}}, appendBit: -1}}
		b.quiet = true
	case "noop":
		b.lg, err = logs.NewNoopLogger("lsrc")
		b.noSink = true
	case "multiple-default":
		b.multi, err = logs.NewMultipleLoggers("lsrc")
		b.lg = b.multi
		b.groups = []*group{c.stdGroup()}
	case "multiple", "combined":
		if c.Shared != "" {
			err = c.buildShared(b)
			break
		}
		var ms []logs.Loggers
		for i, k := range c.Members {
			l, g, e := c.member(k, i)
			if e != nil {
				return nil, e
			}
			ms = append(ms, l)
			b.groups = append(b.groups, g)
		}
		if c.Ctor == "multiple" {
			b.multi, err = logs.NewMultipleLoggers("lsrc", ms...)
		} else {
			b.multi, err = logs.NewCombinedLoggers(ms...)
		}
		b.lg = b.multi
		if err != nil {
			break
		}
		if len(c.Appends) > 0 {
			m := b.multi
			b.extraAppend = func() error {
				n, e := logs.NewNoopLogger("extra")
				if e != nil {
					return e
				}
				return m.Append(n)
			}
		}
		for j, k := range c.Appends {
			bit := j
			if k == "logr" {
				// AppendLogger(logr.Logger): the composite wraps it with NewLogrLogger itself
				s := &recSink{}
				name := fmt.Sprintf("appended%d:logr", j)
				b.groups = append(b.groups, &group{name: name, sinks: []sinkReader{recReader(name, s)}, appendBit: bit})
				lr := stdr.New(log.New(s, "", 0))
				m := b.multi
				b.appendFns = append(b.appendFns, func() error { return m.AppendLogger(lr) })
				continue
			}
			l, g, e := c.member(k, len(c.Members)+j)
			if e != nil {
				return nil, e
			}
			g.appendBit = bit
			b.groups = append(b.groups, g)
			m := b.multi
			b.appendFns = append(b.appendFns, func() error { return m.Append(l) })
		}
	case "async":
		so, se := &recSink{}, &recSink{}
		if c.Slow {
			so.delay, se.delay = slowDelay, slowDelay
		}
		b.drop = &dropCounter{}
		b.lg, err = logs.NewAsynchronousLoggers(so, se, c.Ring, poll, "lsrc", "src", b.drop)
		b.groups = []*group{{name: "async", sinks: []sinkReader{recReader("out", so), recReader("err", se)}, appendBit: -1}}
		b.async = true
		b.asyncRecs = []*recSink{so, se}
	case "json-slow":
		s := &recSink{}
		if c.Slow {
			s.delay = slowDelay
		}
		b.drop = &dropCounter{}
		b.lg, err = logs.NewJSONLoggerForSlowWriter(s, c.Ring, poll, "lsrc", "src", b.drop)
		b.groups = one("json-slow", s)
		b.async = true
		b.asyncRecs = []*recSink{s}
	case "async-std":
		b.lg, err = logs.NewAsynchronousStdLogger("lsrc", c.Ring, poll, "src")
		b.groups = []*group{c.stdGroup()}
		b.async = true
	default:
		return nil, fmt.Errorf("unknown constructor %q", c.Ctor)
	}
	if err != nil {
		return nil, fmt.Errorf("constructor %s: %w", c.Ctor, err)
	}
	if b.lg == nil {
		return nil, fmt.Errorf("constructor %s returned nil", c.Ctor)
	}
	for _, g := range b.groups {
		switch {
		case strings.Contains(g.name, "string"):
			g.kind = "StringWriter"
		case g.sinks[0].name == "stdout":
			g.kind = "std-streams"
		case strings.Contains(g.name, "file"):
			g.kind = "file"
		default:
			g.kind = "recorder"
		}
	}
	return b, nil
}
