// C11 — error kinds survive wrapping and serialisation.
//
// Direct-evaluation monitor over executions of the real commonerrors / filesystem / safeio / proc code:
//
//  1. chains: every kind × every constructor {New, Newf, Errorf, WrapError(f), WrapIfNotCommonError(f)}
//     × every message class, exhaustive over constructor sequences up to length 2 and sampled to 4; after
//     every step the result must be recognised (errors.Is and commonerrors.Any) as the kind the public
//     documentation says it was given; a cancellation/deadline cause must keep its kind;
//  2. round trip SerialiseError → bytes → DeserialiseError of every such error and of joins of 1..4 of
//     them: kinds kept; for a single error with a single-line text no kind gained and the same reason
//     up to whitespace around colons;
//  3. converters: every backend error value (errno 1..133, os/io/afero/exec/zip/context values, real
//     errors provoked on OsFs and MemMapFs) through ConvertFileSystemError, ConvertIOError and
//     ConvertProcessError, bare and behind the standard wrappers: at most one kind, stable under
//     re-application and under wrapping, context errors → cancelled/timeout.
//
// Don't-care regions are listed next to the code that skips them (roundTrip, expectKinds, wrappers) and
// in the Assume lines of the evidence.
package main

import (
	"encoding/json"
	"fmt"
	"math/rand/v2"
	"strings"

	"verif/internal/vrun"
)

// ---------------------------------------------------------------------------------------------
// constructor variants

const (
	kkNil   = -1
	kkSame  = -100
	kkRot7  = -107
	kkRot13 = -113
	// raw context errors handed over as the TARGET of a wrap (the kind given is then cancelled / timeout)
	kkRawCanceled        = 1000
	kkRawDeadline        = 1001
	kkWrappedRawCanceled = 1002
)

type variant struct {
	Fn, Role, Other string
	Kind            int
	Fmt             int
}

func resolveKind(code, base int) int {
	b := base
	if b < 0 {
		b = kUnknown
	}
	switch code {
	case kkSame:
		return b
	case kkRot7:
		return (b + 7) % len(kindTable)
	case kkRot13:
		return (b + 13) % len(kindTable)
	}
	return code
}

func buildVariants(allKinds bool) []variant {
	var v []variant
	v = append(v, variant{Fn: "New", Role: "target"})
	for _, fn := range []string{"Newf", "Errorf"} {
		for f := 0; f < 3; f++ {
			v = append(v, variant{Fn: fn, Role: "target", Fmt: f})
		}
	}
	for _, fn := range []string{"WrapError", "WrapErrorf", "WrapIfNotCommonError", "WrapIfNotCommonErrorf"} {
		for _, o := range others {
			if !isFormatFn(fn) {
				v = append(v, variant{Fn: fn, Role: "target", Other: o})
				continue
			}
			if o == "nil" || o == "foreign" {
				for f := 0; f < 3; f++ {
					v = append(v, variant{Fn: fn, Role: "target", Other: o, Fmt: f})
				}
			} else {
				v = append(v, variant{Fn: fn, Role: "target", Other: o, Fmt: 1})
			}
		}
	}
	var kk []int
	if allKinds {
		kk = append(kk, kkNil)
		for i := range kindTable {
			kk = append(kk, i)
		}
	} else {
		kk = []int{kkNil, kTimeout, kCancelled, kkSame, kkRot7, kkRot13}
	}
	for _, fn := range []string{"WrapError", "WrapErrorf", "WrapIfNotCommonError", "WrapIfNotCommonErrorf"} {
		for _, k := range kk {
			f := 0
			if isFormatFn(fn) {
				f = 1
			}
			v = append(v, variant{Fn: fn, Role: "orig", Kind: k, Fmt: f})
		}
		if isFormatFn(fn) {
			v = append(v, variant{Fn: fn, Role: "orig", Kind: kkRot7, Fmt: 0}, variant{Fn: fn, Role: "orig", Kind: kkRot7, Fmt: 2})
		}
		for _, k := range []int{kkRawCanceled, kkRawDeadline, kkWrappedRawCanceled} {
			f := 0
			if isFormatFn(fn) {
				f = 1
			}
			v = append(v, variant{Fn: fn, Role: "orig", Kind: k, Fmt: f})
		}
	}
	return v
}

func (v variant) step(base int, m message) Step {
	s := Step{Fn: v.Fn, Role: v.Role, Other: v.Other, Msg: QS(m.Text), MsgC: m.Class, Fmt: v.Fmt}
	if v.Role == "orig" {
		s.Kind = resolveKind(v.Kind, base)
	}
	return s
}

// ---------------------------------------------------------------------------------------------

func allL1Messages() []message {
	out := append([]message{}, fixedMessages...)
	for k := range kindTable {
		out = append(out, embedMessages(k)...)
	}
	return out
}

func randomMessage(rng *rand.Rand, multilineOK bool) message {
	for {
		var m message
		switch p := rng.IntN(100); {
		case p < 72:
			m = repMessages[rng.IntN(len(repMessages))]
		case p < 90:
			e := embedMessages(rng.IntN(len(kindTable)))
			m = e[rng.IntN(len(e))]
		default:
			m = fixedMessages[rng.IntN(len(fixedMessages))]
		}
		if !multilineOK && m.Class == "multiline" {
			continue
		}
		return m
	}
}

func randomSpec(rng *rand.Rand, variants []variant, minLen, maxLen int, multilineOK bool) Spec {
	n := minLen + rng.IntN(maxLen-minLen+1)
	sp := Spec{Base: rng.IntN(len(kindTable)+1) - 1}
	if n == 0 && sp.Base < 0 {
		sp.Base = rng.IntN(len(kindTable))
	}
	for i := 0; i < n; i++ {
		v := variants[rng.IntN(len(variants))]
		if i == 0 && sp.Base < 0 && v.Role == "orig" {
			v.Role, v.Other = "target", "nil"
		}
		if v.Role == "orig" && rng.IntN(2) == 0 {
			v.Kind = rng.IntN(len(kindTable)+1) - 1
		}
		sp.Steps = append(sp.Steps, v.step(sp.Base, randomMessage(rng, multilineOK && rng.IntN(8) == 0)))
	}
	return sp
}

// chunked runs fn over [0,n) in parallel chunks, each with its own statistics.
func (h *harness) chunked(n int, fn func(st *stats, i int)) {
	const sz = 1024
	chunks := (n + sz - 1) / sz
	vrun.Parallel(chunks, 0, func(c int) {
		st := newStats()
		hi := (c + 1) * sz
		if hi > n {
			hi = n
		}
		for i := c * sz; i < hi; i++ {
			fn(st, i)
		}
		st.flush(h.r)
	})
}

func remarshal(in any, out any) error {
	b, err := json.Marshal(in)
	if err != nil {
		return err
	}
	return json.Unmarshal(b, out)
}

func main() {
	r := vrun.Start("C11", "exploration")
	h := &harness{r: r, col: newCollector()}

	// --- the kind table against the source of the package this binary was built from
	dir := libraryDir()
	missing, extra, mismatched, err := crossCheckKinds(dir)
	if err != nil {
		r.Fatalf("cannot cross-check the kind table against %s/commonerrors: %v", dir, err)
	}
	if len(missing) > 0 || len(extra) > 0 || len(mismatched) > 0 {
		r.Fatalf("kind table of cmd/c11/kinds.go is out of date with %s/commonerrors: declared there but not covered here %v; covered here but not declared %v; text differs %v — update kindTable",
			dir, missing, extra, mismatched)
	}
	r.Extra("library_dir", dir)
	r.Obs("kinds_cross_checked_against_source", int64(len(kindTable)))

	r.Rule("one evaluation = one chain case (base kind or nil target, 0..4 constructor applications each with role/original-error/message/format variant; checked after every step, then serialised and deserialised), " +
		"one join case (1..4 chains of length 0..2 joined with errors.Join, round trip) or one converter case (converter × backend value × wrapper; kinds, re-application, wrapping, context). " +
		"Chains of length 0, 1 (× every message incl. every other kind's text in 4 spellings) and 2 are enumerated exhaustively over the constructor-variant list (thorough: with every kind as wrap target); lengths 3..4, joins and message pairs are drawn from r.Rand. " +
		"Canonical form = JSON of the case. Non-trivial: ≥ 2 constructor applications, or a cancellation/deadline cause, or one application with a non-plain message; every join; converter cases with a wrapper or a really provoked backend error.")
	r.Assume("errors.Is / errors.Join / fmt.Errorf(%w) of the standard library are the trusted base",
		"the kind an error 'was given' is taken from the public documentation of the constructors: New/Newf/Errorf → the target's kind (nil → ErrUnknown); WrapError(f) → the target's kind unless the original is a cancellation/deadline; WrapIfNotCommonError(f) → the original's kind when it already is a common error",
		"don't care: which kind wins for WrapIfNotCommonError(target=timeout/cancelled, original=another common kind) (either accepted); whether a result carries kinds in addition to the demanded one (only recognition is demanded for constructors); raw context errors passed as *target*",
		"don't care: multi-line messages (newline is the multi-error separator): only 'the kind is still recognised after the round trip' is checked; joins: only the kinds are checked, not reasons",
		"don't care: a kind gained by the round trip whose name occurs in the serialised text (messages embedding another kind's name are only promised to keep their own kind); whole-text equality; reason compared only after split on ':' + TrimSpace of every segment",
		"don't care: converter inputs whose wrapper text/path contains a substring a converter searches for; results without any library kind (os.ErrProcessDone, nil for ESRCH, unconverted values) count as zero kinds",
	)

	quickVariants := buildVariants(false)
	fullVariants := buildVariants(true)
	variants := quickVariants
	if !r.Quick() {
		variants = fullVariants
	}
	r.Obs("constructor_variants", int64(len(variants)))

	backends := staticBackends()
	backends = append(backends, provokedBackends(r)...)
	backends = append(backends, compositeBackends(backends)...)

	if r.Replay != "" {
		h.replay(backends)
		h.col.emit(r)
		r.Finish()
	}

	// --- 1a. length 0: the bare sentinels
	h.chunked(len(kindTable), func(st *stats, i int) { h.evalChain(st, Spec{Base: i}) })

	// --- 1b. length 1: every base × variant × message
	l1msgs := allL1Messages()
	nb := len(kindTable) + 1
	nL1 := nb * len(variants) * len(l1msgs)
	h.chunked(nL1, func(st *stats, i int) {
		m := l1msgs[i%len(l1msgs)]
		v := variants[(i/len(l1msgs))%len(variants)]
		base := i/(len(l1msgs)*len(variants)) - 1
		if base < 0 && v.Role == "orig" {
			return
		}
		if m.Emb > 0 && base >= 0 && m.Emb-1 != base {
			st.set("embedded_kind_pairs", kindName(base)+" <- text of "+kindName(m.Emb-1))
		}
		h.evalChain(st, Spec{Base: base, Steps: []Step{v.step(base, m)}})
	})

	// --- 1c. length 2: every base × variant × variant, message pairs drawn per case
	reps := r.Pick(1, 4)
	nL2 := nb * len(variants) * len(variants) * reps
	h.chunked(nL2, func(st *stats, i int) {
		j := i / reps
		v2 := variants[j%len(variants)]
		v1 := variants[(j/len(variants))%len(variants)]
		base := j/(len(variants)*len(variants)) - 1
		if base < 0 && v1.Role == "orig" {
			return
		}
		rng := r.Rand("c11-l2-msg", i)
		m1 := randomMessage(rng, rng.IntN(12) == 0)
		m2 := randomMessage(rng, rng.IntN(12) == 0)
		h.evalChain(st, Spec{Base: base, Steps: []Step{v1.step(base, m1), v2.step(base, m2)}})
	})

	// --- 1d. lengths 3..4 sampled
	nDeep := r.Pick(60_000, 2_000_000)
	h.chunked(nDeep, func(st *stats, i int) {
		rng := r.Rand("c11-deep", i)
		h.evalChain(st, randomSpec(rng, fullVariants, 3, 4, true))
	})

	// --- 2. joins of 1..4
	nJoin := r.Pick(40_000, 800_000)
	h.chunked(nJoin, func(st *stats, i int) {
		rng := r.Rand("c11-join", i)
		n := 1 + i%4
		var js JoinSpec
		multi := rng.IntN(20) == 0
		for p := 0; p < n; p++ {
			js.Parts = append(js.Parts, randomSpec(rng, fullVariants, 0, 2, multi))
		}
		h.evalJoin(st, js)
	})

	// --- 3. converters
	{
		st := newStats()
		for _, be := range backends {
			st.set("backend_values", be.Name)
			st.set("backend_classes", be.Class)
			if strings.HasPrefix(be.Class, "real-") {
				st.set("provoked_real_errors", be.Name)
			}
			for _, c := range converters {
				h.evalConverter(st, c, be, "")
			}
		}
		st.flush(r)
	}

	h.col.emit(r)

	r.Obs("kinds_in_table", int64(len(kindTable)))
	r.Require("kinds_as_base", int64(len(kindTable))+1)
	r.Require("kinds_final", int64(len(kindTable)))
	r.Require("constructors", int64(len(constructors)))
	r.Require("constructor×role", 11)
	r.Require("chain_lengths", 5)
	r.Require("message_classes", int64(len(classPriority)))
	r.Require("original_error_classes", int64(len(others)))
	r.Require("embedded_kind_pairs", int64(len(kindTable)*(len(kindTable)-1)))
	r.Require("join_sizes", 4)
	r.Require("backend_values", 180)
	r.Require("provoked_real_errors", 12)
	r.Require("wrappers", int64(len(wrappers)))
	r.Require("converter_context_checks", int64(3*len(wrappers)*2))
	r.Require("distinct_nontrivial", 1000)
	// (a run with violations exits 1 before these are looked at; they guard the silent runs)
	r.Require("kind_recognition_checks", 100_000)
	r.Require("context_cause_cases", 10_000)
	r.Require("roundtrip_kind_checks", 100_000)
	r.Require("roundtrip_no_gain_checks", 50_000)
	r.Require("reason_comparisons_text", 50_000)
	r.Require("reason_comparisons_api", 50_000)
	r.Require("converter_idempotence_checks", 1000)
	r.Require("converter_wrapping_checks", 1000)
	r.Finish()
}

// replay re-evaluates the first case of a witness written by a previous run.
func (h *harness) replay(backends []backendErr) {
	var raw struct {
		FirstCase map[string]any `json:"first_case"`
	}
	if err := h.r.ReadReplay(&raw); err != nil {
		h.r.Fatalf("cannot read witness %s: %v", h.r.Replay, err)
	}
	c := raw.FirstCase
	if inner, ok := c["case"].(map[string]any); ok {
		c = inner
	}
	st := newStats()
	defer st.flush(h.r)
	switch c["type"] {
	case "chain":
		var sp Spec
		if err := remarshal(c["spec"], &sp); err != nil {
			h.r.Fatalf("bad chain witness: %v", err)
		}
		h.evalChain(st, sp)
	case "join":
		var js JoinSpec
		if err := remarshal(c["spec"], &js); err != nil {
			h.r.Fatalf("bad join witness: %v", err)
		}
		h.evalJoin(st, js)
	case "conv":
		found := false
		for _, be := range backends {
			if be.Name != c["backend"] {
				continue
			}
			for _, cv := range converters {
				if cv.Name == c["converter"] {
					w, _ := c["wrapper"].(string)
					h.evalConverter(st, cv, be, w)
					found = true
				}
			}
		}
		if !found {
			h.r.Fatalf("witness names an unknown converter/backend value: %v / %v", c["converter"], c["backend"])
		}
	default:
		h.r.Fatalf("witness has no replayable case (type=%v)", c["type"])
	}
	fmt.Printf("replayed %v case: %d failure(s)\n", c["type"], h.col.total())
}
