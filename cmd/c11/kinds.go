package main

import (
	"go/ast"
	"go/parser"
	"go/token"
	"os"
	"path/filepath"
	"runtime/debug"
	"sort"
	"strconv"
	"strings"

	"github.com/ARM-software/golang-utils/utils/commonerrors"
)

// kind is one sentinel error kind of package commonerrors.
type kind struct {
	Name string
	Err  error
}

// kindTable is the compiled-in list of kinds. Go has no reflection over package-level variables, so the
// table is cross-checked at start-up against the *source* of the package the binary was built from
// (crossCheckKinds): a sentinel declared there and missing here is a harness error (exit 2), never a
// silent skip; a sentinel removed from the package is a build error.
var kindTable = []kind{
	{"ErrNotImplemented", commonerrors.ErrNotImplemented},
	{"ErrNoExtension", commonerrors.ErrNoExtension},
	{"ErrNoLogger", commonerrors.ErrNoLogger},
	{"ErrNoLoggerSource", commonerrors.ErrNoLoggerSource},
	{"ErrNoLogSource", commonerrors.ErrNoLogSource},
	{"ErrUndefined", commonerrors.ErrUndefined},
	{"ErrInvalidDestination", commonerrors.ErrInvalidDestination},
	{"ErrTimeout", commonerrors.ErrTimeout},
	{"ErrLocked", commonerrors.ErrLocked},
	{"ErrStaleLock", commonerrors.ErrStaleLock},
	{"ErrExists", commonerrors.ErrExists},
	{"ErrNotFound", commonerrors.ErrNotFound},
	{"ErrUnsupported", commonerrors.ErrUnsupported},
	{"ErrUnavailable", commonerrors.ErrUnavailable},
	{"ErrWrongUser", commonerrors.ErrWrongUser},
	{"ErrUnauthorised", commonerrors.ErrUnauthorised},
	{"ErrUnknown", commonerrors.ErrUnknown},
	{"ErrInvalid", commonerrors.ErrInvalid},
	{"ErrConflict", commonerrors.ErrConflict},
	{"ErrMarshalling", commonerrors.ErrMarshalling},
	{"ErrCancelled", commonerrors.ErrCancelled},
	{"ErrEmpty", commonerrors.ErrEmpty},
	{"ErrUnexpected", commonerrors.ErrUnexpected},
	{"ErrTooLarge", commonerrors.ErrTooLarge},
	{"ErrForbidden", commonerrors.ErrForbidden},
	{"ErrCondition", commonerrors.ErrCondition},
	{"ErrEOF", commonerrors.ErrEOF},
	{"ErrMalicious", commonerrors.ErrMalicious},
	{"ErrOutOfRange", commonerrors.ErrOutOfRange},
	{"ErrWarning", commonerrors.ErrWarning},
}

var (
	kTimeout   = kindIndex("ErrTimeout")
	kCancelled = kindIndex("ErrCancelled")
	kUnknown   = kindIndex("ErrUnknown")
	kNotFound  = kindIndex("ErrNotFound")
)

func kindIndex(name string) int {
	for i, k := range kindTable {
		if k.Name == name {
			return i
		}
	}
	panic("no kind " + name)
}

func kindName(i int) string {
	if i < 0 || i >= len(kindTable) {
		return "none"
	}
	return kindTable[i].Name
}

func isCtxKind(k int) bool { return k == kTimeout || k == kCancelled }

const libModule = "github.com/ARM-software/golang-utils/utils"

// libraryDir is the directory of the library module this binary was compiled from (the go.mod
// `replace` target, also when redirected with -modfile to a scratch copy).
func libraryDir() string {
	if bi, ok := debug.ReadBuildInfo(); ok {
		for _, d := range bi.Deps {
			if d.Path == libModule && d.Replace != nil && filepath.IsAbs(d.Replace.Path) {
				return d.Replace.Path
			}
		}
	}
	return "/repo/utils"
}

// declaredKinds parses the non-test sources of package commonerrors and returns every package-level
// variable whose name starts with "Err", with the string literal of its errors.New("...") initialiser
// when it has one ("" otherwise).
func declaredKinds(dir string) (map[string]string, error) {
	entries, err := os.ReadDir(dir)
	if err != nil {
		return nil, err
	}
	out := map[string]string{}
	fset := token.NewFileSet()
	for _, e := range entries {
		n := e.Name()
		if e.IsDir() || !strings.HasSuffix(n, ".go") || strings.HasSuffix(n, "_test.go") {
			continue
		}
		f, err := parser.ParseFile(fset, filepath.Join(dir, n), nil, 0)
		if err != nil {
			return nil, err
		}
		for _, d := range f.Decls {
			gd, ok := d.(*ast.GenDecl)
			if !ok || gd.Tok != token.VAR {
				continue
			}
			for _, s := range gd.Specs {
				vs := s.(*ast.ValueSpec)
				for i, id := range vs.Names {
					if !strings.HasPrefix(id.Name, "Err") {
						continue
					}
					lit := ""
					if i < len(vs.Values) {
						if call, ok := vs.Values[i].(*ast.CallExpr); ok && len(call.Args) == 1 {
							if bl, ok := call.Args[0].(*ast.BasicLit); ok && bl.Kind == token.STRING {
								lit, _ = strconv.Unquote(bl.Value)
							}
						}
					}
					out[id.Name] = lit
				}
			}
		}
	}
	return out, nil
}

// crossCheckKinds returns the names declared in the source but missing from kindTable, the names in
// kindTable the source does not declare, and text mismatches.
func crossCheckKinds(dir string) (missing, extra, mismatched []string, err error) {
	decl, err := declaredKinds(filepath.Join(dir, "commonerrors"))
	if err != nil {
		return nil, nil, nil, err
	}
	have := map[string]bool{}
	for _, k := range kindTable {
		have[k.Name] = true
		lit, ok := decl[k.Name]
		if !ok {
			extra = append(extra, k.Name)
			continue
		}
		if lit != "" && lit != k.Err.Error() {
			mismatched = append(mismatched, k.Name)
		}
	}
	for n := range decl {
		if !have[n] {
			missing = append(missing, n)
		}
	}
	sort.Strings(missing)
	sort.Strings(extra)
	sort.Strings(mismatched)
	return
}
