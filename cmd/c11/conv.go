package main

import (
	"archive/zip"
	"context"
	"errors"
	"fmt"
	"io"
	"io/fs"
	"os"
	"os/exec"
	"path/filepath"
	"strings"
	"syscall"
	"time"

	"github.com/shirou/gopsutil/v4/process"
	"github.com/spf13/afero"

	"github.com/ARM-software/golang-utils/utils/filesystem"
	"github.com/ARM-software/golang-utils/utils/proc"
	"github.com/ARM-software/golang-utils/utils/safeio"

	"verif/internal/vrun"
)

var longAgo = time.Unix(1, 0)

type backendErr struct {
	Name  string
	Class string
	Err   error
	Ctx   int // kind a context error must come out as, -1 otherwise
}

type wrapperFn struct {
	Name  string
	Class string
	F     func(error) error
}

const (
	wcNone    = "none"
	wcOS      = "os-style wrapper types only (*fs.PathError, *os.SyscallError, *os.LinkError)"
	wcGeneric = "chain contains fmt.Errorf(%w) (reachable through errors.Is/As only)"
)

type converterFn struct {
	Name string
	F    func(error) error
}

var converters = []converterFn{
	{"filesystem.ConvertFileSystemError", filesystem.ConvertFileSystemError},
	{"safeio.ConvertIOError", safeio.ConvertIOError},
	{"proc.ConvertProcessError", proc.ConvertProcessError},
}

// Wrappers keep the same backend value reachable through the standard unwrapping protocol; their own
// text is neutral (no substring any converter looks for). Paths that themselves contain such a
// substring (a file called "file exists") are a don't-care region and are not generated.
var wrappers = []wrapperFn{
	{"none", wcNone, func(e error) error { return e }},
	{"fmt.Errorf(%w)", wcGeneric, func(e error) error { return fmt.Errorf("step 3: %w", e) }},
	{"*fs.PathError", wcOS, func(e error) error { return &fs.PathError{Op: "open", Path: "/data/a.bin", Err: e} }},
	{"*os.SyscallError", wcOS, func(e error) error { return &os.SyscallError{Syscall: "read", Err: e} }},
	{"*os.LinkError", wcOS, func(e error) error {
		return &os.LinkError{Op: "rename", Old: "/data/a.bin", New: "/data/b.bin", Err: e}
	}},
	{"fmt.Errorf(%w) around *fs.PathError", wcGeneric, func(e error) error {
		return fmt.Errorf("step 3: %w", &fs.PathError{Op: "open", Path: "/data/a.bin", Err: e})
	}},
	{"*fs.PathError around fmt.Errorf(%w)", wcGeneric, func(e error) error {
		return &fs.PathError{Op: "open", Path: "/data/a.bin", Err: fmt.Errorf("step 3: %w", e)}
	}},
	// the same condition on paths whose NAMES contain ordinary words which also occur in error texts (none of them is a
	// phrase the converters look for today): the kind follows the condition, not the file name
	{"*fs.PathError on a path named like a symptom (timeout)", wcOS, func(e error) error {
		return &fs.PathError{Op: "open", Path: "/etc/app/request-timeout.cfg", Err: e}
	}},
	{"*fs.PathError on a path named like a symptom (timed out)", wcOS, func(e error) error {
		return &fs.PathError{Op: "stat", Path: "/var/log/job timed out.log", Err: e}
	}},
	{"*os.LinkError on paths named like symptoms", wcOS, func(e error) error {
		return &os.LinkError{Op: "rename", Old: "/data/denied-requests.csv", New: "/data/expired/cancelled-orders.csv", Err: e}
	}},
}

// timeoutOnly is a net.Error-like value: it says it is a timeout only through its Timeout() method.
type timeoutOnly struct{}

func (timeoutOnly) Error() string   { return "peer did not answer" }
func (timeoutOnly) Timeout() bool   { return true }
func (timeoutOnly) Temporary() bool { return true }

func staticBackends() []backendErr {
	var out []backendErr
	add := func(class, name string, e error) {
		out = append(out, backendErr{Name: name, Class: class, Err: e, Ctx: -1})
	}
	for n := 1; n <= 133; n++ {
		e := syscall.Errno(n)
		add("syscall.Errno", fmt.Sprintf("errno %d (%s)", n, e.Error()), e)
	}
	add("os", "os.ErrInvalid", os.ErrInvalid)
	add("os", "os.ErrPermission", os.ErrPermission)
	add("os", "os.ErrExist", os.ErrExist)
	add("os", "os.ErrNotExist", os.ErrNotExist)
	add("os", "os.ErrClosed", os.ErrClosed)
	add("os", "os.ErrNoDeadline", os.ErrNoDeadline)
	add("os", "os.ErrDeadlineExceeded", os.ErrDeadlineExceeded)
	add("os", "os.ErrProcessDone", os.ErrProcessDone)
	add("io", "io.EOF", io.EOF)
	add("io", "io.ErrUnexpectedEOF", io.ErrUnexpectedEOF)
	add("io", "io.ErrClosedPipe", io.ErrClosedPipe)
	add("io", "io.ErrShortWrite", io.ErrShortWrite)
	add("io", "io.ErrShortBuffer", io.ErrShortBuffer)
	add("io", "io.ErrNoProgress", io.ErrNoProgress)
	add("afero", "afero.ErrFileClosed", afero.ErrFileClosed)
	add("afero", "afero.ErrOutOfRange", afero.ErrOutOfRange)
	add("afero", "afero.ErrTooLarge", afero.ErrTooLarge)
	add("afero", "afero.ErrFileNotFound", afero.ErrFileNotFound)
	add("afero", "afero.ErrFileExists", afero.ErrFileExists)
	add("afero", "afero.ErrDestinationExists", afero.ErrDestinationExists)
	add("afero", "afero.ErrNoSymlink", afero.ErrNoSymlink)
	add("afero", "afero.ErrNoReadlink", afero.ErrNoReadlink)
	add("filesystem", "filesystem.ErrLinkNotImplemented", filesystem.ErrLinkNotImplemented)
	add("filesystem", "filesystem.ErrChownNotImplemented", filesystem.ErrChownNotImplemented)
	add("filesystem", "filesystem.ErrPathNotExist", filesystem.ErrPathNotExist)
	add("exec", "exec.ErrNotFound", exec.ErrNotFound)
	add("exec", "exec.ErrDot", exec.ErrDot)
	add("exec", "exec.ErrWaitDelay", exec.ErrWaitDelay)
	add("exec", "*exec.Error{ErrNotFound}", &exec.Error{Name: "tool", Err: exec.ErrNotFound})
	add("exec", "signal: killed", errors.New("signal: killed"))
	add("exec", "signal: terminated", errors.New("signal: terminated"))
	add("exec", "exit status 1", errors.New("exit status 1"))
	add("exec", "Access is denied", errors.New("OpenProcess: Access is denied."))
	add("gopsutil", "process.ErrorNotPermitted", process.ErrorNotPermitted)
	add("gopsutil", "process.ErrorProcessNotRunning", process.ErrorProcessNotRunning)
	add("gopsutil", "process.ErrorNoChildren", process.ErrorNoChildren)
	add("zip", "zip.ErrFormat", zip.ErrFormat)
	add("zip", "zip.ErrAlgorithm", zip.ErrAlgorithm)
	add("zip", "zip.ErrChecksum", zip.ErrChecksum)
	add("zip", "zip.ErrInsecurePath", zip.ErrInsecurePath)
	add("timeout-method", "net.Error-like value with Timeout()=true", timeoutOnly{})
	add("plain", "errors.New(unrelated)", errors.New("disk on fire"))
	out = append(out, backendErr{Name: "context.Canceled", Class: "context", Err: context.Canceled, Ctx: kCancelled})
	out = append(out, backendErr{Name: "context.DeadlineExceeded", Class: "context", Err: context.DeadlineExceeded, Ctx: kTimeout})
	ctx, cancel := context.WithCancel(context.Background())
	cancel()
	out = append(out, backendErr{Name: "ctx.Err() of a cancelled context", Class: "context", Err: ctx.Err(), Ctx: kCancelled})
	ctx2, cancel2 := context.WithDeadline(context.Background(), longAgo)
	defer cancel2()
	out = append(out, backendErr{Name: "ctx.Err() of an expired context", Class: "context", Err: ctx2.Err(), Ctx: kTimeout})
	ctx3, cancel3 := context.WithCancelCause(context.Background())
	cancel3(errors.New("shutting down"))
	out = append(out, backendErr{Name: "ctx.Err() of a context cancelled with a cause", Class: "context", Err: ctx3.Err(), Ctx: kCancelled})
	return out
}

// compositeBackends: values which are a cancellation or a deadline (errors.Is) and at the same time carry another
// backend condition — as a second wrapped error, as a joined error or only as text. Whatever else they say, the
// converters must report them as cancelled / timeout.
func compositeBackends(plain []backendErr) []backendErr {
	var out []backendErr
	ctxs := []struct {
		name string
		err  error
		kind int
	}{{"context.Canceled", context.Canceled, kCancelled}, {"context.DeadlineExceeded", context.DeadlineExceeded, kTimeout}}
	for _, c := range ctxs {
		for _, be := range plain {
			if be.Ctx >= 0 || be.Err == nil {
				continue
			}
			x := be.Err
			forms := []struct {
				name string
				err  error
			}{
				{"fmt.Errorf(\"%w: %v\", ctx, x)", fmt.Errorf("%w: %v", c.err, x)},
				{"fmt.Errorf(\"%w: %w\", ctx, x)", fmt.Errorf("%w: %w", c.err, x)},
				{"errors.Join(ctx, x)", errors.Join(c.err, x)},
				{"errors.Join(x, ctx)", errors.Join(x, c.err)},
				{"fmt.Errorf(\"%v: %w\", x, ctx)", fmt.Errorf("%v: %w", x, c.err)},
			}
			for _, f := range forms {
				out = append(out, backendErr{Name: "composite " + f.name + " ctx=" + c.name + " x=" + be.Name, Class: "context+" + be.Class, Err: f.err, Ctx: c.kind})
			}
		}
	}
	return out
}

// provokedBackends collects the real errors OsFs and MemMapFs return for a set of provoked conditions.
func provokedBackends(r *vrun.Run) []backendErr {
	var out []backendErr
	dir := vrun.Scratch("c11")
	defer os.RemoveAll(dir)
	run := func(label string, fsys afero.Fs, root string) {
		add := func(cond string, err error) {
			if err == nil {
				r.ObsSet("provoked_conditions_without_error", label+": "+cond)
				return
			}
			out = append(out, backendErr{Name: label + ": " + cond + " -> " + strings.ReplaceAll(err.Error(), root, "<root>"), Class: "real-" + label, Err: err, Ctx: -1})
		}
		p := func(s string) string { return filepath.Join(root, s) }
		_ = fsys.MkdirAll(p("d/sub"), 0o755)
		_ = afero.WriteFile(fsys, p("d/sub/f"), []byte("data"), 0o644)
		_ = afero.WriteFile(fsys, p("f"), []byte("data"), 0o644)
		_, err := fsys.Open(p("missing"))
		add("open missing file", err)
		add("mkdir existing", fsys.Mkdir(p("d"), 0o755))
		add("remove non-empty directory", fsys.Remove(p("d")))
		_, err = fsys.Open(p("f/child"))
		add("open below a regular file", err)
		_, err = fsys.Stat(p("missing/deeper"))
		add("stat below a missing directory", err)
		if f, e := fsys.Open(p("f")); e == nil {
			_ = f.Close()
			_, err = f.Read(make([]byte, 4))
			add("read closed file", err)
			add("close twice", f.Close())
		}
		if f, e := fsys.OpenFile(p("f"), os.O_RDONLY, 0); e == nil {
			_, err = f.Write([]byte("x"))
			add("write to read-only handle", err)
			_, err = f.Seek(-5, io.SeekStart)
			add("seek before start", err)
			_, err = f.Readdir(1)
			add("readdir on a regular file", err)
			add("truncate to negative size", f.Truncate(-1))
			if label == "osfs" { // afero's mem.File panics on a negative offset (not the library under test)
				_, err = f.ReadAt(make([]byte, 4), -1)
				add("read at negative offset", err)
			}
			if d, ok := f.(interface{ SetDeadline(time.Time) error }); ok {
				add("set deadline on regular file", d.SetDeadline(longAgo))
			}
			_ = f.Close()
		}
		if f, e := fsys.Open(p("d")); e == nil {
			_, err = f.Read(make([]byte, 4))
			add("read a directory", err)
			_ = f.Close()
		}
		add("rename missing", fsys.Rename(p("missing"), p("other")))
		add("rename into missing directory", fsys.Rename(p("f"), p("nodir/f")))
		_, err = fsys.OpenFile(p("f"), os.O_CREATE|os.O_EXCL|os.O_WRONLY, 0o644)
		add("exclusive create of existing", err)
		add("remove missing", fsys.Remove(p("missing")))
		_, err = fsys.Stat(p(strings.Repeat("n", 300)))
		add("name too long", err)
		add("chmod missing", fsys.Chmod(p("missing"), 0o600))
		add("chtimes missing", fsys.Chtimes(p("missing"), longAgo, longAgo))
		if l, ok := fsys.(afero.Linker); ok {
			add("symlink onto existing", l.SymlinkIfPossible(p("f"), p("d")))
		}
		if l, ok := fsys.(afero.LinkReader); ok {
			_, err = l.ReadlinkIfPossible(p("f"))
			add("readlink on a regular file", err)
		}
		if os.Geteuid() != 0 && label == "osfs" {
			_ = fsys.Chmod(p("d/sub/f"), 0)
			_, err = fsys.Open(p("d/sub/f"))
			add("open without permission", err)
		}
	}
	run("osfs", afero.NewOsFs(), dir)
	run("memmapfs", afero.NewMemMapFs(), "/verif-mem-root")
	// a pipe whose read end is closed, and a real deadline on a pipe
	if pr, pw, err := os.Pipe(); err == nil {
		_ = pr.SetReadDeadline(longAgo)
		_, e := pr.Read(make([]byte, 1))
		if e != nil {
			out = append(out, backendErr{Name: "os pipe: read past deadline -> " + e.Error(), Class: "real-pipe", Err: e, Ctx: -1})
		}
		_ = pr.Close()
		_ = pw.Close()
		_, e = pw.Write([]byte("x"))
		if e != nil {
			out = append(out, backendErr{Name: "os pipe: write to closed -> " + e.Error(), Class: "real-pipe", Err: e, Ctx: -1})
		}
	}
	if _, e := exec.LookPath("verif-no-such-tool-c11"); e != nil {
		out = append(out, backendErr{Name: "exec.LookPath(missing) -> " + e.Error(), Class: "real-exec", Err: e, Ctx: -1})
	}
	if e := exec.Command("/verif-no-such-dir/tool").Run(); e != nil {
		out = append(out, backendErr{Name: "exec.Command(missing).Run -> " + e.Error(), Class: "real-exec", Err: e, Ctx: -1})
	}
	return out
}

func sameKinds(a, b []int) bool {
	if len(a) != len(b) {
		return false
	}
	for i := range a {
		if a[i] != b[i] {
			return false
		}
	}
	return true
}

func errText(e error) string {
	if e == nil {
		return "<nil>"
	}
	return clip(e.Error())
}

// evalConverter judges one (converter, backend value) pair over all wrappers.
func (h *harness) evalConverter(st *stats, c converterFn, be backendErr, only string) {
	defer func() {
		if p := recover(); p != nil {
			h.col.add(failure{primary: vrun.Sig{"ep": c.Name, "effect": "panic"}, dims: map[string]string{"value": be.Name},
				what: fmt.Sprintf("panic: %v", p), witness: map[string]any{"type": "conv", "converter": c.Name, "backend": be.Name, "panic": fmt.Sprint(p)}})
		}
	}()
	base := c.F(be.Err)
	baseKinds := kindsOf(base)
	for _, w := range wrappers {
		if only != "" && w.Name != only {
			continue
		}
		in := w.F(be.Err)
		y := c.F(in)
		ks := kindsOf(y)
		h.r.Case("conv|"+c.Name+"|"+be.Name+"|"+w.Name, w.Name != "none" || strings.HasPrefix(be.Class, "real-"))
		st.add("converter_evaluations", 1)
		st.set("converter×backend_class", c.Name+"/"+be.Class)
		st.set("wrappers", w.Name)
		if len(ks) == 0 {
			st.add("converter_results_without_kind(allowed)", 1)
		} else {
			st.set("converter_result_kinds/"+c.Name, kindName(ks[0]))
		}
		wit := func(extra map[string]any) map[string]any {
			m := map[string]any{"type": "conv", "converter": c.Name, "backend": be.Name, "wrapper": w.Name,
				"input_text": errText(in), "result_text": errText(y), "result_kinds": kindNames(ks)}
			for k, v := range extra {
				m[k] = v
			}
			return m
		}
		dims := map[string]string{"value": be.Name, "wrapper": w.Name}
		pre := "backend=" + be.Class
		// at most one of the kinds
		if len(ks) > 1 {
			h.col.add(failure{primary: vrun.Sig{"ep": c.Name, "pre": pre, "effect": "multiple-kinds"}, dims: dims,
				what: fmt.Sprintf("%s(%s) is recognised as %v", c.Name, errText(in), kindNames(ks)), witness: wit(nil)})
			continue
		}
		// context errors come out as cancelled / timeout
		if be.Ctx >= 0 {
			st.add("converter_context_checks", 1)
			if len(ks) != 1 || ks[0] != be.Ctx {
				h.col.add(failure{primary: vrun.Sig{"ep": c.Name, "pre": pre, "effect": "context-error-reclassified"}, dims: dims,
					what: fmt.Sprintf("%s(%s) is recognised as %v, want %s", c.Name, errText(in), kindNames(ks), kindName(be.Ctx)), witness: wit(nil)})
				continue
			}
		}
		// stable under re-application
		y2 := c.F(y)
		y3 := c.F(y2)
		st.add("converter_idempotence_checks", 1)
		if k2, k3 := kindsOf(y2), kindsOf(y3); !sameKinds(ks, k2) || !sameKinds(ks, k3) {
			h.col.add(failure{primary: vrun.Sig{"ep": c.Name, "pre": pre, "effect": "kind-changes-on-reapplication"}, dims: dims,
				what:    fmt.Sprintf("%s is not stable: %s -> %v, applied again -> %v, again -> %v", c.Name, errText(in), kindNames(ks), kindNames(k2), kindNames(k3)),
				witness: wit(map[string]any{"second_text": errText(y2), "second_kinds": kindNames(k2), "third_kinds": kindNames(k3)})})
			continue
		}
		// stable under wrapping of the same backend value
		if w.Name != "none" {
			st.add("converter_wrapping_checks", 1)
			if !sameKinds(ks, baseKinds) {
				effect := "kind-changes-under-wrapping"
				if len(ks) == 0 {
					effect = "kind-lost-under-wrapping(value left unconverted)"
				} else if len(baseKinds) == 0 {
					effect = "kind-appears-only-under-wrapping"
				}
				bk := "none"
				if len(baseKinds) == 1 {
					bk = kindName(baseKinds[0])
				}
				h.col.add(failure{primary: vrun.Sig{"ep": c.Name, "pre": pre, "effect": effect, "bare_kind": bk, "wrapper_class": w.Class}, dims: dims,
					what:    fmt.Sprintf("%s: bare %s -> %v but wrapped in %s -> %v", c.Name, errText(be.Err), kindNames(baseKinds), w.Name, kindNames(ks)),
					witness: wit(map[string]any{"bare_text": errText(be.Err), "bare_result_text": errText(base), "bare_result_kinds": kindNames(baseKinds)})})
				continue
			}
		}
	}
}
