package main

import (
	"context"
	"encoding/json"
	"errors"
	"fmt"
	"io/fs"
	"strconv"
	"strings"

	"github.com/ARM-software/golang-utils/utils/commonerrors"
)

// ---------------------------------------------------------------------------------------------
// messages

// QS is a string that survives JSON witnesses byte-exactly (Go-quoted, ASCII).
type QS string

func (q QS) MarshalJSON() ([]byte, error) { return json.Marshal(strconv.QuoteToASCII(string(q))) }
func (q *QS) UnmarshalJSON(b []byte) error {
	var s string
	if err := json.Unmarshal(b, &s); err != nil {
		return err
	}
	u, err := strconv.Unquote(s)
	if err != nil {
		return err
	}
	*q = QS(u)
	return nil
}

type message struct {
	Class string
	Text  string
	Emb   int // 1 + index of the kind whose text the message contains (0: none)
}

// message classes, ordered by "how special" (used to pick the one class that labels a whole case).
var classPriority = []string{"multiline", "binary", "embed-kind", "colons", "whitespace", "percent", "unicode", "long", "plain", "empty"}

func classRank(c string) int {
	for i, x := range classPriority {
		if x == c {
			return i
		}
	}
	return len(classPriority)
}

// fixedMessages: every class of message named by the property's quantifier, plus format-verb,
// binary and multi-line ones. Multi-line messages are a don't-care region for everything except
// "the kind is still recognised".
var fixedMessages = []message{
	{Class: "empty", Text: ""},
	{Class: "plain", Text: "something went wrong"},
	{Class: "plain", Text: "x"},
	{Class: "plain", Text: "operation failed after 3 attempts"},
	{Class: "colons", Text: "a: b"},
	{Class: "colons", Text: "a:b"},
	{Class: "colons", Text: "a :b"},
	{Class: "colons", Text: "a : b: c"},
	{Class: "colons", Text: "trailing colon:"},
	{Class: "colons", Text: ":leading colon"},
	{Class: "colons", Text: ":"},
	{Class: "colons", Text: "::"},
	{Class: "colons", Text: "a::b"},
	{Class: "colons", Text: ": "},
	{Class: "colons", Text: "path C:\\dir\\file: denied"},
	{Class: "colons", Text: "url http://host:8080/p?q=1: refused"},
	{Class: "whitespace", Text: " leading"},
	{Class: "whitespace", Text: "trailing "},
	{Class: "whitespace", Text: "  both  "},
	{Class: "whitespace", Text: "in  ner   spaces"},
	{Class: "whitespace", Text: "\ttab\tseparated\t"},
	{Class: "whitespace", Text: "a :  b  :c "},
	{Class: "whitespace", Text: " "},
	{Class: "whitespace", Text: "   \t "},
	{Class: "whitespace", Text: "carriage return\r"},
	{Class: "percent", Text: "100% done"},
	{Class: "percent", Text: "%s %d %v %w %!"},
	{Class: "percent", Text: "50%: half"},
	{Class: "unicode", Text: "h\u00e9llo w\u00f6rld"},
	{Class: "unicode", Text: "\u65e5\u672c\u8a9e: \u30a8\u30e9\u30fc"},
	{Class: "unicode", Text: "\U0001F642 emoji: \u2713"},
	{Class: "unicode", Text: "\u00a0nbsp around\u00a0"},
	{Class: "unicode", Text: "\u0130stanbul \u01c5 \u1e9e"},
	{Class: "unicode", Text: "\u0645\u0631\u062d\u0628\u0627 \u200f rtl"},
	{Class: "unicode", Text: "em\u2003space :\u2003x"},
	{Class: "long", Text: strings.Repeat("x", 10000)},
	{Class: "long", Text: strings.Repeat("ab: ", 2500)},
	{Class: "long", Text: strings.Repeat("word ", 4000) + "end"},
	{Class: "binary", Text: "\x00nul byte"},
	{Class: "binary", Text: "\xff\xfe invalid utf8"},
	{Class: "multiline", Text: "line1\nline2"},
	{Class: "multiline", Text: "line1\nline2: with colon"},
	{Class: "multiline", Text: "trailing newline\n"},
	{Class: "multiline", Text: "\nleading newline"},
	{Class: "multiline", Text: "a\r\nb"},
	{Class: "multiline", Text: "a\n\nb"},
}

// embedMessages returns the messages that contain the text of kind k2.
func embedMessages(k2 int) []message {
	t := kindTable[k2].Err.Error()
	return []message{
		{"embed-kind", t, k2 + 1},
		{"embed-kind", t + ": detail", k2 + 1},
		{"embed-kind", "prefix " + t + " suffix", k2 + 1},
		{"embed-kind", strings.ToUpper(t), k2 + 1},
	}
}

// representative messages for the chains of length >= 2 (weights by repetition).
var repMessages = func() []message {
	var out []message
	pick := func(class string, n int) {
		c := 0
		for _, m := range fixedMessages {
			if m.Class == class && c < n {
				out = append(out, m)
				c++
			}
		}
	}
	pick("empty", 1)
	pick("plain", 2)
	pick("colons", 16)
	pick("whitespace", 9)
	pick("percent", 3)
	pick("unicode", 7)
	pick("binary", 2)
	out = append(out, message{Class: "long", Text: strings.Repeat("long ", 300) + ": end"})
	pick("multiline", 2)
	return out
}()

// ---------------------------------------------------------------------------------------------
// case specification

// Step is one constructor application. The error built so far ("prev"; for the first step the bare
// sentinel of Spec.Base) is passed either as the target (Role "target") or as the original error
// (Role "orig", with the sentinel Kind — or nil for -1 — as target).
type Step struct {
	Fn    string `json:"fn"`
	Role  string `json:"role"`
	Kind  int    `json:"kind"`            // Role orig: target kind index, -1 = nil target
	Other string `json:"other,omitempty"` // Role target, Wrap*: what is passed as originalError
	Msg   QS     `json:"msg"`
	MsgC  string `json:"msg_class"`
	Fmt   int    `json:"fmt,omitempty"` // f-variants: 0 = message as format, no args; 1 = "%v"; 2 = "%s%s" split
}

// Spec is one chain case: Base = index of the starting sentinel (-1: nil target), then the steps.
type Spec struct {
	Base  int    `json:"base"`
	Steps []Step `json:"steps"`
}

var constructors = []string{"New", "Newf", "Errorf", "WrapError", "WrapErrorf", "WrapIfNotCommonError", "WrapIfNotCommonErrorf"}

func isFormatFn(fn string) bool { return strings.HasSuffix(fn, "f") }
func isWrapFn(fn string) bool   { return strings.HasPrefix(fn, "Wrap") }
func isINCFn(fn string) bool    { return strings.HasPrefix(fn, "WrapIfNotCommon") }

var others = []string{"nil", "foreign", "foreign-kindtext", "ctx-canceled", "ctx-deadline", "wrapped-ctx-canceled", "wrapped-ctx-deadline", "patherror-ctx-canceled"}

// otherErr returns the original error named by o and the kind it must be recognised as when it is a
// cancellation/deadline cause (-1: it carries no library kind).
func otherErr(o string) (error, int) {
	switch o {
	case "", "nil":
		return nil, -1
	case "foreign":
		return errors.New("backend failure"), -1
	case "foreign-kindtext":
		// a foreign error that merely *says* "not found": it is not a common error
		return errors.New("not found"), -1
	case "ctx-canceled":
		return realCanceled, kCancelled
	case "ctx-deadline":
		return realDeadline, kTimeout
	case "wrapped-ctx-canceled":
		return fmt.Errorf("operation aborted: %w", context.Canceled), kCancelled
	case "wrapped-ctx-deadline":
		return fmt.Errorf("operation aborted: %w", context.DeadlineExceeded), kTimeout
	case "patherror-ctx-canceled":
		return &fs.PathError{Op: "read", Path: "/data/a.bin", Err: context.Canceled}, kCancelled
	}
	panic("unknown other " + o)
}

// the errors of really cancelled / expired contexts
var realCanceled, realDeadline = func() (error, error) {
	c1, cancel1 := context.WithCancel(context.Background())
	cancel1()
	c2, cancel2 := context.WithDeadline(context.Background(), longAgo)
	defer cancel2()
	return c1.Err(), c2.Err()
}()

func fmtArgs(msg string, f int) (string, []any) {
	switch f {
	case 1:
		return "%v", []any{msg}
	case 2:
		h := len(msg) / 2
		return "%s%s", []any{msg[:h], msg[h:]}
	}
	return msg, nil
}

// call invokes the library constructor.
func call(fn string, target, orig error, msg string, f int) error {
	format, args := fmtArgs(msg, f)
	switch fn {
	case "New":
		return commonerrors.New(target, msg)
	case "Newf":
		return commonerrors.Newf(target, format, args...)
	case "Errorf":
		return commonerrors.Errorf(target, format, args...)
	case "WrapError":
		return commonerrors.WrapError(target, orig, msg)
	case "WrapErrorf":
		return commonerrors.WrapErrorf(target, orig, format, args...)
	case "WrapIfNotCommonError":
		return commonerrors.WrapIfNotCommonError(target, orig, msg)
	case "WrapIfNotCommonErrorf":
		return commonerrors.WrapIfNotCommonErrorf(target, orig, format, args...)
	}
	panic("unknown constructor " + fn)
}

// expectKinds is the statement of the documented semantics ("the kind it was given"):
//   - New/Newf/Errorf(T, ..): the kind of T (nil target: ErrUnknown);
//   - WrapError(f)(T, O, ..): the kind of T, except that an original error that is a cancellation or a
//     deadline keeps its kind;
//   - WrapIfNotCommonError(f)(T, O, ..): as WrapError, except that an original that already is a common
//     error is not re-wrapped and keeps its kind. (When T itself is cancelled/timeout and O is a common
//     error of another kind the documentation does not say which wins: either is accepted.)
//
// tk: kind of the target, ok: kind of the original (-1 none). ctx reports that the demand comes from
// the "a cancellation/deadline cause is never reclassified" clause.
func expectKinds(fn string, tk, ok int) (accept []int, ctx bool) {
	switch {
	case !isWrapFn(fn):
		return []int{tk}, false
	case isCtxKind(ok):
		return []int{ok}, true
	case isINCFn(fn) && ok >= 0:
		if isCtxKind(tk) {
			return []int{ok, tk}, false
		}
		return []int{ok}, false
	}
	return []int{tk}, false
}

// built is the outcome of building a Spec.
type built struct {
	err      error
	kind     int    // the kind the final error was given (resolved among the accepted ones)
	class    string // message class labelling the case
	ctxCause bool   // some step had a cancellation/deadline cause
	multi    bool   // some message is multi-line
	fns      []string
}

// kindFailure describes a step whose result is not recognised as the kind it was given.
type kindFailure struct {
	step     int
	fn, role string
	other    string
	accept   []int
	ctx      bool
	viaIs    bool // errors.Is failed
	viaAny   bool // commonerrors.Any failed
	text     string
}

func recognised(e error, k int) (is, any bool) {
	return errors.Is(e, kindTable[k].Err), commonerrors.Any(e, kindTable[k].Err)
}

// build runs the chain and checks, after every step, that the result is recognised as the kind the
// model says it was given.
func build(sp Spec) (b built, fail *kindFailure) {
	var prev error
	pk := kUnknown
	if sp.Base >= 0 {
		prev = kindTable[sp.Base].Err
		pk = sp.Base
	}
	b.class = "plain"
	if len(sp.Steps) == 0 {
		b.class = "empty"
	}
	for i, s := range sp.Steps {
		var target, orig error
		var tk, ok int
		if s.Role == "orig" {
			ok = pk
			orig = prev
			tk = kUnknown
			switch {
			case s.Kind == kkRawCanceled:
				target, tk = realCanceled, kCancelled
			case s.Kind == kkRawDeadline:
				target, tk = realDeadline, kTimeout
			case s.Kind == kkWrappedRawCanceled:
				target, tk = fmt.Errorf("operation aborted: %w", context.Canceled), kCancelled
			case s.Kind >= 0:
				target = kindTable[s.Kind].Err
				tk = s.Kind
			}
			if orig == nil {
				ok = -1
			}
		} else {
			target, tk = prev, pk
			orig, ok = otherErr(s.Other)
		}
		res := call(s.Fn, target, orig, string(s.Msg), s.Fmt)
		accept, ctx := expectKinds(s.Fn, tk, ok)
		b.fns = append(b.fns, s.Fn)
		if ctx {
			b.ctxCause = true
		}
		if classRank(s.MsgC) < classRank(b.class) || i == 0 {
			b.class = s.MsgC
		}
		if strings.Contains(string(s.Msg), "\n") {
			b.multi = true
		}
		got := -1
		var fIs, fAny bool
		for _, k := range accept {
			is, an := recognised(res, k)
			if is && an {
				got = k
				break
			}
			fIs, fAny = !is, !an
		}
		// the f-variant and its twin agree on the kind when given the same arguments
		if got >= 0 {
			twinFn := strings.TrimSuffix(s.Fn, "f")
			if !isFormatFn(s.Fn) {
				twinFn = s.Fn + "f"
			}
			if twinFn != "Error" && twinFn != "Errorff" {
				var twin error
				if isFormatFn(twinFn) {
					twin = call(twinFn, target, orig, string(s.Msg), 1)
				} else {
					twin = call(twinFn, target, orig, string(s.Msg), 0)
				}
				if tis, tany := recognised(twin, got); !(tis && tany) {
					txt := ""
					if twin != nil {
						txt = clip(twin.Error())
					}
					return b, &kindFailure{step: i, fn: twinFn, role: s.Role + "(twin of " + s.Fn + ")", other: s.Other, accept: []int{got}, ctx: ctx, viaIs: !tis, viaAny: !tany, text: txt}
				}
			}
		}
		if got < 0 {
			txt := ""
			if res != nil {
				txt = clip(res.Error())
			}
			return b, &kindFailure{step: i, fn: s.Fn, role: s.Role, other: s.Other, accept: accept, ctx: ctx, viaIs: fIs, viaAny: fAny, text: txt}
		}
		prev, pk = res, got
	}
	b.err, b.kind = prev, pk
	return b, nil
}

func clip(s string) string {
	if len(s) > 300 {
		return s[:300] + fmt.Sprintf("...(%d bytes)", len(s))
	}
	return s
}
