package main

import (
	"encoding/json"
	"errors"
	"fmt"
	"sort"
	"strings"
	"sync"

	"github.com/ARM-software/golang-utils/utils/commonerrors"

	"verif/internal/vrun"
)

// ---------------------------------------------------------------------------------------------
// per-chunk statistics (merged into the run under one lock per chunk)

type stats struct {
	n    map[string]int64
	sets map[string]map[string]struct{}
}

func newStats() *stats { return &stats{n: map[string]int64{}, sets: map[string]map[string]struct{}{}} }

func (s *stats) add(k string, n int64) { s.n[k] += n }
func (s *stats) set(k, m string) {
	x := s.sets[k]
	if x == nil {
		x = map[string]struct{}{}
		s.sets[k] = x
	}
	x[m] = struct{}{}
}
func (s *stats) flush(r *vrun.Run) {
	for k, v := range s.n {
		r.Obs(k, v)
	}
	for k, m := range s.sets {
		for x := range m {
			r.ObsSet(k, x)
		}
	}
}

// ---------------------------------------------------------------------------------------------
// violation collector: failures are grouped by a primary signature (entry point, precondition class,
// effect class); the two free dimensions of a failure (e.g. which kind, which message class) are
// enumerated in the signature when the defect is specific to at most 2 values and collapsed to "many"
// otherwise, so that a systematic break has one narrow signature and a kind-specific break names its kind.

type failure struct {
	primary vrun.Sig
	dims    map[string]string
	what    string
	witness any
	size    int // size of the case: the smallest failing case of a class becomes its witness
}

// simpler orders failures deterministically (independent of worker scheduling): smaller case first.
func (f failure) simpler(g failure) bool {
	if f.size != g.size {
		return f.size < g.size
	}
	return f.what < g.what
}

type combo struct {
	dims  map[string]string
	count int64
	first failure
}

type group struct {
	sig    vrun.Sig
	count  int64
	vals   map[string]map[string]struct{}
	combos map[string]*combo
}

type collector struct {
	mu     sync.Mutex
	groups map[string]*group
}

func newCollector() *collector { return &collector{groups: map[string]*group{}} }

func dimKey(d map[string]string) string {
	keys := make([]string, 0, len(d))
	for k := range d {
		keys = append(keys, k)
	}
	sort.Strings(keys)
	var sb strings.Builder
	for _, k := range keys {
		sb.WriteString(k + "=" + d[k] + ";")
	}
	return sb.String()
}

func (c *collector) add(f failure) {
	if f.size == 0 {
		b, _ := json.Marshal(f.witness)
		f.size = len(b)
	}
	c.mu.Lock()
	defer c.mu.Unlock()
	pk := f.primary.String()
	g := c.groups[pk]
	if g == nil {
		g = &group{sig: f.primary, vals: map[string]map[string]struct{}{}, combos: map[string]*combo{}}
		c.groups[pk] = g
	}
	g.count++
	for k, v := range f.dims {
		if g.vals[k] == nil {
			g.vals[k] = map[string]struct{}{}
		}
		g.vals[k][v] = struct{}{}
	}
	ck := dimKey(f.dims)
	cb := g.combos[ck]
	if cb == nil {
		if len(g.combos) >= 2000 {
			return
		}
		cb = &combo{dims: f.dims, first: f}
		g.combos[ck] = cb
	} else if f.simpler(cb.first) {
		cb.first = f
	}
	cb.count++
}

func (c *collector) total() int64 {
	c.mu.Lock()
	defer c.mu.Unlock()
	var n int64
	for _, g := range c.groups {
		n += g.count
	}
	return n
}

const collapseAt = 3

// emit turns the collected failures into Violation calls (one per resolved signature).
func (c *collector) emit(r *vrun.Run) {
	c.mu.Lock()
	defer c.mu.Unlock()
	gk := make([]string, 0, len(c.groups))
	for k := range c.groups {
		gk = append(gk, k)
	}
	sort.Strings(gk)
	for _, k := range gk {
		g := c.groups[k]
		collapsed := map[string]bool{}
		for d, vs := range g.vals {
			if len(vs) >= collapseAt {
				collapsed[d] = true
			}
		}
		type res struct {
			sig   vrun.Sig
			count int64
			first failure
			vals  map[string]map[string]struct{}
		}
		resolved := map[string]*res{}
		cks := make([]string, 0, len(g.combos))
		for ck := range g.combos {
			cks = append(cks, ck)
		}
		sort.Strings(cks)
		for _, ck := range cks {
			cb := g.combos[ck]
			sig := vrun.Sig{}
			for a, b := range g.sig {
				sig[a] = b
			}
			for d, v := range cb.dims {
				if collapsed[d] {
					sig[d] = "many"
				} else {
					sig[d] = v
				}
			}
			rk := sig.String()
			x := resolved[rk]
			if x == nil {
				x = &res{sig: sig, first: cb.first, vals: map[string]map[string]struct{}{}}
				resolved[rk] = x
			}
			if cb.first.simpler(x.first) {
				x.first = cb.first
			}
			x.count += cb.count
			for d, v := range cb.dims {
				if collapsed[d] {
					if x.vals[d] == nil {
						x.vals[d] = map[string]struct{}{}
					}
					x.vals[d][v] = struct{}{}
				}
			}
		}
		rks := make([]string, 0, len(resolved))
		for rk := range resolved {
			rks = append(rks, rk)
		}
		sort.Strings(rks)
		for _, rk := range rks {
			x := resolved[rk]
			affected := map[string][]string{}
			for d, vs := range x.vals {
				for v := range vs {
					affected[d] = append(affected[d], v)
				}
				sort.Strings(affected[d])
			}
			w := map[string]any{"failing_cases_in_this_run": x.count, "first_case": x.first.witness}
			if len(affected) > 0 {
				w["affected"] = affected
			}
			r.Violation(x.sig, fmt.Sprintf("%s (%d failing cases)", x.first.what, x.count), w)
		}
	}
}

// ---------------------------------------------------------------------------------------------

type harness struct {
	r   *vrun.Run
	col *collector
}

// kindsOf returns the indices of all library kinds e is recognised as.
func kindsOf(e error) []int {
	if e == nil {
		return nil
	}
	var out []int
	for i, k := range kindTable {
		if commonerrors.Any(e, k.Err) {
			out = append(out, i)
		}
	}
	return out
}

func kindNames(ks []int) []string {
	out := make([]string, len(ks))
	for i, k := range ks {
		out[i] = kindName(k)
	}
	return out
}

// normReason: "the same reason up to whitespace around colons" — split on ':', trim every segment.
func normReason(s string) string {
	segs := strings.Split(s, ":")
	for i := range segs {
		segs[i] = strings.TrimSpace(segs[i])
	}
	return strings.Join(segs, ":")
}

// textReason is the independent statement of "reason": the text after the leading "<kind>:".
func textReason(text, kindText string) (string, bool) {
	t := strings.TrimSpace(text)
	if !strings.HasPrefix(t, kindText) {
		return "", false
	}
	rest := t[len(kindText):]
	if rest == "" {
		return "", true
	}
	if rest[0] != ':' {
		return "", false
	}
	return normReason(rest[1:]), true
}

// duplicatedPrefix reports whether got = want[:k] ++ want for some k >= 1 (an inner part of the reason
// repeated in front of the reason), on ':'-segments.
func duplicatedPrefix(want, got string) bool {
	w := strings.Split(want, ":")
	g := strings.Split(got, ":")
	if len(g) <= len(w) {
		return false
	}
	k := len(g) - len(w)
	if k > len(w) {
		return false
	}
	for i := 0; i < k; i++ {
		if g[i] != w[i] {
			return false
		}
	}
	for i := range w {
		if g[k+i] != w[i] {
			return false
		}
	}
	return true
}

// unwrapClass: what the error wraps directly (observed on the produced error).
func unwrapClass(e error) string {
	if _, ok := e.(interface{ Unwrap() []error }); ok {
		return "join"
	}
	u := errors.Unwrap(e)
	if u == nil {
		return "nothing(bare sentinel)"
	}
	for _, k := range kindTable {
		if u == k.Err {
			return "sentinel"
		}
	}
	return "non-sentinel error (itself built by a constructor)"
}

const epRoundTrip = "commonerrors.SerialiseError+DeserialiseError"

// roundTrip checks serialise → (bytes cross the boundary) → deserialise on e, which was given the
// kinds want. single: e is one error (not a join). Returns false when a failure was recorded.
func (h *harness) roundTrip(st *stats, e error, want []int, single bool, shape string, class string, witness func() any) bool {
	fail := func(effect, what string, extra map[string]any, kind int) bool {
		w := map[string]any{"case": witness(), "error_text": clip(e.Error())}
		for k, v := range extra {
			w[k] = v
		}
		h.col.add(failure{
			primary: vrun.Sig{"ep": epRoundTrip, "pre": shape, "effect": effect},
			dims:    map[string]string{"kind": kindName(kind), "msg": class},
			what:    what, witness: w,
		})
		return false
	}
	text := e.Error()
	multi := strings.Contains(text, "\n")
	b, err := commonerrors.SerialiseError(e)
	st.add("serialisations", 1)
	if err != nil || len(b) == 0 {
		return fail("serialise-failed", fmt.Sprintf("SerialiseError failed: err=%v, %d bytes", err, len(b)), nil, want[0])
	}
	wire := []byte(string(b)) // only the bytes cross the boundary
	d, err := commonerrors.DeserialiseError(wire)
	st.add("deserialisations", 1)
	if err != nil || d == nil {
		return fail("deserialise-failed", fmt.Sprintf("DeserialiseError failed: err=%v result=%v", err, d), map[string]any{"serialised": clip(string(b))}, want[0])
	}
	// the kind(s) the error was given are still recognised
	for _, k := range want {
		is, an := recognised(d, k)
		st.add("roundtrip_kind_checks", 1)
		if !is || !an {
			return fail("kind-lost", fmt.Sprintf("round trip lost kind %s: %q -> %q is recognised as %v", kindName(k), clip(text), clip(d.Error()), kindNames(kindsOf(d))),
				map[string]any{"serialised": clip(string(b)), "deserialised_text": clip(d.Error()), "deserialised_kinds": kindNames(kindsOf(d)), "lost": kindName(k)}, k)
		}
	}
	if multi {
		st.add("roundtrip_multiline_kind_only", 1)
		return true
	}
	// no other kind gained — only for single-line texts, and (conservatively) only when the text of
	// the gained kind does not occur anywhere in the serialised text: a message that itself contains
	// another kind's name is not promised to stay free of that kind.
	lower := strings.ToLower(string(b))
	for _, k := range kindsOf(d) {
		wanted := false
		for _, w := range want {
			if w == k {
				wanted = true
			}
		}
		if wanted {
			continue
		}
		if strings.Contains(lower, strings.ToLower(kindTable[k].Err.Error())) {
			st.add("roundtrip_gained_kind_dontcare(text contains that kind's name)", 1)
			continue
		}
		return fail("kind-gained", fmt.Sprintf("round trip gained kind %s: %q -> %q", kindName(k), clip(text), clip(d.Error())),
			map[string]any{"serialised": clip(string(b)), "deserialised_kinds": kindNames(kindsOf(d)), "gained": kindName(k)}, k)
	}
	st.add("roundtrip_no_gain_checks", 1)
	if !single {
		return true
	}
	// single error, single-line message: same reason up to whitespace around colons
	k := want[0]
	kt := kindTable[k].Err.Error()
	uc := unwrapClass(e)
	r1, ok1 := textReason(text, kt)
	r2, ok2 := textReason(d.Error(), kt)
	if ok1 && ok2 {
		st.add("reason_comparisons_text", 1)
		if r1 != r2 {
			effect := "reason-changed"
			if duplicatedPrefix(r1, r2) {
				effect = "reason-changed:leading-segments-duplicated"
			}
			h.col.add(failure{
				primary: vrun.Sig{"ep": epRoundTrip, "pre": shape, "wraps": uc, "effect": effect},
				dims:    map[string]string{"kind": kindName(k), "msg": class},
				what:    fmt.Sprintf("round trip changed the reason of a single-line %s error: %q -> %q", kindName(k), clip(text), clip(d.Error())),
				witness: map[string]any{"case": witness(), "error_text": clip(text), "serialised": clip(string(b)), "deserialised_text": clip(d.Error()),
					"reason_before(normalised)": clip(r1), "reason_after(normalised)": clip(r2)},
			})
			return false
		}
	} else {
		st.add("reason_text_not_in_kind_colon_form(skipped)", 1)
	}
	// the same comparison through the library's own accessor
	g1, e1 := commonerrors.GetErrorReason(e)
	g2, e2 := commonerrors.GetErrorReason(d)
	if e1 != nil || e2 != nil {
		st.add("reason_api_error(skipped)", 1)
		return true
	}
	st.add("reason_comparisons_api", 1)
	if normReason(g1) != normReason(g2) {
		h.col.add(failure{
			primary: vrun.Sig{"ep": epRoundTrip, "pre": shape, "wraps": uc, "effect": "reason-changed(GetErrorReason)"},
			dims:    map[string]string{"kind": kindName(k), "msg": class},
			what:    fmt.Sprintf("GetErrorReason differs across the round trip of a single-line %s error: %q -> %q", kindName(k), clip(g1), clip(g2)),
			witness: map[string]any{"case": witness(), "error_text": clip(text), "serialised": clip(string(b)), "reason_before": clip(g1), "reason_after": clip(g2)},
		})
		return false
	}
	return true
}

// ---------------------------------------------------------------------------------------------
// chain cases

func (h *harness) evalChain(st *stats, sp Spec) {
	canon, _ := json.Marshal(sp)
	defer func() {
		if p := recover(); p != nil {
			h.col.add(failure{primary: vrun.Sig{"ep": "constructors/serialisation", "effect": "panic"}, dims: map[string]string{},
				what: fmt.Sprintf("panic: %v", p), witness: map[string]any{"type": "chain", "spec": sp, "panic": fmt.Sprint(p)}})
		}
	}()
	witness := func() any { return map[string]any{"type": "chain", "spec": sp} }
	b, kf := build(sp)
	n := len(sp.Steps)
	nontrivial := n >= 2 || b.ctxCause || (n == 1 && b.class != "plain")
	h.r.Case(string(canon), nontrivial)
	st.add("chains", 1)
	st.set("chain_lengths", fmt.Sprint(n))
	st.add("constructor_calls", int64(n))
	for _, s := range sp.Steps {
		st.set("constructors", s.Fn)
		st.set("message_classes", s.MsgC)
		st.set("constructor×role", s.Fn+"/"+s.Role)
		if s.Role == "target" && isWrapFn(s.Fn) {
			st.set("original_error_classes", s.Other)
		}
	}
	if sp.Base >= 0 {
		st.set("kinds_as_base", kindName(sp.Base))
	} else {
		st.set("kinds_as_base", "nil-target")
	}
	if kf != nil {
		effect := "kind-not-recognised"
		pre := "target=sentinel or constructor-built error"
		dims := map[string]string{"kind": kindName(kf.accept[0]), "msg": string(sp.Steps[kf.step].MsgC)}
		switch {
		case kf.role == "orig":
			pre = "target=sentinel or nil, original=constructor-built error or sentinel"
		case isWrapFn(kf.fn) && strings.Contains(kf.other, "ctx"):
			pre += ", original=context error"
			dims["original"] = kf.other
		case isWrapFn(kf.fn):
			pre += ", original=foreign error or nil"
			dims["original"] = kf.other
		}
		if kf.ctx {
			effect = "cancellation/deadline-cause-reclassified"
		}
		via := "errors.Is+Any"
		if !kf.viaIs && kf.viaAny {
			via = "Any-only"
		}
		h.col.add(failure{
			primary: vrun.Sig{"ep": "commonerrors." + kf.fn, "pre": pre, "effect": effect, "via": via},
			dims:    map[string]string{"kind": kindName(kf.accept[0]), "msg": string(sp.Steps[kf.step].MsgC)},
			what:    fmt.Sprintf("%s result %q is not recognised as %v (step %d of the chain)", kf.fn, kf.text, kindNames(kf.accept), kf.step+1),
			witness: map[string]any{"type": "chain", "spec": sp, "failing_step": kf.step, "expected_kind": kindNames(kf.accept), "result_text": kf.text},
		})
		return
	}
	st.add("kind_recognition_checks", int64(n)+1)
	st.set("kinds_final", kindName(b.kind))
	if b.ctxCause {
		st.add("context_cause_cases", 1)
	}
	if n == 0 {
		// chain length 0: the bare sentinel
		is, an := recognised(b.err, b.kind)
		if !is || !an {
			h.col.add(failure{primary: vrun.Sig{"ep": "commonerrors.Any", "pre": "bare sentinel", "effect": "kind-not-recognised"},
				dims: map[string]string{"kind": kindName(b.kind)}, what: "sentinel not recognised as itself", witness: witness()})
			return
		}
	}
	shape := "single error"
	multi := strings.Contains(b.err.Error(), "\n") // judged on the text (a message may have been dropped on the way)
	if multi {
		shape = "single error, multi-line text"
		st.add("chains_multiline(kind only)", 1)
	}
	h.roundTrip(st, b.err, []int{b.kind}, true, shape, b.class, witness)
	if h.r.WantSample() && n >= 2 && !multi {
		ser, _ := commonerrors.SerialiseError(b.err)
		d, _ := commonerrors.DeserialiseError(ser)
		h.r.Sample(map[string]any{"spec": sp, "kind_given": kindName(b.kind), "error_text": clip(b.err.Error()), "serialised": clip(string(ser)), "deserialised_kinds": kindNames(kindsOf(d))})
	}
}

// ---------------------------------------------------------------------------------------------
// joins

type JoinSpec struct {
	Parts []Spec `json:"parts"`
}

func (h *harness) evalJoin(st *stats, js JoinSpec) {
	canon, _ := json.Marshal(js)
	defer func() {
		if p := recover(); p != nil {
			h.col.add(failure{primary: vrun.Sig{"ep": "errors.Join/serialisation", "effect": "panic"}, dims: map[string]string{},
				what: fmt.Sprintf("panic: %v", p), witness: map[string]any{"type": "join", "spec": js, "panic": fmt.Sprint(p)}})
		}
	}()
	h.r.Case(string(canon), true)
	st.add("joins", 1)
	st.set("join_sizes", fmt.Sprint(len(js.Parts)))
	var errs []error
	var want []int
	class := "plain"
	multi := false
	for i, p := range js.Parts {
		b, kf := build(p)
		if kf != nil {
			return // reported by the chain sweep; a join needs its parts
		}
		errs = append(errs, b.err)
		seen := false
		for _, w := range want {
			if w == b.kind {
				seen = true
			}
		}
		if !seen {
			want = append(want, b.kind)
		}
		if i == 0 || classRank(b.class) < classRank(class) {
			class = b.class
		}
		if b.multi {
			multi = true
		}
	}
	st.set("join_distinct_kinds", fmt.Sprint(len(want)))
	j := errors.Join(errs...)
	shape := fmt.Sprintf("join of %d", len(js.Parts))
	if multi {
		shape += ", a part has a multi-line message"
	}
	h.roundTrip(st, j, want, false, shape, class, func() any { return map[string]any{"type": "join", "spec": js} })
}
