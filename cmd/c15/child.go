package main

// Executor: runs in a child process (C15_CHILD=1) whose environment was cleared and whose working
// directory is an empty scratch directory. Reads cases (JSON) on stdin, runs them one after the other
// against the real library with fresh viper/pflag objects, and writes raw observations (JSON) on
// stdout. It does not judge anything.

import (
	"encoding/json"
	"fmt"
	"io"
	"os"
	"path/filepath"
	"reflect"
	"sort"
	"strconv"
	"strings"
	"time"

	validation "github.com/go-ozzo/ozzo-validation/v4"
	toml "github.com/pelletier/go-toml/v2"
	"github.com/spf13/pflag"
	"github.com/spf13/viper"
	yaml "gopkg.in/yaml.v3"

	"github.com/ARM-software/golang-utils/utils/commonerrors"
	"github.com/ARM-software/golang-utils/utils/config"
)

// FieldPlan: what each source gives one leaf. Values are canonical strings (see canonOf).
type FieldPlan struct {
	Leaf     int      `json:"leaf"`
	Def      string   `json:"def"`            // value in the defaults structure (zero when D is not in the subset)
	HasDef   bool     `json:"has_def"`        // D in the subset (Def is a tagged non-zero value or a deliberate zero)
	File     *string  `json:"file,omitempty"` // F in the subset
	Env      *string  `json:"env,omitempty"`  // E in the subset
	FlagMode int      `json:"flag_mode"`      // 0 none, 1 single unchanged, 2 single changed, 3 multi one changed, 4 multi none changed
	FlagVal  string   `json:"flag_val,omitempty"`
	FlagDefs []string `json:"flag_defs,omitempty"` // default value of each bound flag
	FlagPick int      `json:"flag_pick,omitempty"` // which of the bound flags is changed
	EnvForm  int      `json:"env_form,omitempty"`  // spelling handed to BindFlag(s)ToEnv: 0 with prefix, 1 without prefix (upper), 2 without prefix (tag spelling)
	SetFirst bool     `json:"set_first,omitempty"` // flag value set before (true) or after binding
}

type Case struct {
	Idx      int         `json:"idx"`
	Kind     string      `json:"kind"` // prec | names
	Type     int         `json:"type"`
	Prefix   string      `json:"prefix"`
	API      string      `json:"api"`    // Load | LoadFromViper | LoadFromEnvironment
	Format   string      `json:"format"` // "" | yaml | json | toml
	Style    int         `json:"style"`
	Required []string    `json:"required,omitempty"`
	Fields   []FieldPlan `json:"fields"`
}

type LoadObs struct {
	ErrNil     bool              `json:"err_nil"`
	ErrInvalid bool              `json:"err_invalid"`
	ErrText    string            `json:"err_text,omitempty"`
	Values     map[string]string `json:"values"` // Go path -> canonical value of the structure after the call
	Panic      string            `json:"panic,omitempty"`
}

type NamesObs struct {
	DetermineErr string              `json:"determine_err,omitempty"`
	Reported     []string            `json:"reported"`
	RepKind      map[string]string   `json:"rep_kind"`
	RepValue     map[string]string   `json:"rep_value"`
	Probe        map[string]string   `json:"probe"` // name -> canonical value it was set to
	Baseline     LoadObs             `json:"baseline"`
	Per          map[string]*LoadObs `json:"per"` // name -> load with only that variable set
}

type Result struct {
	Idx        int       `json:"idx"`
	Harness    string    `json:"harness,omitempty"` // harness-side failure (never a verdict)
	Load       *LoadObs  `json:"load,omitempty"`
	Names      *NamesObs `json:"names,omitempty"`
	EnvSet     []string  `json:"env_set,omitempty"`
	FileText   string    `json:"file_text,omitempty"`
	Validated  []string  `json:"validated,omitempty"`
	LeftoverEn int       `json:"leftover_env,omitempty"`
}

func fmtFloat(f float64) string { return strconv.FormatFloat(f, 'g', -1, 64) }

func parseCanon(kind, s string) (any, error) {
	switch kind {
	case "string":
		return s, nil
	case "int":
		n, err := strconv.Atoi(s)
		return n, err
	case "bool":
		return strconv.ParseBool(s)
	case "float":
		return strconv.ParseFloat(s, 64)
	case "duration":
		n, err := strconv.ParseInt(s, 10, 64)
		return time.Duration(n), err
	}
	return nil, fmt.Errorf("kind %q", kind)
}

// textOf: how a canonical value is spelled in an environment variable / on a command line.
func textOf(kind, canon string) string {
	if kind == "duration" {
		n, _ := strconv.ParseInt(canon, 10, 64)
		return time.Duration(n).String()
	}
	return canon
}

func setLeaf(cfg any, l leafDesc, canon string) error {
	x, err := parseCanon(l.Kind, canon)
	if err != nil {
		return err
	}
	leafValue(cfg, l).Set(reflect.ValueOf(x))
	return nil
}

func snapshot(cfg any, td *typeDesc) map[string]string {
	m := map[string]string{}
	for _, l := range td.Leaves {
		m[l.goPath()] = canonOf(leafValue(cfg, l))
	}
	return m
}

func childMain() {
	filesDir := os.Getenv("C15_FILES")
	os.Clearenv()
	if err := buildFamily(); err != nil {
		fmt.Fprintln(os.Stderr, "family:", err)
		os.Exit(3)
	}
	in, err := io.ReadAll(os.Stdin)
	if err != nil {
		fmt.Fprintln(os.Stderr, "stdin:", err)
		os.Exit(3)
	}
	var cases []Case
	if err := json.Unmarshal(in, &cases); err != nil {
		fmt.Fprintln(os.Stderr, "cases:", err)
		os.Exit(3)
	}
	if ents, err := os.ReadDir("."); err != nil || len(ents) != 0 {
		fmt.Fprintln(os.Stderr, "working directory is not empty")
		os.Exit(3)
	}
	out := make([]Result, 0, len(cases))
	for i := range cases {
		os.Clearenv()
		res := runCase(&cases[i], filesDir)
		res.LeftoverEn = 0
		os.Clearenv()
		out = append(out, res)
	}
	enc := json.NewEncoder(os.Stdout)
	if err := enc.Encode(out); err != nil {
		fmt.Fprintln(os.Stderr, "encode:", err)
		os.Exit(3)
	}
}

func runCase(c *Case, filesDir string) (res Result) {
	res.Idx = c.Idx
	defer func() {
		if p := recover(); p != nil {
			res.Harness = fmt.Sprintf("executor panic outside the library call: %v", p)
		}
	}()
	td := family[c.Type]
	curRequired = map[string]bool{}
	for _, k := range c.Required {
		curRequired[k] = true
	}
	curStyle = c.Style
	if c.Style == styleOzzoTag {
		validation.ErrorTag = "mapstructure"
	} else {
		validation.ErrorTag = "json"
	}
	defaults := td.New()
	for _, fp := range c.Fields {
		if err := setLeaf(defaults, td.Leaves[fp.Leaf], fp.Def); err != nil {
			res.Harness = "defaults: " + err.Error()
			return
		}
	}
	if c.Kind == "names" {
		res.Names = runNames(c, td, defaults)
		return
	}

	// environment
	for _, fp := range c.Fields {
		if fp.Env == nil {
			continue
		}
		l := td.Leaves[fp.Leaf]
		n := l.envName(c.Prefix)
		txt := textOf(l.Kind, *fp.Env)
		names := []string{n}
		if l.hasDash() {
			// the literal spelling and the dash-normalised one get the same value: whichever reading of
			// PREFIX_PATH_TO_FIELD is meant, the value is the environment's
			names = append(names, strings.ReplaceAll(n, "-", "_"))
		}
		for _, nn := range names {
			if err := os.Setenv(nn, txt); err != nil {
				res.Harness = "setenv: " + err.Error()
				return
			}
			res.EnvSet = append(res.EnvSet, nn+"="+txt)
		}
	}

	// configuration file
	cfgFile := ""
	if c.Format != "" {
		tree := map[string]any{}
		n := 0
		for _, fp := range c.Fields {
			if fp.File == nil {
				continue
			}
			l := td.Leaves[fp.Leaf]
			x, err := parseCanon(l.Kind, *fp.File)
			if err != nil {
				res.Harness = "file value: " + err.Error()
				return
			}
			if d, ok := x.(time.Duration); ok {
				x = d.String()
			}
			if iv, ok := x.(int); ok {
				x = int64(iv)
			}
			m := tree
			var keys []string
			for _, t := range l.Tags {
				if t != "" {
					keys = append(keys, t)
				}
			}
			for _, k := range keys[:len(keys)-1] {
				sub, ok := m[k].(map[string]any)
				if !ok {
					sub = map[string]any{}
					m[k] = sub
				}
				m = sub
			}
			m[keys[len(keys)-1]] = x
			n++
		}
		if n > 0 {
			var b []byte
			var err error
			switch c.Format {
			case "json":
				b, err = json.MarshalIndent(tree, "", "  ")
			case "yaml":
				b, err = yaml.Marshal(tree)
			case "toml":
				b, err = toml.Marshal(tree)
			default:
				err = fmt.Errorf("format %q", c.Format)
			}
			if err != nil {
				res.Harness = "file marshal: " + err.Error()
				return
			}
			cfgFile = filepath.Join(filesDir, fmt.Sprintf("case-%d.%s", c.Idx, c.Format))
			if err := os.WriteFile(cfgFile, b, 0o600); err != nil {
				res.Harness = "file write: " + err.Error()
				return
			}
			defer os.Remove(cfgFile)
			res.FileText = string(b)
		}
	}

	// flags
	session := viper.New()
	flagSet := pflag.NewFlagSet("c15", pflag.ContinueOnError)
	for _, fp := range c.Fields {
		if fp.FlagMode == 0 {
			continue
		}
		l := td.Leaves[fp.Leaf]
		var flags []*pflag.Flag
		for k, d := range fp.FlagDefs {
			name := fmt.Sprintf("f%d-%d", fp.Leaf, k)
			x, err := parseCanon(l.Kind, d)
			if err != nil {
				res.Harness = "flag default: " + err.Error()
				return
			}
			switch v := x.(type) {
			case string:
				flagSet.String(name, v, "")
			case int:
				flagSet.Int(name, v, "")
			case bool:
				flagSet.Bool(name, v, "")
			case float64:
				flagSet.Float64(name, v, "")
			case time.Duration:
				flagSet.Duration(name, v, "")
			}
			flags = append(flags, flagSet.Lookup(name))
		}
		changed := fp.FlagMode == 2 || fp.FlagMode == 3
		set := func() bool {
			if !changed {
				return true
			}
			if err := flagSet.Set(flags[fp.FlagPick].Name, textOf(l.Kind, fp.FlagVal)); err != nil {
				res.Harness = "flag set: " + err.Error()
				return false
			}
			return true
		}
		if fp.SetFirst && !set() {
			return
		}
		envVar := l.envName(c.Prefix)
		switch fp.EnvForm {
		case 1:
			envVar = strings.ToUpper(l.tagPath("_"))
		case 2:
			envVar = l.tagPath("_")
		}
		var err error
		if fp.FlagMode <= 2 {
			err = config.BindFlagToEnv(session, c.Prefix, envVar, flags[0])
		} else {
			err = config.BindFlagsToEnv(session, c.Prefix, envVar, flags...)
		}
		if err != nil {
			res.Harness = "bind: " + err.Error()
			return
		}
		if !fp.SetFirst && !set() {
			return
		}
	}

	target := td.New()
	validateLog = nil
	lo := doLoad(c.API, session, c.Prefix, target, defaults, cfgFile, td)
	res.Load = &lo
	res.Validated = append([]string{}, validateLog...)
	return
}

func doLoad(api string, session *viper.Viper, prefix string, target, defaults config.IServiceConfiguration, cfgFile string, td *typeDesc) (lo LoadObs) {
	var err error
	func() {
		defer func() {
			if p := recover(); p != nil {
				lo.Panic = fmt.Sprint(p)
			}
		}()
		switch api {
		case "Load":
			err = config.Load(prefix, target, defaults)
		case "LoadFromViper":
			err = config.LoadFromViper(session, prefix, target, defaults)
		default:
			err = config.LoadFromEnvironment(session, prefix, target, defaults, cfgFile)
		}
	}()
	lo.Values = snapshot(target, td)
	if lo.Panic != "" {
		return
	}
	if err == nil {
		lo.ErrNil = true
		return
	}
	lo.ErrInvalid = commonerrors.Any(err, commonerrors.ErrInvalid)
	lo.ErrText = err.Error()
	return
}

// runNames: DetermineConfigurationEnvironmentVariables on the defaults, then one load per reported
// name with only that variable set (value chosen after the Go type of the reported value).
func runNames(c *Case, td *typeDesc, defaults config.IServiceConfiguration) *NamesObs {
	no := &NamesObs{RepKind: map[string]string{}, RepValue: map[string]string{}, Probe: map[string]string{}, Per: map[string]*LoadObs{}}
	var vars map[string]interface{}
	var err error
	func() {
		defer func() {
			if p := recover(); p != nil {
				err = fmt.Errorf("panic: %v", p)
			}
		}()
		vars, err = config.DetermineConfigurationEnvironmentVariables(c.Prefix, defaults)
	}()
	if err != nil {
		no.DetermineErr = err.Error()
		return no
	}
	for n := range vars {
		no.Reported = append(no.Reported, n)
	}
	sort.Strings(no.Reported)
	no.Baseline = doLoad(c.API, viper.New(), c.Prefix, td.New(), defaults, "", td)
	for i, n := range no.Reported {
		var kind, canon, probe string
		switch v := vars[n].(type) {
		case string:
			kind, canon, probe = "string", v, fmt.Sprintf("probe-%d", i)
		case int:
			kind, canon, probe = "int", fmt.Sprint(v), fmt.Sprint(700000+i)
		case bool:
			kind, canon, probe = "bool", fmt.Sprint(v), fmt.Sprint(!v)
		case float64:
			kind, canon, probe = "float", fmtFloat(v), fmtFloat(7000.5+float64(i))
		case time.Duration:
			kind, canon, probe = "duration", fmt.Sprint(int64(v)), fmt.Sprint(int64(7*time.Hour+time.Duration(i+1)*time.Second))
		default:
			kind, canon, probe = fmt.Sprintf("%T", v), fmt.Sprint(v), fmt.Sprintf("probe-%d", i)
		}
		no.RepKind[n], no.RepValue[n], no.Probe[n] = kind, canon, probe
		os.Clearenv()
		txt := probe
		if kind == "duration" {
			txt = textOf("duration", probe)
		}
		if err := os.Setenv(n, txt); err != nil {
			// a name the operating system cannot even hold: nothing can honour it
			lo := LoadObs{ErrNil: true, Values: no.Baseline.Values, ErrText: "setenv " + n + ": " + err.Error()}
			no.Per[n] = &lo
			continue
		}
		lo := doLoad(c.API, viper.New(), c.Prefix, td.New(), defaults, "", td)
		no.Per[n] = &lo
	}
	os.Clearenv()
	return no
}
