// C15 — configuration loading: precedence of sources, then validation.
//
// Reference-model monitor. A fixed family of 10 hand-written configuration types (depth 1..3, leaf
// kinds string/int/bool/float64/time.Duration, tags in lower/UPPER/mixedCase with '_' and '-' and
// numeric suffixes, embedded and squashed members, a member without Validate) is loaded through the
// real library (Load / LoadFromViper / LoadFromEnvironment, BindFlagToEnv / BindFlagsToEnv,
// DetermineConfigurationEnvironmentVariables). Every source (defaults structure, configuration file in
// yaml/json/toml, environment variable PREFIX_PATH_TO_FIELD, explicitly set flag) gives a leaf a value
// tagged with its source, so the winner is read off the loaded structure and compared with the
// precedence lattice flag(set) > env > file > defaults. Validation: hand-written Validate methods driven
// by a per-case "required" mask; the oracle recomputes on the loaded structure which required leaves
// are blank and demands nil / an 'invalid' error naming one of them accordingly.
//
// Process-global state (os environment, ozzo's ErrorTag, the mask): cases are executed sequentially in
// child processes (this binary re-executed with C15_CHILD=1, cleared environment, empty working
// directory); parallelism is across processes only. The parent generates the cases (pure function of
// VERIF_SEED and tier) and holds the oracle; the child only executes and reports observations.
package main

import (
	"bytes"
	"context"
	"encoding/json"
	"fmt"
	"os"
	"os/exec"
	"path/filepath"
	"regexp"
	"sort"
	"strings"
	"sync"
	"time"

	"verif/internal/vrun"
)

var prefixes = []string{"app", "APP", "My_App", "a1", "", "svc_"}
var formats = []string{"yaml", "json", "toml"}
var srcNames = []string{"dflt", "file", "env", "flag", "fdef"}
var flagModeNames = []string{"none", "single-unchanged", "single-changed", "multi-one-changed", "multi-none-changed"}

const (
	bitD = 1
	bitF = 2
	bitE = 4
	bitG = 8
)

func subsetName(s int) string {
	n := ""
	for i, c := range "DFEG" {
		if s&(1<<i) != 0 {
			n += string(c)
		}
	}
	if n == "" {
		return "none"
	}
	return n
}

// ---------------------------------------------------------------------------------------------
// generator

type rnd interface {
	IntN(int) int
}

func token(rng rnd) string {
	const first = "abcdefghijklmnopqrstuvwxyzABCDEFGHIJKLMNOPQRSTUVWXYZ0123456789"
	const inner = first + "     -_.:/"
	n := 3 + rng.IntN(8)
	b := make([]byte, n)
	for i := range b {
		if i == 0 || i == n-1 {
			b[i] = first[rng.IntN(len(first))]
		} else {
			b[i] = inner[rng.IntN(len(inner))]
		}
	}
	return string(b)
}

// genValue: a non-zero canonical value of the kind, tagged with its source (src 0..3, 4+k = default of
// the k-th bound flag); values of different sources of one leaf are pairwise distinct by construction.
func genValue(rng rnd, kind string, src, leaf int) string {
	neg := rng.IntN(5) == 0
	switch kind {
	case "string":
		name := "fdef"
		if src < 4 {
			name = srcNames[src]
		}
		return fmt.Sprintf("%s%d-%d-%s", name, src, leaf, token(rng))
	case "int":
		v := (src+1)*100000 + leaf*1000 + 1 + rng.IntN(999)
		if neg {
			v = -v
		}
		return fmt.Sprint(v)
	case "float":
		v := float64((src+1)*1000+leaf) + []float64{0.25, 0.5, 0.75, 0.125, 0.0}[rng.IntN(5)]
		if neg {
			v = -v
		}
		return fmtFloat(v)
	case "duration":
		d := time.Duration(src+1)*time.Hour + time.Duration(leaf)*time.Minute + time.Duration(1+rng.IntN(59))*time.Second
		if rng.IntN(3) == 0 {
			d += time.Duration(1+rng.IntN(999)) * time.Millisecond
		}
		return fmt.Sprint(int64(d))
	}
	return "?"
}

// ownTagStartsWithPrefix: the leaf's own path begins with the spelling of the prefix.
func ownTagStartsWithPrefix(l leafDesc, prefix string) bool {
	return strings.HasPrefix(strings.ToLower(l.tagPath("_")), strings.ToLower(prefix))
}

// preClass: precondition class of a judged leaf (part of violation signatures). The first class is a
// property of the (structure, prefix) pair: some tag of the structure begins with the prefix spelling.
func preClass(td *typeDesc, l leafDesc, prefix string) string {
	for _, o := range td.Leaves {
		if ownTagStartsWithPrefix(o, prefix) {
			return "a-tag-starts-with-prefix"
		}
	}
	if l.hasDash() {
		return "dash-in-path"
	}
	return "plain"
}

func genPrecCase(r *vrun.Run, idx int) Case {
	rng := r.Rand("c15-prec", idx)
	ti := idx % len(family)
	td := family[ti]
	c := Case{Idx: idx, Kind: "prec", Type: ti}
	c.Prefix = prefixes[(idx/len(family))%len(prefixes)]
	allowed := bitD | bitF | bitE | bitG
	switch p := rng.IntN(10); {
	case p == 0:
		c.API, allowed = "Load", bitD|bitE
	case p <= 2:
		c.API, allowed = "LoadFromViper", bitD|bitE|bitG
	default:
		c.API = "LoadFromEnvironment"
		c.Format = formats[rng.IntN(len(formats))]
	}
	c.Style = rng.IntN(4)
	if rng.IntN(2) == 1 {
		seen := map[string]bool{}
		for _, l := range td.Leaves {
			k := l.Owner + "." + l.Field
			if l.CanRequire && !seen[k] && rng.IntN(10) < 3 {
				seen[k] = true
				c.Required = append(c.Required, k)
			}
		}
		sort.Strings(c.Required)
	}
	for _, l := range td.Leaves {
		fp := FieldPlan{Leaf: l.Idx}
		sub := rng.IntN(16) & allowed
		winner := -1 // index into D,F,E,G
		for i := 3; i >= 0; i-- {
			if sub&(1<<i) != 0 {
				winner = i
				break
			}
		}
		zeroWin := winner >= 0 && rng.IntN(5) == 0 && !(winner == 2 && l.Kind == "string")
		bw := rng.IntN(2) == 0 // the winner's value for a bool leaf
		if zeroWin {
			bw = false
		}
		val := func(src int) string {
			if l.Kind == "bool" {
				if src == winner {
					return fmt.Sprint(bw)
				}
				return fmt.Sprint(!bw)
			}
			if src == winner && zeroWin {
				return zeroCanon(l.Kind)
			}
			return genValue(rng, l.Kind, src, l.Idx)
		}
		fp.Def = zeroCanon(l.Kind)
		if sub&bitD != 0 {
			fp.HasDef = true
			fp.Def = val(0)
		}
		if sub&bitF != 0 {
			v := val(1)
			fp.File = &v
		}
		if sub&bitE != 0 {
			v := val(2)
			fp.Env = &v
		}
		nflags := 0
		if sub&bitG != 0 {
			fp.FlagMode = 2
			nflags = 1
			if rng.IntN(10) < 3 {
				fp.FlagMode = 3
				nflags = 2 + rng.IntN(2)
			}
			fp.FlagVal = val(3)
		} else if allowed&bitG != 0 && rng.IntN(4) == 0 {
			fp.FlagMode = 1
			nflags = 1
			if rng.IntN(10) < 3 {
				fp.FlagMode = 4
				nflags = 2 + rng.IntN(2)
			}
		}
		for k := 0; k < nflags; k++ {
			var d string
			switch {
			case l.Kind == "bool" && (fp.FlagMode == 2 || fp.FlagMode == 3):
				d = fmt.Sprint(!bw)
			case l.Kind == "bool":
				d = fmt.Sprint(rng.IntN(2) == 0)
			case rng.IntN(4) == 0:
				d = zeroCanon(l.Kind)
			default:
				d = genValue(rng, l.Kind, 4+k, l.Idx)
			}
			fp.FlagDefs = append(fp.FlagDefs, d)
		}
		if nflags > 0 {
			fp.FlagPick = rng.IntN(nflags)
			fp.SetFirst = rng.IntN(2) == 0
			fp.EnvForm = rng.IntN(3)
			if ownTagStartsWithPrefix(l, c.Prefix) {
				fp.EnvForm = 0 // "NAME without the prefix" is itself ambiguous when the path starts with the prefix spelling
			}
		}
		c.Fields = append(c.Fields, fp)
	}
	return c
}

func genNamesCase(r *vrun.Run, idx, k int) Case {
	rng := r.Rand("c15-names", k)
	ti := k % len(family)
	td := family[ti]
	c := Case{Idx: idx, Kind: "names", Type: ti, Prefix: prefixes[(k/len(family))%len(prefixes)]}
	c.API = []string{"Load", "LoadFromViper"}[rng.IntN(2)]
	for _, l := range td.Leaves {
		fp := FieldPlan{Leaf: l.Idx, HasDef: true}
		if l.Kind == "bool" {
			fp.Def = fmt.Sprint(rng.IntN(2) == 0)
		} else {
			fp.Def = genValue(rng, l.Kind, 0, l.Idx)
		}
		c.Fields = append(c.Fields, fp)
	}
	return c
}

// ---------------------------------------------------------------------------------------------
// oracle (written from the property statement; see the don't-care regions in main's Rule/Assume)

// expect: the canonical values the statement allows for a leaf, and the name of the winning source.
func expect(fp FieldPlan, kind string) (accept []string, winner string) {
	switch {
	case fp.FlagMode == 2 || fp.FlagMode == 3:
		return []string{fp.FlagVal}, "flag"
	case fp.Env != nil:
		accept, winner = []string{*fp.Env}, "env"
	case fp.File != nil:
		accept, winner = []string{*fp.File}, "file"
	case fp.HasDef:
		accept, winner = []string{fp.Def}, "defaults"
	default:
		accept, winner = []string{fp.Def}, "none"
	}
	// A flag that is bound but not set is not one of the four sources. The package documents that its
	// default value stands in where the configuration's own value is empty; the statement is silent, so
	// where the winner is blank both readings are accepted (don't care).
	if (fp.FlagMode == 1 || fp.FlagMode == 4) && accept[0] == zeroCanon(kind) {
		accept = append(accept, fp.FlagDefs...)
	}
	return
}

func classifyGot(fp FieldPlan, kind, got string) string {
	switch {
	case (fp.FlagMode == 2 || fp.FlagMode == 3) && got == fp.FlagVal:
		return "flag"
	case fp.Env != nil && got == *fp.Env:
		return "env"
	case fp.File != nil && got == *fp.File:
		return "file"
	case fp.HasDef && got == fp.Def:
		return "defaults"
	}
	for _, d := range fp.FlagDefs {
		if got == d {
			return "flag-default"
		}
	}
	if got == zeroCanon(kind) {
		return "zero"
	}
	return "other"
}

var reEnvPath = regexp.MustCompile(`\[([A-Za-z0-9_\-]+)\]`)

func norm(s string) string { return strings.ReplaceAll(strings.ToLower(s), "-", "_") }

// namesLeaf: the error text names the leaf if, level by level and in order, it contains the Go field
// name or the mapstructure name of every level (case-insensitive, '-' and '_' identified); a squashed
// level may be omitted.
func namesLeaf(text string, l leafDesc) bool {
	t := norm(text)
	var rec func(level, pos int) bool
	rec = func(level, pos int) bool {
		if level == len(l.Go) {
			return true
		}
		alts := []string{norm(l.Go[level])}
		if l.Tags[level] != "" {
			alts = append(alts, norm(l.Tags[level]))
		} else if rec(level+1, pos) {
			return true
		}
		for _, a := range alts {
			if i := strings.Index(t[pos:], a); i >= 0 && rec(level+1, pos+i+len(a)) {
				return true
			}
		}
		return false
	}
	return rec(0, 0)
}

func depthName(l leafDesc) string { return fmt.Sprintf("level-%d", len(l.Go)) }

func judgePrec(r *vrun.Run, c *Case, res *Result) {
	td := family[c.Type]
	wit := func(extra map[string]any) map[string]any {
		m := map[string]any{"case": c, "result": res, "type": td.Name}
		for k, v := range extra {
			m[k] = v
		}
		return m
	}
	lo := res.Load
	r.Obs("loads", 1)
	r.ObsSet("apis", c.API)
	r.ObsSet("types", td.Name)
	r.ObsSet("prefixes", c.Prefix)
	if res.FileText != "" {
		r.ObsSet("file_formats", c.Format)
	}
	if lo.Panic != "" {
		r.Violation(vrun.Sig{"clause": "load", "ep": c.API, "effect": "panic"}, "loading panicked: "+lo.Panic, wit(nil))
		return
	}
	req := map[string]bool{}
	for _, k := range c.Required {
		req[k] = true
	}
	var blank []leafDesc // required leaves that are blank in the resulting structure
	for _, l := range td.Leaves {
		if l.CanRequire && req[l.Owner+"."+l.Field] && lo.Values[l.goPath()] == zeroCanon(l.Kind) {
			blank = append(blank, l)
		}
	}
	styleName := []string{"ozzo-field", "ozzo-mapstructure-tag", "plain-error", "commonerrors-error-of-another-category"}[c.Style]
	if !lo.ErrNil {
		if len(blank) == 0 {
			r.Violation(vrun.Sig{"clause": "load", "ep": c.API, "effect": "error-although-structure-valid", "invalid_kind": fmt.Sprint(lo.ErrInvalid)},
				"loading returned an error although every Validate level passes on the resulting structure: "+lo.ErrText, wit(nil))
			return
		}
		r.Obs("validation_failures_judged", 1)
		r.ObsSet("validation_styles", styleName)
		for _, l := range blank {
			r.ObsSet("validation_failure_levels", depthName(l))
		}
		if !lo.ErrInvalid {
			r.Violation(vrun.Sig{"clause": "validation", "effect": "error-not-invalid-kind", "level": depthName(blank[0])},
				"validation failure reported with a kind other than 'invalid': "+lo.ErrText, wit(nil))
		}
		named := false
		for _, l := range blank {
			if namesLeaf(lo.ErrText, l) {
				named = true
				break
			}
		}
		if !named {
			var bl []string
			for _, l := range blank {
				bl = append(bl, l.goPath()+" ["+l.tagPath(".")+"]")
			}
			r.Violation(vrun.Sig{"clause": "validation", "effect": "offending-field-not-named", "level": depthName(blank[0]), "style": styleName},
				fmt.Sprintf("error %q names none of the blank required fields %v", lo.ErrText, bl), wit(map[string]any{"blank": bl}))
		}
		// when the error also gives the path of the section as environment variables spell it ("[PREFIX_SECTION_SUB]"), that
		// path leads to one of the blank fields: it is a prefix of the name of the variable which would fill it
		if m := reEnvPath.FindStringSubmatch(lo.ErrText); m != nil {
			r.Obs("validation_errors_with_an_environment_path_judged", 1)
			ok := false
			for _, l := range blank {
				if strings.HasPrefix(norm(l.envName(c.Prefix)), norm(m[1])) {
					ok = true
					break
				}
			}
			if !ok {
				var bl []string
				for _, l := range blank {
					bl = append(bl, l.envName(c.Prefix))
				}
				r.Violation(vrun.Sig{"clause": "validation", "effect": "environment-path-leads-to-no-offending-field", "level": depthName(blank[0]), "style": styleName},
					fmt.Sprintf("error %q gives the environment path %q which is a prefix of none of the variables of the blank required fields %v", lo.ErrText, m[1], bl), wit(map[string]any{"blank_env_names": bl}))
			}
		}
		// the values of a structure whose loading failed are not judged (don't care)
		return
	}
	r.Obs("loads_succeeded", 1)
	if len(blank) > 0 {
		l := blank[0]
		r.Violation(vrun.Sig{"clause": "validation", "effect": "nil-although-validate-fails", "level": depthName(l)},
			fmt.Sprintf("loading returned nil although required field %s of %s is blank (%q)", l.goPath(), td.Name, lo.Values[l.goPath()]), wit(map[string]any{"blank": l.goPath()}))
	}
	for _, fp := range c.Fields {
		l := td.Leaves[fp.Leaf]
		accept, winner := expect(fp, l.Kind)
		got := lo.Values[l.goPath()]
		sub := 0
		if fp.HasDef {
			sub |= bitD
		}
		if fp.File != nil {
			sub |= bitF
		}
		if fp.Env != nil {
			sub |= bitE
		}
		if fp.FlagMode == 2 || fp.FlagMode == 3 {
			sub |= bitG
		}
		r.ObsSet("source_subsets", subsetName(sub))
		r.ObsSet("winner_by_kind", winner+"/"+l.Kind)
		r.ObsSet("flag_modes", flagModeNames[fp.FlagMode])
		if fp.FlagMode != 0 {
			r.ObsSet("flag_env_spellings", []string{"with-prefix", "without-prefix-upper", "without-prefix-tag-spelling"}[fp.EnvForm])
		}
		if winner != "none" && accept[0] == zeroCanon(l.Kind) {
			r.ObsSet("zero_valued_winners", winner+"/"+l.Kind)
		}
		r.Obs("leaf_values_judged", 1)
		if len(accept) > 1 {
			r.Obs("leaf_values_with_dontcare_flag_default", 1)
		}
		ok := false
		for _, a := range accept {
			if got == a {
				ok = true
			}
		}
		if ok {
			continue
		}
		flagState := []string{"not-bound", "bound-unset", "set", "set", "bound-unset"}[fp.FlagMode]
		r.Violation(vrun.Sig{"clause": "precedence", "winner": winner, "got": classifyGot(fp, l.Kind, got), "flag": flagState, "pre": preClass(td, l, c.Prefix)},
			fmt.Sprintf("%s.%s (env %s, sources %s, flag %s): loaded %q, highest-priority source %s gives %q",
				td.Name, l.goPath(), l.envName(c.Prefix), subsetName(sub), flagModeNames[fp.FlagMode], got, winner, accept[0]),
			wit(map[string]any{"leaf": l.goPath(), "env_name": l.envName(c.Prefix), "got": got, "accept": accept, "winner": winner}))
	}
}

func judgeNames(r *vrun.Run, c *Case, res *Result) {
	td := family[c.Type]
	no := res.Names
	wit := func(extra map[string]any) map[string]any {
		m := map[string]any{"case": c, "result": res, "type": td.Name}
		for k, v := range extra {
			m[k] = v
		}
		return m
	}
	r.ObsSet("names_types_x_prefixes", td.Name+"/"+c.Prefix)
	if no.DetermineErr != "" {
		r.Violation(vrun.Sig{"clause": "names", "effect": "determine-error"}, "DetermineConfigurationEnvironmentVariables failed on a populated structure: "+no.DetermineErr, wit(nil))
		return
	}
	r.Obs("loads", 1)
	if no.Baseline.Panic != "" || !no.Baseline.ErrNil {
		r.Violation(vrun.Sig{"clause": "load", "ep": c.API, "effect": "error-although-structure-valid", "invalid_kind": fmt.Sprint(no.Baseline.ErrInvalid)},
			"loading defaults only failed: "+no.Baseline.ErrText+no.Baseline.Panic, wit(nil))
		return
	}
	byEnv := map[string]leafDesc{}
	for _, l := range td.Leaves {
		byEnv[l.envName(c.Prefix)] = l
	}
	reached := map[string]string{}
	for _, n := range no.Reported {
		per := no.Per[n]
		r.Obs("loads", 1)
		r.Obs("reported_names_probed", 1)
		pre := "unknown-name"
		if l, ok := byEnv[n]; ok {
			pre = preClass(td, l, c.Prefix)
		}
		if per.Panic != "" {
			r.Violation(vrun.Sig{"clause": "load", "ep": c.API, "effect": "panic"}, "loading panicked: "+per.Panic, wit(map[string]any{"name": n}))
			continue
		}
		honoured := false
		for _, l := range td.Leaves {
			p := l.goPath()
			if per.Values[p] != no.Baseline.Values[p] && per.Values[p] == no.Probe[n] {
				honoured = true
				reached[p] = n
			}
		}
		if honoured {
			r.Obs("reported_names_honoured", 1)
			r.ObsSet("names_honoured_classes", pre+"/"+no.RepKind[n])
			continue
		}
		r.Violation(vrun.Sig{"clause": "names", "effect": "reported-name-not-honoured", "pre": pre},
			fmt.Sprintf("%s prefix %q: reported variable %s (reported value %q of type %s) set alone to %q changes no field to that value (error: %q)",
				td.Name, c.Prefix, n, no.RepValue[n], no.RepKind[n], no.Probe[n], per.ErrText), wit(map[string]any{"name": n}))
	}
	for _, l := range td.Leaves {
		r.Obs("leaves_checked_for_a_reported_name", 1)
		if _, ok := reached[l.goPath()]; ok {
			continue
		}
		r.Violation(vrun.Sig{"clause": "names", "effect": "leaf-without-reported-name", "pre": preClass(td, l, c.Prefix)},
			fmt.Sprintf("%s prefix %q: no reported variable reaches field %s (literal name %s); reported: %v", td.Name, c.Prefix, l.goPath(), l.envName(c.Prefix), no.Reported),
			wit(map[string]any{"leaf": l.goPath()}))
	}
}

func judge(r *vrun.Run, c *Case, res *Result) {
	if res.Harness != "" {
		r.Fatalf("executor failure on case %d: %s", c.Idx, res.Harness)
	}
	canon := *c
	canon.Idx = 0
	b, _ := json.Marshal(canon)
	nontrivial := false
	if c.Kind == "names" {
		judgeNames(r, c, res)
		nontrivial = true
		n := int64(1)
		if res.Names != nil {
			n += int64(len(res.Names.Reported))
		}
		r.CaseN(string(b), nontrivial, n)
	} else {
		judgePrec(r, c, res)
		for _, fp := range c.Fields {
			n := 0
			if fp.HasDef {
				n++
			}
			if fp.File != nil {
				n++
			}
			if fp.Env != nil {
				n++
			}
			if fp.FlagMode == 2 || fp.FlagMode == 3 {
				n++
			}
			if n >= 2 {
				nontrivial = true
			}
		}
		r.Case(string(b), nontrivial)
	}
	if r.WantSample() && c.Kind == "prec" && nontrivial && c.Idx%7 == 3 {
		r.Sample(map[string]any{"case": c, "observed": res})
	}
}

// ---------------------------------------------------------------------------------------------
// child processes

func runBatch(exe, root string, k int, cases []Case) ([]Result, string, error) {
	dir := filepath.Join(root, fmt.Sprintf("b%d", k))
	cwd := filepath.Join(dir, "cwd")
	files := filepath.Join(dir, "files")
	if err := os.MkdirAll(cwd, 0o755); err != nil {
		return nil, "", err
	}
	if err := os.MkdirAll(files, 0o755); err != nil {
		return nil, "", err
	}
	defer os.RemoveAll(dir)
	in, err := json.Marshal(cases)
	if err != nil {
		return nil, "", err
	}
	ctx, cancel := context.WithTimeout(context.Background(), 10*time.Minute)
	defer cancel()
	cmd := exec.CommandContext(ctx, exe)
	cmd.Env = []string{"C15_CHILD=1", "C15_FILES=" + files}
	cmd.Dir = cwd
	cmd.Stdin = bytes.NewReader(in)
	var stdout, stderr bytes.Buffer
	cmd.Stdout = &stdout
	cmd.Stderr = &stderr
	err = cmd.Run()
	if ctx.Err() != nil {
		return nil, "timeout", nil
	}
	if err != nil {
		return nil, "", fmt.Errorf("child: %v; stderr: %s", err, tail(stderr.String(), 2000))
	}
	var out []Result
	if err := json.Unmarshal(stdout.Bytes(), &out); err != nil {
		return nil, "", fmt.Errorf("child output: %v; stderr: %s", err, tail(stderr.String(), 2000))
	}
	if len(out) != len(cases) {
		return nil, "", fmt.Errorf("child returned %d results for %d cases", len(out), len(cases))
	}
	return out, "", nil
}

func tail(s string, n int) string {
	if len(s) > n {
		return s[len(s)-n:]
	}
	return s
}

func main() {
	if os.Getenv("C15_CHILD") == "1" {
		childMain()
		return
	}
	r := vrun.Start("C15", "exploration")
	if err := buildFamily(); err != nil {
		r.Fatalf("type family: %v", err)
	}
	exe, err := os.Executable()
	if err != nil {
		r.Fatalf("executable: %v", err)
	}
	root := vrun.Scratch("c15")
	defer os.RemoveAll(root)

	r.Rule("precedence case = (type of the 10-type family [idx mod 10], prefix of {app,APP,My_App,a1} [idx/10 mod 4], API Load|LoadFromViper|LoadFromEnvironment, file format yaml|json|toml, " +
		"validation style, required mask, and per leaf: a PRNG-chosen subset of the sources {defaults, file, env, explicitly set flag} with source-tagged pairwise distinct values (bool: winner v, all others !v), " +
		"a zero-valued winner with p=1/5, flag bound with BindFlagToEnv or BindFlagsToEnv (2-3 flags, at most one changed), optionally a bound-but-unset flag, flag bound before/after being set, env name given with/without prefix); " +
		"1 case = 1 load, judged leaf by leaf. names case = (type, prefix): DetermineConfigurationEnvironmentVariables, then 1 load per reported name with only that variable set. " +
		"non-trivial: at least one leaf has >= 2 sources set (precedence actually decides), or a names case; distinct: hash of the whole case description.")
	r.Assume("a bound flag that was not set is not a source: where the winning value is blank the flag's default value is accepted as well (package doc: flag defaults stand in for empty values) — don't care",
		"precedence among several changed flags of one BindFlagsToEnv call is documented as random and never generated",
		"an empty environment variable counts as unset (viper AllowEmptyEnv(false) as configured by the package): env never gives a string leaf the empty value",
		"for tags containing '-', the variable is set under the literal name and under the '-'→'_' normalised name with the same value; flags are bound under the literal name",
		"'without the prefix' spelling for BindFlag(s)ToEnv is not generated when the field path itself starts with the prefix spelling (ambiguous by construction)",
		"values of a structure whose loading returned an error are not judged",
		"'names the offending field': the error text contains, level by level in order, the Go field name or the mapstructure name of each level of one blank required leaf (case-insensitive, '-'≡'_'; a squashed level may be missing)",
		"encoding/json, yaml.v3 and go-toml/v2 marshal the configuration files correctly; os.Setenv/pflag behave as documented")

	// The case list is a pure function of (seed, tier, index); batches are generated, executed (one
	// child process each, in parallel) and then judged strictly in index order, so that the run is
	// reproducible, and dropped right after judging.
	var replayCase *Case
	nPrec := r.Pick(20000, 1500000)
	nNames := r.Pick(2, 50) * len(family) * len(prefixes)
	total := nPrec + nNames
	if r.Replay != "" {
		var w struct {
			Case Case `json:"case"`
		}
		if err := r.ReadReplay(&w); err != nil {
			r.Fatalf("replay: %v", err)
		}
		replayCase = &w.Case
		total = 1
	}
	caseAt := func(i int) Case {
		switch {
		case replayCase != nil:
			return *replayCase
		case i < nPrec:
			return genPrecCase(r, i)
		}
		return genNamesCase(r, i, i-nPrec)
	}
	batchSize := r.Pick(250, 2000)
	nb := (total + batchSize - 1) / batchSize
	type batch struct {
		cases []Case
		res   []Result
		note  string
		err   error
		done  bool
	}
	batches := make([]batch, nb)
	var mu sync.Mutex
	next := 0
	judging := false
	advance := func() {
		// called with mu held; judges every finished batch that is next in index order
		if judging {
			return
		}
		judging = true
		for next < nb && batches[next].done {
			b := &batches[next]
			k := next
			mu.Unlock()
			if b.err != nil {
				os.RemoveAll(root)
				r.Fatalf("batch %d: %v", k, b.err)
			}
			for i := range b.cases {
				if b.note != "" {
					r.Inconclusive("child process " + b.note)
					continue
				}
				if b.res[i].Idx != b.cases[i].Idx {
					os.RemoveAll(root)
					r.Fatalf("batch %d: result order mismatch", k)
				}
				judge(r, &b.cases[i], &b.res[i])
			}
			mu.Lock()
			b.cases, b.res = nil, nil
			next++
		}
		judging = false
	}
	vrun.Parallel(nb, 0, func(k int) {
		lo, hi := k*batchSize, (k+1)*batchSize
		if hi > total {
			hi = total
		}
		cases := make([]Case, 0, hi-lo)
		for i := lo; i < hi; i++ {
			cases = append(cases, caseAt(i))
		}
		res, note, err := runBatch(exe, root, k, cases)
		mu.Lock()
		batches[k] = batch{cases: cases, res: res, note: note, err: err, done: true}
		advance()
		mu.Unlock()
	})
	mu.Lock()
	advance()
	mu.Unlock()
	if next != nb {
		r.Fatalf("judged %d of %d batches", next, nb)
	}
	os.RemoveAll(root)
	if r.Replay == "" {
		r.Require("loads", int64(r.Pick(15000, 1000000)))
		r.Require("loads_succeeded", int64(r.Pick(5000, 500000)))
		r.Require("leaf_values_judged", int64(r.Pick(50000, 3000000)))
		r.Require("validation_failures_judged", int64(r.Pick(1000, 100000)))
		r.Require("validation_failure_levels", 3)
		r.Require("validation_styles", 3)
		r.Require("source_subsets", 16)
		r.Require("winner_by_kind", 25)
		r.Require("zero_valued_winners", 15)
		r.Require("flag_modes", 5)
		r.Require("flag_env_spellings", 3)
		r.Require("file_formats", 3)
		r.Require("types", int64(len(family)))
		r.Require("prefixes", int64(len(prefixes)))
		r.Require("apis", 3)
		r.Require("names_types_x_prefixes", int64(len(family)*len(prefixes)))
		r.Require("reported_names_probed", 300)
		r.Require("leaves_checked_for_a_reported_name", 300)
		r.Require("distinct_nontrivial", int64(r.Pick(10000, 1000000)))
	}
	r.Finish()
}
