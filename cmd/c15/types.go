package main

// The fixed family of hand-written configuration types driven through the library's loader.
//
// Every struct level that wants validation implements config.Validator the way the package ReadMe
// shows: call config.ValidateEmbedded first, then validate the own fields. Which fields are
// "required" is decided per case by a mask (see validateLevel) — the types themselves are fixed.

import (
	"fmt"
	"github.com/ARM-software/golang-utils/utils/commonerrors"
	"reflect"
	"strings"
	"time"

	validation "github.com/go-ozzo/ozzo-validation/v4"

	"github.com/ARM-software/golang-utils/utils/config"
)

// ---- T1: depth 1, plain lower-case tags, one leaf of each kind
type Flat1 struct {
	Name   string        `mapstructure:"name"`
	Port   int           `mapstructure:"port"`
	Debug  bool          `mapstructure:"debug"`
	Ratio  float64       `mapstructure:"ratio"`
	Period time.Duration `mapstructure:"period"`
}

func (c *Flat1) Validate() error { return validateLevel(c) }

// ---- T2: depth 1, UPPER / mixedCase / underscores / numeric suffixes
type Flat2 struct {
	Host    string        `mapstructure:"HOST"`
	MaxConn int           `mapstructure:"maxConn"`
	UseTLS  bool          `mapstructure:"use_tls"`
	Scale2  float64       `mapstructure:"scale2"`
	Timeout time.Duration `mapstructure:"time_out_1"`
	Label   string        `mapstructure:"Label_X"`
	Level7  int           `mapstructure:"LEVEL_7"`
}

func (c *Flat2) Validate() error { return validateLevel(c) }

// ---- T3: depth 1, dashes inside tags
type Flat3 struct {
	StrVal string        `mapstructure:"str-val"`
	Num    int           `mapstructure:"NUM"`
	FlagB  bool          `mapstructure:"flag_b"`
	RatioX float64       `mapstructure:"ratioX"`
	Wait   time.Duration `mapstructure:"wait-time"`
}

func (c *Flat3) Validate() error { return validateLevel(c) }

// ---- T4: depth 2, one leaf type used for two differently tagged members
type Leaf4 struct {
	User    string  `mapstructure:"user"`
	Retries int     `mapstructure:"retries"`
	Enabled bool    `mapstructure:"enabled"`
	Load    float64 `mapstructure:"load"`
}

func (c *Leaf4) Validate() error { return validateLevel(c) }

type Two4 struct {
	Title string        `mapstructure:"title"`
	DB    Leaf4         `mapstructure:"db"`
	Cache Leaf4         `mapstructure:"cache_2"`
	Every time.Duration `mapstructure:"every"`
}

func (c *Two4) Validate() error { return validateLevel(c) }

// ---- T5: depth 2, member tags differing only by an underscore (as in the library's own test structure)
type Leaf5 struct {
	DummyHost string        `mapstructure:"dummy_host"`
	Port      int           `mapstructure:"port"`
	Flag      bool          `mapstructure:"flag"`
	Health    time.Duration `mapstructure:"healthcheck_period"`
}

func (c *Leaf5) Validate() error { return validateLevel(c) }

type Two5 struct {
	DummyString string  `mapstructure:"dummy_string"`
	DummyInt    int     `mapstructure:"dummy_int"`
	Factor      float64 `mapstructure:"factor"`
	Config1     Leaf5   `mapstructure:"dummyconfig"`
	Config2     Leaf5   `mapstructure:"dummy_config"`
}

func (c *Two5) Validate() error { return validateLevel(c) }

// ---- T6: depth 3, mixed spellings, a dash on the middle level
type Deep6 struct {
	Leaf  string        `mapstructure:"leaf"`
	Count int           `mapstructure:"count_9"`
	Pause time.Duration `mapstructure:"PAUSE"`
}

func (c *Deep6) Validate() error { return validateLevel(c) }

type Mid6 struct {
	Weight float64 `mapstructure:"Weight"`
	Deep   Deep6   `mapstructure:"deep"`
	Active bool    `mapstructure:"active"`
}

func (c *Mid6) Validate() error { return validateLevel(c) }

type Top6 struct {
	Svc string `mapstructure:"svc_name"`
	M   Mid6   `mapstructure:"mid-dle"`
	N   int    `mapstructure:"n1"`
}

func (c *Top6) Validate() error { return validateLevel(c) }

// ---- T7: depth 3, UPPER tags, plus a nested structure without a Validate method
type Meta7 struct { // no Validate: ValidateEmbedded skips it; its leaves are never "required"
	Owner string `mapstructure:"owner"`
	Rev   int    `mapstructure:"rev"`
}

type Inner7 struct {
	Key   string  `mapstructure:"KEY"`
	Limit float64 `mapstructure:"LIMIT_2"`
	Meta  Meta7   `mapstructure:"meta"`
}

func (c *Inner7) Validate() error { return validateLevel(c) }

type Outer7 struct {
	Inner  Inner7        `mapstructure:"INNER"`
	Grace  time.Duration `mapstructure:"Grace_Period"`
	Strict bool          `mapstructure:"STRICT"`
}

func (c *Outer7) Validate() error { return validateLevel(c) }

type Top7 struct {
	Outer Outer7 `mapstructure:"OUTER"`
	ID    string `mapstructure:"id"`
	Meta  Meta7  `mapstructure:"top_meta"`
}

func (c *Top7) Validate() error { return validateLevel(c) }

// ---- T8: embedded (anonymous) structure with an explicit tag
type Base8 struct {
	Region string `mapstructure:"region"`
	Zone3  int    `mapstructure:"zone3"`
	Public bool   `mapstructure:"public"`
}

func (c *Base8) Validate() error { return validateLevel(c) }

type Emb8 struct {
	Base8 `mapstructure:"base"`
	Extra string        `mapstructure:"extra"`
	TTL   time.Duration `mapstructure:"ttl"`
	Gain  float64       `mapstructure:"gain"`
}

func (c *Emb8) Validate() error { return validateLevel(c) }

// ---- T9: embedded structure squashed into its parent, plus one regular nested level
type Base9 struct {
	Account string `mapstructure:"account"`
	Quota   int    `mapstructure:"quota"`
}

func (c *Base9) Validate() error { return validateLevel(c) }

type Sub9 struct {
	Path  string        `mapstructure:"path"`
	Delay time.Duration `mapstructure:"delay"`
	Dry   bool          `mapstructure:"dry"`
}

func (c *Sub9) Validate() error { return validateLevel(c) }

type Emb9 struct {
	Base9 `mapstructure:",squash"`
	Sub   Sub9    `mapstructure:"sub"`
	Rate  float64 `mapstructure:"rate"`
}

func (c *Emb9) Validate() error { return validateLevel(c) }

// ---- T10: tags that begin with the spelling of one of the prefixes in use (app, a1, my_app)
type Sect10 struct {
	AppKey string `mapstructure:"app_key"`
	Size   int    `mapstructure:"size"`
}

func (c *Sect10) Validate() error { return validateLevel(c) }

type Pfx10 struct {
	AppName   string        `mapstructure:"app_name"`
	Name      string        `mapstructure:"name"`
	Apple     int           `mapstructure:"apple"`
	A1Level   float64       `mapstructure:"a1_level"`
	MyAppMode bool          `mapstructure:"my_app_mode"`
	Plain     time.Duration `mapstructure:"plain"`
	Sect      Sect10        `mapstructure:"sect"`
}

func (c *Pfx10) Validate() error { return validateLevel(c) }

// ---------------------------------------------------------------------------------------------
// validation driven by the per-case mask (process-global: the executor runs cases sequentially)

const (
	styleOzzoField = 0 // ozzo ValidateStruct, error keyed by the Go field name (ErrorTag has no match)
	styleOzzoTag   = 1 // ozzo ValidateStruct with validation.ErrorTag = "mapstructure" (as the library's tests do)
	stylePlain     = 2 // plain error whose text names the field
	styleCommonErr = 3 // an error of the library's own taxonomy, of another category than 'invalid' (a Validate which reports "undefined")
)

var (
	curRequired = map[string]bool{} // "StructType.GoField"
	curStyle    = styleOzzoField
	validateLog []string // struct type names whose Validate ran (observation only)
)

func validateLevel(cfg config.Validator) error {
	// nested levels first, exactly as the ReadMe shows
	if err := config.ValidateEmbedded(cfg); err != nil {
		return err
	}
	v := reflect.ValueOf(cfg).Elem()
	t := v.Type()
	validateLog = append(validateLog, t.Name())
	var rules []*validation.FieldRules
	for i := 0; i < t.NumField(); i++ {
		f := t.Field(i)
		if !curRequired[t.Name()+"."+f.Name] {
			continue
		}
		if curStyle == stylePlain {
			if v.Field(i).IsZero() {
				return fmt.Errorf("field %s must be set", f.Name)
			}
			continue
		}
		if curStyle == styleCommonErr {
			if v.Field(i).IsZero() {
				return commonerrors.Newf(commonerrors.ErrUndefined, "field %s must be set", f.Name)
			}
			continue
		}
		rules = append(rules, validation.Field(v.Field(i).Addr().Interface(), validation.Required))
	}
	if len(rules) == 0 {
		return nil
	}
	return validation.ValidateStruct(cfg, rules...)
}

// ---------------------------------------------------------------------------------------------
// descriptors (built by reflection over the fixed types; shared by generator, executor and oracle)

type leafDesc struct {
	Idx        int
	Go         []string // Go field names from the top
	Tags       []string // mapstructure names per level; "" for a squashed level
	Kind       string   // string|int|bool|float|duration
	Owner      string   // struct type that declares the leaf
	Field      string   // Go field name in Owner
	CanRequire bool     // every enclosing level implements Validator (so a mask entry is enforced)
}

func (l leafDesc) goPath() string { return strings.Join(l.Go, ".") }

// tagPath: the mapstructure names joined by sep, squashed levels skipped.
func (l leafDesc) tagPath(sep string) string {
	var p []string
	for _, t := range l.Tags {
		if t != "" {
			p = append(p, t)
		}
	}
	return strings.Join(p, sep)
}

func (l leafDesc) hasDash() bool { return strings.Contains(l.tagPath("_"), "-") }

// envName: PREFIX_PATH_TO_FIELD read literally (upper case, levels joined by '_').
func (l leafDesc) envName(prefix string) string {
	if prefix == "" {
		return strings.ToUpper(l.tagPath("_"))
	}
	return strings.ToUpper(prefix) + "_" + strings.ToUpper(l.tagPath("_"))
}

type typeDesc struct {
	Name   string
	New    func() config.IServiceConfiguration
	Leaves []leafDesc
	Depth  int
}

var family = []*typeDesc{
	{Name: "Flat1", New: func() config.IServiceConfiguration { return &Flat1{} }},
	{Name: "Flat2", New: func() config.IServiceConfiguration { return &Flat2{} }},
	{Name: "Flat3", New: func() config.IServiceConfiguration { return &Flat3{} }},
	{Name: "Two4", New: func() config.IServiceConfiguration { return &Two4{} }},
	{Name: "Two5", New: func() config.IServiceConfiguration { return &Two5{} }},
	{Name: "Top6", New: func() config.IServiceConfiguration { return &Top6{} }},
	{Name: "Top7", New: func() config.IServiceConfiguration { return &Top7{} }},
	{Name: "Emb8", New: func() config.IServiceConfiguration { return &Emb8{} }},
	{Name: "Emb9", New: func() config.IServiceConfiguration { return &Emb9{} }},
	{Name: "Pfx10", New: func() config.IServiceConfiguration { return &Pfx10{} }},
}

var (
	durationType  = reflect.TypeOf(time.Duration(0))
	validatorType = reflect.TypeOf((*config.Validator)(nil)).Elem()
)

func kindOf(t reflect.Type) string {
	if t == durationType {
		return "duration"
	}
	switch t.Kind() {
	case reflect.String:
		return "string"
	case reflect.Int:
		return "int"
	case reflect.Bool:
		return "bool"
	case reflect.Float64:
		return "float"
	}
	return ""
}

func buildFamily() error {
	for _, td := range family {
		t := reflect.TypeOf(td.New()).Elem()
		td.Leaves = nil
		var walk func(t reflect.Type, g, tags []string, validatable bool, depth int) error
		walk = func(t reflect.Type, g, tags []string, validatable bool, depth int) error {
			if depth > td.Depth {
				td.Depth = depth
			}
			for i := 0; i < t.NumField(); i++ {
				f := t.Field(i)
				tag := f.Tag.Get("mapstructure")
				name, opts, _ := strings.Cut(tag, ",")
				squash := strings.Contains(opts, "squash")
				if name == "" && !squash {
					return fmt.Errorf("%s.%s: no mapstructure name", t.Name(), f.Name)
				}
				g2 := append(append([]string{}, g...), f.Name)
				t2 := append(append([]string{}, tags...), name)
				if k := kindOf(f.Type); k != "" {
					td.Leaves = append(td.Leaves, leafDesc{Idx: len(td.Leaves), Go: g2, Tags: t2, Kind: k, Owner: t.Name(), Field: f.Name, CanRequire: validatable})
					continue
				}
				if f.Type.Kind() != reflect.Struct {
					return fmt.Errorf("%s.%s: unsupported kind %v", t.Name(), f.Name, f.Type.Kind())
				}
				d := depth + 1
				if squash {
					d = depth
				}
				if err := walk(f.Type, g2, t2, validatable && reflect.PointerTo(f.Type).Implements(validatorType), d); err != nil {
					return err
				}
			}
			return nil
		}
		if err := walk(t, nil, nil, true, 1); err != nil {
			return err
		}
		// the environment names (and their dash-normalised and flag-key forms) of the leaves of one
		// type must be pairwise distinct, otherwise PREFIX_PATH_TO_FIELD itself is ambiguous (don't care)
		seen := map[string]string{}
		for _, l := range td.Leaves {
			for _, n := range []string{l.envName("p"), strings.ReplaceAll(l.envName("p"), "-", "_")} {
				if o, ok := seen[n]; ok && o != l.goPath() {
					return fmt.Errorf("%s: leaves %s and %s share the environment name %s", td.Name, o, l.goPath(), n)
				}
				seen[n] = l.goPath()
			}
		}
	}
	return nil
}

// ---- canonical rendering of leaf values: string as is; int decimal; bool true/false; float 'g';
// duration as decimal nanoseconds.

func canonOf(v reflect.Value) string {
	if v.Type() == durationType {
		return fmt.Sprint(v.Int())
	}
	switch v.Kind() {
	case reflect.String:
		return v.String()
	case reflect.Int:
		return fmt.Sprint(v.Int())
	case reflect.Bool:
		return fmt.Sprint(v.Bool())
	case reflect.Float64:
		return fmtFloat(v.Float())
	}
	return "?"
}

func zeroCanon(kind string) string {
	switch kind {
	case "string":
		return ""
	case "bool":
		return "false"
	}
	return "0"
}

func leafValue(cfg any, l leafDesc) reflect.Value {
	v := reflect.ValueOf(cfg).Elem()
	for _, g := range l.Go {
		v = v.FieldByName(g)
	}
	return v
}
