// C03 — unzip resource limits hold (zip bombs, nested bombs, lying headers).
//
// Generated archives (entry counts, sizes, compression ratios, directory chains, lying headers via
// CreateRaw, nested archives with fan-out, decoys) are extracted with UnzipWithContextAndLimits under
// limits placed tiny / exact / exact±1 / huge around the archive's true figures. Monitors: independent
// walk of the destination after a nil result; per-file write high-water marks at the afero boundary
// during the call; expected-refusal oracle from the generator's own expansion model (only where
// "expanded" is unambiguous); error kind of refusals; acceptance of archives whose headers contradict
// their data.
package main

import (
	"context"
	"fmt"
	"math"
	"math/rand/v2"
	"os"
	"path/filepath"
	"sort"
	"strings"
	"sync/atomic"
	"syscall"
	"time"

	"github.com/spf13/afero"

	"github.com/ARM-software/golang-utils/utils/commonerrors"
	"github.com/ARM-software/golang-utils/utils/filesystem"

	"verif/internal/fsmon"
	"verif/internal/snap"
	"verif/internal/vrun"
	"verif/internal/zipgen"
)

type modelEntry struct {
	Path  string
	Dir   bool
	Size  int64
	IsZip bool // a (transient, in recursive mode) nested archive file
}

type caseSpec struct {
	Index      int              `json:"index"`
	Backend    string           `json:"backend"`
	Entries    []zipgen.Entry   `json:"entries"`
	Recursive  bool             `json:"recursive"`
	MaxFile    int64            `json:"max_file_size"`
	MaxTotal   uint64           `json:"max_total_size"`
	MaxCount   int64            `json:"max_file_count"`
	MaxDepth   int64            `json:"max_depth"`
	Lying      string           `json:"lying,omitempty"`               // "", declared-smaller, declared-larger, bad-crc
	FailRemove int              `json:"refused_removal,omitempty"`     // the k-th removal below the destination fails with EPERM (0: none)
	LyingDepth int              `json:"lying_entry_nesting,omitempty"` // 0: entry of the archive itself; n: of an archive nested n levels down
	Decoy      string           `json:"decoy,omitempty"`
	Nesting    int              `json:"nesting"`
	Ambiguous  bool             `json:"ambiguous"` // duplicates / decoys: judged by the disk walk only
	Placement  string           `json:"limit_placement"`
	True       map[string]int64 `json:"true_figures"`
}

func depthOf(p string) int64 { return int64(strings.Count(p, "/")) }

// expand computes the final tree the archive denotes (recursive: nested *.zip replaced by their content
// under dir/stem) plus the transient nested archive files.
func expand(entries []zipgen.Entry, prefix string, recursive bool, out *[]modelEntry) {
	for _, e := range entries {
		name := strings.TrimSuffix(e.Name, "/")
		p := name
		if prefix != "" {
			p = prefix + "/" + name
		}
		switch {
		case e.Dir:
			*out = append(*out, modelEntry{Path: p, Dir: true})
		case e.Nested != nil && recursive:
			b, _ := zipgen.Build(e.Nested)
			*out = append(*out, modelEntry{Path: p, Size: int64(len(b)), IsZip: true})
			stem := strings.TrimSuffix(filepath.Base(p), filepath.Ext(p))
			d := filepath.Dir(p)
			np := stem
			if d != "." {
				np = d + "/" + stem
			}
			expand(e.Nested, np, recursive, out)
		case e.Nested != nil:
			b, _ := zipgen.Build(e.Nested)
			*out = append(*out, modelEntry{Path: p, Size: int64(len(b))})
		default:
			*out = append(*out, modelEntry{Path: p, Size: int64(len(e.Data))})
		}
	}
}

func figures(m []modelEntry) (maxFile, total, count, maxDepth int64) {
	for _, e := range m {
		if d := depthOf(e.Path); d > maxDepth {
			maxDepth = d
		}
		if e.Dir {
			continue
		}
		if e.Size > maxFile {
			maxFile = e.Size
		}
		if e.IsZip {
			continue // transient: not on disk at the end
		}
		total += e.Size
		count++
	}
	return
}

func content(rng *rand.Rand, n int) []byte {
	b := make([]byte, n)
	if rng.IntN(2) == 0 {
		return b // zeros: extreme compression ratio
	}
	for i := range b {
		b[i] = byte(rng.Uint32())
	}
	return b
}

func genEntries(rng *rand.Rand, r *vrun.Run, level, maxNest int, id *int) []zipgen.Entry {
	var es []zipgen.Entry
	n := rng.IntN(r.Pick(14, 60))
	if level > 0 {
		n = 1 + rng.IntN(5)
	}
	sizes := []int{0, 1, 7, 100, 1000, 4096, 65536}
	for i := 0; i < n; i++ {
		*id++
		dirs := rng.IntN(4)
		if rng.IntN(12) == 0 {
			dirs = rng.IntN(13)
		}
		p := ""
		for d := 0; d < dirs; d++ {
			p += fmt.Sprintf("d%d/", rng.IntN(3))
		}
		switch rng.IntN(10) {
		case 0:
			if p == "" {
				p = "e/"
			}
			es = append(es, zipgen.D(p+fmt.Sprintf("dir%d", *id)))
		default:
			sz := sizes[rng.IntN(len(sizes))]
			if rng.IntN(3) == 0 {
				sz = rng.IntN(20000)
			}
			if !r.Quick() && rng.IntN(40) == 0 {
				sz = 1 << 20
			}
			e := zipgen.E(p+fmt.Sprintf("f%d.bin", *id), content(rng, sz))
			e.Store = rng.IntN(4) == 0
			es = append(es, e)
		}
	}
	if level < maxNest {
		fan := 1 + rng.IntN(3)
		for k := 0; k < fan; k++ {
			*id++
			p := ""
			for d := 0; d < rng.IntN(3); d++ {
				p += fmt.Sprintf("n%d/", d)
			}
			es = append(es, zipgen.Entry{Name: p + fmt.Sprintf("inner%d.zip", *id), Nested: genEntries(rng, r, level+1, maxNest, id), Declared: -1})
		}
	}
	return es
}

func place(rng *rand.Rand, exact int64) (int64, string) {
	switch rng.IntN(6) {
	case 0:
		return 1, "tiny"
	case 1:
		return exact, "exact"
	case 2:
		if exact > 0 {
			return exact - 1, "exact-1"
		}
		return exact, "exact"
	case 3:
		return exact + 1, "exact+1"
	default:
		return 1 << 40, "huge"
	}
}

func genCase(r *vrun.Run, idx int) caseSpec {
	rng := r.Rand("c03", idx)
	c := caseSpec{Index: idx, Backend: "os"}
	if idx%5 == 4 {
		c.Backend = "mem"
	}
	c.Recursive = rng.IntN(3) != 0
	maxNest := 0
	if rng.IntN(3) == 0 {
		maxNest = 1 + rng.IntN(r.Pick(3, 6))
	}
	id := 0
	c.Entries = genEntries(rng, r, 0, maxNest, &id)
	c.Nesting = maxNest
	// lying headers on one plain entry: of the archive itself or, in recursive mode, of one of the archives nested in it
	if rng.IntN(5) == 0 {
		level := c.Entries
		lyingDepth := 0
		for c.Recursive && rng.IntN(2) == 0 {
			var nested []int
			for i, e := range level {
				if e.Nested != nil {
					nested = append(nested, i)
				}
			}
			if len(nested) == 0 {
				break
			}
			level = level[nested[rng.IntN(len(nested))]].Nested
			lyingDepth++
		}
		var plain []int
		for i, e := range level {
			if !e.Dir && e.Nested == nil && len(e.Data) > 2 {
				plain = append(plain, i)
			}
		}
		if len(plain) > 0 {
			i := plain[rng.IntN(len(plain))]
			e := &level[i]
			c.LyingDepth = lyingDepth
			switch rng.IntN(4) {
			case 3:
				// zip64 header declaring a size which becomes negative once converted to a signed 64-bit integer
				e.DeclaredHuge = []uint64{1 << 63, 1<<63 + 1, 1<<64 - 1, 1<<63 + rng.Uint64()>>1}[rng.IntN(4)]
				c.Lying = "declared-beyond-int64"
				// highly compressible data: the archive stays small while the entry is the largest file of the case
				e.Data = make([]byte, 100000+rng.IntN(200000))
				e.Size = len(e.Data)
			case 0:
				e.Declared = int64(rng.IntN(len(e.Data)))
				c.Lying = "declared-smaller"
			case 1:
				e.Declared = int64(len(e.Data) + 1 + rng.IntN(1000))
				c.Lying = "declared-larger"
			default:
				e.Declared = int64(len(e.Data))
				e.BadCRC = true
				c.Lying = "bad-crc"
			}
		}
	}
	// decoys
	switch rng.IntN(12) {
	case 0:
		exts := filesystem.ZipFileExtensions
		c.Entries = append(c.Entries, zipgen.E("decoy-notazip"+exts[rng.IntN(len(exts))], []byte("this is plain text, not an archive")))
		c.Decoy = "non-zip bytes under a zip-like extension"
		c.Ambiguous = true
	case 1:
		inner := []zipgen.Entry{zipgen.E("hidden.bin", content(rng, 5000))}
		c.Entries = append(c.Entries, zipgen.Entry{Name: "decoy-zipbytes.dat", Nested: inner, Declared: -1})
		c.Decoy = "zip bytes under a non-zip extension"
		c.Ambiguous = true
	case 2:
		exts := []string{".jar", ".pack", ".7z", ".gz", ".tgz", ".z", ".zipx"}
		inner := []zipgen.Entry{zipgen.E("inside.bin", content(rng, 3000)), zipgen.E("d/inside2.bin", content(rng, 10))}
		c.Entries = append(c.Entries, zipgen.Entry{Name: "alt" + exts[rng.IntN(len(exts))], Nested: inner, Declared: -1})
		c.Decoy = "zip bytes under another zip-like extension"
		c.Ambiguous = true
	case 3:
		if len(c.Entries) > 0 && !c.Entries[0].Dir {
			c.Entries = append(c.Entries, c.Entries[0])
			c.Decoy = "duplicate entry name"
			c.Ambiguous = true
		}
	}
	if c.Recursive && maxNest >= 1 && rng.IntN(5) == 0 {
		c.FailRemove = 1 + rng.IntN(3)
	}
	var m []modelEntry
	expand(c.Entries, "", c.Recursive, &m)
	f, t, n, d := figures(m)
	c.True = map[string]int64{"max_file": f, "total": t, "count": n, "max_depth": d}
	var pl [4]string
	c.MaxFile, pl[0] = place(rng, f)
	if c.Lying == "declared-beyond-int64" && rng.IntN(3) != 0 {
		// a per-file limit well below the real size of the lying entry (a copy loop hands its data over in chunks,
		// the last of which may be dropped on error) but above the size of the archive itself
		if b, err := zipgen.Build(c.Entries); err == nil {
			if room := f - 70000 - int64(len(b)); room > 1 {
				c.MaxFile, pl[0] = int64(len(b))+1+rng.Int64N(room), "between-archive-and-lying-entry"
			}
		}
	}
	var mt int64
	mt, pl[1] = place(rng, t)
	c.MaxTotal = uint64(mt)
	c.MaxCount, pl[2] = place(rng, n)
	switch rng.IntN(6) {
	case 0:
		c.MaxDepth, pl[3] = -1, "disabled"
	case 1:
		c.MaxDepth, pl[3] = 0, "zero"
	case 2:
		c.MaxDepth, pl[3] = d, "exact"
	case 3:
		if d > 0 {
			c.MaxDepth, pl[3] = d-1, "exact-1"
		} else {
			c.MaxDepth, pl[3] = d, "exact"
		}
	case 4:
		c.MaxDepth, pl[3] = d+1, "exact+1"
	default:
		c.MaxDepth, pl[3] = 1000, "huge"
	}
	c.Placement = strings.Join(pl[:], ",")
	return c
}

func nestClass(n int) string {
	switch {
	case n == 0:
		return "0"
	case n == 1:
		return "1"
	}
	return "2+"
}

func runCase(r *vrun.Run, c caseSpec, scratch string) {
	archive, err := zipgen.Build(c.Entries)
	if err != nil {
		r.Fatalf("zipgen: %v", err)
	}
	var base afero.Fs
	var root string
	mem := c.Backend == "mem"
	if mem {
		base = afero.NewMemMapFs()
		root = "/sb"
	} else {
		base = filesystem.NewExtendedOsFs()
		root, err = os.MkdirTemp(scratch, "sb-")
		if err != nil {
			r.Fatalf("scratch: %v", err)
		}
		defer os.RemoveAll(root)
	}
	zipPath := filepath.Join(root, "a.zip")
	dest := filepath.Join(root, "out")
	_ = base.MkdirAll(root, 0o755)
	if err := afero.WriteFile(base, zipPath, archive, 0o644); err != nil {
		r.Fatalf("write archive: %v", err)
	}
	mon := fsmon.NewMonitor(false)
	var removals atomic.Int64
	if c.FailRemove > 0 {
		// the k-th removal of an entry below the destination is refused (nested archives are removed once expanded)
		mon.Before = func(e *fsmon.Event) {
			if (e.Op == fsmon.OpRemove || e.Op == fsmon.OpRemoveAll) && strings.HasPrefix(e.Path, dest) && removals.Add(1) == int64(c.FailRemove) {
				e.Inject = &os.PathError{Op: "remove", Path: e.Path, Err: syscall.EPERM}
			}
		}
	}
	fsType := filesystem.StandardFS
	if mem {
		fsType = filesystem.InMemoryFS
	}
	vfs := filesystem.NewVirtualFileSystem(fsmon.New(base, "u", mon), fsType, filesystem.IdentityPathConverterFunc)
	limits := filesystem.NewLimits(c.MaxFile, c.MaxTotal, c.MaxCount, c.MaxDepth, c.Recursive)
	// the archive file itself is subject to MaxFileSize (documented behaviour of the reader): keep it out of the way
	archiveTooBig := int64(len(archive)) > c.MaxFile
	ctx, cancel := context.WithTimeout(context.Background(), 120*time.Second)
	_, callErr := vfs.UnzipWithContextAndLimits(ctx, zipPath, dest, limits)
	cancel()

	var disk snap.Snap
	if mem {
		disk, _ = snap.TakeAfero(base, dest)
	} else {
		disk, _ = snap.TakeOS(dest)
	}
	var m []modelEntry
	expand(c.Entries, "", c.Recursive, &m)
	tf, tt, tn, td := c.True["max_file"], c.True["total"], c.True["count"], c.True["max_depth"]
	near := strings.Contains(c.Placement, "exact")
	nontrivial := near || c.Lying != "" || c.Nesting >= 1
	canon := fmt.Sprintf("%s|%v|%d|%d|%d|%d|%s|%s|%d|", c.Backend, c.Recursive, c.MaxFile, c.MaxTotal, c.MaxCount, c.MaxDepth, c.Lying, c.Decoy, len(archive))
	for _, e := range m {
		canon += fmt.Sprintf("%s:%d;", e.Path, e.Size)
	}
	r.Case(canon, nontrivial)
	r.ObsSet("limit_placements", c.Placement)
	r.ObsSet("nesting_levels", fmt.Sprint(c.Nesting))
	if c.Lying != "" {
		r.ObsSet("lying_entry_positions", fmt.Sprintf("%s@nesting-%d", c.Lying, min(c.LyingDepth, 2)))
		r.ObsSet("lying_header_kinds", c.Lying)
	}
	if c.Decoy != "" {
		r.ObsSet("decoys", c.Decoy)
	}
	mode := "flat"
	if c.Recursive {
		mode = "recursive"
	}
	sigBase := func(oracle string) vrun.Sig {
		return vrun.Sig{"oracle": oracle, "mode": mode, "nesting": nestClass(c.Nesting), "backend": c.Backend}
	}
	witness := func() map[string]any {
		var names []string
		for _, e := range m {
			names = append(names, fmt.Sprintf("%s dir=%v size=%d zip=%v", e.Path, e.Dir, e.Size, e.IsZip))
		}
		if len(names) > 150 {
			names = names[:150]
		}
		return map[string]any{"index": c.Index, "backend": c.Backend, "limits": map[string]any{"max_file_size": c.MaxFile, "max_total_size": c.MaxTotal, "max_file_count": c.MaxCount, "max_depth": c.MaxDepth, "recursive": c.Recursive},
			"placement": c.Placement, "true_figures": c.True, "lying": c.Lying, "decoy": c.Decoy, "expanded_model": names, "result": fmt.Sprint(callErr), "disk": disk.String()}
	}
	if r.WantSample() && nontrivial && c.Index%11 == 2 {
		w := witness()
		delete(w, "disk")
		r.Sample(w)
	}

	// (1) high-water marks: at no moment a file larger than the per-file limit (any path), nor longer than declared (top-level entries)
	hw, _ := mon.Written()
	declared := map[string]int64{}
	for _, e := range c.Entries {
		if !e.Dir {
			d := int64(len(e.Data))
			if e.Nested != nil {
				b, _ := zipgen.Build(e.Nested)
				d = int64(len(b))
			}
			if e.Declared >= 0 {
				d = e.Declared
			}
			if e.DeclaredHuge != 0 {
				d = math.MaxInt64
			}
			declared[filepath.Join(dest, filepath.FromSlash(e.Name))] = d
		}
	}
	r.Obs("files_written_observed", int64(len(hw)))
	for p, n := range hw {
		if !strings.HasPrefix(p, dest) {
			continue
		}
		if n > c.MaxFile {
			r.Violation(sigBase("high-water-over-file-limit"), fmt.Sprintf("%d bytes were written to %s although MaxFileSize is %d", n, strings.TrimPrefix(p, dest), c.MaxFile), witness())
			break
		}
		if d, ok := declared[p]; ok && c.Decoy != "duplicate entry name" && n > d {
			r.Violation(sigBase("high-water-over-declared-size"), fmt.Sprintf("%d bytes were written to %s although its header declares %d", n, strings.TrimPrefix(p, dest), d), witness())
			break
		}
	}

	// (2) nil result ⇒ the disk respects every limit
	if callErr == nil {
		r.Obs("successful_extractions", 1)
		var total, count, maxFile, maxDepth int64
		for p, e := range disk {
			if p == "." {
				continue
			}
			if d := depthOf(p); d > maxDepth {
				maxDepth = d
			}
			if e.Kind == "file" {
				total += e.Size
				count++
				if e.Size > maxFile {
					maxFile = e.Size
				}
			}
		}
		if uint64(total) > c.MaxTotal {
			r.Violation(sigBase("disk-total-size"), fmt.Sprintf("success, but %d bytes on disk > MaxTotalSize %d", total, c.MaxTotal), witness())
		}
		if count > c.MaxCount {
			r.Violation(sigBase("disk-file-count"), fmt.Sprintf("success, but %d regular files on disk > MaxFileCount %d", count, c.MaxCount), witness())
		}
		if maxFile > c.MaxFile {
			r.Violation(sigBase("disk-file-size"), fmt.Sprintf("success, but a file of %d bytes on disk > MaxFileSize %d", maxFile, c.MaxFile), witness())
		}
		if c.MaxDepth >= 0 && maxDepth > c.MaxDepth {
			r.Violation(sigBase("disk-depth"), fmt.Sprintf("success, but an entry at depth %d > MaxDepth %d", maxDepth, c.MaxDepth), witness())
		}
		// a nested archive which was expanded is not counted (it is removed once expanded): none is left behind
		if c.Recursive && !c.Ambiguous && c.Lying == "" {
			for _, e := range m {
				if e.IsZip {
					r.Obs("expanded_nested_archives_checked_for_removal", 1)
					if de, ok := disk[e.Path]; ok && de.Kind == "file" {
						r.Violation(sigBase("expanded-nested-archive-left-on-disk"), fmt.Sprintf("success, but the nested archive %s (%d bytes, not counted) is still on disk next to its content", e.Path, de.Size), witness())
						break
					}
				}
			}
		}
		if c.FailRemove > 0 && removals.Load() >= int64(c.FailRemove) {
			r.Obs("successful_extractions_although_a_removal_was_refused", 1)
		}
		// (3) expected refusal (unambiguous archives only)
		if !c.Ambiguous && c.Lying == "" {
			r.Obs("archives_judged_by_expected_refusal", 1)
			switch {
			case tf > c.MaxFile:
				r.Violation(sigBase("expected-refusal:file-size"), fmt.Sprintf("archive holds a file of %d bytes > MaxFileSize %d but was extracted", tf, c.MaxFile), witness())
			case uint64(tt) > c.MaxTotal:
				r.Violation(sigBase("expected-refusal:total-size"), fmt.Sprintf("archive expands to %d bytes > MaxTotalSize %d but was extracted", tt, c.MaxTotal), witness())
			case tn > c.MaxCount:
				r.Violation(sigBase("expected-refusal:file-count"), fmt.Sprintf("archive expands to %d files > MaxFileCount %d but was extracted", tn, c.MaxCount), witness())
			case c.MaxDepth >= 0 && td > c.MaxDepth:
				r.Violation(sigBase("expected-refusal:depth"), fmt.Sprintf("archive has an entry at depth %d > MaxDepth %d but was extracted", td, c.MaxDepth), witness())
			}
		}
		// (4) headers contradicting the data must be refused
		if c.Lying != "" {
			r.Obs("lying_archives_judged", 1)
			s := vrun.Sig{"oracle": "lying-header-accepted", "lying": c.Lying}
			r.Violation(s, fmt.Sprintf("archive with a %s entry was extracted without error", c.Lying), witness())
		}
	} else {
		r.Obs("refusals", 1)
		over := tf > c.MaxFile || uint64(tt) > c.MaxTotal || tn > c.MaxCount || (c.MaxDepth >= 0 && td > c.MaxDepth) || archiveTooBig
		if over {
			r.Obs("over_limit_archives_refused", 1)
			// kind of the refusal: judged only for honest, unambiguous archives
			faultHit := c.FailRemove > 0 && removals.Load() >= int64(c.FailRemove)
			if faultHit {
				r.Obs("refusals_after_a_refused_removal(kind_not_judged)", 1)
			}
			if !c.Ambiguous && c.Lying == "" && !faultHit {
				if !commonerrors.Any(callErr, commonerrors.ErrTooLarge) {
					s := sigBase("refusal-kind")
					s["kind"] = kindOf(callErr)
					r.Violation(s, fmt.Sprintf("over-limit archive refused with %v instead of the 'too large' kind", trunc(callErr.Error(), 200)), witness())
				}
			}
		} else if !c.Ambiguous && c.Lying == "" {
			r.Obs("fitting_archives_refused_(not_judged)", 1)
			r.ObsSet("fitting_refusal_kinds", kindOf(callErr))
		}
	}
}

func kindOf(err error) string {
	kinds := map[string]error{"too-large": commonerrors.ErrTooLarge, "invalid": commonerrors.ErrInvalid, "unexpected": commonerrors.ErrUnexpected, "eof": commonerrors.ErrEOF,
		"malicious": commonerrors.ErrMalicious, "not-found": commonerrors.ErrNotFound, "unsupported": commonerrors.ErrUnsupported, "exists": commonerrors.ErrExists, "conflict": commonerrors.ErrConflict}
	var l []string
	for k, e := range kinds {
		if commonerrors.Any(err, e) {
			l = append(l, k)
		}
	}
	sort.Strings(l)
	if len(l) == 0 {
		return "none"
	}
	return strings.Join(l, "+")
}

func trunc(s string, n int) string {
	if len(s) > n {
		return s[:n]
	}
	return s
}

func main() {
	r := vrun.Start("C03", "exploration")
	scratch := vrun.Scratch("c03")
	defer os.RemoveAll(scratch)
	r.Rule("one case = (generated archive: 0..14 (thorough 0..60) entries of 0..64 KiB (thorough up to 1 MiB), zeros or random, stored or deflated, directory chains up to depth 12, nested *.zip members to nesting depth 0..3 (thorough 0..6) with fan-out 1..3, " +
		"optionally one lying header (declared smaller / larger than the stream, wrong CRC) or a decoy (non-zip bytes under each zip-like extension, zip bytes under a non-zip or another zip-like extension, duplicate names)) × limits with each of MaxFileSize/MaxTotalSize/MaxFileCount placed tiny, exact, exact−1, exact+1 or huge around the archive's true figure and MaxDepth in {−1,0,exact,exact±1,huge} × recursive or not × backend. " +
		"non-trivial = some limit within ±1 of the true figure, or a lying header, or nesting ≥ 1; distinct = canonical (limits, expansion model).")
	r.Assume("'number of files' counts regular files (the library also counts directories: stricter)", "the oracle is one-directional: refusing an archive that would have fitted is not judged",
		"expected-refusal is applied only to archives without duplicates/decoys/lying headers", "archive/zip writer and reader")
	if r.Replay != "" {
		var wit struct {
			Index int `json:"index"`
		}
		if err := r.ReadReplay(&wit); err != nil {
			r.Fatalf("replay: %v", err)
		}
		runCase(r, genCase(r, wit.Index), scratch)
		r.Finish()
	}
	n := r.Pick(2500, 20000)
	vrun.Parallel(n, 0, func(i int) { runCase(r, genCase(r, i), scratch) })
	r.Require("successful_extractions", 200)
	r.Require("over_limit_archives_refused", 300)
	r.Require("limit_placements", 100)
	r.Require("lying_header_kinds", 3)
	r.Require("files_written_observed", 2000)
	r.Finish()
}
