package main

import (
	"context"
	"fmt"
	"os"
	"path/filepath"
	"time"

	"github.com/ARM-software/golang-utils/utils/filesystem"
	"github.com/spf13/afero"

	"verif/internal/snap"
	"verif/internal/vrun"
)

// The path handed to the removal is itself the entry a pattern protects: a regular file, an empty directory, a link to a
// directory outside, to a sibling directory, to nothing. "Entries matching an exclusion pattern survive", a link is "never
// followed" and "nothing reachable only through a link is deleted": whatever the call answers, the whole sandbox is as it
// was (kinds, contents, link targets, permissions).
func runRootEntryCases(r *vrun.Run, scratch string) {
	kinds := []string{"file", "empty-file", "empty-dir", "dir", "link-to-outside-dir", "link-to-sibling-dir", "link-to-file", "dangling-link"}
	// the library matches a pattern anywhere in the path it was given, the property speaks of entries matching a pattern:
	// the patterns used here match the entry's own name in full and occur nowhere else in its path, so both readings agree
	patternSets := [][]string{{"protected-root-entry"}, {"^never-there$", "protected-root-entry"}, {"", "protected-root-entry"}, {"protected-r[o]+t-.*y"}}
	type rc struct {
		kind     string
		patterns []string
		mem      bool
	}
	var cases []rc
	for _, k := range kinds {
		for _, ps := range patternSets {
			cases = append(cases, rc{k, ps, false})
			if k == "file" || k == "empty-file" || k == "empty-dir" || k == "dir" {
				cases = append(cases, rc{k, ps, true})
			}
		}
	}
	vrun.Parallel(len(cases), 0, func(i int) {
		c := cases[i]
		backend := "os"
		var base afero.Fs = afero.NewOsFs()
		var vfs filesystem.FS = filesystem.NewStandardFileSystem()
		sb := ""
		if c.mem {
			backend = "mem"
			base = afero.NewMemMapFs()
			vfs = filesystem.NewVirtualFileSystem(base, filesystem.InMemoryFS, filesystem.IdentityPathConverterFunc)
			sb = "/sb"
		} else {
			var err error
			sb, err = os.MkdirTemp(scratch, "root-")
			if err != nil {
				r.Fatalf("scratch: %v", err)
			}
			defer os.RemoveAll(sb)
		}
		work, outside := filepath.Join(sb, "work"), filepath.Join(sb, "outside")
		tree := filepath.Join(work, "protected-root-entry")
		mk := func(err error) {
			if err != nil {
				r.Fatalf("root entry fixture: %v", err)
			}
		}
		mk(base.MkdirAll(filepath.Join(outside, "odir", "deep"), 0o755))
		mk(afero.WriteFile(base, filepath.Join(outside, "odir", "o1.txt"), []byte("o1"), 0o644))
		mk(afero.WriteFile(base, filepath.Join(outside, "odir", "deep", "o2.txt"), []byte("o2"), 0o644))
		mk(base.MkdirAll(filepath.Join(work, "sibling", "sub"), 0o755))
		mk(afero.WriteFile(base, filepath.Join(work, "sibling", "s.txt"), []byte("s"), 0o644))
		mk(afero.WriteFile(base, filepath.Join(work, "sibling", "sub", "t.txt"), []byte("t"), 0o644))
		switch c.kind {
		case "file":
			mk(afero.WriteFile(base, tree, []byte("a file which a pattern protects"), 0o644))
		case "empty-file":
			mk(afero.WriteFile(base, tree, nil, 0o644))
		case "empty-dir":
			mk(base.MkdirAll(tree, 0o755))
		case "dir":
			mk(base.MkdirAll(filepath.Join(tree, "d"), 0o755))
			mk(afero.WriteFile(base, filepath.Join(tree, "d", "f.txt"), []byte("f"), 0o644))
		case "link-to-outside-dir":
			mk(os.Symlink(filepath.Join(outside, "odir"), tree))
		case "link-to-sibling-dir":
			mk(os.Symlink("sibling", tree))
		case "link-to-file":
			mk(os.Symlink(filepath.Join("sibling", "s.txt"), tree))
		case "dangling-link":
			mk(os.Symlink("no-such-target", tree))
		}
		take := func() snap.Snap {
			var s snap.Snap
			var err error
			if c.mem {
				s, err = snap.TakeAfero(base, sb)
			} else {
				s, err = snap.TakeOS(sb)
			}
			if err != nil {
				r.Fatalf("root entry snapshot: %v", err)
			}
			return s
		}
		before := take()
		ctx, cancel := context.WithTimeout(context.Background(), 60*time.Second)
		err := vfs.RemoveWithContextAndExclusionPatterns(ctx, tree, c.patterns...)
		cancel()
		after := take()
		canon := fmt.Sprintf("root-entry|%s|%s|%q", backend, c.kind, c.patterns)
		r.Case(canon, true)
		r.Obs("calls_on_a_path_which_is_itself_protected_by_a_pattern", 1)
		r.ObsSet("protected_root_entry_kinds", backend+"/"+c.kind)
		// what lies beneath a protected directory is not this property's business (C08): for a populated directory the
		// entry itself and everything outside it are compared
		keep := func(rel string) bool { return true }
		if c.kind == "dir" {
			keep = func(rel string) bool { return !snap.Under(rel, "work/protected-root-entry") || rel == "work/protected-root-entry" }
		}
		if diff := snap.Diff(before, after, snap.Options{Mode: true}, keep); len(diff) > 0 {
			if len(diff) > 8 {
				diff = diff[:8]
			}
			r.Violation(vrun.Sig{"oracle": "O5-protected-root-entry", "root": c.kind, "backend": backend},
				fmt.Sprintf("RemoveWithContextAndExclusionPatterns(%s, %q) on a %s whose own name a pattern matches answered %v and changed the sandbox: %v", filepath.Base(tree), c.patterns, c.kind, err, diff),
				map[string]any{"kind": c.kind, "patterns": c.patterns, "backend": backend, "result": fmt.Sprint(err), "diff": diff, "before": before.String()})
		}
	})
}
