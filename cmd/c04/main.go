// C04 — recursive removal never touches anything outside the tree.
//
// Every case builds a sandbox  <sb>/work/tree (the tree to remove, decorated with symbolic links of
// every class) next to <sb>/outside/... and <sb>/work/sibling..., runs one removal entry point through
// a VFS over the fsmon decorator, and judges:
//
//	O1 snapshot of everything outside the tree is unchanged (existence, kind, content, link target,
//	   mtime of outside directories other than the tree's parent);
//	O2 every successful mutating backend operation has a physical path (parent resolved with
//	   EvalSymlinks before the operation runs) inside the tree's physical root;
//	O3 nil result without patterns ⇒ the tree (CleanDir: its content) is really gone, dangling links included;
//	O4 entries whose name is fully matched by an exclusion pattern survive together with their ancestors.
package main

import (
	"context"
	"fmt"
	"math/rand/v2"
	"os"
	"path/filepath"
	"regexp"
	"sort"
	"strings"
	"sync"
	"sync/atomic"
	"syscall"
	"time"

	"github.com/spf13/afero"

	"github.com/ARM-software/golang-utils/utils/filesystem"

	"verif/internal/fsmon"
	"verif/internal/snap"
	"verif/internal/treegen"
	"verif/internal/vrun"
)

var entryPoints = []string{"Rm", "RemoveWithContext", "RemoveWithContextAndExclusionPatterns", "RemoveWithPrivileges",
	"CleanDir", "CleanDirWithContext", "CleanDirWithContextAndExclusionPatterns", "GarbageCollect", "GarbageCollectWithContext"}

var linkClasses = []string{"file-inside", "dir-inside", "file-outside", "dir-outside", "ancestor-inside", "ancestor-of-root", "self", "dangling", "chain", "dir-outside-abs", "sibling-dir", "dir-outside-readonly"}

type caseSpec struct {
	Index      int            `json:"index"`
	Backend    string         `json:"backend"`
	EP         string         `json:"entry_point"`
	Patterns   []string       `json:"patterns,omitempty"`
	RootLink   bool           `json:"tree_root_is_link,omitempty"`
	GCAge      string         `json:"gc_age,omitempty"`
	FailRemove int            `json:"fail_kth_remove,omitempty"` // >0: the k-th Remove/RemoveAll backend operation fails with EPERM (not executed)
	Nodes      []treegen.Node `json:"tree"`
}

func genCase(r *vrun.Run, idx int) caseSpec {
	rng := r.Rand("c04", idx)
	c := caseSpec{Index: idx, Backend: "os"}
	if idx%7 == 6 {
		c.Backend = "mem"
	}
	c.EP = entryPoints[rng.IntN(len(entryPoints))]
	nodes := treegen.Gen(rng, treegen.Opts{MaxDepth: 1 + rng.IntN(5), MaxFanout: 1 + rng.IntN(5), MaxEntries: 40, FileProb: 0.55, MaxSize: 64})
	if c.Backend == "os" {
		dirs := treegen.Dirs(nodes)
		var files, dirsOnly []string
		for _, n := range nodes {
			if n.Kind == "file" {
				files = append(files, n.Path)
			} else {
				dirsOnly = append(dirsOnly, n.Path)
			}
		}
		nl := rng.IntN(5)
		if idx%5 == 0 {
			nl = 0
		}
		var prevLink string
		for k := 0; k < nl; k++ {
			parent := dirs[rng.IntN(len(dirs))]
			name := fmt.Sprintf("lnk%d", k)
			p := name
			depth := 0
			if parent != "" {
				p = parent + "/" + name
				depth = strings.Count(parent, "/") + 1
			}
			up := strings.Repeat("../", depth) // from the link's directory to the tree root
			cl := linkClasses[rng.IntN(len(linkClasses))]
			var tgt string
			switch cl {
			case "file-inside":
				if len(files) == 0 {
					continue
				}
				tgt = up + files[rng.IntN(len(files))]
			case "dir-inside":
				if len(dirsOnly) == 0 {
					continue
				}
				tgt = up + dirsOnly[rng.IntN(len(dirsOnly))]
			case "file-outside":
				tgt = up + "../../outside/precious.txt"
			case "dir-outside":
				tgt = up + "../../outside/odir"
			case "dir-outside-abs":
				tgt = "@SB@/outside/odir"
			case "dir-outside-readonly":
				tgt = up + "../../outside/rodir"
			case "sibling-dir":
				tgt = up + "../sibling"
			case "ancestor-inside":
				if depth == 0 {
					tgt = "."
				} else {
					tgt = strings.Repeat("../", 1+rng.IntN(depth))
					tgt = strings.TrimSuffix(tgt, "/")
				}
			case "ancestor-of-root":
				tgt = up + ".."
			case "self":
				tgt = name
			case "dangling":
				tgt = "no-such-target"
			case "chain":
				if prevLink == "" {
					continue
				}
				tgt = up + prevLink
			}
			nodes = append(nodes, treegen.Node{Path: p, Kind: "link", Target: tgt, Class: cl})
			prevLink = p
		}
		c.RootLink = rng.IntN(12) == 0
		// a few read-only entries
		for i := range nodes {
			if nodes[i].Kind == "file" && rng.IntN(10) == 0 {
				nodes[i].Mode = 0o444
			}
		}
	}
	if strings.Contains(c.EP, "ExclusionPatterns") && rng.IntN(4) != 0 {
		// patterns over whole names taken from the tree (full-name matches) plus a miss
		var names []string
		for _, n := range nodes {
			names = append(names, regexp.QuoteMeta(filepath.Base(n.Path)))
		}
		np := 1 + rng.IntN(2)
		for k := 0; k < np && len(names) > 0; k++ {
			c.Patterns = append(c.Patterns, "^"+names[rng.IntN(len(names))]+"$")
		}
		// an empty pattern names nothing (e.g. the result of splitting "a,,b"): the patterns after it still protect
		if len(c.Patterns) > 0 && rng.IntN(3) == 0 {
			at := rng.IntN(len(c.Patterns))
			c.Patterns = append(c.Patterns[:at], append([]string{""}, c.Patterns[at:]...)...)
		}
	}
	if strings.HasPrefix(c.EP, "GarbageCollect") {
		c.GCAge = []string{"all", "some", "none"}[rng.IntN(3)]
	}
	c.Nodes = nodes
	if rng.IntN(4) == 0 || (c.EP == "RemoveWithPrivileges" && rng.IntN(2) == 0) {
		c.FailRemove = 1 + rng.IntN(6)
	}
	return c
}

type opRec struct {
	Op     string `json:"op"`
	Path   string `json:"path"`
	Phys   string `json:"physical"`
	Err    string `json:"err,omitempty"`
	Inside bool   `json:"inside"`
	Via    string `json:"via_link_class,omitempty"`
}

// physicalFollow resolves the whole path (operations such as chown, chmod, chtimes and open-for-write follow a final link).
func physicalFollow(p string) string {
	if r, err := filepath.EvalSymlinks(p); err == nil {
		return r
	}
	return physical(p)
}

func physical(p string) string {
	dir, base := filepath.Dir(p), filepath.Base(p)
	rd, err := filepath.EvalSymlinks(dir)
	if err != nil {
		return filepath.Clean(p)
	}
	return filepath.Join(rd, base)
}

func under(p, root string) bool {
	return p == root || strings.HasPrefix(p, root+string(filepath.Separator))
}

func runCase(r *vrun.Run, c caseSpec, scratch string) {
	sb, err := os.MkdirTemp(scratch, "sb-")
	if err != nil {
		r.Fatalf("scratch: %v", err)
	}
	defer func() {
		treegen.RestoreModes(sb)
		_ = os.RemoveAll(sb)
	}()
	canon := fmt.Sprintf("%s|%s|%v|%v|%s|", c.Backend, c.EP, c.Patterns, c.RootLink, c.GCAge)
	nLinks := 0
	for _, n := range c.Nodes {
		canon += n.Path + ":" + n.Kind + ":" + n.Target + ";"
		if n.Kind == "link" {
			nLinks++
			r.ObsSet("link_classes_in_trees", n.Class)
		}
	}
	r.ObsSet("entry_points", c.Backend+"/"+c.EP)
	nontrivial := nLinks > 0
	if c.Backend == "mem" {
		runMem(r, c, canon)
		return
	}
	work := filepath.Join(sb, "work")
	outside := filepath.Join(sb, "outside")
	treeArg := filepath.Join(work, "tree")
	realTree := treeArg
	must(r, os.MkdirAll(filepath.Join(outside, "odir", "deep"), 0o755))
	must(r, os.WriteFile(filepath.Join(outside, "precious.txt"), []byte("precious"), 0o644))
	must(r, os.WriteFile(filepath.Join(outside, "odir", "o1.txt"), []byte("o1"), 0o644))
	must(r, os.WriteFile(filepath.Join(outside, "odir", "deep", "o2.txt"), []byte("o2"), 0o644))
	must(r, os.MkdirAll(filepath.Join(outside, "rodir", "inner"), 0o755))
	must(r, os.WriteFile(filepath.Join(outside, "rodir", "r1.txt"), []byte("r1"), 0o444))
	must(r, os.Chmod(filepath.Join(outside, "rodir", "inner"), 0o555))
	must(r, os.Chmod(filepath.Join(outside, "rodir"), 0o555))
	must(r, os.MkdirAll(filepath.Join(work, "sibling"), 0o755))
	must(r, os.WriteFile(filepath.Join(work, "sibling", "s.txt"), []byte("s"), 0o644))
	must(r, os.WriteFile(filepath.Join(work, "treefile.txt"), []byte("next to the tree"), 0o644))
	if c.RootLink {
		realTree = filepath.Join(work, "realtree")
	}
	nodes := append([]treegen.Node(nil), c.Nodes...)
	for i := range nodes {
		nodes[i].Target = strings.ReplaceAll(nodes[i].Target, "@SB@", sb)
	}
	must(r, treegen.MaterializeOS(realTree, nodes))
	if c.RootLink {
		must(r, os.Symlink("realtree", treeArg))
	}
	old := time.Now().Add(-48 * time.Hour)
	if c.GCAge == "some" {
		k := 0
		for _, n := range nodes {
			if n.Kind == "file" {
				if k%2 == 0 {
					_ = os.Chtimes(filepath.Join(realTree, n.Path), old, old)
				}
				k++
			}
		}
	}
	physRoot, _ := filepath.EvalSymlinks(realTree)
	// link class lookup by physical link path
	linkAt := map[string]string{}
	for _, n := range nodes {
		if n.Kind == "link" {
			linkAt[filepath.Join(physRoot, filepath.FromSlash(n.Path))] = n.Class
		}
	}
	_ = filepath.Walk(outside, func(p string, _ os.FileInfo, _ error) error { return os.Lchown(p, 4242, 4242) })
	_ = os.Lchown(filepath.Join(work, "sibling"), 4242, 4242)
	_ = os.Lchown(filepath.Join(work, "sibling", "s.txt"), 4242, 4242)
	before, err := snap.TakeOS(sb)
	must(r, err)

	mon := fsmon.NewMonitor(false)
	var mu sync.Mutex
	var removes atomic.Int64
	var ops []opRec
	pending := map[int64]*opRec{}
	mon.Before = func(e *fsmon.Event) {
		if !e.Mut {
			return
		}
		rec := &opRec{Op: e.Op, Path: e.Path, Phys: physical(e.Path)}
		switch e.Op {
		case fsmon.OpChown, fsmon.OpChmod, fsmon.OpChtimes, fsmon.OpOpenFile, fsmon.OpCreate:
			rec.Phys = physicalFollow(e.Path)
		}
		if c.FailRemove > 0 && (e.Op == fsmon.OpRemove || e.Op == fsmon.OpRemoveAll) {
			if removes.Add(1) == int64(c.FailRemove) {
				e.Inject = &os.PathError{Op: "remove", Path: e.Path, Err: syscall.EPERM}
				r.Obs("removal_faults_injected", 1)
			}
		}
		rec.Inside = under(rec.Phys, physRoot) || (c.RootLink && filepath.Clean(e.Path) == treeArg)
		// which link (if any) does the lexical path traverse?
		rel, rerr := filepath.Rel(treeArg, filepath.Clean(e.Path))
		if rerr == nil && !strings.HasPrefix(rel, "..") {
			cur := physRoot
			for _, comp := range strings.Split(rel, string(filepath.Separator)) {
				cur = filepath.Join(cur, comp)
				if cl, ok := linkAt[cur]; ok && cur != filepath.Join(physRoot, rel) {
					rec.Via = cl
					break
				}
			}
		}
		mu.Lock()
		pending[e.Seq] = rec
		mu.Unlock()
	}
	mon.After = func(e *fsmon.Event) {
		if !e.Mut {
			return
		}
		mu.Lock()
		rec := pending[e.Seq]
		delete(pending, e.Seq)
		if rec != nil {
			rec.Err = e.Err
			ops = append(ops, *rec)
		}
		mu.Unlock()
	}
	vfs := filesystem.NewVirtualFileSystem(fsmon.New(filesystem.NewExtendedOsFs(), "a", mon), filesystem.StandardFS, filesystem.IdentityPathConverterFunc)
	ctx, cancel := context.WithTimeout(context.Background(), 60*time.Second)
	defer cancel()
	callErr := invoke(ctx, vfs, c, treeArg)
	after, err := snap.TakeOS(sb)
	must(r, err)

	r.Case(canon, nontrivial)
	if r.WantSample() && nontrivial && c.Index%17 == 3 {
		r.Sample(map[string]any{"case": c, "result": fmt.Sprint(callErr), "mutating_ops": len(ops)})
	}
	witness := func() map[string]any {
		o := ops
		if len(o) > 120 {
			o = o[:120]
		}
		return map[string]any{"case": c, "result": fmt.Sprint(callErr), "mutating_ops": o, "before": before.String(), "after": after.String()}
	}
	relTree, _ := filepath.Rel(sb, treeArg)
	relReal, _ := filepath.Rel(sb, realTree)
	relTree, relReal = filepath.ToSlash(relTree), filepath.ToSlash(relReal)
	// O2
	r.Obs("mutating_ops_judged", int64(len(ops)))
	for _, o := range ops {
		if o.Err == "" && !o.Inside {
			via := o.Via
			if via == "" {
				via = "none"
			}
			r.Violation(vrun.Sig{"oracle": "O2-physical-containment", "ep": epClass(c.EP), "via": via, "op": o.Op},
				fmt.Sprintf("%s: successful %s on %s which is physically %s, outside the tree %s", c.EP, o.Op, o.Path, o.Phys, physRoot), witness())
			break
		}
	}
	// O1
	diff := snap.Diff(before, after, snap.Options{MTime: true, Owner: true, Mode: true}, func(rel string) bool {
		if snap.Under(rel, relTree) || snap.Under(rel, relReal) {
			return false
		}
		return true
	})
	var real []string
	for _, d := range diff {
		// the tree's parent directory legitimately changes its mtime when the tree entry is removed
		if strings.HasPrefix(d, "mtime work:") || strings.HasPrefix(d, "mtime work ") {
			continue
		}
		real = append(real, d)
	}
	r.Obs("outside_entries_compared", int64(len(before)))
	if len(real) > 0 {
		classes := map[string]bool{}
		for _, n := range nodes {
			if n.Kind == "link" {
				classes[n.Class] = true
			}
		}
		eff := "outside-modified"
		for _, d := range real {
			if strings.HasPrefix(d, "removed ") {
				eff = "outside-entry-deleted"
			}
		}
		r.Violation(vrun.Sig{"oracle": "O1-outside-unchanged", "ep": epClass(c.EP), "effect": eff, "links": linkSummary(classes)},
			fmt.Sprintf("%s(%s) changed entries outside the tree: %s", c.EP, relTree, strings.Join(real[:min(len(real), 4)], "; ")), witness())
	}
	// O3
	if callErr == nil && len(c.Patterns) == 0 && !strings.HasPrefix(c.EP, "GarbageCollect") {
		if strings.HasPrefix(c.EP, "CleanDir") {
			if !c.RootLink {
				left := []string{}
				for p := range after {
					if snap.Under(p, relTree) && p != relTree {
						left = append(left, p)
					}
				}
				sort.Strings(left)
				if _, ok := after[relTree]; !ok {
					r.Violation(vrun.Sig{"oracle": "O3-gone", "ep": epClass(c.EP), "effect": "cleandir-removed-the-directory-itself"}, "CleanDir removed the directory itself", witness())
				} else if len(left) > 0 {
					r.Violation(vrun.Sig{"oracle": "O3-gone", "ep": epClass(c.EP), "effect": "content-left-behind", "left": leftClass(after, left)},
						fmt.Sprintf("%s returned nil but %d entries remain, e.g. %s", c.EP, len(left), left[0]), witness())
				}
			}
		} else {
			if _, ok := after[relTree]; ok {
				left := []string{}
				for p := range after {
					if snap.Under(p, relTree) && p != relTree {
						left = append(left, p)
					}
				}
				sort.Strings(left)
				r.Violation(vrun.Sig{"oracle": "O3-gone", "ep": epClass(c.EP), "effect": "tree-still-exists", "left": leftClass(after, left)},
					fmt.Sprintf("%s returned nil but the tree still exists (%d entries left)", c.EP, len(left)), witness())
			}
		}
		r.Obs("nil_results_checked_for_complete_removal", 1)
	}
	// O4
	if len(c.Patterns) > 0 {
		checkProtected(r, c, before, after, relTree, witness)
	}
}

func leftClass(after snap.Snap, left []string) string {
	kinds := map[string]bool{}
	for _, p := range left {
		e := after[p]
		k := e.Kind
		if e.Kind == "link" {
			k = "link"
		}
		kinds[k] = true
	}
	var l []string
	for k := range kinds {
		l = append(l, k)
	}
	sort.Strings(l)
	return strings.Join(l, "+")
}

func linkSummary(classes map[string]bool) string {
	var l []string
	for k := range classes {
		switch k {
		case "dir-outside", "dir-outside-abs", "sibling-dir", "ancestor-of-root", "dir-outside-readonly":
			l = append(l, "link-to-directory-outside")
		case "file-outside":
			l = append(l, "link-to-file-outside")
		}
	}
	sort.Strings(l)
	out := []string{}
	for i, s := range l {
		if i == 0 || l[i-1] != s {
			out = append(out, s)
		}
	}
	if len(out) == 0 {
		return "no-link-to-outside"
	}
	return strings.Join(out, "+")
}

func epClass(ep string) string {
	switch {
	case strings.HasPrefix(ep, "GarbageCollect"):
		return "GarbageCollect"
	case strings.HasPrefix(ep, "CleanDir"):
		return "CleanDir"
	}
	return "Remove"
}

func checkProtected(r *vrun.Run, c caseSpec, before, after snap.Snap, relTree string, witness func() map[string]any) {
	var res []*regexp.Regexp
	for _, p := range c.Patterns {
		re, err := regexp.Compile("^(?:" + strings.TrimSuffix(strings.TrimPrefix(p, "^"), "$") + ")$")
		if err != nil {
			return
		}
		res = append(res, re)
	}
	prot := map[string]bool{}
	for p := range before {
		if !snap.Under(p, relTree) || p == relTree {
			continue
		}
		rel := strings.TrimPrefix(p, relTree+"/")
		comps := strings.Split(rel, "/")
		for i, comp := range comps {
			for _, re := range res {
				if re.MatchString(comp) {
					// entry at depth i is protected: it, its ancestors, and (as "anything beneath" is C08's business) nothing else
					anc := relTree
					for _, a := range comps[:i+1] {
						anc += "/" + a
						prot[anc] = true
					}
					prot[relTree] = true
				}
			}
		}
	}
	n := 0
	for p := range prot {
		n++
		if _, ok := after[p]; !ok {
			// skip entries reached through symlinked ancestors (their "ancestor" is not a real directory chain)
			r.Violation(vrun.Sig{"oracle": "O4-protected-survive", "ep": epClass(c.EP), "depth": depthClass(p, relTree)},
				fmt.Sprintf("%s with patterns %v removed protected entry (or ancestor of one) %s", c.EP, c.Patterns, p), witness())
			break
		}
	}
	r.Obs("protected_entries_checked", int64(n))
}

func depthClass(p, relTree string) string {
	d := strings.Count(strings.TrimPrefix(p, relTree+"/"), "/")
	if d == 0 {
		return "top-level"
	}
	return "nested"
}

func invoke(ctx context.Context, vfs filesystem.FS, c caseSpec, tree string) error {
	switch c.EP {
	case "Rm":
		return vfs.Rm(tree)
	case "RemoveWithContext":
		return vfs.RemoveWithContext(ctx, tree)
	case "RemoveWithContextAndExclusionPatterns":
		return vfs.RemoveWithContextAndExclusionPatterns(ctx, tree, c.Patterns...)
	case "RemoveWithPrivileges":
		return vfs.RemoveWithPrivileges(ctx, tree)
	case "CleanDir":
		return vfs.CleanDir(tree)
	case "CleanDirWithContext":
		return vfs.CleanDirWithContext(ctx, tree)
	case "CleanDirWithContextAndExclusionPatterns":
		return vfs.CleanDirWithContextAndExclusionPatterns(ctx, tree, c.Patterns...)
	case "GarbageCollect", "GarbageCollectWithContext":
		age := time.Duration(0)
		switch c.GCAge {
		case "none":
			age = 1000 * time.Hour
		case "some":
			age = 24 * time.Hour
		}
		if c.EP == "GarbageCollect" {
			return vfs.GarbageCollect(tree, age)
		}
		return vfs.GarbageCollectWithContext(ctx, tree, age)
	}
	return fmt.Errorf("unknown entry point")
}

func runMem(r *vrun.Run, c caseSpec, canon string) {
	base := afero.NewMemMapFs()
	must(r, base.MkdirAll("/sb/outside/odir", 0o755))
	must(r, afero.WriteFile(base, "/sb/outside/precious.txt", []byte("precious"), 0o644))
	must(r, afero.WriteFile(base, "/sb/outside/odir/o1.txt", []byte("o1"), 0o644))
	must(r, afero.WriteFile(base, "/sb/work/treefile.txt", []byte("x"), 0o644))
	must(r, treegen.MaterializeAfero(base, "/sb/work/tree", c.Nodes))
	before, err := snap.TakeAfero(base, "/sb")
	must(r, err)
	mon := fsmon.NewMonitor(false)
	vfs := filesystem.NewVirtualFileSystem(fsmon.New(base, "a", mon), filesystem.InMemoryFS, filesystem.IdentityPathConverterFunc)
	ctx, cancel := context.WithTimeout(context.Background(), 60*time.Second)
	defer cancel()
	callErr := invoke(ctx, vfs, c, "/sb/work/tree")
	after, err := snap.TakeAfero(base, "/sb")
	must(r, err)
	r.Case(canon, len(c.Nodes) > 3)
	witness := func() map[string]any {
		return map[string]any{"case": c, "result": fmt.Sprint(callErr), "before": before.String(), "after": after.String()}
	}
	diff := snap.Diff(before, after, snap.Options{}, func(rel string) bool { return !snap.Under(rel, "work/tree") })
	if len(diff) > 0 {
		r.Violation(vrun.Sig{"oracle": "O1-outside-unchanged", "ep": epClass(c.EP), "backend": "mem"},
			fmt.Sprintf("%s on the in-memory backend changed entries outside the tree: %s", c.EP, strings.Join(diff[:min(len(diff), 4)], "; ")), witness())
	}
	if callErr == nil && len(c.Patterns) == 0 && !strings.HasPrefix(c.EP, "GarbageCollect") {
		left := 0
		for p := range after {
			if snap.Under(p, "work/tree") && p != "work/tree" {
				left++
			}
		}
		_, rootThere := after["work/tree"]
		if strings.HasPrefix(c.EP, "CleanDir") {
			if left > 0 || !rootThere {
				r.Violation(vrun.Sig{"oracle": "O3-gone", "ep": epClass(c.EP), "backend": "mem"}, fmt.Sprintf("%s returned nil; entries left=%d root present=%v", c.EP, left, rootThere), witness())
			}
		} else if rootThere {
			r.Violation(vrun.Sig{"oracle": "O3-gone", "ep": epClass(c.EP), "backend": "mem"}, fmt.Sprintf("%s returned nil but the tree still exists", c.EP), witness())
		}
		r.Obs("nil_results_checked_for_complete_removal", 1)
	}
	if len(c.Patterns) > 0 {
		checkProtected(r, c, before, after, "work/tree", witness)
	}
}

func must(r *vrun.Run, err error) {
	if err != nil {
		r.Fatalf("harness: %v", err)
	}
}

var _ = rand.IntN

func main() {
	r := vrun.Start("C04", "exploration")
	var rl syscall.Rlimit
	if syscall.Getrlimit(syscall.RLIMIT_NOFILE, &rl) == nil {
		rl.Cur = rl.Max
		_ = syscall.Setrlimit(syscall.RLIMIT_NOFILE, &rl)
	}
	scratch := vrun.Scratch("c04")
	defer func() { treegen.RestoreModes(scratch); os.RemoveAll(scratch) }()
	r.Rule("one case = (generated tree of depth ≤5 / fan-out ≤5 decorated with 0..4 symbolic links of classes file/dir inside, file/dir outside (relative and absolute), sibling directory, ancestor inside (loop), ancestor of the root, self, dangling, chain; optional read-only files; optionally the tree root itself a link) × one of 9 removal entry points × exclusion patterns × GC age; " +
		"1 in 7 cases runs the link-free tree on the in-memory backend. non-trivial = the tree contains at least one symbolic link (OS) / more than 3 entries (memory); distinct = canonical (backend, entry point, patterns, tree listing with link targets).")
	r.Assume("sandbox on ext4; the process runs as root (read-only modes do not block it)", "when the tree root argument itself is a symbolic link the content of its target is a don't-care region")
	if r.Replay != "" {
		var wit struct {
			Case caseSpec `json:"case"`
		}
		if err := r.ReadReplay(&wit); err != nil {
			r.Fatalf("replay: %v", err)
		}
		runCase(r, wit.Case, scratch)
		r.Finish()
	}
	n := r.Pick(4000, 150000)
	vrun.Parallel(n, 0, func(i int) { runCase(r, genCase(r, i), scratch) })
	runRootEntryCases(r, scratch)
	r.Require("mutating_ops_judged", 5000)
	r.Require("link_classes_in_trees", int64(len(linkClasses)))
	r.Require("entry_points", 15)
	r.Require("nil_results_checked_for_complete_removal", 500)
	r.Finish()
}
