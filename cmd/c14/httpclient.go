package main

import (
	"context"
	"fmt"
	"io"
	"net/http"
	"net/http/httptest"
	"runtime"
	"strings"
	"sync"
	"sync/atomic"
	"time"

	"github.com/go-logr/logr"
	"github.com/hashicorp/go-cleanhttp"

	libhttp "github.com/ARM-software/golang-utils/utils/http"

	"verif/internal/vrun"
)

// ---------------------------------------------------------------------------------------------
// case description

// httpStep is what the server does with the i-th request of a case.
//
//	S200/S204 success; R429/R500/R503 retriable status (optionally with a Retry-After value);
//	N404 final client error; C cancel the caller's context, then answer 503; D drop the connection
//	without answering. Requests beyond the script get R503.
type httpStep struct {
	Kind string   `json:"kind"`
	Hdr  *hdrDesc `json:"retry_after,omitempty"`
}

type httpCase struct {
	ID     string     `json:"id,omitempty"`
	Method string     `json:"method"` // GET HEAD POST PUT DELETE OPTIONS DO (GET through Do with a cancellable context)
	Ctor   string     `json:"ctor"`   // own-transport | from-client
	Policy policyDesc `json:"policy"`
	Script []httpStep `json:"script"`
}

func (s httpStep) status() int {
	switch s.Kind {
	case "S200":
		return 200
	case "S204":
		return 204
	case "R429":
		return 429
	case "R500":
		return 500
	case "N404":
		return 404
	}
	return 503 // R503, C
}

func (s httpStep) letter() byte { return s.Kind[0] }

type reqLog struct {
	Idx         int    `json:"idx"`
	Step        string `json:"step"`
	Method      string `json:"method"`
	AfterCancel bool   `json:"after_cancel"`
	hdr         *hdrDesc
}

type httpRun struct {
	mu        sync.Mutex
	c         httpCase
	log       []reqLog
	cancel    func()
	cancelled bool
}

type scriptServer struct {
	srv  *httptest.Server
	runs sync.Map // id -> *httpRun
}

func newScriptServer() *scriptServer {
	s := &scriptServer{}
	s.srv = httptest.NewServer(http.HandlerFunc(s.handle))
	return s
}

func (s *scriptServer) close() { s.srv.Close() }

func (s *scriptServer) handle(w http.ResponseWriter, req *http.Request) {
	id := strings.TrimPrefix(req.URL.Path, "/c/")
	v, ok := s.runs.Load(id)
	if !ok {
		http.Error(w, "unknown case", http.StatusTeapot)
		return
	}
	run := v.(*httpRun)
	_, _ = io.Copy(io.Discard, req.Body)
	run.mu.Lock()
	i := len(run.log)
	step := httpStep{Kind: "R503"}
	if i < len(run.c.Script) {
		step = run.c.Script[i]
	}
	if i >= run.c.Policy.RetryMax+1+16 {
		step = httpStep{Kind: "S200"} // a runaway client is told "success"
	}
	run.log = append(run.log, reqLog{Idx: i, Step: step.Kind, Method: req.Method, AfterCancel: run.cancelled, hdr: step.Hdr})
	if step.Kind == "C" {
		run.cancelled = true
		if run.cancel != nil {
			run.cancel()
		}
	}
	run.mu.Unlock()
	if step.Kind == "D" {
		if hj, ok := w.(http.Hijacker); ok {
			if conn, _, err := hj.Hijack(); err == nil {
				_ = conn.Close()
				return
			}
		}
	}
	if step.Hdr != nil {
		v, _ := step.Hdr.render(time.Now())
		w.Header()["Retry-After"] = []string{v}
	}
	st := step.status()
	w.WriteHeader(st)
	if st != 204 && req.Method != http.MethodHead {
		_, _ = io.WriteString(w, "scripted\n")
	}
}

// ---------------------------------------------------------------------------------------------
// recording logger: the retryable client logs "retrying request" with the wait ("timeout") it is
// about to sleep and the number of retries left ("remaining").

type waitRec struct {
	Wait      time.Duration `json:"wait_ns"`
	Remaining int           `json:"remaining"`
}

type recSink struct {
	mu    *sync.Mutex
	waits *[]waitRec
}

func (s recSink) Init(logr.RuntimeInfo)  {}
func (s recSink) Enabled(level int) bool { return true }
func (s recSink) Info(level int, msg string, kv ...any) {
	if msg != "retrying request" {
		return
	}
	var rec waitRec
	have := 0
	for i := 0; i+1 < len(kv); i += 2 {
		switch kv[i] {
		case "timeout":
			if d, ok := kv[i+1].(time.Duration); ok {
				rec.Wait = d
				have++
			}
		case "remaining":
			if n, ok := kv[i+1].(int); ok {
				rec.Remaining = n
				have++
			}
		}
	}
	if have == 2 {
		s.mu.Lock()
		*s.waits = append(*s.waits, rec)
		s.mu.Unlock()
	}
}
func (s recSink) Error(error, string, ...any)    {}
func (s recSink) WithValues(...any) logr.LogSink { return s }
func (s recSink) WithName(string) logr.LogSink   { return s }

// ---------------------------------------------------------------------------------------------

var httpWatchdogs atomic.Int64

type clientPool struct{ free chan *http.Client }

func newClientPool(n int) *clientPool {
	p := &clientPool{free: make(chan *http.Client, n)}
	for i := 0; i < n; i++ {
		p.free <- cleanhttp.DefaultPooledClient()
	}
	return p
}

func (p *clientPool) closeAll() {
	for {
		select {
		case c := <-p.free:
			c.CloseIdleConnections()
		default:
			return
		}
	}
}

func runHTTPCase(r *vrun.Run, srv *scriptServer, c httpCase, pool *clientPool) {
	run := &httpRun{c: c}
	ctx, cancel := context.WithCancel(context.Background())
	defer cancel()
	run.cancel = cancel
	srv.runs.Store(c.ID, run)
	defer srv.runs.Delete(c.ID)

	var wmu sync.Mutex
	var waits []waitRec
	logger := logr.New(recSink{mu: &wmu, waits: &waits})

	cfg := libhttp.DefaultHTTPClientConfiguration()
	cfg.RetryPolicy = *c.Policy.cfg()
	var cl libhttp.IRetryableClient
	var pooled *http.Client
	if c.Ctor == "from-client" && pool != nil {
		pooled = <-pool.free
		defer func() { pool.free <- pooled }()
		cl = libhttp.NewConfigurableRetryableClientWithLoggerFromClient(cfg, logger, pooled)
	} else {
		cl = libhttp.NewConfigurableRetryableClientWithLogger(cfg, logger)
		defer func() { _ = cl.Close() }()
	}
	url := srv.srv.URL + "/c/" + c.ID

	type result struct {
		status   int
		gotResp  bool
		err      error
		panicked any
	}
	done := make(chan result, 1)
	go func() {
		var res result
		defer func() {
			if p := recover(); p != nil {
				res.panicked = p
			}
			done <- res
		}()
		var resp *http.Response
		var err error
		switch c.Method {
		case "GET":
			resp, err = cl.Get(url)
		case "HEAD":
			resp, err = cl.Head(url)
		case "POST":
			resp, err = cl.Post(url, "text/plain", []byte("payload"))
		case "PUT":
			resp, err = cl.Put(url, []byte("payload"))
		case "DELETE":
			resp, err = cl.Delete(url)
		case "OPTIONS":
			resp, err = cl.Options(url)
		default:
			req, e := http.NewRequestWithContext(ctx, http.MethodGet, url, nil)
			if e != nil {
				res.err = e
				return
			}
			resp, err = cl.Do(req)
		}
		res.err = err
		if resp != nil {
			res.gotResp = true
			res.status = resp.StatusCode
			if resp.Body != nil {
				_, _ = io.Copy(io.Discard, resp.Body)
				_ = resp.Body.Close()
			}
		}
	}()
	var res result
	timedOut := false
	select {
	case res = <-done:
	case <-time.After(60 * time.Second):
		r.Inconclusive("http case did not return within 60 s")
		httpWatchdogs.Add(1)
		timedOut = true
		cancel()
	}
	run.mu.Lock()
	log := append([]reqLog(nil), run.log...)
	run.mu.Unlock()
	wmu.Lock()
	ws := append([]waitRec(nil), waits...)
	wmu.Unlock()
	judgeHTTP(r, c, log, ws, res.status, res.gotResp, res.err, res.panicked, timedOut)
}

// judgeHTTP is the oracle of part 3. Demands:
//
//	a. at least one request reaches the server;
//	b. at most RetryMax+1 requests (RetryMax counts re-tries; RetryMax <= 0: don't care);
//	c. no request after a 2xx answer, after a 404, or after a request whose handler cancelled the
//	   caller's context;
//	d. error nil and the 2xx status delivered <=> the last request was answered 2xx; when the last
//	   request was retriable/cancelled/dropped the error is non-nil (after a 404: don't care);
//	e. every wait the client logged is judged by the Apply oracle (policy kind selected from the
//	   configuration; a disabled policy is the constant policy).
//
// Don't care: the kind/text of the returned error; whether a disabled policy retries (bounded by b).
func judgeHTTP(r *vrun.Run, c httpCase, log []reqLog, waits []waitRec, status int, gotResp bool, err error, panicked any, timedOut bool) {
	wit := func(detail any) witness {
		cc := c
		cc.ID = ""
		return witness{Part: "http", HTTP: &cc, Detail: map[string]any{"requests": log, "waits": waits, "returned_status": status, "returned_error": fmt.Sprint(err), "observation": detail}}
	}
	sig := func(pre, effect string) vrun.Sig {
		return vrun.Sig{"part": "http", "ep": "RetryableClient." + methodName(c.Method), "pre": pre, "effect": effect}
	}
	r.Obs("http_calls", 1)
	r.Obs("http_requests_logged", int64(len(log)))
	if panicked != nil {
		r.Violation(sig("any", "panic"), fmt.Sprintf("retryable client panicked: %v", panicked), wit(fmt.Sprint(panicked)))
		return
	}
	if len(log) == 0 && !timedOut {
		r.Violation(sig("any", "zero-requests"), "no request reached the server", wit(nil))
		return
	}
	rm := c.Policy.RetryMax
	if rm >= 1 && len(log) > rm+1 && len(waits)+1 <= rm+1 {
		// the client itself logged no more than RetryMax retries: the surplus requests were re-sent
		// below the retry layer (net/http replays idempotent requests on a broken reused connection)
		r.Inconclusive("http: more requests than RetryMax+1 but the client logged no surplus retry (transport-level replay suspected)")
	} else if rm >= 1 && len(log) > rm+1 {
		r.Violation(sig(fmt.Sprintf("enabled=%v", c.Policy.Enabled), "too-many-requests"), fmt.Sprintf("%d requests with RetryMax=%d", len(log), rm), wit(nil))
	}
	for i := 1; i < len(log); i++ {
		prev := log[i-1]
		switch prev.Step[0] {
		case 'S':
			r.Violation(sig("after-success", "requested-again"), fmt.Sprintf("request #%d after a %s answer", i+1, prev.Step), wit(nil))
		case 'N':
			r.Violation(sig("after-final-client-error", "requested-again"), fmt.Sprintf("request #%d after a 404 answer", i+1), wit(nil))
		}
		if log[i].AfterCancel && c.Method == "DO" {
			r.Violation(sig("context-cancelled-by-earlier-request", "requested-after-context-done"), fmt.Sprintf("request #%d although the context was cancelled during request #%d", i+1, i), wit(nil))
		}
	}
	if timedOut || len(log) == 0 {
		return
	}
	last := log[len(log)-1]
	retriesLeft := rm >= 1 && len(log) < rm+1
	switch last.Step[0] {
	case 'S':
		if retriesLeft {
			r.Obs("http_stop_after_success_opportunities", 1)
		}
		want := 200
		if last.Step == "S204" {
			want = 204
		}
		if err != nil || !gotResp || status != want {
			r.Violation(sig("last-request-succeeded", "failure-reported"), fmt.Sprintf("last request answered %d but the client returned status=%d err=%v", want, status, err), wit(nil))
		}
	case 'N':
		if retriesLeft {
			r.Obs("http_stop_after_404_opportunities", 1)
		}
	case 'C':
		if retriesLeft && c.Method == "DO" {
			r.Obs("http_stop_after_cancel_opportunities", 1)
		}
		if err == nil {
			r.Violation(sig("no-request-succeeded", "nil-error"), "nil error although the context was cancelled and no request succeeded", wit(nil))
		}
	default:
		if rm >= 1 && len(log) == rm+1 {
			r.Obs("http_exhausted_all_attempts", 1)
		}
		if err == nil {
			r.Violation(sig("no-request-succeeded", "nil-error"), fmt.Sprintf("nil error (status %d) although the last request was answered %s", status, last.Step), wit(nil))
		}
	}
	if !c.Policy.Enabled && len(log) > 1 {
		r.Obs("http_disabled_policy_retried_not_judged", 1)
	}
	endLetter := string(last.Step[0])
	r.ObsSet("http_classes", fmt.Sprintf("%s/%s/enabled=%v/end=%s", c.Method, c.Policy.Kind, c.Policy.Enabled, endLetter))

	// e. waits
	kind := c.Policy.Kind
	if !c.Policy.Enabled {
		kind = "constant"
	}
	now := time.Now()
	for n, w := range waits {
		// the client logs one wait after each request it is going to repeat: the k-th logged wait was
		// computed for attempt number k from the answer to request k
		if n >= len(log) {
			r.Inconclusive("http: more waits logged than requests received")
			break
		}
		if rm-w.Remaining != n {
			// the client's own retry accounting disagrees with the order of the log (an attempt that
			// never reached the server, or a different retry budget): do not guess
			r.Inconclusive("http: logged wait cannot be attributed to a request unambiguously")
			continue
		}
		rq := log[n]
		respNil := rq.Step == "D"
		var hs []hdrDesc
		var ds []time.Time
		if rq.hdr != nil && !respNil {
			_, d := rq.hdr.render(now)
			hs, ds = []hdrDesc{*rq.hdr}, []time.Time{d}
		}
		st := httpStep{Kind: rq.Step}.status()
		effect, pre, extra := judgeWait(r, kind, !c.Policy.RetryAfterDisabled, c.Policy.WaitMinNs, c.Policy.WaitMaxNs, int64(n), int64(w.Wait), respNil, st, hs, ds, now, now)
		r.Obs("http_waits_judged", 1)
		r.ObsSet("http_wait_cells", fmt.Sprintf("%s/ra=%v/%s/hdr=%v", kind, !c.Policy.RetryAfterDisabled, rq.Step, rq.hdr != nil))
		if effect != "" {
			sg := vrun.Sig{"part": "http", "ep": "RetryableClient/" + policyTypeName(kind), "pre": pre, "effect": effect}
			for k, v := range extra {
				sg[k] = v
			}
			r.Violation(sg,
				fmt.Sprintf("client waited %v before retry %d (policy %s min=%dns max=%dns, previous answer %s)", w.Wait, n+1, kind, c.Policy.WaitMinNs, c.Policy.WaitMaxNs, rq.Step), wit(map[string]any{"wait": w, "n": n}))
		}
	}
}

func methodName(m string) string {
	switch m {
	case "DO":
		return "Do"
	}
	return strings.ToUpper(m[:1]) + strings.ToLower(m[1:])
}

// ---------------------------------------------------------------------------------------------
// case list

// header values that never make the client sleep: the request-log runs keep real waits <= 2 ms
func httpHeaderMenu() []*hdrDesc {
	return []*hdrDesc{
		nil, nil,
		{Class: "int-in-range", Value: "0", Secs: "0"},
		{Class: "int-negative", Value: "-5", Secs: "-5"},
		{Class: "garbage", Value: "soon"},
		{Class: "empty", Value: ""},
		{Class: "http-date", Format: "imf", Abs: i64p(784111777)},
		{Class: "http-date", Format: "rfc850", Abs: i64p(784111777)},
		{Class: "other-date", Format: "rfc3339", Abs: i64p(1583741604)},
	}
}

var httpWaitMenu = map[string][][2]int64{
	"constant":    {{0, 0}, {0, 1e6}, {1, 1}, {1000, 1e6}, {1e5, 1e5}, {1e6, 2e6}},
	"exponential": {{0, 0}, {0, 1e6}, {1, 1e6}, {1000, 1e5}, {1e4, 2e6}, {1e5, 1e6}},
	"linear":      {{0, 0}, {0, 1e5}, {1, 1}, {1000, 2e5}, {1e4, 1e4}, {1e5, 2e5}},
}

func buildHTTPCases(r *vrun.Run) []httpCase {
	var cases []httpCase
	hm := httpHeaderMenu()
	mkStep := func(letter byte, rng interface{ IntN(int) int }) httpStep {
		switch letter {
		case 'S':
			return httpStep{Kind: []string{"S200", "S200", "S204"}[rng.IntN(3)]}
		case 'N':
			return httpStep{Kind: "N404"}
		case 'C':
			return httpStep{Kind: "C"}
		case 'D':
			return httpStep{Kind: "D"}
		}
		k := []string{"R429", "R500", "R503"}[rng.IntN(3)]
		return httpStep{Kind: k, Hdr: hm[rng.IntN(len(hm))]}
	}
	mkPolicy := func(rng interface{ IntN(int) int }) policyDesc {
		kind := kinds[rng.IntN(3)]
		w := httpWaitMenu[kind][rng.IntN(len(httpWaitMenu[kind]))]
		p := policyDesc{Enabled: true, RetryMax: 1 + rng.IntN(8), Kind: kind, WaitMinNs: w[0], WaitMaxNs: w[1], RetryAfterDisabled: rng.IntN(2) == 0}
		return p
	}
	id := 0
	add := func(c httpCase) {
		c.ID = fmt.Sprintf("%d", id)
		if id%10 == 0 {
			c.Ctor = "own-transport"
		} else {
			c.Ctor = "from-client"
		}
		id++
		cases = append(cases, c)
	}
	// exhaustive scripts over {S,R,N,C} up to length 4 through Do (the only entry point carrying a context)
	var scripts []string
	var rec func(p string)
	rec = func(p string) {
		if len(p) > 0 {
			scripts = append(scripts, p)
		}
		if len(p) == 4 {
			return
		}
		for _, o := range "SRNC" {
			rec(p + string(o))
		}
	}
	rec("")
	rounds := r.Pick(3, 30)
	for round := 0; round < rounds; round++ {
		for si, s := range scripts {
			rng := r.Rand("c14-http-enum", round*len(scripts)+si)
			var steps []httpStep
			for i := 0; i < len(s); i++ {
				steps = append(steps, mkStep(s[i], rng))
			}
			add(httpCase{Method: "DO", Policy: mkPolicy(rng), Script: steps})
		}
	}
	// sampled scripts for every method (D only where the transport does not replay the request itself)
	methods := []string{"GET", "HEAD", "POST", "PUT", "DELETE", "OPTIONS", "DO"}
	n := r.Pick(2500, 40000)
	for i := 0; i < n; i++ {
		rng := r.Rand("c14-http-rand", i)
		m := methods[rng.IntN(len(methods))]
		l := 1 + rng.IntN(8)
		var steps []httpStep
		for j := 0; j < l; j++ {
			var letter byte
			switch x := rng.IntN(20); {
			case x < 11:
				letter = 'R'
			case x < 14:
				letter = 'S'
			case x < 16:
				letter = 'N'
			case x < 18:
				letter = 'D'
			default:
				letter = 'C'
			}
			if letter == 'D' && !(m == "POST" || m == "PUT" || m == "DELETE") {
				letter = 'R'
			}
			if letter == 'C' && m != "DO" {
				letter = 'R'
			}
			steps = append(steps, mkStep(letter, rng))
		}
		p := mkPolicy(rng)
		if rng.IntN(12) == 0 { // disabled policies: the library's default (RetryMax 0) and a stray RetryMax
			p.Enabled = false
			p.Kind = "constant"
			p.RetryAfterDisabled = true
			if rng.IntN(2) == 0 {
				p.RetryMax = 0
			}
		}
		add(httpCase{Method: m, Policy: p, Script: steps})
	}
	return cases
}

func runHTTP(r *vrun.Run) {
	srv := newScriptServer()
	defer srv.close()
	workers := 2 * runtime.GOMAXPROCS(0)
	pool := newClientPool(workers)
	defer pool.closeAll()
	cases := buildHTTPCases(r)
	r.Obs("http_cases_built", int64(len(cases)))
	vrun.Parallel(len(cases), workers, func(i int) {
		if httpWatchdogs.Load() > 10 {
			r.Inconclusive("http case skipped after more than 10 watchdog firings")
			return
		}
		c := cases[i]
		runHTTPCase(r, srv, c, pool)
		cc := c
		cc.ID = ""
		r.Case("http:"+canon(cc), len(c.Script) > 0 && c.Script[0].letter() != 'S')
		if i%1009 == 5 && r.WantSample() {
			r.Sample(map[string]any{"part": "http", "case": cc})
		}
	})
	flushHot(r)
}
