package main

import (
	"context"
	"errors"
	"fmt"
	"runtime"
	"strings"
	"sync"
	"sync/atomic"
	"time"

	"github.com/go-logr/logr"

	"github.com/ARM-software/golang-utils/utils/commonerrors"
	libhttp "github.com/ARM-software/golang-utils/utils/http"
	"github.com/ARM-software/golang-utils/utils/retry"

	"verif/internal/vrun"
)

// ---------------------------------------------------------------------------------------------
// case description

type policyDesc struct {
	Enabled            bool   `json:"enabled"`
	RetryMax           int    `json:"retry_max"`
	Kind               string `json:"kind"` // constant | exponential | linear
	WaitMinNs          int64  `json:"wait_min_ns"`
	WaitMaxNs          int64  `json:"wait_max_ns"`
	RetryAfterDisabled bool   `json:"retry_after_disabled"`
}

func (p policyDesc) cfg() *retry.RetryPolicyConfiguration {
	return &retry.RetryPolicyConfiguration{
		Enabled:              p.Enabled,
		RetryMax:             p.RetryMax,
		RetryAfterDisabled:   p.RetryAfterDisabled,
		RetryWaitMin:         time.Duration(p.WaitMinNs),
		RetryWaitMax:         time.Duration(p.WaitMaxNs),
		BackOffEnabled:       p.Kind != "constant",
		LinearBackOffEnabled: p.Kind == "linear",
	}
}

type retryCase struct {
	Entry   string     `json:"entry"` // retry.RetryIf | retry.RetryOnError | http.RetryOnError
	Policy  policyDesc `json:"policy"`
	Script  string     `json:"script"`   // over O R N C L; invocations beyond the script get R (L: retriable failure, and the context is cancelled from the logger when the library reports that it is going to retry, i.e. after its decision and before the next attempt)
	Ctx     string     `json:"ctx"`      // cancel | custom-deadline
	PreDone bool       `json:"pre_done"` // context already done before the call
	Flavour string     `json:"flavour"`  // commonerrors | typed
}

// waits per back-off kind {min,max} in ns; every real sleep stays <= 2 ms:
//   - constant (retry-go FixedDelay): wait = min, capped by max when max > 0
//   - exponential (retry-go BackOffDelay): max(min,1ns) << n, capped by max when max > 0; with max = 0 and
//     min <= 10 us the 7th wait is <= 1.28 ms
//   - linear (retry-go Fixed+Random jitter of up to 25 ms): always capped by a max in (0, 2 ms]
var waitMenu = map[string][][2]int64{
	"constant":    {{0, 0}, {0, 0}, {0, 2e6}, {1, 1}, {1000, 1000}, {1e5, 2e6}, {1e6, 0}, {2e6, 2e6}},
	"exponential": {{0, 0}, {0, 0}, {1, 0}, {1000, 0}, {1e4, 0}, {1e5, 1e6}, {1e6, 2e6}, {1e6, 1e6}, {0, 1e6}},
	"linear":      {{0, 1e6}, {0, 1000}, {0, 1}, {1000, 5e5}, {1e5, 2e6}, {1e6, 1e6}},
}

var kinds = []string{"constant", "exponential", "linear"}
var entries = []string{"retry.RetryIf", "retry.RetryOnError", "http.RetryOnError"}

func waitClass(p policyDesc) string {
	switch {
	case !p.Enabled:
		return "none"
	case p.Kind == "linear":
		return "jitter-capped"
	case p.Kind == "constant" && p.WaitMinNs == 0:
		return "zero"
	case p.WaitMinNs <= 1000:
		return "le-1us"
	case p.WaitMinNs <= 100000:
		return "le-100us"
	}
	return "le-2ms"
}

// ---------------------------------------------------------------------------------------------
// scripted contexts

// deadlineCtx is a context whose "deadline" expires exactly when expire() is called: Err() is then
// context.DeadlineExceeded. It lets the timeout kind be exercised without any timing.
type deadlineCtx struct {
	mu   sync.Mutex
	done chan struct{}
	err  error
}

func newDeadlineCtx() *deadlineCtx { return &deadlineCtx{done: make(chan struct{})} }

func (c *deadlineCtx) Deadline() (time.Time, bool) { return time.Time{}, false }
func (c *deadlineCtx) Done() <-chan struct{}       { return c.done }
func (c *deadlineCtx) Value(any) any               { return nil }
func (c *deadlineCtx) Err() error {
	c.mu.Lock()
	defer c.mu.Unlock()
	return c.err
}
func (c *deadlineCtx) expire() {
	c.mu.Lock()
	defer c.mu.Unlock()
	if c.err == nil {
		c.err = context.DeadlineExceeded
		close(c.done)
	}
}

// ---------------------------------------------------------------------------------------------
// scripted errors

type scriptedError struct {
	idx       int
	retriable bool
}

func (e *scriptedError) Error() string {
	return fmt.Sprintf("scripted failure #%d (retriable=%v)", e.idx, e.retriable)
}

type inv struct {
	Idx        int    `json:"idx"`
	Outcome    string `json:"outcome"`
	DoneBefore bool   `json:"ctx_done_before"`
	Fired      bool   `json:"cancelled_from_logger,omitempty"`
	err        error
}

// cancelSink is a logr sink which cancels the context the first time the library logs after it was armed.
type cancelSink struct {
	onError func()
}

func (c *cancelSink) Init(logr.RuntimeInfo)                  {}
func (c *cancelSink) Enabled(int) bool                       { return true }
func (c *cancelSink) Info(int, string, ...interface{})       {}
func (c *cancelSink) Error(error, string, ...interface{})    { c.onError() }
func (c *cancelSink) WithValues(...interface{}) logr.LogSink { return c }
func (c *cancelSink) WithName(string) logr.LogSink           { return c }

var retryWatchdogs atomic.Int64

// ---------------------------------------------------------------------------------------------

func runRetryCase(r *vrun.Run, c retryCase) {
	var (
		ctx      context.Context
		cancelFn func()
	)
	switch c.Ctx {
	case "custom-deadline":
		d := newDeadlineCtx()
		ctx, cancelFn = d, d.expire
	default:
		cc, cf := context.WithCancel(context.Background())
		ctx, cancelFn = cc, cf
	}
	defer cancelFn()
	if c.PreDone {
		cancelFn()
	}

	var mu sync.Mutex
	var log []inv
	armed := false
	limit := c.Policy.RetryMax
	if limit < 1 {
		limit = 1
	}
	hardStop := limit + 16 // a runaway library is told "success" here and is parked at 10x that
	mkErr := func(i int, retriable bool) error {
		if c.Flavour == "typed" {
			return &scriptedError{idx: i, retriable: retriable}
		}
		if retriable {
			return fmt.Errorf("%w: scripted failure #%d", commonerrors.ErrUnavailable, i)
		}
		return fmt.Errorf("%w: scripted failure #%d", commonerrors.ErrInvalid, i)
	}
	fn := func() error {
		mu.Lock()
		i := len(log)
		if i >= 10*hardStop {
			mu.Unlock()
			select {} // parked; the watchdog ends the case
		}
		o := byte('R')
		if i < len(c.Script) {
			o = c.Script[i]
		}
		if i >= hardStop {
			o = 'O'
		}
		e := inv{Idx: i, Outcome: string(o), DoneBefore: ctx.Err() != nil}
		switch o {
		case 'O':
		case 'R':
			e.err = mkErr(i, true)
		case 'N':
			e.err = mkErr(i, false)
		case 'C':
			cancelFn()
			e.err = mkErr(i, true)
		case 'L':
			armed = true
			e.err = mkErr(i, true)
		case 'S':
			// the context ends while this attempt is in flight, and the attempt succeeds
			cancelFn()
		}
		log = append(log, e)
		mu.Unlock()
		return e.err
	}
	logger := logr.Discard()
	if strings.Contains(c.Script, "L") {
		logger = logr.New(&cancelSink{onError: func() {
			mu.Lock()
			if armed {
				armed = false
				cancelFn()
				log[len(log)-1].Fired = true
			}
			mu.Unlock()
		}})
	}
	isRetriable := func(err error) bool {
		if c.Flavour == "typed" {
			var se *scriptedError
			return errors.As(err, &se) && se.retriable
		}
		return commonerrors.Any(err, commonerrors.ErrUnavailable)
	}

	type result struct {
		err      error
		panicked any
	}
	done := make(chan result, 1)
	go func() {
		var res result
		defer func() {
			if p := recover(); p != nil {
				res.panicked = p
			}
			done <- res
		}()
		cfg := c.Policy.cfg()
		switch c.Entry {
		case "retry.RetryOnError":
			res.err = retry.RetryOnError(ctx, logger, cfg, fn, "scripted operation failed", commonerrors.ErrUnavailable, commonerrors.ErrConflict)
		case "http.RetryOnError":
			res.err = libhttp.RetryOnError(ctx, logger, cfg, fn, "scripted operation failed", commonerrors.ErrUnavailable, commonerrors.ErrConflict)
		default:
			res.err = retry.RetryIf(ctx, logger, cfg, fn, "scripted operation failed", isRetriable)
		}
	}()
	var res result
	select {
	case res = <-done:
	case <-time.After(60 * time.Second):
		// no structural witness of a hang is available here: inconclusive (an excess invocation, if
		// any, has been logged and is judged below)
		r.Inconclusive("retry case did not return within 60 s")
		retryWatchdogs.Add(1)
		mu.Lock()
		snapshot := append([]inv(nil), log...)
		mu.Unlock()
		judgeRetry(r, c, snapshot, nil, nil, true)
		return
	}
	mu.Lock()
	snapshot := append([]inv(nil), log...)
	mu.Unlock()
	judgeRetry(r, c, snapshot, res.err, res.panicked, false)
}

// judgeRetry is the oracle of part 1. Demands (statement of C14):
//
//	a. at least one invocation (don't care when the context was done before the call);
//	b. at most max(1,RetryMax) invocations;
//	c. no invocation after an O, after an N, or after an invocation that cancelled the context (and at
//	   most one invocation at all when the context was done before the call);
//	d. result nil <=> some invocation returned nil;
//	e. otherwise the result is the error of the last invocation, or — only if the context is done —
//	   the 'cancelled' (context.Canceled) / 'timeout' (context.DeadlineExceeded) kind; a raw context
//	   error is never acceptable.
//
// Don't care: whether a disabled policy could retry (bounded by b only), which of {last error,
// context kind} is returned once the context is done, error text.
func judgeRetry(r *vrun.Run, c retryCase, log []inv, err error, panicked any, timedOut bool) {
	fam := c.Entry
	limit := c.Policy.RetryMax
	if limit < 1 {
		limit = 1
	}
	wit := func(detail any) witness {
		cc := c
		return witness{Part: "retry", Retry: &cc, Detail: map[string]any{"invocations": log, "returned": fmt.Sprint(err), "wait_class": waitClass(c.Policy), "observation": detail}}
	}
	sig := func(pre, effect string) vrun.Sig {
		// the wait class (zero / sub-microsecond / ...) is in the witness and the text, not in the
		// signature: the signature names entry point, precondition class and effect class only
		return vrun.Sig{"part": "retry", "ep": fam, "pre": pre, "effect": effect}
	}
	r.Obs("retry_calls", 1)
	r.Obs("retry_invocations_logged", int64(len(log)))
	r.ObsMax("retry_max_invocations_in_one_call", int64(len(log)))

	if panicked != nil {
		r.Violation(sig("any", "panic"), fmt.Sprintf("%s panicked: %v", fam, panicked), wit(fmt.Sprint(panicked)))
		return
	}
	// a.
	if len(log) == 0 && !c.PreDone && !timedOut {
		r.Violation(sig("context-live", "zero-invocations"), fmt.Sprintf("%s never invoked the operation (script %q)", fam, c.Script), wit(nil))
	}
	// b.
	if len(log) > limit {
		r.Violation(sig(fmt.Sprintf("enabled=%v", c.Policy.Enabled), "too-many-invocations"),
			fmt.Sprintf("%s invoked the operation %d times with RetryMax=%d (script %q)", fam, len(log), c.Policy.RetryMax, c.Script), wit(nil))
	}
	// c.
	endReason := "exhausted"
	sawOK := false
	for i, e := range log {
		if i > 0 {
			prev := log[i-1]
			switch {
			case e.DoneBefore && c.PreDone:
				r.Violation(sig("context-done-before-call", "invoked-after-context-done"),
					fmt.Sprintf("%s: invocation #%d although the context was done before the call (script %q)", fam, i+1, c.Script), wit(nil))
			case e.DoneBefore:
				r.Obs("retry_reinvoked_after_cancel/wait="+waitClass(c.Policy), 1)
				r.Violation(sig("context-done-by-earlier-attempt", "invoked-after-context-done"),
					fmt.Sprintf("%s: invocation #%d started after an earlier invocation had cancelled the context (script %q, RetryMax %d, %s min=%dns max=%dns, wait class %s)", fam, i+1, c.Script, c.Policy.RetryMax, c.Policy.Kind, c.Policy.WaitMinNs, c.Policy.WaitMaxNs, waitClass(c.Policy)), wit(nil))
			}
			if prev.Outcome == "O" || prev.Outcome == "S" {
				r.Violation(sig("after-success", "invoked-again"), fmt.Sprintf("%s: invocation #%d after a success (script %q)", fam, i+1, c.Script), wit(nil))
			}
			if prev.Outcome == "N" {
				r.Violation(sig("after-non-retriable-error", "invoked-again"), fmt.Sprintf("%s: invocation #%d after a non-retriable error (script %q)", fam, i+1, c.Script), wit(nil))
			}
		}
		if e.Outcome == "O" || e.Outcome == "S" {
			sawOK = true
		}
	}
	if timedOut {
		return
	}
	ctxDone := c.PreDone
	for _, e := range log {
		if e.Outcome == "C" || e.Outcome == "S" || e.Fired {
			ctxDone = true
		}
	}
	var last *inv
	if len(log) > 0 {
		last = &log[len(log)-1]
		switch last.Outcome {
		case "O":
			endReason = "success"
		case "S":
			endReason = "success-while-the-context-ended"
		case "N":
			endReason = "non-retriable"
		case "C":
			endReason = "cancel"
		case "L":
			if last.Fired {
				endReason = "cancel-from-logger"
			}
		}
		if c.PreDone {
			endReason = "predone-invoked"
		}
	} else {
		endReason = "predone-not-invoked"
	}
	// opportunities (the library had attempts left when the stopping event happened)
	if last != nil && len(log) < limit && c.Policy.Enabled && !c.PreDone {
		switch last.Outcome {
		case "O":
			r.Obs("retry_stop_after_success_opportunities", 1)
		case "N":
			r.Obs("retry_stop_after_nonretriable_opportunities", 1)
		case "C":
			r.Obs("retry_stop_after_cancel_opportunities", 1)
		case "L":
			if last.Fired {
				r.Obs("retry_stop_after_cancel_between_decision_and_attempt_opportunities/wait="+waitClass(c.Policy), 1)
			}
		}
	}
	if endReason == "exhausted" && len(log) == limit && limit >= 2 {
		r.Obs("retry_exhausted_all_attempts", 1)
	}
	if c.PreDone {
		r.Obs("retry_predone_context_cases", 1)
	}
	r.ObsSet("retry_classes", fmt.Sprintf("%s/%s/enabled=%v/max=%d/%s", strings.TrimPrefix(fam, "retry."), c.Policy.Kind, c.Policy.Enabled, c.Policy.RetryMax, endReason))
	r.ObsSet("retry_wait_classes", waitClass(c.Policy))

	// d.
	if sawOK && err != nil {
		r.Violation(sig("some-attempt-succeeded", "non-nil-result"), fmt.Sprintf("%s returned %v although an invocation succeeded (script %q)", fam, err, c.Script), wit(nil))
		return
	}
	if !sawOK && err == nil {
		r.Violation(sig("no-attempt-succeeded", "nil-result"), fmt.Sprintf("%s returned nil although no invocation succeeded (script %q, %d invocations)", fam, c.Script, len(log)), wit(nil))
		return
	}
	if err == nil {
		return
	}
	// e.
	wantKind, wantName := commonerrors.ErrCancelled, "cancelled"
	if c.Ctx == "custom-deadline" {
		wantKind, wantName = commonerrors.ErrTimeout, "timeout"
	}
	if errors.Is(err, context.Canceled) || errors.Is(err, context.DeadlineExceeded) {
		r.Violation(sig("context-done", "raw-context-error"), fmt.Sprintf("%s returned the raw context error %v instead of the %s kind", fam, err, wantName), wit(nil))
		return
	}
	isLast := last != nil && last.err != nil && errors.Is(err, last.err)
	if isLast {
		// "the last error", not an aggregate that also is an earlier attempt's error (every scripted
		// error is a distinct value)
		for _, e := range log[:len(log)-1] {
			if e.err != nil && errors.Is(err, e.err) {
				r.Violation(sig("several-failed-attempts", "aggregate-instead-of-last-error"), fmt.Sprintf("%s returned an error that also is the error of invocation #%d, not only the last one (script %q)", fam, e.Idx+1, c.Script), wit(nil))
				return
			}
		}
	}
	isKind := commonerrors.Any(err, wantKind)
	switch {
	case isLast:
		r.Obs("retry_last_error_returned", 1)
	case isKind && ctxDone:
		r.Obs("retry_context_kind_reported", 1)
	case isKind && !ctxDone:
		r.Violation(sig("context-live", "context-kind-without-context-end"), fmt.Sprintf("%s returned %v although the context never ended (script %q)", fam, err, c.Script), wit(nil))
	default:
		pre := "context-live"
		if ctxDone {
			pre = "context-done"
		}
		lastTxt := "<none>"
		if last != nil {
			lastTxt = fmt.Sprint(last.err)
		}
		r.Violation(sig(pre, "not-the-last-error"), fmt.Sprintf("%s returned %q; last invocation returned %q (script %q)", fam, err, lastTxt, c.Script), wit(nil))
	}
}

// ---------------------------------------------------------------------------------------------
// case list

func allScripts(maxLen int) []string {
	var out []string
	var rec func(prefix string)
	rec = func(prefix string) {
		if len(prefix) > 0 {
			out = append(out, prefix)
		}
		if len(prefix) == maxLen {
			return
		}
		for _, o := range "ORNC" {
			rec(prefix + string(o))
		}
	}
	rec("")
	return out
}

func buildRetryCases(r *vrun.Run) []retryCase {
	var cases []retryCase
	scripts := allScripts(5) // 4+16+64+256+1024 = 1364
	rounds := r.Pick(1, 8)
	idx := 0
	pickWait := func(kind string, k int) [2]int64 {
		m := waitMenu[kind]
		return m[k%len(m)]
	}
	for round := 0; round < rounds; round++ {
		for si, s := range scripts {
			rng := r.Rand("c14-retry-enum", round*len(scripts)+si)
			for _, kind := range kinds {
				for rm := 1; rm <= 8; rm++ {
					w := pickWait(kind, rng.IntN(1<<20))
					c := retryCase{
						Entry:  entries[idx%3],
						Policy: policyDesc{Enabled: true, RetryMax: rm, Kind: kind, WaitMinNs: w[0], WaitMaxNs: w[1]},
						Script: s, Ctx: "cancel", Flavour: "commonerrors",
					}
					if rng.IntN(4) == 0 {
						c.Ctx = "custom-deadline"
					}
					if c.Entry == "retry.RetryIf" && rng.IntN(2) == 0 {
						c.Flavour = "typed"
					}
					if strings.Contains(s, "C") && rng.IntN(2) == 0 {
						c.Script = strings.Replace(s, "C", "L", 1)
					} else if strings.Contains(s, "C") && rng.IntN(3) == 0 {
						c.Script = strings.Replace(s, "C", "S", 1)
					}
					cases = append(cases, c)
					idx++
				}
			}
			// disabled policies (RetryMax 0 = the library's own "no retry" default, and a stray value)
			for _, rm := range []int{0, 1 + rng.IntN(8)} {
				kind := kinds[rng.IntN(3)]
				w := pickWait(kind, rng.IntN(1<<20))
				c := retryCase{
					Entry:  entries[idx%3],
					Policy: policyDesc{Enabled: false, RetryMax: rm, Kind: kind, WaitMinNs: w[0], WaitMaxNs: w[1], RetryAfterDisabled: true},
					Script: s, Ctx: "cancel", Flavour: "commonerrors",
				}
				if c.Entry == "retry.RetryIf" && rng.IntN(2) == 0 {
					c.Flavour = "typed"
				}
				cases = append(cases, c)
				idx++
			}
		}
	}
	// sampled scripts of length 6..8
	nLong := r.Pick(3000, 60000)
	for i := 0; i < nLong; i++ {
		rng := r.Rand("c14-retry-long", i)
		l := 6 + rng.IntN(3)
		b := make([]byte, l)
		for j := range b {
			// bias towards R so that long scripts are really walked
			switch x := rng.IntN(10); {
			case x < 6:
				b[j] = 'R'
			case x < 7:
				b[j] = 'O'
			case x < 8:
				b[j] = 'N'
			case x < 9:
				b[j] = 'C'
			default:
				b[j] = 'L'
			}
		}
		kind := kinds[rng.IntN(3)]
		w := pickWait(kind, rng.IntN(1<<20))
		c := retryCase{
			Entry:  entries[rng.IntN(3)],
			Policy: policyDesc{Enabled: true, RetryMax: 1 + rng.IntN(8), Kind: kind, WaitMinNs: w[0], WaitMaxNs: w[1]},
			Script: string(b), Ctx: "cancel", Flavour: "commonerrors",
		}
		if rng.IntN(4) == 0 {
			c.Ctx = "custom-deadline"
		}
		if c.Entry == "retry.RetryIf" && rng.IntN(2) == 0 {
			c.Flavour = "typed"
		}
		cases = append(cases, c)
	}
	// context done before the call
	nPre := r.Pick(600, 6000)
	for i := 0; i < nPre; i++ {
		rng := r.Rand("c14-retry-predone", i)
		s := scripts[rng.IntN(84)] // scripts of length <= 3
		kind := kinds[rng.IntN(3)]
		w := pickWait(kind, rng.IntN(1<<20))
		c := retryCase{
			Entry:   entries[rng.IntN(3)],
			Policy:  policyDesc{Enabled: rng.IntN(5) != 0, RetryMax: 1 + rng.IntN(8), Kind: kind, WaitMinNs: w[0], WaitMaxNs: w[1]},
			Script:  s,
			Ctx:     []string{"cancel", "custom-deadline"}[rng.IntN(2)],
			PreDone: true, Flavour: "commonerrors",
		}
		cases = append(cases, c)
	}
	return cases
}

func runRetryScripts(r *vrun.Run) {
	cases := buildRetryCases(r)
	r.Obs("retry_cases_built", int64(len(cases)))
	r.Extra("retry_exhaustive_subspace", "every outcome script of length 1..5 over {O,R,N,C} x back-off kind {constant,exponential,linear} x RetryMax 1..8 (enabled), plus disabled policies with RetryMax 0 and one PRNG value")
	// the cases mostly sleep (<= 2 ms per wait): oversubscribe the cores
	vrun.Parallel(len(cases), 4*runtime.GOMAXPROCS(0), func(i int) {
		if retryWatchdogs.Load() > 20 {
			r.Inconclusive("retry case skipped after more than 20 watchdog firings")
			return
		}
		c := cases[i]
		runRetryCase(r, c)
		r.Case("retry:"+canon(c), len(c.Script) > 0 && c.Script[0] != 'O')
		if i%9973 == 17 && r.WantSample() {
			r.Sample(map[string]any{"part": "retry", "case": c})
		}
	})
}
