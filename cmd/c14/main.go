// C14 — retries are bounded and back-off waits stay in range.
//
// Three monitors in one check:
//
//  1. retry_script.go — scripted operations (outcome scripts over {ok, retriable, non-retriable,
//     cancel-here}) driven through retry.RetryIf / retry.RetryOnError / http.RetryOnError with an
//     invocation log; the oracle judges the log and the returned error.
//  2. apply.go — the pure Apply(min,max,n,resp) back-off computation of utils/http/retry_policy.go
//     (reached through the policy structs, the constructors, BackOffPolicyFactory and the Backoff
//     field of a real retryable client) against a math/big oracle.
//  3. httpclient.go — the retryable HTTP client against a loopback httptest server that logs every
//     request and answers from a script; the waits the client really used are read from its debug log
//     and judged by the oracle of (2).
//
// The oracles are written from the statement of C14 (see properties.jsonl); their don't-care regions
// are listed next to each oracle.
package main

import (
	"encoding/json"
	"fmt"
	"os"

	"verif/internal/vrun"
)

// witness is what is written to the replay file of a violation; exactly one of the pointers is set.
type witness struct {
	Part   string      `json:"part"`
	Retry  *retryCase  `json:"retry,omitempty"`
	Apply  *applyCase  `json:"apply,omitempty"`
	HTTP   *httpCase   `json:"http,omitempty"`
	N      *int64      `json:"n,omitempty"`
	Detail interface{} `json:"detail,omitempty"`
}

func main() {
	r := vrun.Start("C14", "exploration")
	r.Rule("part 1 (retry): 1 evaluation = one call of RetryIf/RetryOnError with a scripted operation; case = (entry point, policy{enabled, RetryMax 1..8, back-off kind, min/max wait <= 2 ms}, outcome script over O=ok R=retriable N=non-retriable C=cancel-context-then-retriable (padded with R), context kind, error flavour); " +
		"all 1364 scripts of length <= 5 are enumerated for every back-off kind x RetryMax, lengths 6..8 sampled by PRNG; non-trivial = the first outcome is not O (the library has to take at least one retry/stop decision). " +
		"part 2 (Apply): 1 evaluation = one Apply call judged against the math/big oracle; case = (policy kind, Retry-After honoured?, route, min, max, response{status, Retry-After values}) evaluated on an ascending list of attempt numbers (0..70, 2^k-1,2^k,2^k+1 up to 2^31); non-trivial = kind is not constant or the response carries a Retry-After header; plus date-crossing series: a Retry-After date 2 ms ahead (RFC 3339 with nanoseconds) while Apply is called 4000 times, so that the date passes during the series. " +
		"part 3 (HTTP): 1 evaluation = one request method call of the retryable client against the loopback server; case = (method, policy, response script over 200/204, 429/500/503 (+Retry-After variants), 404, cancel-here, connection drop); non-trivial = first response is not a success. " +
		"distinct_nontrivial hashes the canonical JSON of each case.")
	r.Assume(
		"math/big, net/http (server side, httptest) and the Go runtime are the trusted base",
		"RetryMax <= 0 with an enabled policy is outside the quantifier (retry-go treats 0 as 'forever') and is never generated",
		"the only wall-clock reads are the [before,after] bracket around an Apply call whose Retry-After value is a date; they bound an interval, they never select cases",
		"the 'context done' clause is decided only for a context that an earlier invocation of the operation itself cancelled (or that was done before the call): an asynchronous cancel cannot be ordered against the library's decision point without a false alarm",
		"HTTP client: which statuses are retriable is taken from the documented policy (5xx except 501 and 429 are retried, 2xx and other 4xx are final); the kind of the error returned by the HTTP client is not judged",
	)

	if r.Replay != "" {
		replay(r)
		r.Finish()
		return
	}

	runRetryScripts(r)
	runApply(r)
	runHTTP(r)

	// minimum observations: a run that did not see these refuting opportunities is a harness error
	r.Require("retry_calls", int64(r.Pick(20000, 200000)))
	r.Require("retry_invocations_logged", 40000)
	r.Require("retry_stop_after_success_opportunities", 2000)
	r.Require("retry_stop_after_nonretriable_opportunities", 2000)
	r.Require("retry_stop_after_cancel_opportunities", 2000)
	r.Require("retry_exhausted_all_attempts", 500)
	r.Require("retry_context_kind_reported", 200)
	r.Require("retry_predone_context_cases", 100)
	r.Require("retry_classes", 60)
	r.Require("apply_evaluations", int64(r.Pick(2000000, 40000000)))
	r.Require("apply_bigint_oracle_calls", 500000)
	r.Require("apply_hint_honoured_exact", 10000)
	r.Require("apply_hint_date_bracket_checks", 2000)
	r.Require("apply_monotonic_pairs", 100000)
	r.Require("apply_date_passed_during_series", 500)
	r.Require("apply_header_classes", 14)
	r.Require("apply_cells", 150)
	r.Require("http_calls", int64(r.Pick(2000, 20000)))
	r.Require("http_requests_logged", 5000)
	r.Require("http_waits_judged", 2000)
	r.Require("http_stop_after_success_opportunities", 300)
	r.Require("http_stop_after_cancel_opportunities", 100)
	r.Require("http_exhausted_all_attempts", 100)
	r.Require("distinct_nontrivial", 5000)
	r.Finish()
}

func canon(v any) string {
	b, err := json.Marshal(v)
	if err != nil {
		return fmt.Sprintf("%#v", v)
	}
	return string(b)
}

func replay(r *vrun.Run) {
	var w witness
	if err := r.ReadReplay(&w); err != nil {
		r.Fatalf("cannot read witness %s: %v", r.Replay, err)
	}
	switch {
	case w.Retry != nil:
		// the zero-wait race is probabilistic: repeat
		for i := 0; i < 400; i++ {
			runRetryCase(r, *w.Retry)
		}
	case w.Apply != nil:
		runApplyCase(r, *w.Apply, nil)
	case w.HTTP != nil:
		srv := newScriptServer()
		defer srv.close()
		for i := 0; i < 20; i++ {
			c := *w.HTTP
			c.ID = fmt.Sprintf("replay-%d", i)
			runHTTPCase(r, srv, c, nil)
		}
	default:
		fmt.Fprintln(os.Stderr, "witness has no case")
		os.Exit(2)
	}
}
