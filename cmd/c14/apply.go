package main

import (
	"fmt"
	"math"
	"math/big"
	"net/http"
	"sort"
	"sync"
	"sync/atomic"
	"time"

	libhttp "github.com/ARM-software/golang-utils/utils/http"

	"verif/internal/vrun"
)

// ---------------------------------------------------------------------------------------------
// case description

// hdrDesc describes one Retry-After header value. Dates are described by an offset to "now" (or an
// absolute instant) and rendered when the case is evaluated, so the case list does not depend on the
// clock.
type hdrDesc struct {
	Class  string `json:"class"`
	Value  string `json:"value,omitempty"`    // literal value (integer / garbage / empty classes)
	Secs   string `json:"secs,omitempty"`     // decimal integer the value denotes (integer classes)
	Format string `json:"format,omitempty"`   // date classes: imf | rfc850 | asctime | rfc1123-utc | rfc1123z | rfc3339 | rfc3339nano
	Offset *int64 `json:"offset_s,omitempty"` // date classes: seconds relative to the evaluation time
	Abs    *int64 `json:"abs_unix,omitempty"` // date classes: absolute instant
}

type respDesc struct {
	Nil     bool      `json:"nil,omitempty"`
	Status  int       `json:"status,omitempty"`
	Headers []hdrDesc `json:"retry_after,omitempty"` // nil: header absent
}

type applyCase struct {
	Kind       string   `json:"kind"` // constant | exponential | linear
	ConsiderRA bool     `json:"consider_retry_after"`
	Route      string   `json:"route"` // struct | ctor | factory | factory-disabled | client
	MinNs      int64    `json:"min_ns"`
	MaxNs      int64    `json:"max_ns"`
	Resp       respDesc `json:"resp"`
	NList      string   `json:"n_list"` // full | short
}

var (
	bigMaxI64 = big.NewInt(math.MaxInt64)
	bigE9     = big.NewInt(1_000_000_000)
)

const exactRegion = int64(1) << 53 // durations up to 2^53 ns (~104 days) are exact in float64: the quantifier says "0 to hours"

func nList(which string) []int64 {
	set := map[int64]struct{}{}
	if which == "short" {
		for _, n := range []int64{0, 1, 2, 3, 7, 10, 31, 32, 62, 63, 64, 1023, 1024, 1<<31 - 1, 1 << 31} {
			set[n] = struct{}{}
		}
	} else {
		for n := int64(0); n <= 70; n++ {
			set[n] = struct{}{}
		}
		for k := 7; k <= 31; k++ {
			for d := int64(-1); d <= 1; d++ {
				n := int64(1)<<k + d
				if n <= 1<<31 {
					set[n] = struct{}{}
				}
			}
		}
		set[1023], set[1024], set[1025] = struct{}{}, struct{}{}, struct{}{}
	}
	out := make([]int64, 0, len(set))
	for n := range set {
		out = append(out, n)
	}
	sort.Slice(out, func(a, b int) bool { return out[a] < out[b] })
	return out
}

var nFull, nShort = nList("full"), nList("short")

// ---------------------------------------------------------------------------------------------
// the function under test, by route

type applyFn func(min, max time.Duration, attemptNum int, resp *http.Response) time.Duration

var (
	clientBackoffMu    sync.Mutex
	clientBackoffCache = map[string]applyFn{}
)

func policyCfg(kind string, considerRA, enabled bool) *libhttp.RetryPolicyConfiguration {
	return &libhttp.RetryPolicyConfiguration{
		Enabled:              enabled,
		RetryMax:             4,
		RetryAfterDisabled:   !considerRA,
		RetryWaitMin:         time.Second,
		RetryWaitMax:         30 * time.Second,
		BackOffEnabled:       kind != "constant",
		LinearBackOffEnabled: kind == "linear",
	}
}

func applyFor(c applyCase) applyFn {
	wp := libhttp.RetryWaitPolicy{ConsiderRetryAfter: c.ConsiderRA}
	cfg := policyCfg(c.Kind, c.ConsiderRA, true)
	switch c.Route {
	case "struct":
		switch c.Kind {
		case "constant":
			return (&libhttp.BasicRetryPolicy{RetryWaitPolicy: wp}).Apply
		case "linear":
			return (&libhttp.LinearBackoffPolicy{RetryWaitPolicy: wp}).Apply
		}
		return (&libhttp.ExponentialBackoffPolicy{RetryWaitPolicy: wp}).Apply
	case "ctor":
		switch c.Kind {
		case "constant":
			return libhttp.NewBasicRetryPolicy(cfg).Apply
		case "linear":
			return libhttp.NewLinearBackoffPolicy(cfg).Apply
		}
		return libhttp.NewExponentialBackoffPolicy(cfg).Apply
	case "factory-disabled": // only generated for kind constant: a disabled policy has no back-off
		return libhttp.BackOffPolicyFactory(policyCfg("constant", c.ConsiderRA, false)).Apply
	case "client":
		key := fmt.Sprintf("%s/%v", c.Kind, c.ConsiderRA)
		clientBackoffMu.Lock()
		defer clientBackoffMu.Unlock()
		if f, ok := clientBackoffCache[key]; ok {
			return f
		}
		hc := libhttp.DefaultHTTPClientConfiguration()
		hc.RetryPolicy = *cfg
		cl := libhttp.NewConfigurableRetryableClient(hc)
		f := applyFn(cl.UnderlyingClient().Backoff)
		clientBackoffCache[key] = f
		return f
	}
	return libhttp.BackOffPolicyFactory(cfg).Apply
}

// ---------------------------------------------------------------------------------------------
// header rendering

func (h hdrDesc) isDate() bool { return h.Format != "" }

// render returns the header value and, for dates, the instant it denotes.
func (h hdrDesc) render(now time.Time) (string, time.Time) {
	if !h.isDate() {
		return h.Value, time.Time{}
	}
	var d time.Time
	if h.Abs != nil {
		d = time.Unix(*h.Abs, 0)
	} else {
		d = now.Add(time.Duration(*h.Offset) * time.Second)
	}
	d = d.UTC()
	if h.Format == "rfc3339nano" {
		d = d.Round(0)
		return d.Format(time.RFC3339Nano), d
	}
	d = d.Truncate(time.Second)
	switch h.Format {
	case "imf":
		return d.Format(http.TimeFormat), d
	case "rfc850":
		return d.Format("Monday, 02-Jan-06 15:04:05 GMT"), d
	case "asctime":
		return d.Format(time.ANSIC), d
	case "rfc1123-utc":
		return d.Format(time.RFC1123), d
	case "rfc1123z":
		return d.In(time.FixedZone("", 3600)).Format(time.RFC1123Z), d
	}
	return d.Format(time.RFC3339), d
}

// ---------------------------------------------------------------------------------------------
// hot counters (flushed into the evidence by flushHot; r.Obs takes a global lock)

var hotCounters sync.Map // name -> *atomic.Int64

func hot(name string) {
	v, ok := hotCounters.Load(name)
	if !ok {
		v, _ = hotCounters.LoadOrStore(name, new(atomic.Int64))
	}
	v.(*atomic.Int64).Add(1)
}

func flushHot(r *vrun.Run) {
	hotCounters.Range(func(k, v any) bool {
		if n := v.(*atomic.Int64).Swap(0); n != 0 {
			r.Obs(k.(string), n)
		}
		return true
	})
}

// ---------------------------------------------------------------------------------------------
// oracle

// noHintVerdict judges a wait computed without a server hint. It returns "" when acceptable, else the
// effect class. Demands: never negative; constant = min; linear in [(n+1)min,(n+1)max] when
// (n+1)max <= MaxInt64; exponential in [min,max] (min,max <= 2^53 ns; beyond that only "never
// negative" is demanded because float64 no longer represents the durations exactly and the quantifier
// stops at "hours"). Monotonicity of the exponential policy is judged by the caller.
func noHintVerdict(r *vrun.Run, kind string, min, max, n, w int64) string {
	if w < 0 {
		return "negative-wait"
	}
	switch kind {
	case "constant":
		if w != min {
			return "constant-not-min"
		}
	case "linear":
		hot("apply_bigint_oracle_calls")
		np1 := new(big.Int).Add(big.NewInt(n), big.NewInt(1))
		lo := new(big.Int).Mul(np1, big.NewInt(min))
		hi := new(big.Int).Mul(np1, big.NewInt(max))
		if hi.Cmp(bigMaxI64) > 0 {
			hot("apply_linear_bounds_not_representable")
			return "" // bounds not representable: only "never negative"
		}
		bw := big.NewInt(w)
		if bw.Cmp(lo) < 0 || bw.Cmp(hi) > 0 {
			return "linear-out-of-range"
		}
	case "exponential":
		if min > exactRegion || max > exactRegion {
			return ""
		}
		if w < min || w > max {
			return "exp-out-of-range"
		}
	}
	return ""
}

func clampBig(b *big.Int) int64 {
	if b.Sign() < 0 {
		return 0
	}
	if b.Cmp(bigMaxI64) > 0 {
		return math.MaxInt64
	}
	return b.Int64()
}

// hintVerdict judges w against one Retry-After value on a 429/503 response with Retry-After enabled.
// ok: acceptable. exact: the value was a well-formed hint and w equals it (for the counters).
//
//	integer seconds s, 0 <= s*1e9 <= MaxInt64   : w = s*1e9 exactly
//	integer seconds whose nanoseconds overflow   : w = MaxInt64 (saturation) or the no-hint wait (value
//	  (incl. values beyond int64)                  rejected); anything else is a violation — negative
//	                                               ("negative-wait") or wrapped ("wrapped-wait")
//	negative integers                            : w >= 0 (don't care otherwise)
//	"+5"                                         : 5 s or the no-hint wait (grammar says 1*DIGIT)
//	HTTP-date (IMF-fixdate, RFC 850, asctime)    : max(0, date-now) for some now in [t0,t1], saturating
//	other date syntaxes (RFC 3339, RFC 1123 zone): as a date, or the no-hint wait
//	garbage / empty                              : the no-hint wait
func hintVerdict(r *vrun.Run, h hdrDesc, d time.Time, t0, t1 time.Time, w int64, noHint func() string) (ok bool, exact bool, effect string) {
	if w < 0 {
		return false, false, "negative-wait"
	}
	fallbackOK := func() bool { return noHint() == "" }
	switch h.Class {
	case "int-in-range", "int-overflow", "int-beyond-int64", "int-plus", "int-negative", "int-beyond-int64-negative":
		s, good := new(big.Int).SetString(h.Secs, 10)
		if !good {
			r.Fatalf("bad integer in header description %+v", h)
		}
		hot("apply_bigint_oracle_calls")
		ns := new(big.Int).Mul(s, bigE9)
		switch h.Class {
		case "int-in-range":
			if ns.Cmp(bigMaxI64) > 0 || ns.Sign() < 0 {
				r.Fatalf("header class int-in-range but %s s is not representable", h.Secs)
			}
			if w == ns.Int64() {
				return true, true, ""
			}
			return false, false, "hint-not-honoured"
		case "int-overflow", "int-beyond-int64":
			if ns.Cmp(bigMaxI64) <= 0 {
				r.Fatalf("header class %s but %s s is representable", h.Class, h.Secs)
			}
			if w == math.MaxInt64 {
				hot("apply_hint_saturated")
				return true, false, ""
			}
			if fallbackOK() {
				return true, false, ""
			}
			if h.Class == "int-beyond-int64" {
				return false, false, "unexpected-wait-for-unrepresentable-hint"
			}
			return false, false, "wrapped-wait"
		case "int-plus":
			if w == ns.Int64() || fallbackOK() {
				return true, false, ""
			}
			return false, false, "hint-not-honoured"
		default: // negatives: only "never negative"
			return true, false, ""
		}
	case "http-date", "other-date":
		hot("apply_bigint_oracle_calls")
		dn := new(big.Int).Add(new(big.Int).Mul(big.NewInt(d.Unix()), bigE9), big.NewInt(int64(d.Nanosecond())))
		at := func(t time.Time) int64 {
			tn := new(big.Int).Add(new(big.Int).Mul(big.NewInt(t.Unix()), bigE9), big.NewInt(int64(t.Nanosecond())))
			return clampBig(new(big.Int).Sub(dn, tn))
		}
		hi, lo := at(t0), at(t1)
		in := w >= lo && w <= hi
		if h.Class == "http-date" {
			if in {
				return true, true, ""
			}
			return false, false, "hint-not-honoured"
		}
		if in || fallbackOK() {
			return true, false, ""
		}
		return false, false, "hint-not-honoured"
	}
	// garbage, empty
	if fallbackOK() {
		return true, false, ""
	}
	return false, false, "garbage-hint-changed-wait"
}

func policyTypeName(kind string) string {
	switch kind {
	case "constant":
		return "BasicRetryPolicy.Apply"
	case "linear":
		return "LinearBackoffPolicy.Apply"
	}
	return "ExponentialBackoffPolicy.Apply"
}

// judgeWait is shared by part 2 and part 3: w is the wait the library computed for attempt n of policy
// (kind, considerRA) given the response (status, rendered header values hv with descriptions hs and
// instants ds); [t0,t1] brackets the computation. Returns the effect class ("" = fine) and the
// precondition class.
func judgeWait(r *vrun.Run, kind string, considerRA bool, min, max, n, w int64, respNil bool, status int, hs []hdrDesc, ds []time.Time, t0, t1 time.Time) (effect, pre string, extra map[string]string) {
	noHint := func() string { return noHintVerdict(r, kind, min, max, n, w) }
	hinted := !respNil && (status == http.StatusTooManyRequests || status == http.StatusServiceUnavailable) && len(hs) > 0
	// a negative wait of the linear policy whose bounds (n+1)*max are not representable is its own class
	linearUnrepresentable := false
	if kind == "linear" && w < 0 {
		hi := new(big.Int).Mul(new(big.Int).Add(big.NewInt(n), big.NewInt(1)), big.NewInt(max))
		linearUnrepresentable = hi.Cmp(bigMaxI64) > 0
	}
	switch {
	case respNil:
		pre = "no-response"
	case len(hs) == 0:
		pre = "no-retry-after-header"
	case !considerRA:
		pre = "retry-after-disabled"
	case !hinted:
		pre = "status-not-429-503"
	}
	if !hinted || !considerRA {
		eff := noHint()
		if eff == "" && hinted && !considerRA {
			hot("apply_hint_ignored_when_disabled")
		}
		if eff == "" && !hinted && len(hs) > 0 {
			hot("apply_hint_ignored_on_other_status")
		}
		if eff == "negative-wait" && linearUnrepresentable {
			pre = "no-server-hint"
			extra = map[string]string{"range": "linear-bounds-not-representable"}
		}
		return eff, pre, extra
	}
	// hinted and enabled: acceptable if it is acceptable for any of the (possibly repeated) values
	firstEffect := ""
	for i, h := range hs {
		ok, exact, eff := hintVerdict(r, h, ds[i], t0, t1, w, noHint)
		if ok {
			if exact {
				hot("apply_hint_honoured_exact")
				if h.isDate() {
					hot("apply_hint_date_bracket_checks")
				}
			}
			return "", "", nil
		}
		if firstEffect == "" {
			firstEffect = eff
			pre = "retry-after-" + h.Class
			// values for which falling back to the no-hint wait is acceptable: a negative wait with
			// unrepresentable linear bounds is then the linear overflow, not a mis-read hint
			switch h.Class {
			case "int-in-range", "int-overflow", "http-date":
			default:
				if eff == "negative-wait" && linearUnrepresentable {
					pre = "no-server-hint"
					extra = map[string]string{"range": "linear-bounds-not-representable"}
				}
			}
			// a date that was still in the future when the call started and in the past when it
			// returned: the negative wait comes from reading the clock twice
			if eff == "negative-wait" && h.isDate() && ds[i].After(t0) && !ds[i].After(t1) {
				extra = map[string]string{"race": "date-passed-during-call"}
			}
		}
	}
	return firstEffect, pre, extra
}

// runApplyCase evaluates one case on its list of attempt numbers. collect (optional) receives the
// number of evaluations.
func runApplyCase(r *vrun.Run, c applyCase, evals *int64) {
	f := applyFor(c)
	ns := nFull
	if c.NList == "short" {
		ns = nShort
	}
	ep := policyTypeName(c.Kind)
	var prevW, prevN int64
	havePrev := false
	dateBearing := false
	for _, h := range c.Resp.Headers {
		if h.isDate() {
			dateBearing = true
		}
	}
	for _, n := range ns {
		// build the response (dates rendered now)
		var resp *http.Response
		var ds []time.Time
		var hv []string
		if !c.Resp.Nil {
			resp = &http.Response{StatusCode: c.Resp.Status, Status: fmt.Sprintf("%d %s", c.Resp.Status, http.StatusText(c.Resp.Status)), Header: http.Header{}}
			if c.Resp.Headers != nil {
				base := time.Now()
				for _, h := range c.Resp.Headers {
					v, d := h.render(base)
					hv = append(hv, v)
					ds = append(ds, d)
				}
				resp.Header["Retry-After"] = hv
			}
		}
		var t0, t1 time.Time
		if dateBearing {
			t0 = time.Now()
		}
		w, panicked := callApply(f, time.Duration(c.MinNs), time.Duration(c.MaxNs), int(n), resp)
		if dateBearing {
			t1 = time.Now()
			if t1.Round(0).Before(t0.Round(0)) {
				r.Inconclusive("wall clock stepped backwards during an Apply call with a date-valued Retry-After")
				continue
			}
		}
		if evals != nil {
			*evals++
		}
		nn := n
		wit := func() witness {
			cc := c
			return witness{Part: "apply", Apply: &cc, N: &nn, Detail: map[string]any{"returned_ns": w, "returned": time.Duration(w).String(), "header_values": hv}}
		}
		if panicked != nil {
			r.Violation(vrun.Sig{"part": "apply", "ep": ep, "pre": "any", "effect": "panic"}, fmt.Sprintf("%s panicked: %v", ep, panicked), wit())
			continue
		}
		effect, pre, extra := judgeWait(r, c.Kind, c.ConsiderRA, c.MinNs, c.MaxNs, n, int64(w), c.Resp.Nil, c.Resp.Status, c.Resp.Headers, ds, t0, t1)
		if effect != "" {
			if (pre == "retry-after-disabled" || pre == "status-not-429-503") && len(c.Resp.Headers) > 0 && equalsIntHint(c.Resp.Headers[0], int64(w)) {
				effect = "hint-honoured-unexpectedly/" + effect
			}
			sg := vrun.Sig{"part": "apply", "ep": ep, "pre": pre, "effect": effect}
			for k, v := range extra {
				sg[k] = v
			}
			r.Violation(sg,
				fmt.Sprintf("%s(min=%v, max=%v, n=%d, resp=%s) = %v (%d ns) [route %s, ConsiderRetryAfter=%v]", ep, time.Duration(c.MinNs), time.Duration(c.MaxNs), n, respText(c.Resp, hv), time.Duration(w), int64(w), c.Route, c.ConsiderRA), wit())
		}
		// exponential: non-decreasing in n (without a hint the function is deterministic; with an
		// honoured hint the wait does not depend on n and integer hints are constant; dates move with
		// the clock, so they are excluded)
		if c.Kind == "exponential" && !dateBearing && c.MinNs <= exactRegion && c.MaxNs <= exactRegion {
			if havePrev {
				hot("apply_monotonic_pairs")
				if int64(w) < prevW {
					r.Violation(vrun.Sig{"part": "apply", "ep": ep, "pre": preOr(pre, "hint"), "effect": "exp-decreasing"},
						fmt.Sprintf("%s(min=%v,max=%v): n=%d gives %v but n=%d gives %v", ep, time.Duration(c.MinNs), time.Duration(c.MaxNs), prevN, time.Duration(prevW), n, time.Duration(w)), wit())
				}
			}
			prevW, prevN, havePrev = int64(w), n, true
		}
	}
}

// equalsIntHint reports whether w is exactly the number of seconds an in-range integer header denotes.
func equalsIntHint(h hdrDesc, w int64) bool {
	if h.Class != "int-in-range" {
		return false
	}
	s, ok := new(big.Int).SetString(h.Secs, 10)
	return ok && new(big.Int).Mul(s, bigE9).Cmp(big.NewInt(w)) == 0
}

func preOr(a, b string) string {
	if a == "" {
		return b
	}
	return a
}

func respText(rd respDesc, hv []string) string {
	if rd.Nil {
		return "nil"
	}
	if rd.Headers == nil {
		return fmt.Sprintf("{%d}", rd.Status)
	}
	return fmt.Sprintf("{%d Retry-After:%q}", rd.Status, hv)
}

func callApply(f applyFn, min, max time.Duration, n int, resp *http.Response) (w time.Duration, panicked any) {
	defer func() {
		if p := recover(); p != nil {
			panicked = p
		}
	}()
	return f(min, max, n, resp), nil
}

// ---------------------------------------------------------------------------------------------
// case list

func i64p(v int64) *int64 { return &v }

func headerMenu() []hdrDesc {
	var hs []hdrDesc
	addInt := func(class, val, secs string) { hs = append(hs, hdrDesc{Class: class, Value: val, Secs: secs}) }
	for _, s := range []string{"0", "1", "2", "59", "150", "3600", "86400", "31536000", "4294967296", "9223372035", "9223372036"} {
		addInt("int-in-range", s, s)
	}
	addInt("int-in-range", "007", "7")
	addInt("int-in-range", "000", "0")
	two := big.NewInt(2)
	p := func(k int64) *big.Int { return new(big.Int).Exp(two, big.NewInt(k), nil) }
	for _, s := range []string{"9223372037", "9223372038", "10000000000", "18446744073", "18446744074", "27670116111",
		p(40).String(), p(53).String(), p(62).String(), new(big.Int).Sub(p(63), big.NewInt(1)).String()} {
		addInt("int-overflow", s, s)
	}
	for _, s := range []string{p(63).String(), new(big.Int).Add(p(63), big.NewInt(1)).String(), p(64).String(), "1000000000000000000000000000000"} {
		addInt("int-beyond-int64", s, s)
	}
	for _, s := range []string{"-1", "-12", "-9223372037", new(big.Int).Neg(p(63)).String()} {
		addInt("int-negative", s, s)
	}
	addInt("int-beyond-int64-negative", new(big.Int).Neg(new(big.Int).Add(p(63), big.NewInt(1))).String(), new(big.Int).Neg(new(big.Int).Add(p(63), big.NewInt(1))).String())
	addInt("int-plus", "+5", "5")
	addInt("int-plus", "+0", "0")
	for _, g := range []string{"blahaha", "15s", "1 2", "soon", "0x10", "1e3", "NaN", "١٢٣", "Mon, 32 Foo 2020 25:61:61 GMT", "2020-13-45", "-", "+", "1,5", " "} {
		hs = append(hs, hdrDesc{Class: "garbage", Value: g})
	}
	hs = append(hs, hdrDesc{Class: "empty", Value: ""})
	// HTTP dates: relative (past, now, near and far future) and absolute
	for _, f := range []string{"imf", "rfc850", "asctime"} {
		for _, off := range []int64{-86400, -3600, -1, 0, 1, 2, 60, 180, 86400} {
			hs = append(hs, hdrDesc{Class: "http-date", Format: f, Offset: i64p(off)})
		}
		hs = append(hs, hdrDesc{Class: "http-date", Format: f, Abs: i64p(784111777)}) // 1994-11-06 08:49:37 (RFC 7231 example)
		hs = append(hs, hdrDesc{Class: "http-date", Format: f, Abs: i64p(1583741604)})
	}
	for _, f := range []string{"imf", "asctime"} { // four-digit years only
		hs = append(hs, hdrDesc{Class: "http-date", Format: f, Offset: i64p(100 * 365 * 86400)})
		hs = append(hs, hdrDesc{Class: "http-date", Format: f, Offset: i64p(300 * 365 * 86400)}) // beyond 292 years: saturates
		hs = append(hs, hdrDesc{Class: "http-date", Format: f, Abs: i64p(253402300799)})         // 9999-12-31 23:59:59
		hs = append(hs, hdrDesc{Class: "http-date", Format: f, Abs: i64p(-62135596800)})         // 0001-01-01
		hs = append(hs, hdrDesc{Class: "http-date", Format: f, Abs: i64p(0)})
	}
	for _, f := range []string{"rfc1123-utc", "rfc1123z", "rfc3339", "rfc3339nano"} {
		for _, off := range []int64{-3600, 0, 60, 86400} {
			hs = append(hs, hdrDesc{Class: "other-date", Format: f, Offset: i64p(off)})
		}
	}
	return hs
}

var durationMenu = []int64{0, 1, 2, 1000, 1_000_000, 25_000_000, 1_000_000_000, 30_000_000_000, 60_000_000_000, 3_600_000_000_000, 86_400_000_000_000, 360_000_000_000_000}
var durationBeyond = []int64{1<<53 - 1, 1<<53 + 1, math.MaxInt64 / 2, math.MaxInt64 - 1, math.MaxInt64}

func logUniformDuration(rng interface{ Float64() float64 }, maxNs float64) int64 {
	// log-uniform in [1 ns, maxNs]
	return int64(math.Exp(rng.Float64() * math.Log(maxNs)))
}

func headerClassKey(h hdrDesc) string {
	if h.isDate() {
		return h.Class + "/" + h.Format
	}
	return h.Class
}

func buildApplyCases(r *vrun.Run) []applyCase {
	var cases []applyCase
	menu := headerMenu()
	statuses := []int{200, 404, 429, 500, 503}
	// (min,max) pairs
	type pair struct{ min, max int64 }
	var pairs []pair
	all := append(append([]int64{}, durationMenu...), durationBeyond...)
	for i, a := range all {
		for _, b := range all[i:] {
			pairs = append(pairs, pair{a, b})
		}
	}
	nRandPairs := r.Pick(500, 6000)
	rng := r.Rand("c14-apply-pairs", 0)
	for i := 0; i < nRandPairs; i++ {
		a := logUniformDuration(rng, 3.6e14)
		b := logUniformDuration(rng, 3.6e14)
		if rng.IntN(8) == 0 {
			b = a
		}
		if a > b {
			a, b = b, a
		}
		pairs = append(pairs, pair{a, b})
	}
	routes := []string{"struct", "ctor", "factory", "client"}
	hintsPerCombo := r.Pick(40, 150)
	idx := 0
	for pi, p := range pairs {
		for _, kind := range kinds {
			for _, ra := range []bool{true, false} {
				prng := r.Rand("c14-apply-combo", idx)
				route := routes[idx%len(routes)]
				if kind == "constant" && idx%5 == 4 {
					route = "factory-disabled"
				}
				idx++
				// without a response, and with a response that has no header: full list of attempt numbers
				cases = append(cases, applyCase{Kind: kind, ConsiderRA: ra, Route: route, MinNs: p.min, MaxNs: p.max, Resp: respDesc{Nil: true}, NList: "full"})
				cases = append(cases, applyCase{Kind: kind, ConsiderRA: ra, Route: route, MinNs: p.min, MaxNs: p.max, Resp: respDesc{Status: statuses[prng.IntN(len(statuses))]}, NList: "short"})
				// responses with Retry-After values
				for k := 0; k < hintsPerCombo; k++ {
					h := menu[(pi*7+k*13+prng.IntN(len(menu)))%len(menu)]
					st := statuses[prng.IntN(len(statuses))]
					if prng.IntN(3) != 0 {
						st = []int{429, 503}[prng.IntN(2)]
					}
					rd := respDesc{Status: st, Headers: []hdrDesc{h}}
					if prng.IntN(12) == 0 { // repeated header
						rd.Headers = append(rd.Headers, menu[prng.IntN(len(menu))])
					}
					nl := "short"
					if !r.Quick() && prng.IntN(10) == 0 {
						nl = "full"
					}
					cases = append(cases, applyCase{Kind: kind, ConsiderRA: ra, Route: route, MinNs: p.min, MaxNs: p.max, Resp: rd, NList: nl})
				}
			}
		}
	}
	// random integer header values (digits 1..25) on 429/503 with Retry-After enabled
	nRandInts := r.Pick(3000, 60000)
	for i := 0; i < nRandInts; i++ {
		prng := r.Rand("c14-apply-randint", i)
		digits := 1 + prng.IntN(25)
		b := make([]byte, digits)
		for j := range b {
			b[j] = byte('0' + prng.IntN(10))
		}
		if b[0] == '0' && digits > 1 {
			b[0] = '1'
		}
		s, _ := new(big.Int).SetString(string(b), 10)
		class := "int-in-range"
		switch {
		case s.Cmp(bigMaxI64) > 0:
			class = "int-beyond-int64"
		case new(big.Int).Mul(s, bigE9).Cmp(bigMaxI64) > 0:
			class = "int-overflow"
		}
		p := pairs[prng.IntN(len(pairs))]
		cases = append(cases, applyCase{Kind: kinds[prng.IntN(3)], ConsiderRA: true, Route: routes[prng.IntN(4)], MinNs: p.min, MaxNs: p.max,
			Resp: respDesc{Status: []int{429, 503}[prng.IntN(2)], Headers: []hdrDesc{{Class: class, Value: string(b), Secs: s.String()}}}, NList: "short"})
	}
	return cases
}

// runDateCrossing: a Retry-After date a few milliseconds ahead (RFC 3339 with nanoseconds, the only
// accepted syntax finer than a second) while Apply is called a fixed number of times, so that the
// date passes during the series. Every call is judged as usual (bracket oracle, never negative).
func runDateCrossing(r *vrun.Run) {
	trials := r.Pick(1500, 20000)
	const callsPerTrial = 4000
	routes := []string{"struct", "ctor", "factory", "client"}
	vrun.Parallel(trials, 0, func(i int) {
		c := applyCase{Kind: kinds[i%3], ConsiderRA: true, Route: routes[i%4], MinNs: 1000, MaxNs: 2000,
			Resp: respDesc{Status: []int{429, 503}[i%2], Headers: []hdrDesc{{Class: "other-date", Format: "rfc3339nano", Offset: i64p(0)}}}, NList: "crossing"}
		f := applyFor(c)
		ep := policyTypeName(c.Kind)
		d := time.Now().Add(2 * time.Millisecond).UTC().Round(0)
		hv := d.Format(time.RFC3339Nano)
		resp := &http.Response{StatusCode: c.Resp.Status, Header: http.Header{"Retry-After": []string{hv}}}
		crossed := false
		var firstBefore bool
		for k := 0; k < callsPerTrial; k++ {
			t0 := time.Now()
			w, panicked := callApply(f, time.Duration(c.MinNs), time.Duration(c.MaxNs), k%8, resp)
			t1 := time.Now()
			if k == 0 {
				firstBefore = d.After(t0)
			}
			if panicked != nil {
				r.Violation(vrun.Sig{"part": "apply", "ep": ep, "pre": "any", "effect": "panic"}, fmt.Sprintf("%s panicked: %v", ep, panicked), witness{Part: "apply", Apply: &c})
				break
			}
			if t1.Round(0).Before(t0.Round(0)) {
				r.Inconclusive("wall clock stepped backwards during an Apply call with a date-valued Retry-After")
				continue
			}
			effect, pre, extra := judgeWait(r, c.Kind, true, c.MinNs, c.MaxNs, int64(k%8), int64(w), false, c.Resp.Status, c.Resp.Headers, []time.Time{d}, t0, t1)
			if effect != "" {
				sg := vrun.Sig{"part": "apply", "ep": ep, "pre": pre, "effect": effect}
				for k, v := range extra {
					sg[k] = v
				}
				kk := int64(k % 8)
				r.Violation(sg, fmt.Sprintf("%s(min=1µs,max=2µs,n=%d, resp={%d Retry-After:%q}) = %v: the date was %v ahead when the call started and %v behind when it returned",
					ep, kk, c.Resp.Status, hv, w, d.Sub(t0), t1.Sub(d)),
					witness{Part: "apply", Apply: &c, N: &kk, Detail: map[string]any{"returned_ns": int64(w), "header_values": []string{hv}, "date_minus_t0_ns": int64(d.Sub(t0)), "t1_minus_date_ns": int64(t1.Sub(d))}})
			}
			if firstBefore && !d.After(t1) {
				crossed = true
			}
		}
		if crossed {
			hot("apply_date_passed_during_series")
		}
		r.Obs("apply_evaluations", callsPerTrial)
		r.CaseN(fmt.Sprintf("apply-date-crossing:%s/%s/%d", c.Kind, c.Route, c.Resp.Status), true, callsPerTrial)
	})
}

func runApply(r *vrun.Run) {
	runDateCrossing(r)
	cases := buildApplyCases(r)
	r.Obs("apply_cases_built", int64(len(cases)))
	vrun.Parallel(len(cases), 0, func(i int) {
		c := cases[i]
		var evals int64
		runApplyCase(r, c, &evals)
		r.Obs("apply_evaluations", evals)
		nontrivial := c.Kind != "constant" || len(c.Resp.Headers) > 0
		r.CaseN("apply:"+canon(c), nontrivial, evals)
		st := "nil"
		if !c.Resp.Nil {
			st = fmt.Sprint(c.Resp.Status)
		}
		hc := "none"
		if len(c.Resp.Headers) > 0 {
			hc = headerClassKey(c.Resp.Headers[0])
			r.ObsSet("apply_header_classes", hc)
		}
		r.ObsSet("apply_cells", fmt.Sprintf("%s/ra=%v/%s/%s", c.Kind, c.ConsiderRA, st, hc))
		r.ObsSet("apply_routes", c.Route)
		if i%7919 == 11 && r.WantSample() {
			r.Sample(map[string]any{"part": "apply", "case": c})
		}
	})
}
