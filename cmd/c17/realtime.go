//go:build goexperiment.synctest

package main

import (
	"context"
	"fmt"
	"os"
	"path/filepath"
	"sync"
	"sync/atomic"
	"time"

	"verif/internal/lockh"
	"verif/internal/sched"
	"verif/internal/vrun"
)

// realtimePart is the real-time complement of the bubble cases: a live holder on the OS filesystem under concurrent
// I/O and CPU load, observers polling IsStale. Soundness is judged exactly as in the bubble (state-based legitimacy of
// every "stale" reading, with a margin for the lag between the kernel and the monitor's event log); the liveness of the
// heartbeat is judged only in windows where an in-process latency reference (a goroutine sleeping one heartbeat period
// and recording its overshoot) stayed below half a period — otherwise the observation is inconclusive.
func realtimePart(r *vrun.Run) {
	dir, err := os.MkdirTemp(scratch, "c17rt-")
	if err != nil {
		r.Fatalf("scratch: %v", err)
	}
	defer os.RemoveAll(dir)
	hold := time.Duration(r.Pick(4, 240)) * time.Second
	w := lockh.NewWorld(dir, "lk", sched.NewPassthrough())
	root, cancel := context.WithCancel(context.Background())
	defer cancel()

	// latency reference
	type lat struct {
		at   time.Time
		over time.Duration
	}
	var lmu sync.Mutex
	var lats []lat
	go func() {
		for root.Err() == nil {
			t0 := time.Now()
			time.Sleep(lockh.Period)
			o := time.Since(t0) - lockh.Period
			lmu.Lock()
			lats = append(lats, lat{time.Now(), o})
			lmu.Unlock()
		}
	}()
	maxOver := func(from, to time.Time) time.Duration {
		lmu.Lock()
		defer lmu.Unlock()
		var m time.Duration
		n := 0
		for _, l := range lats {
			if l.at.After(from.Add(-time.Second)) && l.at.Before(to.Add(time.Second)) {
				n++
				if l.over > m {
					m = l.over
				}
			}
		}
		if n == 0 {
			return time.Hour
		}
		return m
	}

	// I/O reference: what one heartbeat does to the filesystem (rewrite a small file, stamp it), done every period next to
	// the lock directory with the plain os package; its duration tells whether the FILESYSTEM kept up at that moment
	var ios []lat
	go func() {
		p := filepath.Join(dir, "io-reference.beat")
		for root.Err() == nil {
			t0 := time.Now()
			_ = os.WriteFile(p, []byte(fmt.Sprintf("alive @ %v", t0)), 0o644)
			_ = os.Chtimes(p, t0, t0)
			d := time.Since(t0)
			lmu.Lock()
			ios = append(ios, lat{time.Now(), d})
			lmu.Unlock()
			time.Sleep(lockh.Period)
		}
	}()
	maxIO := func(from, to time.Time) time.Duration {
		lmu.Lock()
		defer lmu.Unlock()
		var m time.Duration
		n := 0
		for _, l := range ios {
			if l.at.After(from.Add(-time.Second)) && l.at.Before(to.Add(time.Second)) {
				n++
				if l.over > m {
					m = l.over
				}
			}
		}
		if n == 0 {
			return time.Hour
		}
		return m
	}

	// load: fsync storms, directory churn in the same parent, busy loops
	var lwg sync.WaitGroup
	var ioOps atomic.Int64
	for i := 0; i < 2; i++ {
		lwg.Add(1)
		go func(i int) {
			defer lwg.Done()
			buf := make([]byte, 64<<10)
			for k := 0; root.Err() == nil; k++ {
				p := filepath.Join(dir, fmt.Sprintf("load-%d-%d", i, k%8))
				if f, err := os.Create(p); err == nil {
					_, _ = f.Write(buf)
					_ = f.Sync()
					_ = f.Close()
				}
				_ = os.Remove(p)
				ioOps.Add(1)
			}
		}(i)
		lwg.Add(1)
		go func(i int) {
			defer lwg.Done()
			for k := 0; root.Err() == nil; k++ {
				p := filepath.Join(dir, fmt.Sprintf("churn-%d-%d", i, k%16))
				_ = os.Mkdir(p, 0o755)
				_ = os.Remove(p)
				ioOps.Add(1)
			}
		}(i)
	}
	for i := 0; i < 3; i++ {
		lwg.Add(1)
		go func() {
			defer lwg.Done()
			x := 0
			for root.Err() == nil {
				for k := 0; k < 1_000_000; k++ {
					x += k
				}
				_ = x
			}
		}()
	}

	hl := w.NewLock("holder", false)
	if err := w.Call("holder", "TryLock", "acquire", func() (string, error) { return "", hl.TryLock(root) }); err != nil {
		cancel()
		lwg.Wait()
		r.Inconclusive("real-time: holder failed to acquire: " + err.Error())
		return
	}
	type obs struct {
		c, t time.Time
		v    bool
		who  string
	}
	var omu sync.Mutex
	var all []obs
	var owg sync.WaitGroup
	stop := make(chan struct{})
	for i := 0; i < 4; i++ {
		name := fmt.Sprintf("o%d", i)
		every := time.Duration([]int{5, 7, 11, 13}[i]) * time.Millisecond
		owg.Add(1)
		go func() {
			defer owg.Done()
			ol := w.NewLock(name, false)
			for {
				select {
				case <-stop:
					return
				default:
				}
				c := time.Now()
				v := ol.IsStale()
				t := time.Now()
				omu.Lock()
				all = append(all, obs{c, t, v, name})
				omu.Unlock()
				time.Sleep(every)
			}
		}()
	}
	time.Sleep(hold)
	close(stop)
	owg.Wait()
	_ = w.Call("holder", "Unlock", "release", func() (string, error) { return "", hl.Unlock(root) })
	cancel()
	lwg.Wait()

	const margin = 25 * time.Millisecond
	r.Obs("realtime_isstale_polls_on_live_lock", int64(len(all)))
	r.Obs("realtime_load_io_operations", ioOps.Load())
	r.ObsMax("realtime_hold_seconds", int64(hold.Seconds()))
	r.Case(fmt.Sprintf("realtime hold=%v polls=%d", hold, len(all)), true)
	for _, o := range all {
		if !o.v {
			continue
		}
		r.Obs("realtime_stale_reports_on_live_lock", 1)
		// a verdict needs a responsive scheduler AND a filesystem which did a heartbeat's worth of I/O in less than half a
		// period around that instant: otherwise the lateness is the environment's, not the library's
		quiet := maxOver(o.c, o.t) < lockh.Period/2 && maxIO(o.c, o.t) < lockh.Period/2
		if !w.StaleReadableDuringMargin(o.c, o.t, margin) {
			if !quiet {
				r.Inconclusive("real-time: stale report not explained by the stamps, but a latency reference (scheduler or filesystem) was above half a period")
				continue
			}
			r.Violation(vrun.Sig{"clause": "soundness", "effect": "live-lock-reported-stale", "mode": "real-time-under-load"},
				fmt.Sprintf("IsStale()=true by %s at +%dms although no heartbeat stamp was older than 2 periods (−%v margin) at any instant of the call", o.who, o.t.Sub(w.Start).Milliseconds(), margin),
				map[string]any{"call_ms": o.c.Sub(w.Start).Milliseconds(), "ret_ms": o.t.Sub(w.Start).Milliseconds(), "latency_reference_max_overshoot_ms": maxOver(o.c, o.t).Milliseconds()})
			continue
		}
		// The heartbeat really was more than two periods late. In real time this is an observation, never a verdict: the
		// references (a sleeping goroutine, a heartbeat's worth of I/O next to the lock) bound neither what the kernel does to
		// the heartbeat's own truncating open under an fsync storm nor what the monitor's decorator adds to it (it re-stamps
		// and records every operation of the holder). That a live holder's heartbeat is never late BY THE LIBRARY'S DOING is
		// decided on the virtual clock, where the environment's latency is zero.
		if quiet {
			r.Obs("realtime_heartbeats_late_while_both_latency_references_were_quiet(observation_only)", 1)
		} else {
			r.Obs("realtime_heartbeats_late_while_a_latency_reference_was_above_half_a_period(observation_only)", 1)
		}
	}
	lmu.Lock()
	var worst time.Duration
	for _, l := range lats {
		if l.over > worst {
			worst = l.over
		}
	}
	lmu.Unlock()
	r.ObsMax("realtime_latency_reference_worst_overshoot_ms", worst.Milliseconds())
	lmu.Lock()
	var worstIO time.Duration
	for _, l := range ios {
		if l.over > worstIO {
			worstIO = l.over
		}
	}
	lmu.Unlock()
	r.ObsMax("realtime_io_reference_worst_ms", worstIO.Milliseconds())
}
