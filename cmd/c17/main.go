//go:build goexperiment.synctest

// C17 — stale-lock detection is sound: live locks are safe, dead ones recover.
//
// Bubble scenarios on a virtual clock with every backend operation gated:
//
//	live:  a holder keeps the lock for 1..500 heartbeat periods while 0..8 observers poll IsStale /
//	       ReleaseIfStale / TryLock (with and without override). Oracle: never reported stale, never
//	       released, never taken over.
//	death: the holder "dies" right after its j-th backend operation (every j of the acquire and of two
//	       steady-state heartbeat rounds): all its later operations fail without effect. Oracle: every
//	       IsStale call that starts more than 2 periods after the last stamp returns true (so the lock
//	       is reported stale within 2 periods + one poll interval), no true before any stamp is older
//	       than 2 periods, and ReleaseIfStale followed by a new acquire succeeds.
package main

import (
	"context"
	"fmt"
	"os"
	"path/filepath"
	"sync"
	"time"

	"github.com/ARM-software/golang-utils/utils/commonerrors"
	"github.com/ARM-software/golang-utils/utils/filesystem"

	"verif/internal/lockh"
	"verif/internal/sched"
	"verif/internal/vrun"
)

type scenario struct {
	Kind        string  `json:"kind"` // live | death
	HoldPeriods int     `json:"hold_periods"`
	Observers   int     `json:"observers"`
	Acquire     string  `json:"acquire"` // try | lock | timeout
	DeathOp     int     `json:"death_after_op,omitempty"`
	Takeover    bool    `json:"holder_acquires_by_stale_takeover,omitempty"`              // live cases: the holder takes over a dead predecessor's stale lock (override)
	Sibling     int     `json:"failed_attempts_on_the_holders_own_lock_object,omitempty"` // live cases: other goroutines of the holder's process try to acquire through the SAME lock object while it is held (and fail)
	BeatFault   int     `json:"transient_fault_on_holder_op,omitempty"`                   // live cases: the j-th backend operation the holder issues after acquiring (a heartbeat open/write/stamp) fails once
	BeatKind    string  `json:"transient_fault_kind,omitempty"`
	Backend     string  `json:"backend,omitempty"` // "", "os", "mem" (""= by scenario index)`
	Previous    int     `json:"previous_holders"`  // idle earlier holders of the same lock id still alive
	Policy      string  `json:"policy"`
	AdvanceP    float64 `json:"advance_p"`
	Index       int     `json:"index"`
	Stream      string  `json:"stream"`
}

type staleObs struct {
	Actor string
	Call  int64
	Ret   int64
	CallT time.Time
	RetT  time.Time
	Val   bool
	Inc0  int
	Inc1  int
}

type result struct {
	sc             scenario
	siblingFailed  int
	w              *lockh.World
	s              *sched.Sched
	deadlock       string
	mu             sync.Mutex
	obs            []staleObs
	notes          []string
	holderAcquired bool
	holderInc      int
	deathT         time.Time
	died           bool
	holdEnd        time.Time
	recovered      bool
	recoverErr     string
	takeover       []string
	holderOps      int
}

var scratch string

func isStale(w *lockh.World, res *result, actor string, l filesystem.ILock) bool {
	o := staleObs{Actor: actor, Inc0: w.CurrentInc(), CallT: time.Now(), Call: w.Mon.Tick()}
	var v bool
	_ = w.Call(actor, "IsStale", "other", func() (string, error) {
		v = l.IsStale()
		return fmt.Sprint(v), nil
	})
	o.Val = v
	o.RetT = time.Now()
	o.Ret = w.Mon.Tick()
	o.Inc1 = w.CurrentInc()
	res.mu.Lock()
	res.obs = append(res.obs, o)
	res.mu.Unlock()
	return v
}

func runScenario(r *vrun.Run, sc scenario, keep bool) *result {
	res := &result{sc: sc}
	dir, err := os.MkdirTemp(scratch, "c17-")
	if err != nil {
		r.Fatalf("scratch: %v", err)
	}
	defer os.RemoveAll(dir)
	if sub, _ := lockh.Names(sc.Index); sub != "" {
		_ = os.MkdirAll(filepath.Join(dir, sub), 0o755)
	}
	rng := r.Rand(sc.Stream+"-sched", sc.Index)
	var pol sched.Policy
	switch sc.Policy {
	case "pct":
		pol = &sched.PCT{AdvanceP: sc.AdvanceP, D: 2, Horizon: 2000}
	default:
		pol = sched.RandomWalk{AdvanceP: sc.AdvanceP}
	}
	s := sched.New(pol, rng)
	s.MaxSteps = 6_000_000
	res.s = s
	res.deadlock = sched.Bubble(func() {
		sub, id := lockh.Names(sc.Index)
		missingDir := false
		var w *lockh.World
		if sc.Backend == "mem" || (sc.Backend == "" && lockh.MemBackend(sc.Index)) {
			w = lockh.NewMemWorld(filepath.Join(dir, sub), id, s, !missingDir)
		} else {
			w = lockh.NewWorld(filepath.Join(dir, sub), id, s)
		}
		w.KeepEvents = keep
		res.w = w
		s.Run(func() {
			root, cancelAll := context.WithCancel(context.Background())
			defer cancelAll()
			// earlier holders of the same lock id that are still alive and idle
			for p := 0; p < sc.Previous; p++ {
				name := fmt.Sprintf("prev%d", p)
				pl := w.NewLock(name, false)
				if err := w.Call(name, "TryLock", "acquire", func() (string, error) { return "", pl.TryLock(root) }); err == nil {
					lockh.Sleep(root, 60*time.Millisecond)
					_ = w.Call(name, "Unlock", "release", func() (string, error) { return "", pl.Unlock(root) })
				}
			}
			if sc.Takeover {
				// a predecessor dies holding the lock; the holder under test will acquire by taking the stale lock over
				dctx, dcancel := context.WithCancel(root)
				dl := w.NewLock("dead", false)
				if err := w.Call("dead", "TryLock", "acquire", func() (string, error) { return "", dl.TryLock(dctx) }); err == nil {
					lockh.Sleep(root, 70*time.Millisecond)
					w.Die("dead")
				}
				dcancel()
				lockh.Sleep(root, 3*lockh.Period)
			}
			if sc.Kind == "handover" {
				// two live holders hand the lock over to each other while observers read its staleness
				stop := make(chan struct{})
				var owg, hwg sync.WaitGroup
				for i := 0; i < sc.Observers; i++ {
					name := fmt.Sprintf("o%d", i)
					every := time.Duration([]int{3, 5, 7, 11}[i%4]) * time.Millisecond
					owg.Add(1)
					go func() {
						defer owg.Done()
						ol := w.NewLock(name, false)
						if sc.Index%3 == 2 {
							ol = w.NewLockSpelt(name, false, 1+i%2)
						}
						for {
							select {
							case <-stop:
								return
							default:
							}
							isStale(w, res, name, ol)
							lockh.Sleep(root, every)
						}
					}()
				}
				for h := 0; h < 2; h++ {
					name := fmt.Sprintf("h%d", h)
					hwg.Add(1)
					go func(h int) {
						defer hwg.Done()
						hrng := r.Rand(sc.Stream+"-"+name, sc.Index)
						l := w.NewLock(name, false)
						for c := 0; c < sc.HoldPeriods; c++ {
							if err := w.Call(name, "Lock", "acquire", func() (string, error) { return "", l.Lock(root) }); err != nil {
								return
							}
							lockh.Sleep(root, time.Duration(20+hrng.IntN(50))*time.Millisecond)
							_ = w.Call(name, "Unlock", "release", func() (string, error) { return "", l.Unlock(root) })
							lockh.Sleep(root, time.Duration(hrng.IntN(8))*time.Millisecond)
						}
					}(h)
				}
				hwg.Wait()
				close(stop)
				owg.Wait()
				cancelAll()
				return
			}
			hctx, hcancel := context.WithCancel(root)
			defer hcancel()
			hl := w.NewLock("holder", sc.Takeover)
			if sc.Kind == "death" {
				w.StopAfter("holder", sc.DeathOp, func() {
					res.mu.Lock()
					res.died = true
					res.deathT = time.Now()
					res.mu.Unlock()
					hcancel()
				})
			}
			var herr error
			switch sc.Acquire {
			case "lock":
				herr = w.Call("holder", "Lock", "acquire", func() (string, error) { return "", hl.Lock(hctx) })
			case "timeout":
				herr = w.Call("holder", "LockWithTimeout", "acquire", func() (string, error) { return "", hl.LockWithTimeout(hctx, 500*time.Millisecond) })
			default:
				herr = w.Call("holder", "TryLock", "acquire", func() (string, error) { return "", hl.TryLock(hctx) })
			}
			res.holderAcquired = herr == nil
			res.holderInc = w.CurrentInc()
			if sc.Kind == "live" && sc.BeatFault > 0 && herr == nil {
				// one transient I/O failure on a live holder's heartbeat (the counter restarts here)
				w.FaultAt("holder", lockh.Fault{K: sc.BeatFault, Kind: sc.BeatKind})
			}
			if herr != nil && sc.Kind == "live" {
				res.notes = append(res.notes, "holder failed to acquire: "+herr.Error())
				return
			}
			stop := make(chan struct{})
			var wg sync.WaitGroup
			intervals := []int{7, 11, 13, 17, 19, 23, 29, 31}
			for i := 0; i < sc.Observers; i++ {
				name := fmt.Sprintf("o%d", i)
				every := time.Duration(intervals[i%len(intervals)]) * time.Millisecond
				kind := i % 4
				wg.Add(1)
				go func() {
					defer wg.Done()
					override := kind == 3
					// in a third of the scenarios the observers spell the lock id with blanks around it (same lock)
					ol := w.NewLock(name, override)
					if sc.Index%3 == 2 {
						ol = w.NewLockSpelt(name, override, 1+i%2)
					}
					for {
						select {
						case <-stop:
							return
						default:
						}
						switch {
						case sc.Kind == "death" || kind == 0:
							isStale(w, res, name, ol)
						case kind == 1:
							_ = w.Call(name, "ReleaseIfStale", "other", func() (string, error) { return "", ol.ReleaseIfStale(root) })
						default:
							err := w.Call(name, "TryLock", "acquire", func() (string, error) { return "", ol.TryLock(root) })
							if err == nil {
								res.mu.Lock()
								res.takeover = append(res.takeover, name+" TryLock succeeded")
								res.mu.Unlock()
								_ = w.Call(name, "Unlock", "release", func() (string, error) { return "", ol.Unlock(root) })
							} else if commonerrors.Any(err, commonerrors.ErrStaleLock) {
								res.mu.Lock()
								res.takeover = append(res.takeover, name+" TryLock reported a stale lock")
								res.mu.Unlock()
							}
						}
						lockh.Sleep(root, every)
					}
				}()
			}
			if sc.Kind == "live" && sc.Sibling > 0 {
				// the attempts come early in the hold so that their consequences show within it
				wg.Add(1)
				go func() {
					defer wg.Done()
					for i := 0; i < sc.Sibling; i++ {
						lockh.Sleep(root, time.Duration(5+7*i)*time.Millisecond)
						var err error
						if i%2 == 0 {
							err = hl.LockWithTimeout(root, time.Duration(15+10*i)*time.Millisecond)
						} else {
							err = hl.TryLock(root)
						}
						res.mu.Lock()
						if err == nil {
							res.notes = append(res.notes, "a second acquisition through the holder's own lock object succeeded")
						} else {
							res.siblingFailed++
						}
						res.mu.Unlock()
					}
				}()
			}
			if sc.Kind == "live" {
				lockh.Sleep(root, time.Duration(sc.HoldPeriods)*lockh.Period)
				res.mu.Lock()
				res.holdEnd = time.Now()
				res.mu.Unlock()
				close(stop)
				wg.Wait()
				_ = w.Call("holder", "Unlock", "release", func() (string, error) { return "", hl.Unlock(root) })
			} else {
				// let the holder live (if it survives the acquire) until it has died, bounded
				for i := 0; i < 400 && !w.Stopped("holder"); i++ {
					lockh.Sleep(root, 5*time.Millisecond)
				}
				res.holderOps = w.OpCount("holder")
				if !w.Stopped("holder") {
					res.notes = append(res.notes, "death point beyond the operations the holder issued")
					close(stop)
					wg.Wait()
					return
				}
				// recoverer: polls IsStale; once stale, ReleaseIfStale + TryLock must succeed
				rl := w.NewLock("rec", false)
				deadline := time.Now().Add(10 * lockh.Period)
				for time.Now().Before(deadline) {
					if isStale(w, res, "rec", rl) {
						// once stale, a dead holder's lock stays stale: two more polls (judged by the must-true rule)
						lockh.Sleep(root, 3*time.Millisecond)
						isStale(w, res, "rec", rl)
						lockh.Sleep(root, 4*time.Millisecond)
						isStale(w, res, "rec", rl)
						err := w.Call("rec", "ReleaseIfStale", "other", func() (string, error) { return "", rl.ReleaseIfStale(root) })
						if err != nil {
							res.recoverErr = "ReleaseIfStale: " + err.Error()
							break
						}
						err = w.Call("rec", "TryLock", "acquire", func() (string, error) { return "", rl.TryLock(root) })
						if err != nil {
							res.recoverErr = "TryLock after ReleaseIfStale: " + err.Error()
						} else {
							res.recovered = true
							_ = w.Call("rec", "Unlock", "release", func() (string, error) { return "", rl.Unlock(root) })
						}
						break
					}
					lockh.Sleep(root, 9*time.Millisecond)
				}
				close(stop)
				wg.Wait()
			}
			cancelAll()
		})
	})
	return res
}

func analyse(r *vrun.Run, res *result) {
	sc := res.sc
	w := res.w
	if w == nil || res.deadlock != "" {
		r.Inconclusive("bubble panic: " + res.deadlock)
		return
	}
	if res.s.Aborted != "" {
		r.Inconclusive(res.s.Aborted)
		return
	}
	hist, foreign, _ := w.Snapshot()
	witness := func() map[string]any {
		ev := w.Events
		if len(ev) > 300 {
			ev = ev[len(ev)-300:]
		}
		h := hist
		if len(h) > 300 {
			h = h[len(h)-300:]
		}
		st := w.StampLog
		if len(st) > 60 {
			st = st[len(st)-60:]
		}
		return map[string]any{"scenario": sc, "history_tail": h, "foreign_removes": foreign, "stamps_tail": st, "events_tail": ev, "notes": res.notes}
	}
	nontrivial := false
	r.Obs("scheduler_steps", int64(res.s.Steps))
	r.Obs("heartbeat_and_dir_stamps", w.Stamps)
	r.Obs("failed_attempts_on_the_holders_own_lock_object", int64(res.siblingFailed))
	if sc.Kind == "live" && sc.BeatFault > 0 {
		if hit := w.FaultHit["holder"]; hit != "" {
			r.Obs("live_holds_with_one_transient_heartbeat_fault", 1)
			r.ObsSet("transient_heartbeat_faults", hit)
		}
	}
	r.ObsSet("policies", sc.Policy)
	switch sc.Kind {
	case "live":
		if !res.holderAcquired {
			why := ""
			if len(res.notes) > 0 {
				why = ": " + res.notes[0]
			}
			r.Inconclusive(fmt.Sprintf("holder did not acquire (takeover=%v acquire=%s)%s", sc.Takeover, sc.Acquire, why))
			return
		}
		polls := 0
		for _, o := range res.obs {
			polls++
			if o.Val {
				// judged only while the holder's incarnation was current for the whole call and the hold had not ended
				if o.Inc0 == res.holderInc && o.Inc1 == res.holderInc && (res.holdEnd.IsZero() || o.RetT.Before(res.holdEnd) || o.RetT.Equal(res.holdEnd)) {
					r.Violation(vrun.Sig{"clause": "soundness", "effect": "live-lock-reported-stale"},
						fmt.Sprintf("IsStale()=true by %s at t=%dms while the holder was alive with a running heartbeat (hold of %d periods)", o.Actor, o.RetT.Sub(w.Start).Milliseconds(), sc.HoldPeriods), witness())
				}
			}
		}
		r.Obs("isstale_polls_on_live_lock", int64(polls))
		for _, f := range foreign {
			if f.Owner == "holder" && f.OwnerState == "holding" {
				r.Violation(vrun.Sig{"clause": "soundness", "effect": "live-lock-released", "by": f.RemoverCall},
					fmt.Sprintf("%s (in %s) removed the live holder's lock (newest stamp %d ms old)", f.Remover, f.RemoverCall, f.AgeMs), witness())
			}
		}
		for _, t := range res.takeover {
			r.Violation(vrun.Sig{"clause": "soundness", "effect": "live-lock-taken-over"}, t+" while the holder was alive", witness())
		}
		r.Obs("live_hold_periods_total", int64(sc.HoldPeriods))
		r.ObsSet("hold_lengths", fmt.Sprint(sc.HoldPeriods))
		if sc.Takeover {
			r.Obs("live_cases_where_the_holder_took_over_a_stale_lock", 1)
		}
		nontrivial = sc.Observers > 0 && polls+len(hist) > 10
	case "handover":
		polls := 0
		for _, o := range res.obs {
			polls++
			if o.Val && !w.StaleReadableDuring(o.CallT, o.RetT) {
				r.Violation(vrun.Sig{"clause": "soundness", "effect": "live-lock-reported-stale", "pre": "hand-over-between-two-live-holders"},
					fmt.Sprintf("IsStale()=true by %s during [%d,%d]ms although at no instant of the call any incarnation of the lock was stale (two live holders handing the lock over)", o.Actor, o.CallT.Sub(w.Start).Milliseconds(), o.RetT.Sub(w.Start).Milliseconds()), witness())
			}
		}
		r.Obs("isstale_polls_during_handovers", int64(polls))
		nontrivial = polls > 10
	case "death":
		if !res.died {
			r.Obs("death_points_beyond_issued_ops", 1)
			r.Case(fmt.Sprintf("%+v", sc), false)
			return
		}
		r.ObsSet("death_points", fmt.Sprint(sc.DeathOp))
		// last stamp applied to the dead holder's incarnation
		var last time.Time
		var minV time.Time
		for _, st := range w.StampLog {
			if st.Inc == res.holderInc || res.holderInc == 0 {
				if st.T.After(last) {
					last = st.T
				}
			}
		}
		if last.IsZero() {
			// died before creating the lock directory (e.g. Mkdir failed): nothing to recover
			r.Obs("death_before_lock_creation", 1)
			r.Case(fmt.Sprintf("%+v", sc), false)
			return
		}
		mustTrue, sawTrue := 0, false
		var firstTrue time.Time
		// once somebody has begun to release the dead holder's lock (first entry removed from the lock directory) the
		// directory is in a transitional state: readings which end after that instant are not judged
		var releaseBegun int64
		_, _, incs := w.Snapshot()
		for _, in := range incs {
			if in.ID == res.holderInc {
				releaseBegun = in.FirstRemoveInSeq
			}
		}
		for _, o := range res.obs {
			if o.Inc0 != res.holderInc || o.Inc1 != res.holderInc || o.CallT.Before(res.deathT) {
				continue
			}
			if releaseBegun != 0 && o.Ret > releaseBegun {
				continue
			}
			ageAtCall := o.CallT.Sub(last)
			if ageAtCall.Milliseconds() > lockh.StaleAfter.Milliseconds() {
				mustTrue++
				if !o.Val {
					r.Violation(vrun.Sig{"clause": "recovery", "effect": "dead-lock-not-reported-stale", "death": deathClass(sc.DeathOp)},
						fmt.Sprintf("IsStale()=false by %s although the dead holder's last stamp was %d ms old when the call began (death after op %d)", o.Actor, ageAtCall.Milliseconds(), sc.DeathOp), witness())
				}
			}
			if o.Val {
				// may-true rule: some stamp value in effect during the call must be older than 2 periods at return
				// values in effect: per path the last stamp applied before the call began, plus every stamp applied during the call
				inEffect := map[string]time.Time{}
				minV = time.Time{}
				consider := func(t time.Time) {
					if minV.IsZero() || t.Before(minV) {
						minV = t
					}
				}
				for _, st := range w.StampLog {
					if st.Inc != res.holderInc {
						continue
					}
					if st.Seq < o.Call {
						inEffect[st.Path] = st.T
					} else if st.Seq <= o.Ret {
						consider(st.T)
					}
				}
				for _, t := range inEffect {
					consider(t)
				}
				if minV.IsZero() {
					minV = last
				}
				if o.RetT.Sub(minV).Milliseconds() <= lockh.StaleAfter.Milliseconds() {
					r.Violation(vrun.Sig{"clause": "soundness", "effect": "reported-stale-too-early"},
						fmt.Sprintf("IsStale()=true by %s only %d ms after the oldest stamp of the incarnation", o.Actor, o.RetT.Sub(minV).Milliseconds()), witness())
				}
				if !sawTrue {
					sawTrue = true
					firstTrue = o.RetT
				}
			}
		}
		r.Obs("isstale_calls_that_had_to_report_stale", int64(mustTrue))
		if sawTrue {
			d := firstTrue.Sub(last).Milliseconds()
			r.ObsMax("slowest_stale_report_after_last_stamp_ms", d)
			r.Obs("recoveries_observed", 1)
			// bounded delay in virtual time: 2 periods (threshold) + one poll interval (<=31ms, recoverer 9ms) + gate delays of one IsStale call (<= ~16 ops x 5ms)
			if d > (3*lockh.Period).Milliseconds()+31+80 {
				r.Violation(vrun.Sig{"clause": "recovery", "effect": "stale-report-too-late"},
					fmt.Sprintf("first stale report %d ms after the last stamp", d), witness())
			}
			if !res.recovered {
				r.Violation(vrun.Sig{"clause": "recovery", "effect": "release-and-reacquire-failed", "death": deathClass(sc.DeathOp)},
					"after the lock was reported stale, ReleaseIfStale + TryLock did not succeed: "+res.recoverErr, witness())
			}
		} else {
			r.Violation(vrun.Sig{"clause": "recovery", "effect": "never-reported-stale", "death": deathClass(sc.DeathOp)},
				fmt.Sprintf("holder died after op %d; the lock was never reported stale within 10 periods", sc.DeathOp), witness())
		}
		nontrivial = true
	}
	r.Case(fmt.Sprintf("%+v", sc), nontrivial)
	if r.WantSample() && nontrivial {
		r.Sample(map[string]any{"scenario": sc, "isstale_observations": len(res.obs), "history_ops": len(hist), "stamps": len(w.StampLog), "recovered": res.recovered, "notes": res.notes})
	}
}

func deathClass(j int) string {
	switch {
	case j <= 1:
		return "after-mkdir"
	case j <= 3:
		return "before-first-heartbeat-file"
	default:
		return "steady-state"
	}
}

func main() {
	r := vrun.Start("C17", "fault_enumeration")
	scratch = vrun.Scratch("c17")
	defer os.RemoveAll(scratch)
	r.Rule("one case = one scheduled bubble run. live cases: hold of {1,2,10,100,500} heartbeat periods × {0..8} observers (IsStale / ReleaseIfStale / TryLock / TryLock-with-override pollers at co-prime intervals) × acquire kind; " +
		"death cases (the enumerated fault): the holder is stopped right after its j-th backend operation for every j of the acquire and ≥2 steady-state heartbeat rounds, × observer counts × idle previous holders of the same id; " +
		"non-trivial = death cases where the holder really died holding a lock directory, and live cases with ≥1 observer; distinct = scenario parameters (incl. schedule seed index).")
	r.Assume("virtual clock inside a synctest bubble: a gated operation waits at most 5 ms, so a live heartbeat is never more than ~30 ms late", "OS directory on ext4, one kernel",
		"the re-stamper emulates a filesystem clock equal to the process clock", "real-time complement under I/O and CPU load: stale reports are judged with a 25 ms margin and only while an in-process latency reference stays below half a period (otherwise inconclusive)")

	if r.Replay != "" {
		var wit struct {
			Scenario scenario `json:"scenario"`
		}
		if err := r.ReadReplay(&wit); err != nil {
			r.Fatalf("replay: %v", err)
		}
		analyse(r, runScenario(r, wit.Scenario, true))
		r.Finish()
	}

	var cases []scenario
	pols := []string{"random", "pct"}
	acq := []string{"try", "lock", "timeout"}
	// live
	holds := []int{1, 2, 10, 100}
	reps := r.Pick(6, 20)
	if !r.Quick() {
		holds = append(holds, 500)
	}
	for _, h := range holds {
		for _, o := range []int{0, 1, 3, 8} {
			n := reps
			if h >= 100 {
				n = r.Pick(1, 4)
			}
			for k := 0; k < n; k++ {
				cases = append(cases, scenario{Kind: "live", HoldPeriods: h, Observers: o, Acquire: acq[(k+o)%3], Previous: k % 2, Takeover: k%3 == 2, Sibling: []int{0, 0, 1, 3}[(k+h)%4], BeatFault: []int{0, 1, 10, 2, 3, 0, 5, 8, 14, 13, 6, 0, 18, 9, 22, 11, 17, 0, 26, 7}[(k+o+h+2*len(cases))%20], BeatKind: []string{"err-before", "err-after", "enoent-before"}[(k+o)%3], Policy: pols[k%2], AdvanceP: []float64{0.2, 0.5}[k%2], Stream: "live"})
			}
		}
	}
	if r.Quick() {
		cases = append(cases, scenario{Kind: "live", HoldPeriods: 500, Observers: 3, Acquire: "try", Policy: "random", AdvanceP: 0.5, Stream: "live"})
	}
	// live holds of 8 periods with one transient failure on the j-th operation of the holder's heartbeat, for every j of
	// the first five beats, on both backends
	for j := 1; j <= 30; j++ {
		for bi, be := range []string{"os", "mem"} {
			for ki, kind := range []string{"err-before", "err-after"} {
				cases = append(cases, scenario{Kind: "live", HoldPeriods: 8, Observers: 3 + (j+bi)%3, Acquire: "try", BeatFault: j, BeatKind: kind, Backend: be,
					Policy: pols[(j+ki)%2], AdvanceP: []float64{0.2, 0.5}[j%2], Stream: "live-fault"})
			}
		}
	}
	// hand-over between two live holders (HoldPeriods = cycles per holder)
	for k := 0; k < r.Pick(120, 3000); k++ {
		cases = append(cases, scenario{Kind: "handover", HoldPeriods: 3 + k%4, Observers: 2 + k%3, Policy: pols[k%2], AdvanceP: []float64{0.1, 0.3, 0.5}[k%3], Stream: "handover"})
	}
	// death: every j
	maxJ := 34
	dreps := r.Pick(12, 60)
	for j := 1; j <= maxJ; j++ {
		for _, o := range []int{0, 2, 5} {
			for k := 0; k < dreps; k++ {
				cases = append(cases, scenario{Kind: "death", DeathOp: j, Observers: o, Acquire: acq[(j+k)%3], Previous: (j + k) % 3, Policy: pols[k%2], AdvanceP: []float64{0.2, 0.5}[(k/2)%2], Stream: "death"})
			}
		}
	}
	for i := range cases {
		cases[i].Index = i
		if cases[i].Takeover && cases[i].Acquire == "timeout" {
			// LockWithTimeout with stale-lock override cancels itself (its internal ReleaseIfStale -> Unlock cancels every context
			// registered in the lock's own cancel store, including the one LockWithTimeout has just registered) and returns
			// 'cancelled': observed on the unchanged tree, outside the statements of C01/C17, recorded in DESIGN §9.
			cases[i].Acquire = "try"
		}
	}
	vrun.Parallel(len(cases), 0, func(i int) {
		analyse(r, runScenario(r, cases[i], true))
	})
	realtimePart(r)
	r.Require("realtime_isstale_polls_on_live_lock", 500)
	r.Require("isstale_polls_on_live_lock", 2000)
	r.Require("isstale_polls_during_handovers", 3000)
	r.Require("death_points", 20)
	r.Require("recoveries_observed", 100)
	r.Require("isstale_calls_that_had_to_report_stale", 100)
	r.Finish()
}
