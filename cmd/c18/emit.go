package main

// The helper child ("emit" mode): the check binary re-executed as
//
//	<binary> --c18-emit <script.json>
//
// It plays the script (raw bytes to stdout / stderr with exactly the given write boundaries and
// pauses), writes a completion record next to the script and then exits with the requested status
// or dies from the requested signal.

import (
	"encoding/json"
	"fmt"
	"os"
	"os/exec"
	"os/signal"
	"syscall"
	"time"
)

const emitFlag = "--c18-emit"

// op is one write of the child: stream 1 = stdout, 2 = stderr; P = pause in ms after the write.
type op struct {
	S int    `json:"s"`
	B []byte `json:"b"`
	P int    `json:"p,omitempty"`
}

type script struct {
	Ops    []op              `json:"ops"`
	Exit   int               `json:"exit"`
	Signal string            `json:"signal,omitempty"`    // "", KILL, TERM, SEGV
	Hang   bool              `json:"hang,omitempty"`      // after the ops: write the completion record, then sleep (cancellation cases)
	Linger int               `json:"linger_ms,omitempty"` // before exiting, leave a descendant behind which keeps stdout/stderr open that long (and writes nothing)
	Done   string            `json:"done"`                // path of the completion record
	Env    map[string]string `json:"env,omitempty"`       // variables the child is expected to see
}

// doneRecord is what the child reports about its own execution (trusted base of the oracle:
// "the lines the child wrote").
type doneRecord struct {
	Pid      int    `json:"pid"`
	Wrote1   int    `json:"wrote1"`
	Wrote2   int    `json:"wrote2"`
	WriteErr string `json:"write_err,omitempty"`
	EnvOK    bool   `json:"env_ok"`
}

func emitMain(path string) {
	// A closed reader must not kill the child silently: report the failed write instead.
	signal.Ignore(syscall.SIGPIPE)
	b, err := os.ReadFile(path)
	if err != nil {
		os.Exit(99)
	}
	var sc script
	if err := json.Unmarshal(b, &sc); err != nil {
		os.Exit(99)
	}
	rec := doneRecord{Pid: os.Getpid(), EnvOK: true}
	for k, v := range sc.Env {
		if os.Getenv(k) != v {
			rec.EnvOK = false
		}
	}
	for _, o := range sc.Ops {
		f := os.Stdout
		if o.S == 2 {
			f = os.Stderr
		}
		n, err := f.Write(o.B) // one write(2) per op on a blocking pipe (the kernel may block, never reorders)
		if o.S == 2 {
			rec.Wrote2 += n
		} else {
			rec.Wrote1 += n
		}
		if err != nil {
			rec.WriteErr = fmt.Sprintf("stream %d after %d bytes: %v", o.S, n, err)
			break
		}
		if o.P > 0 {
			time.Sleep(time.Duration(o.P) * time.Millisecond)
		}
	}
	out, _ := json.Marshal(rec)
	tmp := sc.Done + ".tmp"
	if err := os.WriteFile(tmp, out, 0o644); err == nil {
		_ = os.Rename(tmp, sc.Done)
	}
	if sc.Linger > 0 {
		c := exec.Command("/bin/sleep", fmt.Sprintf("%d.%03d", sc.Linger/1000, sc.Linger%1000))
		c.Stdout, c.Stderr = os.Stdout, os.Stderr
		_ = c.Start()
	}
	if sc.Hang {
		time.Sleep(120 * time.Second)
		os.Exit(0)
	}
	switch sc.Signal {
	case "KILL":
		_ = syscall.Kill(os.Getpid(), syscall.SIGKILL)
		time.Sleep(10 * time.Second)
	case "TERM":
		// the Go runtime re-raises SIGTERM with the default disposition: silent death by SIGTERM
		_ = syscall.Kill(os.Getpid(), syscall.SIGTERM)
		time.Sleep(10 * time.Second)
	case "SEGV":
		// The Go runtime would print a traceback on a user-sent SIGSEGV; replace the process image
		// (same pid, same pipes) by a shell with default dispositions that kills itself.
		_ = syscall.Exec("/bin/sh", []string{"sh", "-c", "kill -SEGV $$"}, []string{})
		os.Exit(98)
	}
	os.Exit(sc.Exit)
}
