package main

// The oracle: what the property states, computed from the script the child executed.

import (
	"fmt"
	"strings"
)

// expectedLines returns, for one stream, the non-empty lines of the concatenated bytes the child
// wrote (split on LF, empties dropped, final unterminated piece included) with their spans.
func expectedLines(data []byte) ([]string, []lineSpan) {
	spans := lineSpans(data)
	out := make([]string, len(spans))
	for i, s := range spans {
		out[i] = string(data[s.start:s.end])
	}
	return out, spans
}

// lineEq is equality up to one trailing CR: the property says "unmodified", and whether the CR of a
// CRLF terminator belongs to the line or to its terminator is not stated, so both are accepted.
func lineEq(exp, got string) bool {
	if exp == got {
		return true
	}
	return len(exp) > 0 && exp[len(exp)-1] == '\r' && got == exp[:len(exp)-1]
}

type mismatch struct {
	Effect    string   `json:"effect"`
	LineIndex int      `json:"line_index"`            // index of the first expected line that is not delivered as one message
	Expected  string   `json:"expected,omitempty"`    // abbreviated
	ExpLen    int      `json:"expected_len"`          // its length
	Got       []string `json:"got,omitempty"`         // the messages received at that position (abbreviated)
	GotLens   []int    `json:"got_lens,omitempty"`    // their lengths
	NExpected int      `json:"n_expected"`            // number of expected lines
	NGot      int      `json:"n_got"`                 // number of messages received
	Pieces    int      `json:"pieces,omitempty"`      // split: number of messages the line arrived in
	SplitAll  int      `json:"split_lines,omitempty"` // split: number of lines of the stream that arrived in pieces
}

func abbreviate(s string) string {
	if len(s) <= 120 {
		return fmt.Sprintf("%q", s)
	}
	return fmt.Sprintf("%q…(%d bytes)…%q", s[:60], len(s), s[len(s)-40:])
}

// compareStream decides whether the received message sequence equals the expected line sequence
// and, when it does not, names the effect class.
func compareStream(exp, got []string) *mismatch {
	if len(exp) == len(got) {
		ok := true
		for i := range exp {
			if !lineEq(exp[i], got[i]) {
				ok = false
				break
			}
		}
		if ok {
			return nil
		}
	}
	m := &mismatch{NExpected: len(exp), NGot: len(got), LineIndex: -1}
	// refinement: is every expected line the concatenation of consecutive received messages?
	j := 0
	firstBad := -1
	firstPieces := 0
	firstFrom := 0
	split := 0
	refines := true
	i := 0
	for ; i < len(exp); i++ {
		e := exp[i]
		off := 0
		from := j
		for {
			if off == len(e) {
				break
			}
			if j < len(got) && len(got[j]) > 0 && strings.HasPrefix(e[off:], got[j]) {
				off += len(got[j])
				j++
				continue
			}
			if off == len(e)-1 && e[off] == '\r' && j > from {
				break // trailing CR stripped
			}
			refines = false
			break
		}
		if !refines {
			break
		}
		if j-from != 1 {
			split++
			if firstBad < 0 {
				firstBad, firstPieces, firstFrom = i, j-from, from
			}
		}
	}
	if refines && j == len(got) && split > 0 {
		m.Effect = "line split"
		m.LineIndex = firstBad
		m.Expected = abbreviate(exp[firstBad])
		m.ExpLen = len(exp[firstBad])
		m.Pieces = firstPieces
		m.SplitAll = split
		for k := firstFrom; k < firstFrom+firstPieces && k < firstFrom+6; k++ {
			m.Got = append(m.Got, abbreviate(got[k]))
			m.GotLens = append(m.GotLens, len(got[k]))
		}
		return m
	}
	// first position at which the sequences differ
	p := 0
	for p < len(exp) && p < len(got) && lineEq(exp[p], got[p]) {
		p++
	}
	m.LineIndex = p
	if p < len(exp) {
		m.Expected = abbreviate(exp[p])
		m.ExpLen = len(exp[p])
	}
	for k := p; k < len(got) && k < p+3; k++ {
		m.Got = append(m.Got, abbreviate(got[k]))
		m.GotLens = append(m.GotLens, len(got[k]))
	}
	switch {
	case refines && i == len(exp) && j < len(got):
		m.Effect = "extra messages after the last line"
		m.LineIndex = len(exp)
	case p == len(got) && p < len(exp):
		m.Effect = "lines lost at the end"
	case p < len(exp) && p < len(got) && isMerge(exp, got, p):
		m.Effect = "lines merged"
	case p < len(exp) && containsFrom(got, p, exp[p]):
		m.Effect = "unexpected extra message"
	case p < len(got) && containsFrom(exp, p, got[p]):
		m.Effect = "line lost"
	case p < len(exp) && p < len(got) && len(exp[p]) != len(got[p]) && (strings.Contains(exp[p], got[p]) || strings.Contains(got[p], exp[p])):
		m.Effect = "line modified (bytes added or removed)"
	default:
		m.Effect = "line content differs"
	}
	return m
}

func isMerge(exp, got []string, p int) bool {
	g := got[p]
	off := 0
	n := 0
	for k := p; k < len(exp) && off < len(g); k++ {
		if !strings.HasPrefix(g[off:], exp[k]) {
			return false
		}
		off += len(exp[k])
		n++
	}
	return off == len(g) && n >= 2
}

func containsFrom(l []string, from int, s string) bool {
	for k := from + 1; k < len(l) && k < from+50; k++ {
		if lineEq(s, l[k]) || lineEq(l[k], s) {
			return true
		}
	}
	return false
}

// lineFacts describes how one expected line was written by the child.
type lineFacts struct {
	writes      int  // number of write calls that carried bytes of the line (incl. its LF)
	pauseInside bool // the child paused between the first and the last of them
	length      int
	streamBytes int
}

// analyse computes lineFacts for every expected line of a stream from the script.
func analyse(ops []op, stream int, spans []lineSpan) []lineFacts {
	type wr struct {
		from, to int
		t        int // virtual time (sum of pauses) at which the write happened
	}
	var ws []wr
	off, t := 0, 0
	for _, o := range ops {
		if o.S == stream && len(o.B) > 0 {
			ws = append(ws, wr{off, off + len(o.B), t})
			off += len(o.B)
		}
		t += o.P
	}
	out := make([]lineFacts, len(spans))
	k := 0
	for i, s := range spans {
		end := s.end
		if s.endTerm > s.end {
			end = s.endTerm // up to and including the LF that completes the line
		}
		for k < len(ws) && ws[k].to <= s.start {
			k++
		}
		f := lineFacts{length: s.end - s.start, streamBytes: off}
		first, last := -1, -1
		for q := k; q < len(ws) && ws[q].from < end; q++ {
			if first < 0 {
				first = q
			}
			last = q
			f.writes++
		}
		if first >= 0 && ws[last].t > ws[first].t {
			f.pauseInside = true
		}
		out[i] = f
	}
	return out
}

// splitPre names the precondition class of a split line from facts of the script only.
func splitPre(f lineFacts) string {
	switch {
	case f.writes >= 2 && f.pauseInside:
		return "line written in two or more writes with a pause"
	case f.length > 32768:
		return "line longer than 32 KiB"
	case f.writes >= 2:
		return "line written in two or more writes without pause"
	case f.streamBytes > 65536:
		return "line written in one write, stream larger than the 64 KiB pipe"
	default:
		return "line written in one write, small stream"
	}
}

// isSubsequence reports whether want occurs in order (not necessarily adjacent) in have.
func isSubsequence(want, have []string) bool {
	j := 0
	for _, w := range want {
		for j < len(have) && !lineEq(w, have[j]) {
			j++
		}
		if j == len(have) {
			return false
		}
		j++
	}
	return true
}
