package main

// Script generation: a pure function of (VERIF_SEED, tier, case index).

import (
	"crypto/sha256"
	"fmt"
	"math/rand/v2"
	"sort"
	"unicode/utf8"
)

const maxStreamBytes = 1_000_000
const maxLineLen = 100_000

// streamPlan is the byte content of one stream with its write boundaries.
type streamPlan struct {
	data   []byte
	cuts   []int       // sorted distinct offsets in (0,len(data)): a write ends at each of them
	pause  map[int]int // offset (a cut, or len(data)) -> pause in ms after the write ending there
	labels map[string]int
}

type caseSpec struct {
	Index  int
	Family string
	Mode   string
	Name   string // fixed cases only
	Script script
	Env    []string // additional environment passed to the library ("" = none)
	SinkUS int      // the loggers handed to the library need that long per message (a slow consumer)
	labels map[string]int
}

var multiRunes = []rune{'é', 'ß', 'Ж', 'ק', '漢', '語', '€', '😀', '𝄞', 'ा'}

func fillContent(rng *rand.Rand, dst []byte, style int) {
	switch style {
	case 0: // printable ASCII (with spaces, also leading/trailing)
		for i := range dst {
			dst[i] = byte(0x20 + rng.IntN(95))
		}
	case 1: // UTF-8 text with multi-byte runes
		i := 0
		for i < len(dst) {
			if rng.IntN(3) == 0 {
				r := multiRunes[rng.IntN(len(multiRunes))]
				n := utf8.RuneLen(r)
				if i+n <= len(dst) {
					utf8.EncodeRune(dst[i:], r)
					i += n
					continue
				}
			}
			dst[i] = byte(0x21 + rng.IntN(94))
			i++
		}
	default: // arbitrary bytes except LF and CR (NUL, invalid UTF-8, control characters)
		for i := 0; i < len(dst); i += 8 {
			v := rng.Uint64()
			for j := 0; j < 8 && i+j < len(dst); j++ {
				c := byte(v >> (8 * j))
				if c == '\n' || c == '\r' {
					c = 0
				}
				dst[i+j] = c
			}
		}
	}
}

func pickLineLen(rng *rand.Rand, vol int) int {
	var l int
	switch x := rng.IntN(100); {
	case x < 8:
		l = 1
	case x < 50:
		l = 2 + rng.IntN(79)
	case x < 75:
		l = 81 + rng.IntN(4016)
	case x < 87:
		l = 4097 + rng.IntN(28672)
	case x < 94:
		l = 32769 + rng.IntN(32768)
	default:
		l = 65537 + rng.IntN(maxLineLen-65537+1)
	}
	if vol < 5000 && l > 4096 { // keep small-volume cases made of several lines
		l = 1 + rng.IntN(300)
	}
	return l
}

type lineSpan struct{ start, end, endTerm int } // content [start,end), terminator [end,endTerm)

// lineSpans computes the non-empty lines of a byte stream as the property defines them: split on
// LF, empty pieces dropped, a final unterminated piece included.
func lineSpans(data []byte) []lineSpan {
	var out []lineSpan
	start := 0
	for i, c := range data {
		if c == '\n' {
			if i > start {
				out = append(out, lineSpan{start, i, i + 1})
			}
			start = i + 1
		}
	}
	if start < len(data) {
		out = append(out, lineSpan{start, len(data), len(data)})
	}
	return out
}

// genStream builds one stream of about vol bytes.
func genStream(rng *rand.Rand, vol int, allowPause bool) *streamPlan {
	sp := &streamPlan{pause: map[int]int{}, labels: map[string]int{}}
	if vol > maxStreamBytes {
		vol = maxStreamBytes
	}
	style := rng.IntN(3)
	crlf := rng.IntN(7) == 0
	if crlf {
		sp.labels["crlf_stream"] = 1
	}
	data := make([]byte, 0, vol+16)
	if vol > 0 && rng.IntN(6) == 0 {
		data = append(data, '\n') // leading empty line
		sp.labels["empty_lines"]++
	}
	for len(data) < vol {
		l := pickLineLen(rng, vol)
		if rest := maxStreamBytes - len(data) - 2; l > rest {
			l = rest
		}
		if l <= 0 {
			break
		}
		off := len(data)
		data = append(data, make([]byte, l)...)
		fillContent(rng, data[off:off+l], style)
		last := len(data) >= vol
		if last && rng.IntN(10) < 3 {
			sp.labels["final_unterminated"] = 1
			break
		}
		if crlf {
			// CR only directly before LF and after a non-CR byte: a line consisting of CR alone is a
			// don't-care region of the oracle and is never generated
			data = append(data, '\r', '\n')
		} else {
			data = append(data, '\n')
		}
		if rng.IntN(8) == 0 {
			k := 1 + rng.IntN(3)
			for j := 0; j < k; j++ {
				data = append(data, '\n')
			}
			sp.labels["empty_lines"] += k
		}
	}
	if vol == 0 && rng.IntN(4) == 0 {
		data = append(data, '\n', '\n')
		sp.labels["empty_lines"] += 2
	}
	if len(data) > maxStreamBytes {
		data = data[:maxStreamBytes]
	}
	sp.data = data
	sp.genCuts(rng, style, allowPause)
	return sp
}

func (sp *streamPlan) genCuts(rng *rand.Rand, style int, allowPause bool) {
	n := len(sp.data)
	if n == 0 {
		return
	}
	cuts := map[int]struct{}{}
	add := func(o int) {
		if o > 0 && o < n {
			cuts[o] = struct{}{}
		}
	}
	spans := lineSpans(sp.data)
	const maxOps = 1500
	cutStyle := rng.IntN(6)
	switch cutStyle {
	case 0: // the whole stream in one write
	case 1: // one write per line (line + terminator)
		for _, s := range spans {
			if len(cuts) >= maxOps {
				break
			}
			add(s.endTerm)
		}
	case 2, 3: // random chunks
		var lo, hi int
		switch rng.IntN(4) {
		case 0:
			lo, hi = 1, 16
		case 1:
			lo, hi = 1, 300
		case 2:
			lo, hi = 100, 5000
		default:
			lo, hi = 3000, 70000
		}
		if n/lo > maxOps {
			lo = n/maxOps + 1
			if hi < lo*2 {
				hi = lo * 2
			}
		}
		for o := lo + rng.IntN(hi-lo+1); o < n && len(cuts) < maxOps; o += lo + rng.IntN(hi-lo+1) {
			add(o)
		}
	case 4: // per line plus targeted cuts below
		for _, s := range spans {
			if len(cuts) >= maxOps/2 {
				break
			}
			add(s.endTerm)
		}
	case 5: // byte by byte (bounded)
		for o := 1; o < n && o <= 400; o++ {
			add(o)
		}
	}
	// targeted cuts inside some lines
	if cutStyle != 0 && len(spans) > 0 {
		k := 1 + rng.IntN(6)
		for j := 0; j < k; j++ {
			s := spans[rng.IntN(len(spans))]
			l := s.end - s.start
			switch rng.IntN(7) {
			case 0: // right before the LF
				if s.endTerm > s.end {
					add(s.endTerm - 1)
				}
			case 1: // between CR and LF, and before the CR
				if s.end-s.start >= 2 && sp.data[s.end-1] == '\r' {
					add(s.end - 1)
				} else if s.endTerm > s.end {
					add(s.end)
				}
			case 2: // after the first byte
				add(s.start + 1)
			case 3: // before the last byte
				add(s.end - 1)
			case 4: // inside a multi-byte rune
				for t := 0; t < 20 && l > 1; t++ {
					o := s.start + 1 + rng.IntN(l-1)
					if sp.data[o]&0xC0 == 0x80 {
						add(o)
						break
					}
				}
			default: // anywhere in the line
				if l > 1 {
					add(s.start + 1 + rng.IntN(l-1))
				}
			}
		}
	}
	sp.cuts = make([]int, 0, len(cuts))
	for o := range cuts {
		sp.cuts = append(sp.cuts, o)
	}
	sort.Ints(sp.cuts)
	// labels about the cuts
	for _, o := range sp.cuts {
		switch {
		case sp.data[o] == '\n' && sp.data[o-1] == '\r':
			sp.labels["cut_between_cr_lf"]++
		case sp.data[o] == '\n' && sp.data[o-1] != '\n':
			sp.labels["cut_right_before_lf"]++
		case style == 1 && sp.data[o]&0xC0 == 0x80:
			sp.labels["cut_inside_rune"]++
		}
	}
	// pauses
	if allowPause && len(sp.cuts) > 0 && rng.IntN(2) == 0 {
		// prefer cuts strictly inside a line (a partial line becomes visible to the reader)
		var inside []int
		for _, o := range sp.cuts {
			if sp.data[o-1] != '\n' {
				inside = append(inside, o)
			}
		}
		budget := 120
		k := 1 + rng.IntN(5)
		for j := 0; j < k && budget > 0; j++ {
			var o int
			if len(inside) > 0 && rng.IntN(4) != 0 {
				o = inside[rng.IntN(len(inside))]
			} else {
				o = sp.cuts[rng.IntN(len(sp.cuts))]
			}
			ms := []int{1, 2, 5, 10, 20, 30}[rng.IntN(6)]
			if ms > budget {
				ms = budget
			}
			if _, dup := sp.pause[o]; !dup {
				sp.pause[o] = ms
				budget -= ms
			}
		}
	}
}

// ops converts the plan into the list of writes of this stream.
func (sp *streamPlan) ops(stream int) []op {
	if len(sp.data) == 0 {
		return nil
	}
	var out []op
	prev := 0
	bounds := append(append([]int{}, sp.cuts...), len(sp.data))
	for _, o := range bounds {
		out = append(out, op{S: stream, B: sp.data[prev:o], P: sp.pause[o]})
		prev = o
	}
	return out
}

func interleave(rng *rand.Rand, a, b []op) []op {
	out := make([]op, 0, len(a)+len(b))
	switch rng.IntN(4) {
	case 0:
		out = append(append(out, a...), b...)
	case 1:
		out = append(append(out, b...), a...)
	case 2: // alternate
		for len(a) > 0 || len(b) > 0 {
			if len(a) > 0 {
				out = append(out, a[0])
				a = a[1:]
			}
			if len(b) > 0 {
				out = append(out, b[0])
				b = b[1:]
			}
		}
	default: // random merge
		for len(a) > 0 || len(b) > 0 {
			if len(b) == 0 || (len(a) > 0 && rng.IntN(len(a)+len(b)) < len(a)) {
				out = append(out, a[0])
				a = a[1:]
			} else {
				out = append(out, b[0])
				b = b[1:]
			}
		}
	}
	return out
}

func pickVolume(rng *rand.Rand, quick bool) int {
	x := rng.IntN(100)
	switch {
	case x < 5:
		return 0
	case x < 27:
		return 1 + rng.IntN(200)
	case x < 55:
		return 200 + rng.IntN(4000)
	case x < 80:
		return 4096 + rng.IntN(61440)
	case x < 93:
		return 65536 + rng.IntN(200_000)
	default:
		return 300_000 + rng.IntN(700_001)
	}
}

var executeModes = []string{"execute", "execute-default-msgs", "execute-env", "new-execute", "new-env-execute", "output", "output-env", "start", "new-execute-again", "output-then-execute"}

// genCase builds case number i of the seeded list.
func genCase(rng *rand.Rand, i int, quick bool) *caseSpec {
	cs := &caseSpec{Index: i, labels: map[string]int{}}
	// exit status
	switch {
	case i < 256:
		cs.Family = "exit-sweep"
		cs.Script.Exit = i
	default:
		cs.Family = "random"
		switch x := rng.IntN(100); {
		case x < 50:
			cs.Script.Exit = 0
		case x < 78:
			cs.Script.Exit = 1 + rng.IntN(255)
		default:
			cs.Script.Signal = []string{"KILL", "TERM", "SEGV"}[rng.IntN(3)]
		}
	}
	// mode
	x := rng.IntN(100)
	if i < 256 {
		x = x * 88 / 100 // the exit sweep uses the entry points that report an exit status, uncancelled
	}
	switch {
	case x < 22:
		cs.Mode = "execute"
	case x < 32:
		cs.Mode = "execute-default-msgs"
	case x < 44:
		cs.Mode = "execute-env"
	case x < 54:
		cs.Mode = "new-execute"
	case x < 62:
		cs.Mode = "new-env-execute"
	case x < 78:
		cs.Mode = "output"
	case x < 88:
		cs.Mode = "output-env"
	case x < 94:
		cs.Mode = "start"
	default:
		cs.Mode = []string{"cancel-ctx", "cancel-method", "cancel-timeout"}[rng.IntN(3)]
	}
	cancel := isCancelMode(cs.Mode)
	if cancel {
		cs.Script.Hang = true
		cs.Script.Signal = ""
	}
	// streams
	v1 := pickVolume(rng, quick)
	v2 := pickVolume(rng, quick)
	if i < 256 && v1+v2 > 150_000 { // the exit sweep stays small/medium
		v1, v2 = v1%20_000, v2%20_000
	}
	if rng.IntN(5) == 0 {
		v2 = 0
	} else if rng.IntN(8) == 0 {
		v1 = 0
	}
	allowPause := true
	s1 := genStream(rng, v1, allowPause)
	s2 := genStream(rng, v2, allowPause)
	cs.Script.Ops = interleave(rng, s1.ops(1), s2.ops(2))
	for k, v := range s1.labels {
		cs.labels[k] += v
	}
	for k, v := range s2.labels {
		cs.labels[k] += v
	}
	if hasEnv(cs.Mode) {
		n := 1 + rng.IntN(3)
		cs.Script.Env = map[string]string{}
		for j := 0; j < n; j++ {
			k := fmt.Sprintf("C18_EXTRA_%d", j)
			v := fmt.Sprintf("value %d with spaces = and %x", j, rng.Uint32())
			cs.Script.Env[k] = v
			cs.Env = append(cs.Env, k+"="+v)
		}
	}
	return cs
}

func isCancelMode(m string) bool {
	return m == "cancel-ctx" || m == "cancel-method" || m == "cancel-timeout"
}

func hasEnv(m string) bool {
	return m == "execute-env" || m == "new-env-execute" || m == "output-env"
}

func mkOps(parts ...any) []op {
	// parts: stream int, bytes string, pause int triples
	var out []op
	for i := 0; i+3 <= len(parts); i += 3 {
		out = append(out, op{S: parts[i].(int), B: []byte(parts[i+1].(string)), P: parts[i+2].(int)})
	}
	return out
}

func repeatLine(n int, c byte) string {
	b := make([]byte, n)
	for i := range b {
		b[i] = c + byte(i%23)
	}
	return string(b)
}

// fixedCases are seed-independent minimal scripts (the canonical shapes the property enumerates).
func fixedCases() []*caseSpec {
	mk := func(name, mode string, exit int, sig string, ops []op) *caseSpec {
		cs := &caseSpec{Family: "fixed", Name: name, Mode: mode, labels: map[string]int{}}
		cs.Script.Ops = ops
		cs.Script.Exit = exit
		cs.Script.Signal = sig
		if isCancelMode(mode) {
			cs.Script.Hang = true
		}
		if hasEnv(mode) {
			cs.Script.Env = map[string]string{"C18_EXTRA_0": "fixed value"}
			cs.Env = []string{"C18_EXTRA_0=fixed value"}
		}
		return cs
	}
	big := func(stream int) []op {
		var b []byte
		for i := 0; len(b) < 999_000; i++ {
			b = append(b, []byte(fmt.Sprintf("%07d %s\n", i, repeatLine(91, 'A')))...)
		}
		return []op{{S: stream, B: b}}
	}
	var l []*caseSpec
	l = append(l,
		mk("one line, one write", "execute", 0, "", mkOps(1, "hello world\n", 0)),
		mk("line in two writes with a pause (stdout)", "execute", 0, "", mkOps(1, "hello wor", 50, 1, "ld\n", 0)),
		mk("line in two writes with a pause (stderr)", "execute", 0, "", mkOps(2, "hello wor", 50, 2, "ld\n", 0)),
		mk("line in two writes with a pause (Output)", "output", 0, "", mkOps(1, "hello wor", 50, 1, "ld\n", 0)),
		mk("line in two writes with a pause (Start)", "start", 0, "", mkOps(1, "hello wor", 50, 1, "ld\n", 0)),
		mk("line in two writes without pause", "execute", 0, "", mkOps(1, "hello wor", 0, 1, "ld\n", 0)),
		mk("pause right before the LF", "execute", 0, "", mkOps(1, "abc", 30, 1, "\ndef\n", 0)),
		mk("pause inside a multi-byte rune", "execute", 0, "", []op{{S: 1, B: []byte("caf\xc3"), P: 30}, {S: 1, B: []byte("\xa9 \xe6\xbc"), P: 30}, {S: 1, B: []byte("\xa2\n")}}),
		mk("one 40000 byte line in one write", "execute", 0, "", mkOps(1, repeatLine(40000, 'a')+"\n", 0)),
		mk("one 100000 byte line in one write", "execute", 0, "", mkOps(1, repeatLine(100000, 'a')+"\n", 0)),
		mk("one 100000 byte line on stderr, exit 7", "execute", 7, "", mkOps(2, repeatLine(100000, 'a')+"\n", 0)),
		mk("final line without newline", "execute", 0, "", mkOps(1, "abc\ndef", 0)),
		mk("final line without newline, in two writes", "execute", 0, "", mkOps(1, "abc\nde", 30, 1, "f", 0)),
		mk("no output, exit 3", "execute", 3, "", nil),
		mk("no output, exit 0", "execute-default-msgs", 0, "", nil),
		mk("only empty lines", "execute", 0, "", mkOps(1, "\n\n\n", 0, 2, "\n", 0)),
		mk("CRLF lines", "execute", 0, "", mkOps(1, "a\r\nb\r\n", 0)),
		mk("CRLF cut between CR and LF", "execute", 0, "", mkOps(1, "a\r", 30, 1, "\nb\r\n", 0)),
		mk("both streams line by line", "execute", 1, "", mkOps(1, "o1\n", 0, 2, "e1\n", 0, 1, "o2\n", 0, 2, "e2\n", 0, 1, "o3\n", 0)),
		mk("both streams line by line (Output)", "output", 0, "", mkOps(1, "o1\n", 5, 2, "e1\n", 5, 1, "o2\n", 5, 2, "e2\n", 5, 1, "o3\n", 0)),
		mk("whitespace-only and padded lines", "execute", 0, "", mkOps(1, " \n\t\n  padded  \n", 0)),
		mk("10^6 bytes on stdout in one write", "execute", 0, "", big(1)),
		mk("10^6 bytes on both streams (Output)", "output", 0, "", append(big(1), big(2)...)),
		mk("killed by SIGKILL", "execute", 0, "KILL", mkOps(1, "last words\n", 0)),
		mk("killed by SIGTERM", "execute", 0, "TERM", mkOps(1, "last words\n", 0)),
		mk("killed by SIGSEGV", "execute", 0, "SEGV", mkOps(2, "last words\n", 0)),
		mk("killed by SIGKILL (Output)", "output", 0, "KILL", mkOps(1, "last words\n", 0)),
		mk("exit 255 (Output, env)", "output-env", 255, "", mkOps(1, "x\n", 0)),
		mk("exit 0 with env", "execute-env", 0, "", mkOps(1, "x\n", 0)),
		mk("default messages, exit 2", "execute-default-msgs", 2, "", mkOps(1, "x\n", 0, 2, "y\n", 0)),
		mk("cancelled through the context", "cancel-ctx", 0, "", mkOps(1, "before the hang\n", 0)),
		mk("cancelled through Cancel()", "cancel-method", 0, "", mkOps(1, "before the hang\n", 0)),
		mk("cancelled by the context deadline", "cancel-timeout", 0, "", mkOps(1, "before the hang\n", 0)),
	)
	// the streams outlive the child, or are drained slowly: the result still follows the exit status and nothing is lost
	many := func(n int) []op {
		var b []byte
		for i := 0; i < n; i++ {
			b = append(b, []byte(fmt.Sprintf("%05d %s\n", i, repeatLine(40, 'a')))...)
		}
		return []op{{S: 1, B: b}}
	}
	linger := func(name, mode string, exit, ms int) *caseSpec {
		cs := mk(name, mode, exit, "", mkOps(1, "about to exit\n", 0, 2, "bye\n", 0))
		cs.Script.Linger = ms
		return cs
	}
	slow := func(name, mode string, exit, lines, us int) *caseSpec {
		cs := mk(name, mode, exit, "", many(lines))
		cs.SinkUS = us
		return cs
	}
	l = append(l,
		linger("exit 0 while a descendant keeps the streams open for 1.7 s", "execute", 0, 1700),
		linger("exit 0 while a descendant keeps the streams open for 2.6 s (Output)", "output", 0, 2600),
		linger("exit 5 while a descendant keeps the streams open for 1.4 s", "execute", 5, 1400),
		slow("4000 lines at once, loggers need 0.5 ms per message", "execute", 0, 4000, 500),
		slow("3000 lines at once, loggers need 0.8 ms per message (Output)", "output", 0, 3000, 800),
		slow("3000 lines at once, loggers need 0.6 ms per message, exit 9", "execute", 9, 3000, 600),
	)
	l = append(l,
		mk("the same Subprocess value executed a second time, exit 0", "new-execute-again", 0, "", mkOps(1, "o1\n", 0, 2, "e1\n", 0)),
		mk("the same Subprocess value executed a second time, exit 6", "new-execute-again", 6, "", mkOps(1, "o1\n", 0)),
		mk("the loggers which served an Output call serve an Execute, exit 0", "output-then-execute", 0, "", mkOps(1, "o1\n", 0, 2, "e1\n", 0, 1, "o2\n", 0)),
		mk("the loggers which served an Output call serve an Execute, exit 3", "output-then-execute", 3, "", mkOps(2, "e1\n", 0, 1, "o1\n", 0)),
	)
	for i, cs := range l {
		cs.Index = -1 - i
	}
	return l
}

func (cs *caseSpec) canonical() string {
	h := sha256.New()
	for _, o := range cs.Script.Ops {
		fmt.Fprintf(h, "%d:%d:%d:", o.S, len(o.B), o.P)
		h.Write(o.B)
	}
	return fmt.Sprintf("%s|exit=%d|sig=%s|hang=%v|env=%d|linger=%d|sink=%d|%x", cs.Mode, cs.Script.Exit, cs.Script.Signal, cs.Script.Hang, len(cs.Env), cs.Script.Linger, cs.SinkUS, h.Sum(nil)[:16])
}
