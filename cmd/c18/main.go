// C18 — subprocess results are faithful: exit status and every output line.
//
// Runtime monitor. The helper child is this binary re-executed in "emit" mode: it plays a script
// [(stream, bytes, pause)...] with exactly those write boundaries, then exits with a given status or
// dies from a signal. The monitor runs it through the library (Execute / ExecuteWithEnvironment /
// New+Execute / Output / OutputWithEnvironment / Start+Stop, and cancelled runs) with a recording
// logs.Loggers and compares what the loggers received, what Output() returned and the returned
// error with what the property states for the script.
package main

import (
	"bytes"
	"context"
	"encoding/json"
	"errors"
	"fmt"
	"os"
	"os/exec"
	"path/filepath"
	"strings"
	"sync"
	"sync/atomic"
	"syscall"
	"time"

	"github.com/sasha-s/go-deadlock"

	"github.com/ARM-software/golang-utils/utils/commonerrors"
	"github.com/ARM-software/golang-utils/utils/logs"
	"github.com/ARM-software/golang-utils/utils/subprocess"

	"verif/internal/vrun"
)

const guardEnv = "C18_MONITOR_RUNNING"

// ---------------------------------------------------------------------------------------------
// recording logger

type recMsg struct {
	seq   int
	isErr bool   // received through LogError
	text  string // the single string argument, or fmt.Sprint of the arguments
	first string // first argument when it is a string
	nargs int
}

type recorder struct {
	mu    sync.Mutex
	msgs  []recMsg
	delay time.Duration // a slow consumer: every message takes that long
	// like a file or a buffered logger, the recorder accepts nothing once it has been closed (the harness never closes it)
	closed      bool
	closeCalls  int
	afterClosed int
}

var _ logs.Loggers = (*recorder)(nil)

func (l *recorder) record(isErr bool, args []interface{}) {
	m := recMsg{isErr: isErr, nargs: len(args)}
	if len(args) > 0 {
		if s, ok := args[0].(string); ok {
			m.first = s
		}
	}
	if len(args) == 1 && m.first != "" {
		m.text = m.first
	} else {
		m.text = fmt.Sprint(args...)
	}
	if l.delay > 0 {
		time.Sleep(l.delay)
	}
	l.mu.Lock()
	if l.closed {
		l.afterClosed++
		l.mu.Unlock()
		return
	}
	m.seq = len(l.msgs)
	l.msgs = append(l.msgs, m)
	l.mu.Unlock()
}

func (l *recorder) Close() error {
	l.mu.Lock()
	l.closed = true
	l.closeCalls++
	l.mu.Unlock()
	return nil
}
func (l *recorder) Check() error                 { return nil }
func (l *recorder) SetLogSource(string) error    { return nil }
func (l *recorder) SetLoggerSource(string) error { return nil }
func (l *recorder) Log(output ...interface{})    { l.record(false, output) }
func (l *recorder) LogError(err ...interface{})  { l.record(true, err) }
func (l *recorder) reset() {
	l.mu.Lock()
	l.msgs = nil
	l.mu.Unlock()
}

func (l *recorder) snapshot() []recMsg {
	l.mu.Lock()
	defer l.mu.Unlock()
	return append([]recMsg(nil), l.msgs...)
}

// ---------------------------------------------------------------------------------------------

type monitor struct {
	r       *vrun.Run
	exe     string
	dir     string
	verbose bool
}

type runResult struct {
	err      error
	output   string
	msgs     []recMsg
	done     *doneRecord
	watchdog string
	// spuriousCancel: a run of the same Subprocess value started straight after the previous one had ended reported this
	// cancellation although nobody cancelled anything
	spuriousCancel string
	startErr       error
	tokStart       string
	tokOK          string
	tokFail        string
	cancelled      bool // the run was cancelled while the child was (by construction) still running
	cancelHow      string
	reaped         bool  // Start+Stop: the child no longer exists after Stop() (it was waited for)
	stopCalls      int64 // Start+Stop: number of Stop() calls needed
	scriptPath     string
}

const caseWatchdog = 90 * time.Second

func readDone(path string) *doneRecord {
	b, err := os.ReadFile(path)
	if err != nil {
		return nil
	}
	var d doneRecord
	if json.Unmarshal(b, &d) != nil {
		return nil
	}
	return &d
}

// waitDone polls for the child's completion record; stop is closed when waiting is pointless.
func waitDone(path string, stop <-chan struct{}, limit time.Duration) *doneRecord {
	deadline := time.NewTimer(limit)
	defer deadline.Stop()
	tick := time.NewTicker(2 * time.Millisecond)
	defer tick.Stop()
	for {
		if d := readDone(path); d != nil {
			return d
		}
		select {
		case <-stop:
			return readDone(path)
		case <-deadline.C:
			return readDone(path)
		case <-tick.C:
		}
	}
}

// killLeftover kills the helper child if it is still alive (cancellation cases, watchdog).
func killLeftover(pid int, scriptPath string) {
	if pid <= 1 {
		return
	}
	b, err := os.ReadFile(fmt.Sprintf("/proc/%d/cmdline", pid))
	if err != nil || !bytes.Contains(b, []byte(scriptPath)) {
		return
	}
	_ = syscall.Kill(pid, syscall.SIGKILL)
}

func (m *monitor) run(cs *caseSpec) *runResult {
	tag := fmt.Sprintf("case%d", cs.Index)
	if cs.Index < 0 {
		tag = fmt.Sprintf("fixed%d", -cs.Index)
	}
	scriptPath := filepath.Join(m.dir, tag+".json")
	donePath := filepath.Join(m.dir, tag+".done")
	cs.Script.Done = donePath
	b, err := json.Marshal(&cs.Script)
	if err != nil {
		m.r.Fatalf("marshal script: %v", err)
	}
	if err := os.WriteFile(scriptPath, b, 0o644); err != nil {
		m.r.Fatalf("write script: %v", err)
	}
	defer os.Remove(scriptPath)
	defer os.Remove(donePath)

	res := &runResult{scriptPath: scriptPath}
	res.tokStart = "<<C18 start message of " + tag + ">>"
	res.tokOK = "<<C18 success message of " + tag + ">>"
	res.tokFail = "<<C18 failure message of " + tag + ">>"
	rec := &recorder{delay: time.Duration(cs.SinkUS) * time.Microsecond}
	args := []string{emitFlag, scriptPath}
	ctx := context.Background()

	finished := make(chan struct{})
	var output string
	var runErr, startErr error
	var cancelled, reaped atomic.Bool
	var stopCalls atomic.Int64
	var spurious atomic.Value // text of the error of a run which reported a cancellation nobody asked for
	var p *subprocess.Subprocess
	go func() {
		defer close(finished)
		switch cs.Mode {
		case "execute":
			runErr = subprocess.Execute(ctx, rec, res.tokStart, res.tokOK, res.tokFail, m.exe, args...)
		case "execute-default-msgs":
			runErr = subprocess.Execute(ctx, rec, "", "", "", m.exe, args...)
		case "execute-env":
			runErr = subprocess.ExecuteWithEnvironment(ctx, rec, cs.Env, res.tokStart, res.tokOK, res.tokFail, m.exe, args...)
		case "new-execute":
			p, startErr = subprocess.New(ctx, rec, res.tokStart, res.tokOK, res.tokFail, m.exe, args...)
			if startErr == nil {
				runErr = p.Execute()
			}
		case "new-execute-again":
			// one Subprocess value, run twice: what is judged is the second run (messages, lines, result)
			p, startErr = subprocess.New(ctx, rec, res.tokStart, res.tokOK, res.tokFail, m.exe, args...)
			if startErr == nil {
				_ = p.Execute()
				// ... and once more straight after the first run has ended: nobody cancels that run, it must not report a cancellation
				for k := 0; k < 6; k++ {
					if e2 := p.Execute(); e2 != nil && isContextKind(e2) {
						spurious.Store(e2.Error())
					}
				}
				rec.reset()
				_ = os.Remove(donePath)
				runErr = p.Execute()
			}
		case "output-then-execute":
			// the caller's loggers serve two runs: Output first, then Execute, which is the one judged
			_, _ = subprocess.Output(ctx, rec, m.exe, args...)
			rec.reset()
			_ = os.Remove(donePath)
			runErr = subprocess.Execute(ctx, rec, res.tokStart, res.tokOK, res.tokFail, m.exe, args...)
		case "new-env-execute":
			p, startErr = subprocess.NewWithEnvironment(ctx, rec, cs.Env, res.tokStart, res.tokOK, res.tokFail, m.exe, args...)
			if startErr == nil {
				runErr = p.Execute()
			}
		case "output":
			output, runErr = subprocess.Output(ctx, rec, m.exe, args...)
		case "output-env":
			output, runErr = subprocess.OutputWithEnvironment(ctx, rec, cs.Env, m.exe, args...)
		case "start":
			p, startErr = subprocess.New(ctx, rec, res.tokStart, res.tokOK, res.tokFail, m.exe, args...)
			if startErr != nil {
				return
			}
			startErr = p.Start()
			if startErr != nil {
				return
			}
			// there is no Wait in the API: the child reports its own completion, then Stop() reaps it
			never := make(chan struct{})
			d := waitDone(donePath, never, caseWatchdog-20*time.Second)
			if d == nil {
				startErr = errors.New("child never reported completion")
				runErr = p.Stop()
				return
			}
			// Stop() is documented idempotent. It returns without doing anything while IsOn() is still false
			// (IsOn depends on the library's monitoring goroutine having been scheduled), so it is repeated
			// until the child has been reaped: only then has the library waited for the end of the streams.
			for start := time.Now(); ; {
				stopCalls.Add(1)
				runErr = p.Stop()
				if _, err := os.Stat(fmt.Sprintf("/proc/%d", d.Pid)); err != nil {
					reaped.Store(true)
					break
				}
				if time.Since(start) > 5*time.Second {
					break
				}
				time.Sleep(time.Millisecond)
			}
		case "cancel-ctx", "cancel-method":
			cctx, cancel := context.WithCancel(ctx)
			defer cancel()
			p, startErr = subprocess.New(cctx, rec, res.tokStart, res.tokOK, res.tokFail, m.exe, args...)
			if startErr != nil {
				return
			}
			execDone := make(chan struct{})
			go func() {
				defer close(execDone)
				runErr = p.Execute()
			}()
			// the child writes its completion record and then sleeps for 120 s: it is running when cancelled
			if waitDone(donePath, execDone, caseWatchdog-10*time.Second) != nil {
				select {
				case <-execDone: // Execute returned although the child is still sleeping: judged as a normal (uncancelled) result below
				default:
					cancelled.Store(true)
					if cs.Mode == "cancel-ctx" {
						cancel()
					} else {
						p.Cancel()
					}
				}
			}
			<-execDone
		case "cancel-timeout":
			cctx, cancel := context.WithTimeout(ctx, 150*time.Millisecond)
			defer cancel()
			// the child can never finish on its own (it sleeps 120 s at the end of its script)
			cancelled.Store(true)
			runErr = subprocess.Execute(cctx, rec, res.tokStart, res.tokOK, res.tokFail, m.exe, args...)
		default:
			startErr = fmt.Errorf("unknown mode %q", cs.Mode)
		}
	}()
	wd := time.NewTimer(caseWatchdog)
	defer wd.Stop()
	select {
	case <-finished:
		res.err, res.output, res.startErr = runErr, output, startErr
	case <-wd.C:
		res.watchdog = fmt.Sprintf("mode %s did not return within %v", cs.Mode, caseWatchdog)
	}
	res.cancelled = cancelled.Load()
	res.reaped = reaped.Load()
	res.stopCalls = stopCalls.Load()
	if v, ok := spurious.Load().(string); ok {
		res.spuriousCancel = v
	}
	res.cancelHow = cs.Mode
	res.msgs = rec.snapshot()
	res.done = readDone(donePath)
	if res.done != nil && (cs.Script.Hang || res.watchdog != "") {
		killLeftover(res.done.Pid, scriptPath)
	}
	return res
}

// ---------------------------------------------------------------------------------------------
// judging

func epOf(mode string) string {
	switch mode {
	case "output", "output-env":
		return "Output"
	case "start":
		return "Start+Stop"
	}
	return "Execute"
}

func isContextKind(err error) bool {
	return commonerrors.Any(err, commonerrors.ErrCancelled, commonerrors.ErrTimeout, context.Canceled, context.DeadlineExceeded)
}

type opView struct {
	S int    `json:"stream"`
	B string `json:"bytes"`
	P int    `json:"pause_ms,omitempty"`
}

func (m *monitor) witness(cs *caseSpec, res *runResult, extra map[string]any) map[string]any {
	n1, n2 := 0, 0
	for _, o := range cs.Script.Ops {
		if o.S == 2 {
			n2 += len(o.B)
		} else {
			n1 += len(o.B)
		}
	}
	w := map[string]any{
		"seed": m.r.Seed, "tier": m.r.Tier, "case_index": cs.Index, "family": cs.Family, "mode": cs.Mode,
		"exit": cs.Script.Exit, "signal": cs.Script.Signal, "hang_then_cancel": cs.Script.Hang, "extra_env": cs.Env,
		"writes": len(cs.Script.Ops), "stdout_bytes": n1, "stderr_bytes": n2,
		"returned_error": fmt.Sprint(res.err),
		"replay":         fmt.Sprintf("VERIF_SEED=%d ./check C18 --replay <this file>", m.r.Seed),
		"deterministic":  false,
	}
	if cs.Name != "" {
		w["name"] = cs.Name
	}
	if n1+n2 <= 400 && len(cs.Script.Ops) <= 40 {
		var ops []opView
		for _, o := range cs.Script.Ops {
			ops = append(ops, opView{o.S, fmt.Sprintf("%q", o.B), o.P})
		}
		w["script"] = ops
	}
	var own []string
	for _, msg := range res.msgs {
		if m.isOwn(cs, res, msg) {
			k := "Log"
			if msg.isErr {
				k = "LogError"
			}
			own = append(own, fmt.Sprintf("#%d %s %s", msg.seq, k, abbreviate(msg.text)))
		}
	}
	w["library_messages"] = own
	w["messages_total"] = len(res.msgs)
	for k, v := range extra {
		w[k] = v
	}
	return w
}

// isOwn identifies the library's own messages (start / started / stopping / success / failure).
func (m *monitor) isOwn(cs *caseSpec, res *runResult, msg recMsg) bool {
	switch cs.Mode {
	case "execute-default-msgs", "output", "output-env":
		// default wording is not relied upon: the messaging helper describes the command by its path
		return strings.Contains(msg.text, m.exe)
	}
	if msg.text == res.tokStart || msg.text == res.tokOK || msg.first == res.tokFail || strings.HasPrefix(msg.text, res.tokFail) {
		return true
	}
	if cs.Mode == "start" && res.done != nil {
		// "Started process [pid]" / "Stopping process [pid]": identified by the pid, not by the wording
		return strings.Contains(msg.text, fmt.Sprintf("[%d]", res.done.Pid))
	}
	return false
}

func exitPre(cs *caseSpec, res *runResult) string {
	switch {
	case res.cancelled:
		return "cancelled while the child was running"
	case cs.Script.Signal != "":
		return "death by signal"
	case cs.Script.Exit != 0:
		return "nonzero exit status"
	}
	return "exit status 0"
}

func (m *monitor) judge(cs *caseSpec, res *runResult) {
	r := m.r
	ep := epOf(cs.Mode)
	var data [3][]byte
	for _, o := range cs.Script.Ops {
		data[o.S] = append(data[o.S], o.B...)
	}
	exp1, spans1 := expectedLines(data[1])
	exp2, spans2 := expectedLines(data[2])
	facts := [3][]lineFacts{nil, analyse(cs.Script.Ops, 1, spans1), analyse(cs.Script.Ops, 2, spans2)}

	nontrivial := cs.Script.Exit != 0 || cs.Script.Signal != "" || cs.Script.Hang
	multi, paused, long := 0, 0, 0
	maxLen := 0
	for s := 1; s <= 2; s++ {
		for _, f := range facts[s] {
			if f.writes >= 2 {
				multi++
			}
			if f.pauseInside {
				paused++
			}
			if f.length > 4096 {
				long++
			}
			if f.length > maxLen {
				maxLen = f.length
			}
		}
	}
	if multi > 0 || long > 0 {
		nontrivial = true
	}
	r.Case(cs.canonical(), nontrivial)
	r.Obs("cases_"+cs.Mode, 1)
	r.ObsSet("modes", cs.Mode)

	if res.watchdog != "" {
		r.Inconclusive("watchdog: " + res.watchdog)
		return
	}
	if res.startErr != nil {
		r.Inconclusive("could not set up / start the subprocess: " + res.startErr.Error())
		return
	}
	if cs.Mode == "new-execute-again" {
		r.Obs("runs_started_straight_after_the_previous_run_of_the_same_value", 1)
		if res.spuriousCancel != "" {
			r.Violation(vrun.Sig{"ep": "Execute", "pre": "straight after the previous run of the same value", "effect": "cancellation reported although nobody cancelled"},
				fmt.Sprintf("Execute() of a Subprocess value whose previous run had just ended returned %q: nobody cancelled it (context alive, no Cancel/Stop)", res.spuriousCancel),
				map[string]any{"case": cs.Name, "mode": cs.Mode, "returned_error": res.spuriousCancel})
		}
	}
	if cs.Mode == "start" {
		if !res.reaped {
			r.Inconclusive("Start+Stop: Stop() did not reap the finished child within 5 s (no point at which the streams are known to be complete)")
			return
		}
		if res.stopCalls > 1 {
			r.Obs("start_mode_first_Stop_was_a_no-op", 1)
		}
	}
	cancelMode := isCancelMode(cs.Mode)
	if !cancelMode {
		// trusted base: the child reports that it wrote the whole script
		if res.done == nil {
			r.Inconclusive("child left no completion record (did not finish its script)")
			return
		}
		if res.done.WriteErr != "" || res.done.Wrote1 != len(data[1]) || res.done.Wrote2 != len(data[2]) {
			r.Inconclusive("child could not write its whole script: " + res.done.WriteErr)
			return
		}
		if len(cs.Env) > 0 {
			if res.done.EnvOK {
				r.Obs("extra_env_seen_by_child", 1)
			} else {
				r.Obs("extra_env_NOT_seen_by_child", 1)
			}
		}
	}

	// ---- returned error
	if ep != "Start+Stop" {
		pre := exitPre(cs, res)
		r.Obs("error_results_judged", 1)
		switch {
		case res.cancelled:
			r.Obs("cancelled_runs_judged", 1)
			r.ObsSet("cancel_ways", cs.Mode)
			if res.err == nil {
				r.Violation(vrun.Sig{"ep": ep, "pre": pre, "effect": "nil returned"},
					fmt.Sprintf("%s returned nil although the run was cancelled (%s) while the child was still running", ep, cs.Mode),
					m.witness(cs, res, nil))
			} else if !isContextKind(res.err) {
				got := "other"
				if errors.Is(res.err, os.ErrProcessDone) {
					got = "os.ErrProcessDone"
				}
				r.Violation(vrun.Sig{"ep": ep, "pre": pre, "effect": "error is not of a context kind", "got": got},
					fmt.Sprintf("%s of a run cancelled (%s) while the child was running returned %q, which is neither cancelled nor timeout", ep, cs.Mode, res.err),
					m.witness(cs, res, nil))
			}
		case cancelMode:
			// Execute returned before the monitor cancelled although the child never exits on its own
			r.Inconclusive("cancellation case: Execute returned before the cancellation was issued")
		case cs.Script.Signal == "" && cs.Script.Exit == 0:
			r.Obs("exit_zero_judged", 1)
			r.ObsSet("exit_statuses", "0")
			if res.err != nil {
				r.Violation(vrun.Sig{"ep": ep, "pre": pre, "effect": "error returned"},
					fmt.Sprintf("%s returned %q for a child that exited with status 0", ep, res.err), m.witness(cs, res, nil))
			}
		default:
			what := fmt.Sprintf("exit status %d", cs.Script.Exit)
			if cs.Script.Signal != "" {
				what = "death by SIG" + cs.Script.Signal
				r.ObsSet("signals", cs.Script.Signal)
				r.Obs("signal_deaths_judged", 1)
			} else {
				r.ObsSet("exit_statuses", fmt.Sprint(cs.Script.Exit))
				r.Obs("exit_nonzero_judged", 1)
			}
			if res.err == nil {
				r.Violation(vrun.Sig{"ep": ep, "pre": pre, "effect": "nil returned"},
					fmt.Sprintf("%s returned nil for a child that ended with %s", ep, what), m.witness(cs, res, map[string]any{"child_end": what}))
			}
		}
	}

	// ---- partition of the received messages
	var gotOut, gotErr []string
	var own []recMsg
	minChild, maxChild := -1, -1
	for _, msg := range res.msgs {
		if m.isOwn(cs, res, msg) {
			own = append(own, msg)
			continue
		}
		if minChild < 0 {
			minChild = msg.seq
		}
		maxChild = msg.seq
		if msg.isErr {
			gotErr = append(gotErr, msg.text)
		} else {
			gotOut = append(gotOut, msg.text)
		}
	}

	// ---- every line reaches its logger, complete, unmodified, in order (not judged for cancelled runs:
	// the child is killed at an arbitrary point of its output as far as the property is concerned)
	streamsOK := true
	if !cancelMode {
		for s := 1; s <= 2; s++ {
			exp, got, name := exp1, gotOut, "stdout"
			if s == 2 {
				exp, got, name = exp2, gotErr, "stderr"
			}
			r.Obs("streams_judged", 1)
			r.Obs("lines_judged", int64(len(exp)))
			r.Obs("bytes_judged", int64(len(data[s])))
			mm := compareStream(exp, got)
			if mm == nil {
				continue
			}
			streamsOK = false
			pre := ""
			extra := map[string]any{"stream": name, "mismatch": mm}
			if mm.Effect == "line split" {
				f := facts[s][mm.LineIndex]
				pre = splitPre(f)
				extra["line_facts"] = map[string]any{"writes": f.writes, "pause_inside": f.pauseInside, "length": f.length, "stream_bytes": f.streamBytes}
			} else {
				switch {
				case len(data[s]) > 65536:
					pre = "stream larger than 64 KiB"
				case len(data[s]) == 0:
					pre = "empty stream"
				default:
					pre = "stream up to 64 KiB"
				}
			}
			logger := "output logger"
			if s == 2 {
				logger = "error logger"
			}
			r.Violation(vrun.Sig{"ep": ep, "pre": pre, "effect": mm.Effect},
				fmt.Sprintf("%s: %s line %d (%d bytes; %s) did not reach the %s as one unmodified message: %s (%d lines expected, %d messages received)",
					ep, name, mm.LineIndex, mm.ExpLen, pre, logger, mm.Effect, mm.NExpected, mm.NGot),
				m.witness(cs, res, extra))
		}
		r.Obs("lines_written_in_2+_writes", int64(multi))
		r.Obs("lines_with_a_pause_inside", int64(paused))
		r.Obs("lines_longer_than_4KiB", int64(long))
		r.ObsMax("max_line_length", int64(maxLen))
		r.ObsMax("max_stream_bytes", int64(max(len(data[1]), len(data[2]))))
		for k, v := range cs.labels {
			r.Obs(k, int64(v))
		}
		if len(data[1]) > 0 && len(data[2]) > 0 {
			r.Obs("cases_with_both_streams", 1)
		}
	}

	// ---- Output() returns all of it
	if ep == "Output" && !cancelMode {
		r.Obs("output_results_judged", 1)
		var lines []string
		for _, l := range strings.Split(res.output, "\n") {
			if l != "" {
				lines = append(lines, l)
			}
		}
		want1, want2, ref := exp1, exp2, "the lines the child wrote"
		if !streamsOK {
			// already reported at the loggers: judge Output() against what the loggers received so that the
			// same discrepancy is not counted twice and a different one is still seen
			want1, want2, ref = gotOut, gotErr, "the messages the loggers received"
		}
		if !isSubsequence(want1, lines) || !isSubsequence(want2, lines) {
			which := "stdout"
			if isSubsequence(want1, lines) {
				which = "stderr"
			}
			r.Violation(vrun.Sig{"ep": "Output", "pre": "reference: " + ref, "effect": "Output() does not contain every line"},
				fmt.Sprintf("Output() returned %d non-empty lines (%d bytes) which do not contain, in order, the %d %s lines of %s",
					len(lines), len(res.output), map[string]int{"stdout": len(want1), "stderr": len(want2)}[which], which, ref),
				m.witness(cs, res, map[string]any{"output_lines": len(lines), "output_bytes": len(res.output), "output_head": abbreviate(res.output)}))
		}
	}

	// ---- start message before, exactly one success/failure message after, the child's own output
	if ep == "Execute" {
		r.Obs("start_end_messages_judged", 1)
		pre := exitPre(cs, res)
		var starts, ends []recMsg
		if cs.Mode == "execute-default-msgs" {
			// wording unknown by design: the first own message is the start message, the others are end messages
			if len(own) > 0 {
				starts = own[:1]
				ends = own[1:]
			}
		} else {
			for _, msg := range own {
				if msg.text == res.tokStart {
					starts = append(starts, msg)
				} else {
					ends = append(ends, msg)
				}
			}
		}
		switch {
		case len(starts) == 0:
			r.Violation(vrun.Sig{"ep": ep, "pre": pre, "effect": "start message missing"},
				"Execute did not log the start message", m.witness(cs, res, nil))
		case minChild >= 0 && starts[0].seq > minChild:
			r.Violation(vrun.Sig{"ep": ep, "pre": pre, "effect": "start message after child output"},
				fmt.Sprintf("the start message is message #%d but the child's first line is message #%d", starts[0].seq, minChild), m.witness(cs, res, nil))
		}
		switch {
		case len(ends) == 0:
			r.Violation(vrun.Sig{"ep": ep, "pre": pre, "effect": "no success/failure message"},
				"Execute logged neither the success nor the failure message", m.witness(cs, res, nil))
		case len(ends) > 1:
			r.Violation(vrun.Sig{"ep": ep, "pre": pre, "effect": "several success/failure messages"},
				fmt.Sprintf("Execute logged %d success/failure messages", len(ends)), m.witness(cs, res, nil))
		case ends[0].seq < maxChild:
			r.Violation(vrun.Sig{"ep": ep, "pre": pre, "effect": "success/failure message before the end of the child's output"},
				fmt.Sprintf("the success/failure message is message #%d but the child's last line is message #%d", ends[0].seq, maxChild), m.witness(cs, res, nil))
		default:
			// not demanded by the statement, only observed: the kind of end message agrees with the returned error
			if cs.Mode != "execute-default-msgs" {
				if (ends[0].text == res.tokOK) == (res.err == nil) {
					r.Obs("end_message_kind_agrees_with_error", 1)
				} else {
					r.Obs("end_message_kind_DISAGREES_with_error", 1)
				}
			}
		}
	}

	if m.verbose {
		fmt.Printf("case %d (%s %q) mode=%s exit=%d sig=%q: err=%v, %d messages (%d own), stdout %d lines expected / %d received, stderr %d / %d, output %d bytes\n",
			cs.Index, cs.Family, cs.Name, cs.Mode, cs.Script.Exit, cs.Script.Signal, res.err, len(res.msgs), len(own), len(exp1), len(gotOut), len(exp2), len(gotErr), len(res.output))
		for _, msg := range own {
			fmt.Printf("   own #%d err=%v %s\n", msg.seq, msg.isErr, abbreviate(msg.text))
		}
	}
	if r.WantSample() && cs.Family == "random" {
		r.Sample(map[string]any{"case_index": cs.Index, "mode": cs.Mode, "exit": cs.Script.Exit, "signal": cs.Script.Signal,
			"writes": len(cs.Script.Ops), "stdout_bytes": len(data[1]), "stderr_bytes": len(data[2]),
			"stdout_lines": len(exp1), "stderr_lines": len(exp2), "lines_in_2+_writes": multi, "lines_with_pause_inside": paused,
			"max_line_length": maxLen, "returned_error": fmt.Sprint(res.err), "messages_received": len(res.msgs)})
	}
}

// ---------------------------------------------------------------------------------------------
// trusted base: the helper child does what the script says (checked without the library)

func (m *monitor) selfTest() {
	type tc struct {
		sc      script
		wantSig syscall.Signal
	}
	payload := []byte("a\xc3")
	tests := []tc{
		{script{Ops: []op{{S: 1, B: payload}, {S: 2, B: []byte("err\n"), P: 5}, {S: 1, B: []byte("\xa9\nb")}}, Exit: 0}, 0},
		{script{Ops: []op{{S: 1, B: bytes.Repeat([]byte("x"), 200_000)}}, Exit: 42}, 0},
		{script{Ops: []op{{S: 2, B: []byte("k\n")}}, Signal: "KILL"}, syscall.SIGKILL},
		{script{Ops: []op{{S: 2, B: []byte("t\n")}}, Signal: "TERM"}, syscall.SIGTERM},
		{script{Ops: []op{{S: 1, B: []byte("s\n")}}, Signal: "SEGV"}, syscall.SIGSEGV},
	}
	for i, t := range tests {
		sp := filepath.Join(m.dir, fmt.Sprintf("selftest%d.json", i))
		t.sc.Done = sp + ".done"
		b, _ := json.Marshal(&t.sc)
		if err := os.WriteFile(sp, b, 0o644); err != nil {
			m.r.Fatalf("selftest: %v", err)
		}
		cmd := exec.Command(m.exe, emitFlag, sp)
		var so, se bytes.Buffer
		cmd.Stdout, cmd.Stderr = &so, &se
		err := cmd.Run()
		var w1, w2 []byte
		for _, o := range t.sc.Ops {
			if o.S == 1 {
				w1 = append(w1, o.B...)
			} else {
				w2 = append(w2, o.B...)
			}
		}
		if !bytes.Equal(so.Bytes(), w1) || !bytes.Equal(se.Bytes(), w2) {
			m.r.Fatalf("helper self-test %d: the child's output differs from its script (stdout %d/%d bytes, stderr %d/%d bytes: %q)", i, so.Len(), len(w1), se.Len(), len(w2), abbreviate(se.String()))
		}
		ws, _ := cmd.ProcessState.Sys().(syscall.WaitStatus)
		switch {
		case t.wantSig != 0:
			if !ws.Signaled() || ws.Signal() != t.wantSig {
				m.r.Fatalf("helper self-test %d: expected death by %v, got %v (%v)", i, t.wantSig, cmd.ProcessState, err)
			}
		default:
			if !ws.Exited() || ws.ExitStatus() != t.sc.Exit {
				m.r.Fatalf("helper self-test %d: expected exit %d, got %v (%v)", i, t.sc.Exit, cmd.ProcessState, err)
			}
		}
		d := readDone(t.sc.Done)
		if d == nil || d.Wrote1 != len(w1) || d.Wrote2 != len(w2) || d.WriteErr != "" {
			m.r.Fatalf("helper self-test %d: bad completion record %+v", i, d)
		}
		os.Remove(sp)
		os.Remove(t.sc.Done)
		m.r.Obs("helper_selftests_passed", 1)
	}
	// oracle self-test: the comparison classifies known shapes correctly
	type ct struct {
		exp, got []string
		want     string
	}
	for i, c := range []ct{
		{[]string{"a", "b"}, []string{"a", "b"}, ""},
		{[]string{"a\r", "b"}, []string{"a", "b"}, ""},
		{[]string{"hello world"}, []string{"hello wor", "ld"}, "line split"},
		{[]string{"a", "b"}, []string{"a"}, "lines lost at the end"},
		{[]string{"a", "b", "c"}, []string{"a", "c"}, "line lost"},
		{[]string{"a", "b"}, []string{"ab"}, "lines merged"},
		{[]string{"a", "b"}, []string{"a", "x", "b"}, "unexpected extra message"},
		{[]string{" a "}, []string{"a"}, "line modified (bytes added or removed)"},
		{[]string{"a"}, []string{"a", "zz"}, "extra messages after the last line"},
		{nil, nil, ""},
	} {
		mm := compareStream(c.exp, c.got)
		got := ""
		if mm != nil {
			got = mm.Effect
		}
		if got != c.want {
			m.r.Fatalf("oracle self-test %d: compareStream(%q,%q) = %q, want %q", i, c.exp, c.got, got, c.want)
		}
	}
}

// ---------------------------------------------------------------------------------------------

func main() {
	if len(os.Args) >= 3 && os.Args[1] == emitFlag {
		emitMain(os.Args[2])
		return
	}
	if os.Getenv(guardEnv) != "" {
		// a child started without the emit arguments must never start a monitor of its own
		fmt.Fprintln(os.Stderr, "c18: refusing to run the monitor recursively")
		os.Exit(97)
	}
	os.Setenv(guardEnv, "1")

	r := vrun.Start("C18", "exploration")
	var deadlocks atomic.Int64
	deadlock.Opts.OnPotentialDeadlock = func() { deadlocks.Add(1) } // default would be os.Exit(2) of the monitor

	exe, err := os.Executable()
	if err != nil {
		r.Fatalf("os.Executable: %v", err)
	}
	m := &monitor{r: r, exe: exe, dir: vrun.Scratch("c18"), verbose: os.Getenv("C18_VERBOSE") != ""}
	defer os.RemoveAll(m.dir)

	r.Rule("one case = one script played by the helper child through one library entry point. Fixed family: 33 seed-independent minimal scripts (run at every seed and tier). " +
		"Seeded list (pure function of VERIF_SEED and the index, quick is a prefix of thorough): cases 0..255 sweep the exit statuses 0..255; later cases draw exit 0 (50%), 1..255 (28%) or death by SIGKILL/SIGTERM/SIGSEGV (22%); " +
		"mode drawn from Execute, Execute with default messages, ExecuteWithEnvironment, New+Execute, NewWithEnvironment+Execute, Output, OutputWithEnvironment, Start+Stop, and cancelled runs (context cancel, Cancel(), context deadline; the child sleeps 120 s after its script). " +
		"Per stream: volume 0..10^6 bytes; lines of length 1, 2..80, 81..4096, 4097..32768, 32769..65536, 65537..100000 of printable ASCII, UTF-8 with multi-byte runes or arbitrary bytes; LF or CRLF terminators, runs of empty lines, final line with or without LF; " +
		"write boundaries: whole stream, per line, random chunks (1..16, 1..300, 100..5000, 3000..70000), byte-wise, plus targeted cuts (right before LF, between CR and LF, after first / before last byte, inside a multi-byte rune, anywhere); pauses of 1..30 ms after up to 5 writes, preferably inside a line; the two streams sequential, alternating or randomly merged. " +
		"Non-trivial: the child ends with a non-zero status / a signal / is cancelled, or some line is written in two or more writes, or some line is longer than 4096 bytes. Distinct: hash of (mode, exit, signal, all writes with their bytes and pauses).")
	r.Assume("the helper child writes exactly its script and ends as requested (checked at start-up without the library, and per case through the child's completion record)",
		"the kernel pipe delivers bytes in order and keeps data written before the writer died",
		"the library's own messages are recognised by the texts passed to it (start/success/failure), by the command path for the default texts, and by the pid for Started/Stopping (Start+Stop only); the child's output never contains these",
		"a trailing CR of a line (CRLF terminators) is accepted with or without the CR; lines consisting of a CR alone are never generated",
		"cancelled runs: only the returned error and the start/end messages are judged (how much output of a killed child is delivered is not stated)",
		"Start+Stop has no exit status in its API: only the delivered lines are judged there; start/end message placement is judged for Execute only",
		"that the success message goes with nil and the failure message with an error is observed, not demanded (the statement only says exactly one of them)")

	m.selfTest()

	fixed := fixedCases()
	if r.Replay != "" {
		var w struct {
			Seed      int64 `json:"seed"`
			CaseIndex int   `json:"case_index"`
		}
		if err := r.ReadReplay(&w); err != nil {
			r.Fatalf("replay: %v", err)
		}
		if w.Seed != r.Seed {
			r.Fatalf("replay: the witness was produced with VERIF_SEED=%d (now %d): set VERIF_SEED=%d", w.Seed, r.Seed, w.Seed)
		}
		m.verbose = true
		var cs *caseSpec
		if w.CaseIndex < 0 {
			if -1-w.CaseIndex >= len(fixed) {
				r.Fatalf("replay: no fixed case %d", w.CaseIndex)
			}
			cs = fixed[-1-w.CaseIndex]
		} else {
			cs = genCase(r.Rand("c18-case", w.CaseIndex), w.CaseIndex, true)
		}
		m.judge(cs, m.run(cs))
		os.RemoveAll(m.dir)
		r.Finish()
	}

	n := r.Pick(1500, 40000)
	total := len(fixed) + n
	// the cases with the largest pauses/volumes are spread by the index order; each case is one child process
	vrun.Parallel(total, 0, func(k int) {
		var cs *caseSpec
		if k < len(fixed) {
			cs = fixed[k]
		} else {
			i := k - len(fixed)
			cs = genCase(r.Rand("c18-case", i), i, r.Quick())
		}
		res := m.run(cs)
		m.judge(cs, res)
	})
	if d := deadlocks.Load(); d > 0 {
		r.Obs("go_deadlock_reports", d)
		r.Inconclusive("go-deadlock reported a potential deadlock inside the library (lock wait > 30 s)")
	}

	r.Require("exit_statuses", 256)
	r.Require("signals", 3)
	r.Require("modes", 11)
	r.Require("cancelled_runs_judged", 3)
	r.Require("lines_judged", 10_000)
	r.Require("bytes_judged", 10_000_000)
	r.Require("lines_written_in_2+_writes", 500)
	r.Require("lines_with_a_pause_inside", 50)
	r.Require("lines_longer_than_4KiB", 100)
	r.Require("max_line_length", 65_537)
	r.Require("max_stream_bytes", 900_000)
	r.Require("cut_inside_rune", 10)
	r.Require("cut_right_before_lf", 10)
	r.Require("cut_between_cr_lf", 3)
	r.Require("final_unterminated", 10)
	r.Require("output_results_judged", 40)
	r.Require("start_end_messages_judged", 100)
	r.Require("extra_env_seen_by_child", 20)
	r.Require("cases_with_both_streams", 100)
	r.Require("distinct_nontrivial", 200)
	os.RemoveAll(m.dir)
	r.Finish()
}
