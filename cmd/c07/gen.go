package main

import (
	"archive/zip"
	"bytes"
	"fmt"
	"math/rand/v2"
	"sort"
	"strings"
	"time"
	"unicode/utf8"

	"verif/internal/treegen"
	"verif/internal/vrun"
)

// ---------------------------------------------------------------------------------------------
// names

var nameClasses = []string{
	"plain", "space", "leading-dot", "single-dots", "dotdot-inside", "dotdot-lead", "dotdot-trail", "only-dots",
	"unicode-nfc", "unicode-nfd", "cjk", "emoji", "meta", "backslash", "long", "zip-ext", "mixed",
}

const letters = "abcdefghijklmnopqrstuvwxyzABCDEFGHIJKLMNOPQRSTUVWXYZ0123456789"
const shellMeta = "$&;|<>()'\"`*?[]{}~!#%^=+,@:-"

func word(rng *rand.Rand, lo, hi int) string {
	n := lo + rng.IntN(hi-lo+1)
	b := make([]byte, n)
	for i := range b {
		b[i] = letters[rng.IntN(len(letters))]
	}
	return string(b)
}

func pick(rng *rand.Rand, l []string) string { return l[rng.IntN(len(l))] }

// genName returns one legal (Linux) file name of the requested class: no '/', no NUL, not "." or "..",
// valid UTF-8, at most 255 bytes.
func genName(rng *rand.Rand, class string) string {
	var s string
	switch class {
	case "plain":
		s = word(rng, 1, 12)
		if rng.IntN(3) == 0 {
			s += pick(rng, []string{".txt", ".bin", ".c", ".tar", ".d"})
		}
	case "space":
		s = pick(rng, []string{"a b", " lead", "trail ", "two  spaces", " ", "a b c.txt", "Program Files", "x .y"})
		if rng.IntN(2) == 0 {
			s = word(rng, 1, 4) + " " + word(rng, 1, 4)
		}
	case "leading-dot":
		s = "." + word(rng, 1, 8)
	case "single-dots":
		s = pick(rng, []string{"a.b.c", "x.", "v1.2.3", ".a.b", "a.b.", "x.y.z.txt"})
		if rng.IntN(2) == 0 {
			s = word(rng, 1, 3) + "." + word(rng, 1, 3) + "." + word(rng, 1, 3)
		}
	case "dotdot-inside":
		s = pick(rng, []string{"a..b", "x..y.txt", "v1..2", "a...b", "a..b..c"})
		if rng.IntN(2) == 0 {
			s = word(rng, 1, 4) + ".." + word(rng, 1, 4)
		}
	case "dotdot-lead":
		s = ".." + word(rng, 1, 6)
	case "dotdot-trail":
		s = word(rng, 1, 6) + ".."
	case "only-dots":
		s = strings.Repeat(".", 3+rng.IntN(3))
	case "unicode-nfc":
		s = pick(rng, []string{"\u00e9t\u00e9", "na\u00efve.txt", "\u00c5ngstr\u00f6m", "\u00fcber", "caf\u00e9"})
	case "unicode-nfd":
		s = pick(rng, []string{"e\u0301te\u0301", "nai\u0308ve.txt", "A\u030angstro\u0308m", "u\u0308ber", "cafe\u0301"})
	case "cjk":
		s = pick(rng, []string{"日本語", "中文文件名.txt", "한국어", "ไป ไหน มา.txt", "файл", "קובץ", "ملف"})
	case "emoji":
		s = pick(rng, []string{"😀", "📁docs", "a👍b.txt", "🇫🇷", "👨‍👩‍👧"})
	case "meta":
		n := 1 + rng.IntN(6)
		var b strings.Builder
		for i := 0; i < n; i++ {
			if rng.IntN(3) == 0 {
				b.WriteString(word(rng, 1, 2))
			}
			b.WriteByte(shellMeta[rng.IntN(len(shellMeta))])
		}
		s = b.String()
	case "backslash":
		s = pick(rng, []string{"a\\b", "\\lead", "trail\\", "C:\\x", "a\\\\b"})
	case "long":
		n := 200 + rng.IntN(56)
		if rng.IntN(3) == 0 {
			n = 255
		}
		if rng.IntN(4) == 0 {
			// long multi-byte name: 3-byte runes, at most 255 bytes
			s = strings.Repeat("語", n/3)
		} else {
			s = word(rng, n, n)
		}
	case "zip-ext":
		s = word(rng, 1, 6) + pick(rng, []string{".zip", ".gz", ".jar", ".tgz", ".7z", ".xz", ".z", ".pack", ".ZIP", ".tar.gz"})
	case "mixed":
		parts := []string{genName(rng, "leading-dot"), genName(rng, "unicode-nfd"), genName(rng, "meta"), genName(rng, "space"), genName(rng, "cjk"), genName(rng, "single-dots")}
		s = parts[rng.IntN(len(parts))] + parts[rng.IntN(len(parts))]
	default:
		s = word(rng, 1, 8)
	}
	if s == "." || s == ".." || s == "" || len(s) > 255 || strings.ContainsAny(s, "/\x00") || !utf8.ValidString(s) {
		return "n" + word(rng, 1, 6)
	}
	return s
}

// classify re-derives the observable name classes of a component (used for evidence and for the
// non-triviality predicate; independent of the class requested from the generator).
func classify(name string) []string {
	var c []string
	if strings.Contains(name, "..") {
		c = append(c, "contains-dotdot")
	}
	if strings.HasPrefix(name, ".") {
		c = append(c, "leading-dot")
	}
	if strings.Contains(name, ".") {
		c = append(c, "dotted")
	}
	if strings.Contains(name, " ") {
		c = append(c, "space")
	}
	if strings.ContainsAny(name, shellMeta+"\\") {
		c = append(c, "meta")
	}
	for _, r := range name {
		if r > 127 {
			c = append(c, "unicode")
			break
		}
	}
	if len(name) >= 200 {
		c = append(c, "long")
	}
	return c
}

// ---------------------------------------------------------------------------------------------
// cases

type caseSpec struct {
	Index     int            `json:"index"`
	Backend   string         `json:"backend"` // os | mem
	ZipEP     string         `json:"zip_entry_point"`
	ZipLimits string         `json:"zip_limits"`
	UnzipEP   string         `json:"unzip_entry_point"`
	Limits    string         `json:"unzip_limits"`
	ViewLim   string         `json:"view_limits"`
	MaxDepth  int            `json:"max_depth"`
	Sweeps    bool           `json:"sweeps"` // read-only and closed sweeps run on this case
	Nodes     []treegen.Node `json:"tree"`
	classes   map[string]bool
	reqClass  map[string]bool
}

var zipEPs = []string{"Zip", "ZipWithContext", "ZipWithContextAndLimits", "ZipWithContextAndLimitsAndExclusionPatterns"}
var unzipEPs = []string{"Unzip", "UnzipWithContext", "UnzipWithContextAndLimits"}
var limitNames = []string{"none", "default-recursive", "non-recursive"}

var (
	tLo = time.Date(1980, 1, 2, 0, 0, 0, 0, time.UTC).Unix()
	tHi = time.Date(2100, 12, 31, 0, 0, 0, 0, time.UTC).Unix()
)

func genMTime(rng *rand.Rand) time.Time {
	var sec int64
	switch rng.IntN(12) {
	case 0:
		sec = time.Date(2038, 1, 19, 3, 14, 6+rng.IntN(4), 0, time.UTC).Unix() // around the int32 boundary of unix seconds
	case 1:
		sec = time.Date(1999, 12, 31, 23, 59, 58+rng.IntN(2), 0, time.UTC).Unix()
	case 2:
		sec = tLo + rng.Int64N(86400*30) // first days of the DOS era
	case 3:
		sec = tHi - rng.Int64N(86400*365)
	default:
		sec = tLo + rng.Int64N(tHi-tLo)
	}
	var ns int64
	switch rng.IntN(5) {
	case 0:
		ns = 0
	case 1:
		ns = 999_999_999
	case 2:
		ns = 500_000_000
	default:
		ns = rng.Int64N(1_000_000_000)
	}
	return time.Unix(sec, ns).UTC()
}

func fill(rng *rand.Rand, b []byte) {
	i := 0
	for ; i+8 <= len(b); i += 8 {
		v := rng.Uint64()
		b[i], b[i+1], b[i+2], b[i+3], b[i+4], b[i+5], b[i+6], b[i+7] = byte(v), byte(v>>8), byte(v>>16), byte(v>>24), byte(v>>32), byte(v>>40), byte(v>>48), byte(v>>56)
	}
	for ; i < len(b); i++ {
		b[i] = byte(rng.Uint32())
	}
}

func genContent(rng *rand.Rand, size int, kind string) []byte {
	b := make([]byte, size)
	switch kind {
	case "random":
		fill(rng, b)
	case "zeros":
	default: // compressible text with a random first byte
		pat := []byte("the quick brown fox jumps over the lazy dog\n")
		for i := 0; i < size; i += len(pat) {
			copy(b[i:], pat)
		}
		if size > 0 {
			b[0] = byte(rng.IntN(256))
		}
	}
	return b
}

// a real (small) zip archive used as file content when the extraction is not recursive
func nestedZipContent(rng *rand.Rand) []byte {
	var buf bytes.Buffer
	w := zip.NewWriter(&buf)
	f, _ := w.Create("inner.txt")
	_, _ = f.Write([]byte(word(rng, 5, 40)))
	_ = w.Close()
	return buf.Bytes()
}

// archiveBaseName is the name of the archive every tree is zipped into (main.go: <sandbox>/tree.zip).
const archiveBaseName = "tree.zip"

func genCase(r *vrun.Run, idx int) caseSpec {
	rng := r.Rand("c07", idx)
	c := caseSpec{Index: idx, Backend: "os", classes: map[string]bool{}, reqClass: map[string]bool{}}
	if idx%3 == 2 {
		c.Backend = "mem"
	}
	c.ZipEP = zipEPs[rng.IntN(len(zipEPs))]
	c.ZipLimits = limitNames[rng.IntN(len(limitNames))]
	c.UnzipEP = unzipEPs[rng.IntN(len(unzipEPs))]
	c.Limits = limitNames[rng.IntN(len(limitNames))]
	if c.UnzipEP != "UnzipWithContextAndLimits" {
		c.Limits = "none"
	}
	if c.ZipEP == "Zip" || c.ZipEP == "ZipWithContext" {
		c.ZipLimits = "none"
	}
	c.ViewLim = limitNames[rng.IntN(len(limitNames))]
	c.Sweeps = idx%3 != 1

	// shape
	c.MaxDepth = rng.IntN(7) // 0..6
	var target int
	switch x := rng.IntN(100); {
	case x < 3:
		target = 0
	case x < 45:
		target = 1 + rng.IntN(10)
	case x < 85:
		target = 10 + rng.IntN(50)
	default:
		target = 60 + rng.IntN(141)
	}
	if c.MaxDepth == 0 {
		target = 0
	}
	big := rng.IntN(r.Pick(12, 6)) == 0
	huge := !r.Quick() && idx == 7 // one 64 MiB file in the thorough tier
	if huge {
		c.Backend = "os"
	}
	// which special name classes this tree draws from; names containing ".." only in a quarter of the trees
	palette := []string{"plain", "plain", "plain"}
	nSpecial := rng.IntN(5)
	for k := 0; k < nSpecial; k++ {
		palette = append(palette, nameClasses[rng.IntN(len(nameClasses))])
	}
	allowDotDot := idx%4 == 0
	if !allowDotDot {
		p2 := palette[:0]
		for _, p := range palette {
			if !strings.HasPrefix(p, "dotdot") && p != "only-dots" {
				p2 = append(p2, p)
			}
		}
		palette = p2
	} else if rng.IntN(2) == 0 {
		palette = append(palette, []string{"dotdot-inside", "dotdot-lead", "dotdot-trail", "only-dots"}[rng.IntN(4)])
	}
	recursiveUnzip := c.Limits == "default-recursive"
	usedArchiveName := false

	type dirRec struct {
		path  string
		depth int
		names map[string]bool
	}
	dirs := []*dirRec{{path: "", depth: 0, names: map[string]bool{}}}
	var totalBytes, bigFiles int
	budget := r.Pick(6<<20, 24<<20)
	for len(c.Nodes) < target {
		var parent *dirRec
		if rng.IntN(10) < 4 {
			parent = dirs[len(dirs)-1] // keep descending
		} else {
			parent = dirs[rng.IntN(len(dirs))]
		}
		if parent.depth >= c.MaxDepth {
			parent = dirs[0]
		}
		cls := palette[rng.IntN(len(palette))]
		name := genName(rng, cls)
		if !recursiveUnzip && !usedArchiveName && idx%6 == 1 && len(c.Nodes) >= 1 && rng.IntN(3) == 0 {
			// an entry named like the archive the tree is zipped into (the archive itself is written elsewhere)
			name, usedArchiveName = archiveBaseName, true
		}
		if parent.names[name] {
			name = genName(rng, "plain") + fmt.Sprint(len(c.Nodes))
		}
		p := name
		if parent.path != "" {
			p = parent.path + "/" + name
		}
		if len(p) > 2500 {
			continue
		}
		parent.names[name] = true
		c.reqClass[cls] = true
		for _, k := range classify(name) {
			c.classes[k] = true
		}
		depth := parent.depth + 1
		isDir := rng.IntN(100) < 35 || (cls == "zip-ext" && rng.IntN(4) == 0)
		n := treegen.Node{Path: p, MTime: genMTime(rng)}
		if isDir {
			n.Kind, n.Mode = "dir", 0o755
			if depth < c.MaxDepth {
				dirs = append(dirs, &dirRec{path: p, depth: depth, names: map[string]bool{}})
			}
		} else {
			n.Kind, n.Mode = "file", 0o644
			var size int
			switch x := rng.IntN(100); {
			case x < 15:
				size = 0
			case x < 55:
				size = 1 + rng.IntN(64)
			case x < 85:
				size = 1 + rng.IntN(8<<10)
			case x < 96:
				size = 1 + rng.IntN(256<<10)
			default:
				size = 1 + rng.IntN(1<<20)
			}
			if big && bigFiles < 2 && rng.IntN(4) == 0 {
				size = 1<<20 + rng.IntN(3<<20+1) // 1..4 MiB
				if rng.IntN(3) == 0 {
					size = 4 << 20
				}
				bigFiles++
			}
			if huge && bigFiles < 3 {
				size = 64 << 20
				bigFiles = 3
			}
			if totalBytes+size > budget && size < 32<<20 {
				size = rng.IntN(64)
			}
			totalBytes += size
			kind := []string{"text", "random", "text", "random", "zeros"}[rng.IntN(5)]
			n.Content = genContent(rng, size, kind)
			if !recursiveUnzip && rng.IntN(40) == 0 {
				n.Content = nestedZipContent(rng) // a real archive as content (never expanded: extraction is not recursive)
				c.classes["content-is-zip"] = true
			}
			n.Size = len(n.Content)
		}
		c.Nodes = append(c.Nodes, n)
	}
	return c
}

func (c *caseSpec) canonical() string {
	var b strings.Builder
	fmt.Fprintf(&b, "%s|%s|%s|%s|%s|%s|", c.Backend, c.ZipEP, c.ZipLimits, c.UnzipEP, c.Limits, c.ViewLim)
	for _, n := range c.Nodes {
		fmt.Fprintf(&b, "%s:%s:%d:%d;", n.Path, n.Kind, n.Size, n.MTime.UnixNano())
	}
	return b.String()
}

// treeFacts: depth reached, empty files, empty dirs, whether a component contains "..".
type treeFacts struct {
	Depth, Files, Dirs, EmptyFiles, EmptyDirs int
	DotDot                                    bool
	MaxSize                                   int
}

func facts(nodes []treegen.Node) treeFacts {
	var f treeFacts
	hasChild := map[string]bool{}
	for _, n := range nodes {
		if i := strings.LastIndex(n.Path, "/"); i >= 0 {
			hasChild[n.Path[:i]] = true
		}
		d := strings.Count(n.Path, "/") + 1
		if d > f.Depth {
			f.Depth = d
		}
		for _, comp := range strings.Split(n.Path, "/") {
			if strings.Contains(comp, "..") {
				f.DotDot = true
			}
		}
	}
	for _, n := range nodes {
		if n.Kind == "dir" {
			f.Dirs++
			if !hasChild[n.Path] {
				f.EmptyDirs++
			}
		} else {
			f.Files++
			if n.Size == 0 {
				f.EmptyFiles++
			}
			if n.Size > f.MaxSize {
				f.MaxSize = n.Size
			}
		}
	}
	return f
}

func sortedKeys(m map[string]bool) []string {
	l := make([]string, 0, len(m))
	for k := range m {
		l = append(l, k)
	}
	sort.Strings(l)
	return l
}
