package main

import (
	"bytes"
	"context"
	"fmt"
	"os"
	"os/user"
	"reflect"
	"sort"
	"strings"
	"time"

	"github.com/ARM-software/golang-utils/utils/commonerrors"
	"github.com/ARM-software/golang-utils/utils/filesystem"
	"github.com/ARM-software/golang-utils/utils/hashing"
)

// Classification of every method of filesystem.FS for the two sweeps.
//
// closed sweep (after Close()):
//
//	cCond  direct accessor: must fail with the 'failed condition' kind
//	cFail  needs the archive (composite or mutating call): must fail, kind is a don't-care
//	cBool  bool-only call: must answer false
//	cDC    does not (clearly) need the archive: called, result ignored
//
// read-only sweep (before Close()):
//
//	roMut   a call whose arguments require a real mutation: must return an error, nothing may change
//	roQuiet would mutate but swallows errors by design / crashes outside the property: not called (see main.go rule)
//	roNone  not a mutating call
const (
	cCond = iota
	cFail
	cBool
	cDC
)
const (
	roNone = iota
	roMut
	roQuiet
)

type env struct {
	fs     filesystem.FS
	ctx    context.Context
	f      string // an existing regular file of the view
	d      string // an existing non-empty directory of the view (the parent of f)
	seq    int
	fh, dh filesystem.File // handles opened before Close()
	usr    *user.User
}

// fresh returns a path that does not exist in the view.
func (e *env) fresh() string {
	e.seq++
	return fmt.Sprintf("/c07-new-%d", e.seq)
}

type outcome struct {
	err    error
	noErr  bool // the method has no error result
	b      *bool
	panicv any
}

type spec struct {
	name   string // Method or Method#variant
	closed int
	ro     int
	call   func(e *env) outcome
}

func (s spec) method() string {
	if i := strings.Index(s.name, "#"); i >= 0 {
		return s.name[:i]
	}
	return s.name
}

func oe(err error) outcome { return outcome{err: err} }

func closeIf(f interface{ Close() error }, err error) {
	if err == nil && f != nil {
		_ = f.Close()
	}
}

var walkNop = func(string, os.FileInfo, error) error { return nil }
var payload = []byte("c07 payload")

func specs() []spec {
	nl := filesystem.NoLimits()
	t0 := time.Date(2001, 2, 3, 4, 5, 6, 0, time.UTC)
	return []spec{
		// ---- open family
		{"Open", cCond, roNone, func(e *env) outcome { f, err := e.fs.Open(e.f); closeIf(f, err); return oe(err) }},
		{"GenericOpen", cCond, roNone, func(e *env) outcome { f, err := e.fs.GenericOpen(e.f); closeIf(f, err); return oe(err) }},
		{"OpenFile", cCond, roNone, func(e *env) outcome {
			f, err := e.fs.OpenFile(e.f, os.O_RDONLY, 0o600)
			closeIf(f, err)
			return oe(err)
		}},
		{"OpenFile#O_RDWR", cCond, roMut, func(e *env) outcome { f, err := e.fs.OpenFile(e.f, os.O_RDWR, 0o600); closeIf(f, err); return oe(err) }},
		{"OpenFile#O_WRONLY|O_APPEND", cCond, roMut, func(e *env) outcome {
			f, err := e.fs.OpenFile(e.f, os.O_WRONLY|os.O_APPEND, 0o600)
			closeIf(f, err)
			return oe(err)
		}},
		{"OpenFile#O_WRONLY|O_CREATE|O_TRUNC-new", cCond, roMut, func(e *env) outcome {
			f, err := e.fs.OpenFile(e.fresh(), os.O_WRONLY|os.O_CREATE|os.O_TRUNC, 0o600)
			closeIf(f, err)
			return oe(err)
		}},
		{"OpenFile#O_TRUNC-existing", cCond, roMut, func(e *env) outcome {
			f, err := e.fs.OpenFile(e.f, os.O_WRONLY|os.O_TRUNC, 0o600)
			closeIf(f, err)
			return oe(err)
		}},
		{"CreateFile", cFail, roMut, func(e *env) outcome { f, err := e.fs.CreateFile(e.fresh()); closeIf(f, err); return oe(err) }},
		{"CreateFile#existing", cFail, roMut, func(e *env) outcome { f, err := e.fs.CreateFile(e.f); closeIf(f, err); return oe(err) }},
		// ---- stat family
		{"Stat", cCond, roNone, func(e *env) outcome { _, err := e.fs.Stat(e.f); return oe(err) }},
		{"Stat#dir", cCond, roNone, func(e *env) outcome { _, err := e.fs.Stat(e.d); return oe(err) }},
		{"Lstat", cCond, roNone, func(e *env) outcome { _, err := e.fs.Lstat(e.f); return oe(err) }},
		{"StatTimes", cCond, roNone, func(e *env) outcome { _, err := e.fs.StatTimes(e.f); return oe(err) }},
		{"GetFileSize", cCond, roNone, func(e *env) outcome { _, err := e.fs.GetFileSize(e.f); return oe(err) }},
		{"Exists", cBool, roNone, func(e *env) outcome { b := e.fs.Exists(e.f); return outcome{noErr: true, b: &b} }},
		{"Exists#dir", cBool, roNone, func(e *env) outcome { b := e.fs.Exists(e.d); return outcome{noErr: true, b: &b} }},
		{"IsFile", cCond, roNone, func(e *env) outcome { _, err := e.fs.IsFile(e.f); return oe(err) }},
		{"IsDir", cCond, roNone, func(e *env) outcome { _, err := e.fs.IsDir(e.d); return oe(err) }},
		{"IsLink", cCond, roNone, func(e *env) outcome { _, err := e.fs.IsLink(e.f); return oe(err) }},
		{"IsEmpty", cCond, roNone, func(e *env) outcome { _, err := e.fs.IsEmpty(e.f); return oe(err) }},
		{"FetchOwners", cCond, roNone, func(e *env) outcome { _, _, err := e.fs.FetchOwners(e.f); return oe(err) }},
		{"FetchFileOwner", cFail, roNone, func(e *env) outcome { _, err := e.fs.FetchFileOwner(e.f); return oe(err) }},
		{"Readlink", cCond, roNone, func(e *env) outcome { _, err := e.fs.Readlink(e.f); return oe(err) }},
		{"DiskUsage", cDC, roNone, func(e *env) outcome { _, err := e.fs.DiskUsage(e.d); return oe(err) }},
		// ---- read family
		{"ReadFile", cCond, roNone, func(e *env) outcome { _, err := e.fs.ReadFile(e.f); return oe(err) }},
		{"ReadFileWithContext", cCond, roNone, func(e *env) outcome { _, err := e.fs.ReadFileWithContext(e.ctx, e.f); return oe(err) }},
		{"ReadFileWithLimits", cCond, roNone, func(e *env) outcome { _, err := e.fs.ReadFileWithLimits(e.f, nl); return oe(err) }},
		{"ReadFileWithContextAndLimits", cCond, roNone, func(e *env) outcome {
			_, err := e.fs.ReadFileWithContextAndLimits(e.ctx, e.f, nl)
			return oe(err)
		}},
		{"ReadFileContent", cFail, roNone, func(e *env) outcome { _, err := e.fs.ReadFileContent(e.ctx, e.fh, nl); return oe(err) }},
		{"FileHash", cCond, roNone, func(e *env) outcome { _, err := e.fs.FileHash(hashing.HashSha256, e.f); return oe(err) }},
		{"FileHashWithContext", cCond, roNone, func(e *env) outcome {
			_, err := e.fs.FileHashWithContext(e.ctx, hashing.HashSha256, e.f)
			return oe(err)
		}},
		// ---- listing family
		{"Ls", cCond, roNone, func(e *env) outcome { _, err := e.fs.Ls(e.d); return oe(err) }},
		{"LsWithExclusionPatterns", cCond, roNone, func(e *env) outcome { _, err := e.fs.LsWithExclusionPatterns(e.d); return oe(err) }},
		{"LsRecursive", cCond, roNone, func(e *env) outcome { _, err := e.fs.LsRecursive(e.ctx, e.d, true); return oe(err) }},
		{"LsRecursiveWithExclusionPatterns", cCond, roNone, func(e *env) outcome {
			_, err := e.fs.LsRecursiveWithExclusionPatterns(e.ctx, e.d, true)
			return oe(err)
		}},
		{"LsRecursiveWithExclusionPatternsAndLimits", cCond, roNone, func(e *env) outcome {
			_, err := e.fs.LsRecursiveWithExclusionPatternsAndLimits(e.ctx, e.d, nl, true)
			return oe(err)
		}},
		{"LsFromOpenedDirectory", cFail, roNone, func(e *env) outcome { _, err := e.fs.LsFromOpenedDirectory(e.dh); return oe(err) }},
		{"LsRecursiveFromOpenedDirectory", cFail, roNone, func(e *env) outcome {
			_, err := e.fs.LsRecursiveFromOpenedDirectory(e.ctx, e.dh, true)
			return oe(err)
		}},
		{"Lls", cCond, roNone, func(e *env) outcome { _, err := e.fs.Lls(e.d); return oe(err) }},
		{"LlsFromOpenedDirectory", cFail, roNone, func(e *env) outcome { _, err := e.fs.LlsFromOpenedDirectory(e.dh); return oe(err) }},
		{"Walk", cCond, roNone, func(e *env) outcome { return oe(e.fs.Walk(e.d, walkNop)) }},
		{"WalkWithContext", cCond, roNone, func(e *env) outcome { return oe(e.fs.WalkWithContext(e.ctx, e.d, walkNop)) }},
		{"WalkWithContextAndExclusionPatterns", cCond, roNone, func(e *env) outcome {
			return oe(e.fs.WalkWithContextAndExclusionPatterns(e.ctx, e.d, walkNop))
		}},
		{"Glob", cCond, roNone, func(e *env) outcome { _, err := e.fs.Glob("/*"); return oe(err) }},
		{"FindAll", cCond, roNone, func(e *env) outcome { _, err := e.fs.FindAll(e.d, "txt"); return oe(err) }},
		{"ListDirTree", cCond, roNone, func(e *env) outcome { var l []string; return oe(e.fs.ListDirTree(e.d, &l)) }},
		{"ListDirTreeWithContext", cCond, roNone, func(e *env) outcome { var l []string; return oe(e.fs.ListDirTreeWithContext(e.ctx, e.d, &l)) }},
		{"ListDirTreeWithContextAndExclusionPatterns", cCond, roNone, func(e *env) outcome {
			var l []string
			return oe(e.fs.ListDirTreeWithContextAndExclusionPatterns(e.ctx, e.d, &l))
		}},
		{"SubDirectories", cCond, roNone, func(e *env) outcome { _, err := e.fs.SubDirectories(e.d); return oe(err) }},
		{"SubDirectoriesWithContext", cCond, roNone, func(e *env) outcome { _, err := e.fs.SubDirectoriesWithContext(e.ctx, e.d); return oe(err) }},
		{"SubDirectoriesWithContextAndExclusionPatterns", cCond, roNone, func(e *env) outcome {
			_, err := e.fs.SubDirectoriesWithContextAndExclusionPatterns(e.ctx, e.d)
			return oe(err)
		}},
		// ---- removal
		{"Rm", cFail, roMut, func(e *env) outcome { return oe(e.fs.Rm(e.f)) }},
		{"Rm#dir", cFail, roMut, func(e *env) outcome { return oe(e.fs.Rm(e.d)) }},
		{"RemoveWithContext", cFail, roMut, func(e *env) outcome { return oe(e.fs.RemoveWithContext(e.ctx, e.f)) }},
		{"RemoveWithContextAndExclusionPatterns", cFail, roMut, func(e *env) outcome {
			return oe(e.fs.RemoveWithContextAndExclusionPatterns(e.ctx, e.f))
		}},
		{"RemoveWithPrivileges", cFail, roMut, func(e *env) outcome { return oe(e.fs.RemoveWithPrivileges(e.ctx, e.f)) }},
		{"CleanDir", cFail, roMut, func(e *env) outcome { return oe(e.fs.CleanDir(e.d)) }},
		{"CleanDirWithContext", cFail, roMut, func(e *env) outcome { return oe(e.fs.CleanDirWithContext(e.ctx, e.d)) }},
		{"CleanDirWithContextAndExclusionPatterns", cFail, roMut, func(e *env) outcome {
			return oe(e.fs.CleanDirWithContextAndExclusionPatterns(e.ctx, e.d))
		}},
		{"GarbageCollect", cFail, roQuiet, func(e *env) outcome { return oe(e.fs.GarbageCollect(e.d, 0)) }},
		{"GarbageCollectWithContext", cFail, roQuiet, func(e *env) outcome { return oe(e.fs.GarbageCollectWithContext(e.ctx, e.d, 0)) }},
		// ---- creation / writing
		{"MkDir", cFail, roMut, func(e *env) outcome { return oe(e.fs.MkDir(e.fresh())) }},
		{"MkDir#nested-in-existing", cFail, roMut, func(e *env) outcome { return oe(e.fs.MkDir(strings.TrimSuffix(e.d, "/") + e.fresh() + "/sub")) }},
		{"MkDirAll", cFail, roMut, func(e *env) outcome { return oe(e.fs.MkDirAll(e.fresh()+"/x/y", 0o755)) }},
		{"WriteFile", cFail, roMut, func(e *env) outcome { return oe(e.fs.WriteFile(e.f, payload, 0o644)) }},
		{"WriteFile#new", cFail, roMut, func(e *env) outcome { return oe(e.fs.WriteFile(e.fresh(), payload, 0o644)) }},
		{"WriteFileWithContext", cFail, roMut, func(e *env) outcome { return oe(e.fs.WriteFileWithContext(e.ctx, e.f, payload, 0o644)) }},
		{"WriteToFile", cFail, roMut, func(e *env) outcome {
			_, err := e.fs.WriteToFile(e.ctx, e.fresh(), bytes.NewReader(payload), 0o644)
			return oe(err)
		}},
		{"Touch", cFail, roMut, func(e *env) outcome { return oe(e.fs.Touch(e.f)) }},
		{"Touch#new", cFail, roMut, func(e *env) outcome { return oe(e.fs.Touch(e.fresh())) }},
		{"Touch#new-dir", cFail, roMut, func(e *env) outcome { return oe(e.fs.Touch(e.fresh() + "/")) }},
		{"TempDir", cCond, roMut, func(e *env) outcome { _, err := e.fs.TempDir(e.d, "c07tmp"); return oe(err) }},
		{"TempDirInTempDir", cCond, roMut, func(e *env) outcome { _, err := e.fs.TempDirInTempDir("c07tmp"); return oe(err) }},
		{"TempFile", cCond, roMut, func(e *env) outcome { f, err := e.fs.TempFile(e.d, "c07tmp"); closeIf(f, err); return oe(err) }},
		{"TouchTempFile", cCond, roMut, func(e *env) outcome { _, err := e.fs.TouchTempFile(e.d, "c07tmp"); return oe(err) }},
		{"TempFileInTempDir", cCond, roMut, func(e *env) outcome { f, err := e.fs.TempFileInTempDir("c07tmp"); closeIf(f, err); return oe(err) }},
		{"TouchTempFileInTempDir", cCond, roMut, func(e *env) outcome { _, err := e.fs.TouchTempFileInTempDir("c07tmp"); return oe(err) }},
		// ---- copy / move
		{"Copy", cFail, roMut, func(e *env) outcome { return oe(e.fs.Copy(e.f, e.fresh())) }},
		// e.d is the parent of e.f: the copy resolves onto the file itself, which the library treats as a no-op (it used to
		// truncate the source on a writable filesystem); nothing is mutated, so the read-only sweep does not judge the result.
		{"Copy#onto-itself-through-its-directory", cFail, roNone, func(e *env) outcome { return oe(e.fs.Copy(e.f, e.d)) }},
		{"CopyWithContext", cFail, roMut, func(e *env) outcome { return oe(e.fs.CopyWithContext(e.ctx, e.f, e.fresh())) }},
		{"CopyWithContextAndExclusionPatterns", cFail, roMut, func(e *env) outcome {
			return oe(e.fs.CopyWithContextAndExclusionPatterns(e.ctx, e.f, e.fresh()))
		}},
		{"CopyToFile", cFail, roMut, func(e *env) outcome { return oe(e.fs.CopyToFile(e.f, e.fresh())) }},
		{"CopyToFileWithContext", cFail, roMut, func(e *env) outcome { return oe(e.fs.CopyToFileWithContext(e.ctx, e.f, e.fresh())) }},
		{"CopyToDirectory", cFail, roMut, func(e *env) outcome { return oe(e.fs.CopyToDirectory(e.f, e.fresh())) }},
		{"CopyToDirectoryWithContext", cFail, roMut, func(e *env) outcome { return oe(e.fs.CopyToDirectoryWithContext(e.ctx, e.f, e.fresh())) }},
		{"Move", cFail, roMut, func(e *env) outcome { return oe(e.fs.Move(e.f, e.fresh())) }},
		{"MoveWithContext", cFail, roMut, func(e *env) outcome { return oe(e.fs.MoveWithContext(e.ctx, e.f, e.fresh())) }},
		// ---- attributes / links
		{"Chmod", cCond, roMut, func(e *env) outcome { return oe(e.fs.Chmod(e.f, 0o600)) }},
		{"ChmodRecursively", cFail, roMut, func(e *env) outcome { return oe(e.fs.ChmodRecursively(e.ctx, e.d, 0o700)) }},
		{"Chtimes", cCond, roMut, func(e *env) outcome { return oe(e.fs.Chtimes(e.f, t0, t0)) }},
		{"Chown", cCond, roMut, func(e *env) outcome { return oe(e.fs.Chown(e.f, 12345, 12345)) }},
		{"ChownRecursively", cFail, roMut, func(e *env) outcome { return oe(e.fs.ChownRecursively(e.ctx, e.d, 12345, 12345)) }},
		{"ChangeOwnership", cFail, roMut, func(e *env) outcome { return oe(e.fs.ChangeOwnership(e.f, e.usr)) }},
		{"ChangeOwnershipRecursively", cFail, roMut, func(e *env) outcome { return oe(e.fs.ChangeOwnershipRecursively(e.ctx, e.d, e.usr)) }},
		{"Link", cCond, roMut, func(e *env) outcome { return oe(e.fs.Link(e.f, e.fresh())) }},
		{"Symlink", cCond, roMut, func(e *env) outcome { return oe(e.fs.Symlink(e.f, e.fresh())) }},
		// ---- archives inside the view
		{"Zip", cFail, roMut, func(e *env) outcome { return oe(e.fs.Zip(e.d, e.fresh()+".zip")) }},
		{"ZipWithContext", cFail, roMut, func(e *env) outcome { return oe(e.fs.ZipWithContext(e.ctx, e.d, e.fresh()+".zip")) }},
		{"ZipWithContextAndLimits", cFail, roMut, func(e *env) outcome { return oe(e.fs.ZipWithContextAndLimits(e.ctx, e.d, e.fresh()+".zip", nl)) }},
		{"ZipWithContextAndLimitsAndExclusionPatterns", cFail, roMut, func(e *env) outcome {
			return oe(e.fs.ZipWithContextAndLimitsAndExclusionPatterns(e.ctx, e.d, e.fresh()+".zip", nl))
		}},
		{"Unzip", cFail, roMut, func(e *env) outcome { _, err := e.fs.Unzip(e.f, e.fresh()); return oe(err) }},
		{"UnzipWithContext", cFail, roMut, func(e *env) outcome { _, err := e.fs.UnzipWithContext(e.ctx, e.f, e.fresh()); return oe(err) }},
		{"UnzipWithContextAndLimits", cFail, roMut, func(e *env) outcome {
			_, err := e.fs.UnzipWithContextAndLimits(e.ctx, e.f, e.fresh(), nl)
			return oe(err)
		}},
		// ---- calls that do not (clearly) need the archive: don't care
		{"PathSeparator", cDC, roNone, func(e *env) outcome { _ = e.fs.PathSeparator(); return outcome{noErr: true} }},
		{"GetType", cDC, roNone, func(e *env) outcome { _ = e.fs.GetType(); return outcome{noErr: true} }},
		{"ConvertFilePath", cDC, roNone, func(e *env) outcome { _ = e.fs.ConvertFilePath(e.f); return outcome{noErr: true} }},
		{"ConvertToRelativePath", cDC, roNone, func(e *env) outcome { _, err := e.fs.ConvertToRelativePath("/", e.f); return oe(err) }},
		{"ConvertToAbsolutePath", cDC, roNone, func(e *env) outcome { _, err := e.fs.ConvertToAbsolutePath("/", "x"); return oe(err) }},
		{"TempDirectory", cDC, roNone, func(e *env) outcome { _ = e.fs.TempDirectory(); return outcome{noErr: true} }},
		{"CurrentDirectory", cDC, roNone, func(e *env) outcome { _, err := e.fs.CurrentDirectory(); return oe(err) }},
		{"ExcludeAll", cDC, roNone, func(e *env) outcome { _, err := e.fs.ExcludeAll([]string{e.f}); return oe(err) }},
		{"NewRemoteLockFile", cDC, roNone, func(e *env) outcome { _ = e.fs.NewRemoteLockFile("c07", e.d); return outcome{noErr: true} }},
		{"IsZip", cDC, roNone, func(e *env) outcome { b := e.fs.IsZip(e.f + ".zip"); return outcome{noErr: true, b: &b} }},
		{"IsZipWithContext", cDC, roNone, func(e *env) outcome { _, err := e.fs.IsZipWithContext(e.ctx, e.f+".zip"); return oe(err) }},
	}
}

// fsMethods enumerates the methods of the filesystem.FS interface by reflection.
func fsMethods() []string {
	t := reflect.TypeOf((*filesystem.FS)(nil)).Elem()
	var l []string
	for i := 0; i < t.NumMethod(); i++ {
		l = append(l, t.Method(i).Name)
	}
	sort.Strings(l)
	return l
}

// safeCall runs one call, converting a panic on the calling goroutine into an outcome.
func safeCall(s spec, e *env) (o outcome) {
	defer func() {
		if p := recover(); p != nil {
			o = outcome{panicv: p}
		}
	}()
	return s.call(e)
}

var kinds = []struct {
	name string
	err  error
}{
	{"failed-condition", commonerrors.ErrCondition}, {"not-found", commonerrors.ErrNotFound}, {"undefined", commonerrors.ErrUndefined},
	{"invalid", commonerrors.ErrInvalid}, {"conflict", commonerrors.ErrConflict}, {"not-implemented", commonerrors.ErrNotImplemented},
	{"malicious", commonerrors.ErrMalicious}, {"too-large", commonerrors.ErrTooLarge}, {"exists", commonerrors.ErrExists},
	{"unsupported", commonerrors.ErrUnsupported}, {"unexpected", commonerrors.ErrUnexpected}, {"empty", commonerrors.ErrEmpty},
	{"timeout", commonerrors.ErrTimeout}, {"cancelled", commonerrors.ErrCancelled}, {"eof", commonerrors.ErrEOF}, {"forbidden", commonerrors.ErrForbidden},
	{"out-of-range", commonerrors.ErrOutOfRange}, {"unknown", commonerrors.ErrUnknown},
}

func kindOf(err error) string {
	if err == nil {
		return "nil"
	}
	for _, k := range kinds {
		if commonerrors.Any(err, k.err) {
			return k.name
		}
	}
	return "uncategorised"
}
