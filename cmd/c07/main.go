// C07 — archives are faithful: zip→unzip round trip and zip/tar filesystem views.
//
// One case = one generated tree (depth 0..6, 0..200 entries, hostile-but-legal names, empty dirs/files,
// files up to 4 MiB, mtimes 1980..2100 with sub-second parts) materialised on the OS backend or on the
// in-memory backend. Phases and oracles:
//
//	(1) round trip   library Zip* then library Unzip* (no limits / default recursive / non-recursive limits):
//	                 same relative paths, kinds, contents; |Δmtime| within archive precision for files and
//	                 directories; returned list == set of entries created (cleaned paths).
//	(2) views        library zip filesystem over that archive, library tar filesystem over an archive/tar
//	                 archive of the same tree written by the harness: Walk / LsRecursive / Ls / Stat / Lstat /
//	                 ReadFile expose exactly the source's paths, kinds, sizes, contents; every mutating FS
//	                 method returns an error and leaves archive bytes + mtime and the view unchanged.
//	(3) closed       after Close(): every FS method (enumerated by reflection) that needs the archive fails;
//	                 direct accessors with the 'failed condition' kind; Exists answers false.
//
// Don't-care regions are listed in the Rule/Assume strings in main().
package main

import (
	"archive/tar"
	"archive/zip"
	"bytes"
	"context"
	"crypto/sha256"
	"encoding/hex"
	"encoding/json"
	"fmt"
	"io"
	"os"
	"os/user"
	"path/filepath"
	"sort"
	"strings"
	"syscall"
	"time"

	"github.com/spf13/afero"

	"github.com/ARM-software/golang-utils/utils/commonerrors"
	"github.com/ARM-software/golang-utils/utils/filesystem"

	"verif/internal/snap"
	"verif/internal/treegen"
	"verif/internal/vrun"
	"verif/internal/zipgen"
)

func limitsFor(name string) filesystem.ILimits {
	switch name {
	case "default-recursive":
		return filesystem.DefaultZipLimits()
	case "non-recursive":
		return filesystem.DefaultNonRecursiveZipLimits()
	}
	return filesystem.NoLimits()
}

// ---- zip-representable time range (see Assume in main) -------------------------------------------
var (
	// DOS date/time field: 1980-01-01 00:00:00 .. 2107-12-31 23:59:58 in an unspecified local zone, 2 s steps.
	// One day of margin on both sides removes any dependence on the zone.
	repLo = time.Date(1980, 1, 2, 0, 0, 0, 0, time.UTC)
	repHi = time.Date(2107, 12, 30, 0, 0, 0, 0, time.UTC)
	// Info-ZIP extended timestamp (0x5455): 32-bit seconds since 1970; the specification says signed,
	// so 1 s precision is only demanded up to 2038-01-19T03:14:07Z.
	extHi = time.Unix(1<<31-1, 0)
)

type reporter struct {
	r    *vrun.Run
	c    *caseSpec
	seen map[string]bool
}

func (rp *reporter) v(sig vrun.Sig, what string, detail any) {
	sig["backend"] = rp.c.Backend
	key := sig.String()
	if rp.seen[key] {
		rp.r.Obs("further_violations_same_case_same_signature", 1)
		return
	}
	rp.seen[key] = true
	rp.r.Violation(sig, fmt.Sprintf("case %d: %s", rp.c.Index, what), map[string]any{"case": rp.c, "detail": detail})
}

type archEntry struct {
	count   int
	extTime bool // carries a timestamp extra field with 1 s (or better) precision
}

// readArchive lists the archive with archive/zip (attribution of losses to zip or unzip; which time
// fields are present).
func readArchive(b []byte) (map[string]*archEntry, error) {
	zr, err := zip.NewReader(bytes.NewReader(b), int64(len(b)))
	if err != nil {
		return nil, err
	}
	m := map[string]*archEntry{}
	for _, f := range zr.File {
		name := strings.TrimSuffix(f.Name, "/")
		e := m[name]
		if e == nil {
			e = &archEntry{}
			m[name] = e
		}
		e.count++
		ex := f.Extra
		for len(ex) >= 4 {
			tag := uint16(ex[0]) | uint16(ex[1])<<8
			sz := int(uint16(ex[2]) | uint16(ex[3])<<8)
			if tag == 0x5455 || tag == 0x000a || tag == 0x000d || tag == 0x5855 {
				e.extTime = true
			}
			if 4+sz > len(ex) {
				break
			}
			ex = ex[4+sz:]
		}
	}
	return m, nil
}

func entryClass(s snap.Snap, children map[string]map[string]bool, p string) string {
	e, ok := s[p]
	if !ok {
		return "absent"
	}
	if e.Kind == "dir" {
		if len(children[p]) == 0 {
			return "empty-dir"
		}
		return "dir"
	}
	if e.Size == 0 {
		return "empty-file"
	}
	return "file"
}

func childrenOf(s snap.Snap) map[string]map[string]bool {
	ch := map[string]map[string]bool{".": {}}
	for p := range s {
		if p == "." {
			continue
		}
		parent, base := ".", p
		if i := strings.LastIndex(p, "/"); i >= 0 {
			parent, base = p[:i], p[i+1:]
		}
		if ch[parent] == nil {
			ch[parent] = map[string]bool{}
		}
		ch[parent][base] = true
	}
	return ch
}

func hash12(b []byte) string {
	h := sha256.Sum256(b)
	return hex.EncodeToString(h[:12])
}

func buildTar(nodes []treegen.Node) ([]byte, error) {
	var buf bytes.Buffer
	tw := tar.NewWriter(&buf)
	for _, n := range nodes {
		h := &tar.Header{Name: n.Path, Mode: int64(n.Mode), ModTime: n.MTime, Format: tar.FormatPAX}
		if n.Kind == "dir" {
			h.Typeflag = tar.TypeDir
			h.Name += "/"
		} else {
			h.Typeflag = tar.TypeReg
			h.Size = int64(len(n.Content))
		}
		if err := tw.WriteHeader(h); err != nil {
			return nil, err
		}
		if n.Kind != "dir" {
			if _, err := tw.Write(n.Content); err != nil {
				return nil, err
			}
		}
	}
	if err := tw.Close(); err != nil {
		return nil, err
	}
	return buf.Bytes(), nil
}

type stamp struct {
	Hash  string
	MTime time.Time
	Size  int64
}

func archiveStamp(base afero.Fs, p string) (stamp, error) {
	b, err := afero.ReadFile(base, p)
	if err != nil {
		return stamp{}, err
	}
	fi, err := base.Stat(p)
	if err != nil {
		return stamp{}, err
	}
	h := sha256.Sum256(b)
	return stamp{Hash: hex.EncodeToString(h[:]), MTime: fi.ModTime(), Size: fi.Size()}, nil
}

func callZip(ctx context.Context, vfs filesystem.FS, c *caseSpec, src, dst string) error {
	switch c.ZipEP {
	case "Zip":
		return vfs.Zip(src, dst)
	case "ZipWithContext":
		return vfs.ZipWithContext(ctx, src, dst)
	case "ZipWithContextAndLimits":
		return vfs.ZipWithContextAndLimits(ctx, src, dst, limitsFor(c.ZipLimits))
	default:
		return vfs.ZipWithContextAndLimitsAndExclusionPatterns(ctx, src, dst, limitsFor(c.ZipLimits))
	}
}

func callUnzip(ctx context.Context, vfs filesystem.FS, c *caseSpec, src, dst string) ([]string, error) {
	switch c.UnzipEP {
	case "Unzip":
		return vfs.Unzip(src, dst)
	case "UnzipWithContext":
		return vfs.UnzipWithContext(ctx, src, dst)
	default:
		return vfs.UnzipWithContextAndLimits(ctx, src, dst, limitsFor(c.Limits))
	}
}

func timedOut(err error) bool {
	return err != nil && commonerrors.Any(err, commonerrors.ErrTimeout, commonerrors.ErrCancelled)
}

func runCase(r *vrun.Run, c caseSpec, scratch string) {
	ctx, cancel := context.WithTimeout(context.Background(), 10*time.Minute)
	defer cancel()
	rp := &reporter{r: r, c: &c, seen: map[string]bool{}}
	mem := c.Backend == "mem"
	var base afero.Fs
	var vfs filesystem.FS
	var sb string
	if mem {
		base = afero.NewMemMapFs()
		sb = "/sb"
		_ = base.MkdirAll(sb, 0o755)
		vfs = filesystem.NewVirtualFileSystem(base, filesystem.InMemoryFS, filesystem.IdentityPathConverterFunc)
	} else {
		var err error
		sb, err = os.MkdirTemp(scratch, "sb-")
		if err != nil {
			r.Fatalf("scratch: %v", err)
		}
		defer os.RemoveAll(sb)
		base = afero.NewOsFs()
		vfs = filesystem.NewStandardFileSystem()
	}
	src, out := filepath.Join(sb, "src"), filepath.Join(sb, "out")
	zipPath, tarPath := filepath.Join(sb, "tree.zip"), filepath.Join(sb, "tree.tar")

	take := func(root string) (snap.Snap, error) {
		if mem {
			return snap.TakeAfero(base, root)
		}
		return snap.TakeOS(root)
	}
	var err error
	if mem {
		err = treegen.MaterializeAfero(base, src, c.Nodes)
	} else {
		err = treegen.MaterializeOS(src, c.Nodes)
	}
	if err != nil {
		r.Inconclusive("backend refused to materialise the generated tree")
		return
	}
	srcSnap, err := take(src)
	if err != nil || len(srcSnap) != len(c.Nodes)+1 {
		r.Inconclusive("source snapshot does not match the generated tree")
		return
	}
	children := childrenOf(srcSnap)
	fx := facts(c.Nodes)
	nontrivial := fx.EmptyFiles > 0 || fx.EmptyDirs > 0 || fx.Depth >= 3 || c.classes["dotted"] || c.classes["unicode"] || c.classes["meta"]
	defer func() {
		r.Case(c.canonical(), nontrivial)
	}()
	for k := range c.classes {
		r.ObsSet("name_classes_in_trees", k)
	}
	for k := range c.reqClass {
		r.ObsSet("name_generator_classes", k)
	}
	r.ObsSet("backends", c.Backend)
	r.ObsSet("zip_entry_points", c.ZipEP+"/"+c.ZipLimits)
	r.ObsSet("unzip_entry_points", c.UnzipEP+"/"+c.Limits)
	r.ObsSet("tree_depths", fmt.Sprint(fx.Depth))
	r.ObsMax("max_entries_in_a_tree", int64(len(c.Nodes)))
	r.ObsMax("max_file_size", int64(fx.MaxSize))
	r.Obs("empty_files", int64(fx.EmptyFiles))
	r.Obs("empty_dirs", int64(fx.EmptyDirs))
	if fx.DotDot {
		r.Obs("trees_with_dotdot_inside_a_name", 1)
	}
	if r.WantSample() && nontrivial && len(c.Nodes) >= 3 && len(c.Nodes) <= 12 && c.Index%5 == 3 {
		r.Sample(map[string]any{"case": c})
	}

	// ------------------------------------------------------------------ (1) round trip
	zerr := callZip(ctx, vfs, &c, src, zipPath)
	if zerr == nil && c.Index%4 == 2 {
		// history: the archive path already holds an earlier, longer archive when the tree is zipped
		if first, rerr := afero.ReadFile(base, zipPath); rerr == nil {
			stale := make([]byte, len(first)+4096)
			for i := range stale {
				stale[i] = byte(i*7 + i>>8)
			}
			prev, berr := zipgen.Build([]zipgen.Entry{zipgen.E("stale-a.txt", []byte("earlier archive")), {Name: "stale-big.bin", Data: stale, Size: len(stale), Store: true, Declared: -1}, zipgen.E("stale-z.txt", []byte("end of the earlier archive"))})
			if berr != nil || len(prev) <= len(first) {
				prev = append(append([]byte{}, first...), bytes.Repeat([]byte{0x5a}, 65536)...)
			}
			if werr := afero.WriteFile(base, zipPath, prev, 0o644); werr == nil {
				r.Obs("archives_written_over_an_earlier_longer_archive", 1)
				zerr = callZip(ctx, vfs, &c, src, zipPath)
			}
		}
	}
	var arch map[string]*archEntry
	switch {
	case timedOut(zerr):
		r.Inconclusive("zip hit the harness watchdog")
	case zerr != nil:
		rp.v(vrun.Sig{"phase": "zip", "effect": "error:" + kindOf(zerr)}, fmt.Sprintf("%s of a tree within every limit failed: %v", c.ZipEP, zerr), nil)
	default:
		r.Obs("archives_built_by_the_library", 1)
		if b, rerr := afero.ReadFile(base, zipPath); rerr == nil {
			arch, _ = readArchive(b)
		}
		roundTrip(r, rp, ctx, vfs, &c, take, srcSnap, children, arch, zipPath, out)
	}

	// ------------------------------------------------------------------ (2)+(3) views
	var f, d string // a file and its (hence non-empty) parent directory, for the sweeps
	for _, n := range c.Nodes {
		if n.Kind == "file" {
			f = "/" + n.Path
			d = "/"
			if i := strings.LastIndex(n.Path, "/"); i >= 0 {
				d = "/" + n.Path[:i]
			}
			if len(n.Content) > 0 {
				break
			}
		}
	}
	var anyFileOnBackend string
	if f != "" {
		anyFileOnBackend = filepath.Join(src, filepath.FromSlash(strings.TrimPrefix(f, "/")))
	}
	if zerr == nil {
		zfs, zfile, oerr := filesystem.NewZipFileSystem(vfs, zipPath, limitsFor(c.ViewLim))
		if oerr != nil {
			rp.v(vrun.Sig{"phase": "view", "fs": "zip", "api": "open", "effect": "error:" + kindOf(oerr)}, fmt.Sprintf("NewZipFileSystem over the library's own archive failed: %v", oerr), nil)
		} else {
			viewAndSweeps(r, rp, ctx, "zip", zfs, zfile, vfs, base, zipPath, srcSnap, children, f, d, anyFileOnBackend)
		}
	}
	tb, terr := buildTar(c.Nodes)
	if terr != nil {
		r.Inconclusive("archive/tar refused the generated tree")
		return
	}
	if werr := afero.WriteFile(base, tarPath, tb, 0o644); werr != nil {
		r.Fatalf("writing tar: %v", werr)
	}
	tfs, tfile, oerr := filesystem.NewTarFileSystem(vfs, tarPath, limitsFor(c.ViewLim))
	if oerr != nil {
		rp.v(vrun.Sig{"phase": "view", "fs": "tar", "api": "open", "effect": "error:" + kindOf(oerr)}, fmt.Sprintf("NewTarFileSystem failed: %v", oerr), nil)
		return
	}
	viewAndSweeps(r, rp, ctx, "tar", tfs, tfile, vfs, base, tarPath, srcSnap, children, f, d, anyFileOnBackend)
}

func roundTrip(r *vrun.Run, rp *reporter, ctx context.Context, vfs filesystem.FS, c *caseSpec, take func(string) (snap.Snap, error),
	srcSnap snap.Snap, children map[string]map[string]bool, arch map[string]*archEntry, zipPath, out string) {
	fx := facts(c.Nodes)
	list, uerr := callUnzip(ctx, vfs, c, zipPath, out)
	if timedOut(uerr) {
		r.Inconclusive("unzip hit the harness watchdog")
		return
	}
	if uerr != nil {
		if fx.DotDot && commonerrors.Any(uerr, commonerrors.ErrMalicious) {
			rp.v(vrun.Sig{"phase": "unzip", "pre": "name contains '..' inside a component", "effect": "refused as malicious"},
				fmt.Sprintf("%s refused the archive the library itself produced from a tree of legal names: %v", c.UnzipEP, uerr), nil)
		} else {
			pre := "no '..' in any name"
			if fx.DotDot {
				pre = "name contains '..' inside a component"
			}
			rp.v(vrun.Sig{"phase": "unzip", "pre": pre, "effect": "error:" + kindOf(uerr)}, fmt.Sprintf("%s of the library's own archive failed: %v", c.UnzipEP, uerr), nil)
		}
		return
	}
	r.Obs("round_trips_completed", 1)
	outSnap, err := take(out)
	if err != nil {
		r.Fatalf("snapshot of the extraction: %v", err)
	}
	phaseOf := func(p string) string {
		if arch != nil && arch[p] == nil {
			return "zip"
		}
		return "unzip"
	}
	// the tree itself: its root is a directory after the round trip, also when the tree holds nothing else
	if root, ok := outSnap["."]; !ok || root.Kind != "dir" {
		pre := "tree with entries"
		if len(c.Nodes) == 0 {
			pre = "empty tree"
		}
		rp.v(vrun.Sig{"phase": "unzip", "effect": "root-of-the-tree-missing", "pre": pre},
			fmt.Sprintf("%s succeeded (returned %d paths) but the directory it was told to extract into does not exist afterwards (kind %q)", c.UnzipEP, len(list), root.Kind), nil)
	} else if len(c.Nodes) == 0 {
		r.Obs("empty_trees_round_tripped", 1)
	}
	// paths, kinds, contents
	paths := map[string]bool{}
	for p := range srcSnap {
		paths[p] = true
	}
	for p := range outSnap {
		paths[p] = true
	}
	for p := range paths {
		if p == "." {
			continue
		}
		s, inS := srcSnap[p]
		o, inO := outSnap[p]
		switch {
		case inS && !inO:
			rp.v(vrun.Sig{"phase": phaseOf(p), "effect": "missing-entry", "entry": entryClass(srcSnap, children, p)},
				fmt.Sprintf("entry %q (%s) of the source is missing after the round trip", p, s.Kind), nil)
		case !inS && inO:
			rp.v(vrun.Sig{"phase": "unzip", "effect": "extra-entry", "entry": o.Kind}, fmt.Sprintf("extraction contains %q (%s) which the source does not", p, o.Kind), nil)
		case s.Kind != o.Kind:
			rp.v(vrun.Sig{"phase": phaseOf(p), "effect": "kind", "entry": entryClass(srcSnap, children, p)}, fmt.Sprintf("%q is a %s in the source and a %s after the round trip", p, s.Kind, o.Kind), nil)
		case s.Kind == "file" && (s.Size != o.Size || s.Hash != o.Hash):
			rp.v(vrun.Sig{"phase": "roundtrip", "effect": "content", "entry": entryClass(srcSnap, children, p)},
				fmt.Sprintf("content of %q differs after the round trip (size %d -> %d)", p, s.Size, o.Size), nil)
		}
		if inS && inO && s.Kind == o.Kind {
			r.Obs("entries_compared_after_round_trip", 1)
			// modification time
			if s.MTime.Before(repLo) || s.MTime.After(repHi) {
				r.Obs("mtimes_outside_zip_range_not_judged", 1)
				continue
			}
			tol, prec := 2*time.Second, "dos-2s"
			if arch != nil && arch[p] != nil && arch[p].extTime && !s.MTime.After(extHi) {
				tol, prec = time.Second, "extended-1s"
			}
			dt := o.MTime.Sub(s.MTime)
			if dt < 0 {
				dt = -dt
			}
			r.Obs("mtimes_compared_"+s.Kind+"_"+prec, 1)
			if dt > tol {
				rp.v(vrun.Sig{"phase": "roundtrip", "effect": "mtime", "entry": s.Kind, "precision": prec},
					fmt.Sprintf("mtime of %s %q: source %s, after round trip %s (|Δ|=%v > %v)", s.Kind, p, s.MTime.UTC().Format(time.RFC3339Nano), o.MTime.UTC().Format(time.RFC3339Nano), dt, tol), nil)
			}
		}
	}
	if arch != nil {
		for name, e := range arch {
			if e.count > 1 {
				if _, ok := srcSnap[name]; ok {
					rp.v(vrun.Sig{"phase": "zip", "effect": "entry-listed-more-than-once"}, fmt.Sprintf("archive lists %q %d times", name, e.count), nil)
				}
			}
		}
	}
	// returned list == entries created (as a set of cleaned paths)
	want := map[string]bool{}
	for p := range outSnap {
		if p != "." {
			want[filepath.Join(out, filepath.FromSlash(p))] = true
		}
	}
	got := map[string]bool{}
	for _, p := range list {
		got[filepath.Clean(p)] = true
	}
	r.Obs("returned_lists_checked", 1)
	r.Obs("returned_list_items_checked", int64(len(list)))
	var notNamed, notCreated []string
	for p := range want {
		if !got[p] {
			notNamed = append(notNamed, p)
		}
	}
	for p := range got {
		if !want[p] {
			notCreated = append(notCreated, p)
		}
	}
	sort.Strings(notNamed)
	sort.Strings(notCreated)
	if len(notNamed) > 0 {
		rel, _ := filepath.Rel(out, notNamed[0])
		rp.v(vrun.Sig{"phase": "unzip", "effect": "created-entry-not-in-returned-list", "entry": entryClass(outSnap, childrenOf(outSnap), filepath.ToSlash(rel)), "limits": c.Limits},
			fmt.Sprintf("%d created entries are not named by the returned list, e.g. %q", len(notNamed), notNamed[0]), map[string]any{"not_named": head(notNamed, 10)})
	}
	if len(notCreated) > 0 {
		rp.v(vrun.Sig{"phase": "unzip", "effect": "returned-list-names-entry-not-created", "limits": c.Limits},
			fmt.Sprintf("returned list names %d paths that were not created, e.g. %q", len(notCreated), notCreated[0]), map[string]any{"not_created": head(notCreated, 10)})
	}
}

func head(l []string, n int) []string {
	if len(l) > n {
		return l[:n]
	}
	return l
}

// ---------------------------------------------------------------------------------------------------
// views

type vent struct {
	Kind string
	Size int64
}

func kindOfInfo(fi os.FileInfo) string {
	if fi.IsDir() {
		return "dir"
	}
	if fi.Mode().IsRegular() {
		return "file"
	}
	return "other:" + fi.Mode().Type().String()
}

func checkView(r *vrun.Run, rp *reporter, ctx context.Context, fsName string, v filesystem.FS, src snap.Snap, children map[string]map[string]bool) {
	emptyTree := len(src) <= 1
	sig := func(api, effect, entry string) vrun.Sig {
		return vrun.Sig{"phase": "view", "fs": fsName, "api": api, "effect": effect, "entry": entry}
	}
	ec := func(p string) string { return entryClass(src, children, p) }
	// Walk
	walk := map[string]vent{}
	firstErrAt := "root" // entry class at which Walk first reported an error (labels failures of whole listings)
	werr := v.Walk("/", func(p string, info os.FileInfo, err error) error {
		rel := strings.TrimPrefix(filepath.ToSlash(p), "/")
		if err != nil {
			if !emptyTree {
				cls := "root"
				if rel != "" {
					cls = ec(rel)
				}
				if firstErrAt == "root" {
					firstErrAt = cls
				}
				rp.v(sig("Walk", "error:"+kindOf(err), cls), fmt.Sprintf("%s view: Walk reports an error at %q: %v", fsName, p, err), nil)
			}
			return nil
		}
		if rel == "" || info == nil {
			return nil
		}
		walk[rel] = vent{Kind: kindOfInfo(info), Size: info.Size()}
		return nil
	})
	if werr != nil && !emptyTree {
		rp.v(sig("Walk", "error:"+kindOf(werr), firstErrAt), fmt.Sprintf("%s view: Walk(\"/\") failed: %v", fsName, werr), nil)
	}
	compareSet := func(api string, got map[string]vent, sizes bool) {
		for p, s := range src {
			if p == "." {
				continue
			}
			g, ok := got[p]
			switch {
			case !ok:
				rp.v(sig(api, "missing-path", ec(p)), fmt.Sprintf("%s view: %s does not expose %q (%s)", fsName, api, p, s.Kind), nil)
			case g.Kind != "" && g.Kind != s.Kind:
				rp.v(sig(api, "kind", ec(p)), fmt.Sprintf("%s view: %s exposes %q as %s, source has %s", fsName, api, p, g.Kind, s.Kind), nil)
			case sizes && s.Kind == "file" && g.Size != s.Size:
				rp.v(sig(api, "size", ec(p)), fmt.Sprintf("%s view: %s reports size %d for %q, source has %d", fsName, api, g.Size, p, s.Size), nil)
			}
			r.Obs("view_entries_compared_"+fsName, 1)
		}
		for p := range got {
			if _, ok := src[p]; !ok {
				rp.v(sig(api, "extra-path", "absent"), fmt.Sprintf("%s view: %s exposes %q which the source does not contain", fsName, api, p), nil)
			}
		}
	}
	compareSet("Walk", walk, true)
	// LsRecursive
	lr, lerr := v.LsRecursive(ctx, "/", true)
	if lerr != nil {
		if !emptyTree {
			rp.v(sig("LsRecursive", "error:"+kindOf(lerr), firstErrAt), fmt.Sprintf("%s view: LsRecursive(\"/\") failed (Walk localises its first error at an entry of class %s): %v", fsName, firstErrAt, lerr), nil)
		}
	} else {
		got := map[string]vent{}
		for _, p := range lr {
			if rel := strings.TrimPrefix(filepath.ToSlash(p), "/"); rel != "" {
				got[rel] = vent{}
			}
		}
		compareSet("LsRecursive", got, false)
	}
	if emptyTree {
		return // the listing of the pseudo-root of an archive without entries is a don't-care
	}
	// Ls of every directory
	for p, s := range src {
		if s.Kind != "dir" {
			continue
		}
		vp := "/" + p
		cls := ec(p)
		if p == "." {
			vp, cls = "/", "root"
		}
		names, err := v.Ls(vp)
		if err != nil {
			rp.v(sig("Ls", "error:"+kindOf(err), cls), fmt.Sprintf("%s view: Ls(%q) failed: %v", fsName, vp, err), nil)
			continue
		}
		got := map[string]bool{}
		for _, n := range names {
			got[n] = true
		}
		for n := range children[p] {
			if !got[n] {
				rp.v(sig("Ls", "missing-path", cls), fmt.Sprintf("%s view: Ls(%q) does not list %q", fsName, vp, n), nil)
			}
		}
		for n := range got {
			if !children[p][n] {
				rp.v(sig("Ls", "extra-path", cls), fmt.Sprintf("%s view: Ls(%q) lists %q which the source directory does not contain", fsName, vp, n), nil)
			}
		}
		r.Obs("view_directories_listed_"+fsName, 1)
	}
	// Stat / Lstat / ReadFile of every entry
	for p, s := range src {
		if p == "." {
			continue
		}
		vp := "/" + p
		for _, api := range []string{"Stat", "Lstat"} {
			var fi os.FileInfo
			var err error
			if api == "Stat" {
				fi, err = v.Stat(vp)
			} else {
				fi, err = v.Lstat(vp)
			}
			switch {
			case err != nil || fi == nil:
				rp.v(sig(api, "error:"+kindOf(err), ec(p)), fmt.Sprintf("%s view: %s(%q) failed: %v", fsName, api, vp, err), nil)
			case kindOfInfo(fi) != s.Kind:
				rp.v(sig(api, "kind", ec(p)), fmt.Sprintf("%s view: %s(%q) says %s, source has %s", fsName, api, vp, kindOfInfo(fi), s.Kind), nil)
			case s.Kind == "file" && fi.Size() != s.Size:
				rp.v(sig(api, "size", ec(p)), fmt.Sprintf("%s view: %s(%q) says %d bytes, source has %d", fsName, api, vp, fi.Size(), s.Size), nil)
			}
		}
		if s.Kind == "file" {
			b, err := v.ReadFile(vp)
			if err != nil && s.Size == 0 && len(b) == 0 && commonerrors.Any(err, commonerrors.ErrEmpty) {
				// ReadFile answers "empty: no bytes were read" for a zero-length file on every backend (safeio convention);
				// zero bytes is the faithful content, the error kind is not the view's business
				err = nil
				r.Obs("view_empty_files_read_as_empty_kind_"+fsName, 1)
			}
			switch {
			case err != nil:
				rp.v(sig("ReadFile", "error:"+kindOf(err), ec(p)), fmt.Sprintf("%s view: ReadFile(%q) failed: %v", fsName, vp, err), nil)
			case int64(len(b)) != s.Size || hash12(b) != s.Hash:
				rp.v(sig("ReadFile", "content", ec(p)), fmt.Sprintf("%s view: ReadFile(%q) returns %d bytes with a different content (source %d bytes)", fsName, vp, len(b), s.Size), nil)
			}
			// the view serves the same content every time it is asked
			if err == nil && s.Size > 0 {
				b2, err2 := v.ReadFile(vp)
				r.Obs("view_files_read_twice_"+fsName, 1)
				if err2 != nil || int64(len(b2)) != s.Size || hash12(b2) != s.Hash {
					rp.v(sig("ReadFile", "second-read-differs", ec(p)), fmt.Sprintf("%s view: the second ReadFile(%q) returns %d bytes (err %v), the first returned the %d bytes of the source", fsName, vp, len(b2), err2, s.Size), nil)
				}
			}
			// ... and through a handle: everything, then from an offset the handle was successfully moved to, then from the start again
			if err == nil && s.Size >= 2 && s.Size <= 1<<20 {
				// (the handle comes from GenericOpen or from OpenFile for reading, in turn)
				openHandle, openName := func() (filesystem.File, error) { return v.GenericOpen(vp) }, "GenericOpen"
				if len(vp)%2 == 1 {
					openHandle, openName = func() (filesystem.File, error) { return v.OpenFile(vp, os.O_RDONLY, 0) }, "OpenFile(O_RDONLY)"
				}
				r.ObsSet("view_handles_opened_through", fsName+"/"+openName)
				if h, oerr := openHandle(); oerr != nil {
					rp.v(sig(openName, "error:"+kindOf(oerr), ec(p)), fmt.Sprintf("%s view: %s(%q) failed: %v", fsName, openName, vp, oerr), nil)
				} else {
					readRest := func(step string, want []byte) {
						got, rerr := io.ReadAll(h)
						r.Obs("view_handle_reads_judged_"+fsName, 1)
						if rerr != nil || !bytes.Equal(got, want) {
							rp.v(sig("handle", "content-"+step, ec(p)), fmt.Sprintf("%s view: reading the handle of %q %s returns %d bytes (err %v) instead of the %d bytes of the source from there", fsName, vp, step, len(got), rerr, len(want)), nil)
						}
					}
					readRest("from-the-start", b)
					k := s.Size / 3
					if pos, serr := h.Seek(k, io.SeekStart); serr == nil && pos == k {
						readRest("after-seeking-forward-from-the-end", b[k:])
					} else {
						r.Obs("view_handle_seeks_refused_"+fsName, 1)
					}
					if pos, serr := h.Seek(0, io.SeekStart); serr == nil && pos == 0 {
						readRest("after-rewinding", b)
					} else {
						r.Obs("view_handle_seeks_refused_"+fsName, 1)
					}
					_ = h.Close()
				}
			}
			r.Obs("view_files_read_"+fsName, 1)
		}
	}
}

// fingerprint of the view through the library's own Walk + ReadFile (sorted, errors included as text).
func fingerprint(v filesystem.FS) string {
	var l []string
	_ = v.Walk("/", func(p string, info os.FileInfo, err error) error {
		if err != nil {
			l = append(l, p+" ERR "+kindOf(err))
			return nil
		}
		if info == nil {
			return nil
		}
		if info.IsDir() {
			l = append(l, p+" d")
			return nil
		}
		b, rerr := v.ReadFile(p)
		l = append(l, fmt.Sprintf("%s f %d %s %s", p, info.Size(), hash12(b), kindOf(rerr)))
		return nil
	})
	sort.Strings(l)
	return strings.Join(l, "\n")
}

func viewAndSweeps(r *vrun.Run, rp *reporter, ctx context.Context, fsName string, v filesystem.ICloseableFS, archive filesystem.File, backendFS filesystem.FS, base afero.Fs,
	archPath string, src snap.Snap, children map[string]map[string]bool, f, d, fileOnBackend string) {
	closed := false
	defer func() {
		if !closed {
			_ = v.Close()
		}
	}()
	r.Obs("views_opened_"+fsName, 1)
	checkView(r, rp, ctx, fsName, v, src, children)
	if !rp.c.Sweeps || f == "" {
		return
	}
	usr, _ := user.Current()
	all := specs()

	// ---- read-only sweep
	st0, err := archiveStamp(base, archPath)
	if err != nil {
		r.Fatalf("archive stamp: %v", err)
	}
	fp0 := fingerprint(v)
	e := &env{fs: v, ctx: ctx, f: f, d: d, usr: usr}
	for _, s := range all {
		if s.ro != roMut {
			continue
		}
		o := safeCall(s, e)
		r.Obs("read_only_calls_judged_"+fsName, 1)
		r.ObsSet("read_only_methods_judged", s.name)
		switch {
		case o.panicv != nil:
			rp.v(vrun.Sig{"phase": "read-only", "fs": fsName, "method": s.name, "effect": "panic"}, fmt.Sprintf("%s view: %s panicked: %v", fsName, s.name, o.panicv), nil)
		case o.err == nil:
			rp.v(vrun.Sig{"phase": "read-only", "fs": fsName, "method": s.name, "effect": "succeeded"}, fmt.Sprintf("%s view: mutating call %s(file=%q, dir=%q) returned no error", fsName, s.name, f, d), nil)
		default:
			r.ObsSet("read_only_refusal_kinds_"+fsName, kindOf(o.err))
		}
	}
	// copy into the view from another filesystem
	cerr := filesystem.CopyBetweenFS(ctx, backendFS, fileOnBackend, v, e.fresh())
	r.Obs("read_only_calls_judged_"+fsName, 1)
	r.ObsSet("read_only_methods_judged", "CopyBetweenFS#into-the-view")
	if cerr == nil {
		rp.v(vrun.Sig{"phase": "read-only", "fs": fsName, "method": "CopyBetweenFS#into-the-view", "effect": "succeeded"}, fsName+" view: copying a file into the view returned no error", nil)
	}
	st1, err := archiveStamp(base, archPath)
	if err != nil {
		r.Fatalf("archive stamp: %v", err)
	}
	if st1.Hash != st0.Hash || st1.Size != st0.Size {
		rp.v(vrun.Sig{"phase": "read-only", "fs": fsName, "effect": "archive-bytes-changed"}, fsName+" view: the archive file changed during the sweep of mutating calls", map[string]any{"before": st0, "after": st1})
	} else if !st1.MTime.Equal(st0.MTime) {
		rp.v(vrun.Sig{"phase": "read-only", "fs": fsName, "effect": "archive-mtime-changed"}, fsName+" view: the archive file's mtime changed during the sweep of mutating calls", map[string]any{"before": st0, "after": st1})
	}
	if fp1 := fingerprint(v); fp1 != fp0 {
		rp.v(vrun.Sig{"phase": "read-only", "fs": fsName, "effect": "view-changed"}, fsName+" view: the view changed during the sweep of mutating calls", map[string]any{"before": fp0, "after": fp1})
	}
	r.Obs("read_only_sweeps_"+fsName, 1)

	// ---- closed sweep: the arguments must have succeeded before Close()
	if _, err := v.Stat(f); err != nil {
		r.Obs("closed_sweeps_skipped_arguments_did_not_work_before_close", 1)
		return
	}
	if _, err := v.Ls(d); err != nil {
		r.Obs("closed_sweeps_skipped_arguments_did_not_work_before_close", 1)
		return
	}
	if b := v.Exists(f); !b {
		r.Obs("closed_sweeps_skipped_arguments_did_not_work_before_close", 1)
		return
	}
	e = &env{fs: v, ctx: ctx, f: f, d: d, usr: usr}
	e.fh, _ = v.GenericOpen(f)
	e.dh, _ = v.GenericOpen(d)
	defer func() {
		if e.fh != nil {
			_ = e.fh.Close()
		}
		if e.dh != nil {
			_ = e.dh.Close()
		}
	}()
	// closing histories: the archive file handed over at opening may be closed by its owner before or after the view
	history := []string{"view", "view", "file-then-view", "view-then-file", "view-twice"}[rp.c.Index%5]
	if archive == nil {
		history = "view"
	}
	r.ObsSet("closing_histories", fsName+"/"+history)
	if history == "file-then-view" {
		_ = archive.Close()
	}
	cerr = v.Close()
	closed = true
	if cerr != nil {
		if history == "file-then-view" {
			// Close() says the view could not be closed: the clause is about a view which was closed
			r.Obs("closed_sweeps_skipped_close_reported_an_error_after_the_file_was_closed", 1)
			return
		}
		r.Inconclusive("Close() of the archive filesystem returned an error")
		return
	}
	switch history {
	case "view-then-file":
		_ = archive.Close()
	case "view-twice":
		_ = v.Close()
	}
	for _, s := range all {
		o := safeCall(s, e)
		if s.closed == cDC {
			r.ObsSet("closed_dont_care_methods", s.method())
			continue
		}
		r.Obs("closed_calls_judged_"+fsName, 1)
		r.ObsSet("closed_methods_judged", s.name)
		if o.panicv != nil {
			rp.v(vrun.Sig{"phase": "closed", "fs": fsName, "method": s.method(), "effect": "panic"}, fmt.Sprintf("closed %s view: %s panicked: %v", fsName, s.name, o.panicv), nil)
			continue
		}
		switch s.closed {
		case cBool:
			if o.b != nil && *o.b {
				rp.v(vrun.Sig{"phase": "closed", "fs": fsName, "method": s.method(), "effect": "answered-true"}, fmt.Sprintf("closed %s view: %s answered true", fsName, s.name), nil)
			}
		case cCond:
			if o.err == nil {
				rp.v(vrun.Sig{"phase": "closed", "fs": fsName, "method": s.method(), "effect": "succeeded"}, fmt.Sprintf("closed %s view: %s returned no error", fsName, s.name), nil)
			} else if !commonerrors.Any(o.err, commonerrors.ErrCondition) {
				rp.v(vrun.Sig{"phase": "closed", "fs": fsName, "method": s.method(), "effect": "other-kind:" + kindOf(o.err)},
					fmt.Sprintf("closed %s view: direct accessor %s failed with %q instead of the 'failed condition' kind", fsName, s.name, o.err.Error()), nil)
			}
		case cFail:
			if o.err == nil {
				rp.v(vrun.Sig{"phase": "closed", "fs": fsName, "method": s.method(), "effect": "succeeded"}, fmt.Sprintf("closed %s view: %s returned no error", fsName, s.name), nil)
			} else {
				r.ObsSet("closed_failure_kinds_of_composite_calls", s.method()+":"+kindOf(o.err))
			}
		}
	}
	r.Obs("closed_sweeps_"+fsName, 1)
}

func main() {
	r := vrun.Start("C07", "exploration")
	var rl syscall.Rlimit
	if syscall.Getrlimit(syscall.RLIMIT_NOFILE, &rl) == nil {
		rl.Cur = rl.Max
		_ = syscall.Setrlimit(syscall.RLIMIT_NOFILE, &rl)
	}
	scratch := vrun.Scratch("c07")
	finish := func() { // Finish exits the process: remove the scratch directory first
		_ = os.Chdir("/")
		_ = os.RemoveAll(scratch)
		r.Finish()
	}
	// relative archive member names are probed with Exists() by the recursive-unzip logic: give the process an empty working directory
	cwd := filepath.Join(scratch, "cwd")
	if err := os.MkdirAll(cwd, 0o755); err == nil {
		_ = os.Chdir(cwd)
	}
	r.Rule("one case = one generated tree (max depth 0..6, 0..200 entries; per tree a palette of name classes out of: plain, spaces, leading dot, single dots, '..' inside/leading/trailing, only dots ('...'), unicode NFC, NFD, CJK/Thai/Cyrillic/Hebrew/Arabic, emoji, shell metacharacters, backslash, 200..255-byte names, zip-like extensions (files and directories), mixtures; " +
		"names containing '..' only in every 4th tree; 35% directories (so empty directories at every depth), files: 15% empty, else 1 B..1 MiB, 1..4 MiB in 1/12 (quick) or 1/6 (thorough) of the trees, one 64 MiB file in the thorough tier; text/random/zero contents, occasionally a real zip archive as content when the extraction is not recursive; " +
		"mtimes of files and directories 1980-01-02..2100-12-31 with sub-second parts and boundary values) × backend (OS scratch directory 2/3, in-memory 1/3) × 4 Zip entry points × 3 Unzip entry points × limits (none, default recursive, default non-recursive) for zip, unzip and for opening the views. " +
		"Each case: round trip, zip view over the library's archive, tar view over a harness-written archive/tar archive; in 2/3 of the cases with at least one file also the read-only sweep and the closed sweep on both views. " +
		"non-trivial = the tree has an empty file, an empty directory, a dotted/unicode/metacharacter name or depth ≥ 3; distinct = canonical (backend, entry points, limits, full tree listing with sizes and mtimes).")
	r.Assume(
		"representable time range of the zip format: the mandatory DOS field covers 1980-01-01T00:00:00..2107-12-31T23:59:58 local time in 2 s steps; the optional extended-timestamp extra field (0x5455) holds 32-bit unix seconds, signed by specification, so 1 s precision is demanded only for times ≤ 2038-01-19T03:14:07Z and only when the archive entry carries such a field (0x5455/0x000a/0x000d/0x5855); otherwise 2 s. Source times outside 1980-01-02..2107-12-30 UTC are not judged (none is generated)",
		"don't care: compression method, entry order, access times, permissions, duplicates in the returned list, the mtime of the extraction root, names that are not valid UTF-8 or contain control characters",
		"don't care: content that is itself a zip archive under recursive limits (expanding it is the documented meaning of recursive); such content is only generated for non-recursive extraction",
		"don't care (views): listing the pseudo-root of an archive without entries; IsEmpty/StatTimes/FetchOwners/DiskUsage/Glob/FindAll on an open view (only Walk, LsRecursive, Ls, Stat, Lstat, ReadFile are judged); GarbageCollect on an open view (swallows the errors of its removals by design and reads access times of archive members in helper goroutines)",
		"don't care (closed): PathSeparator, GetType, ConvertFilePath, ConvertToRelativePath, ConvertToAbsolutePath, TempDirectory, CurrentDirectory, ExcludeAll, NewRemoteLockFile (pure functions of their arguments / constructors), IsZip and IsZipWithContext (answer from the extension of a name), DiskUsage (statistics of the host disk, not of the archive)",
		"closed: the 'failed condition' kind is demanded of direct accessors only = calls that inspect, open, read or list one named entry (Stat, Lstat, StatTimes, GetFileSize, Open, GenericOpen, OpenFile, ReadFile*, FileHash*, Ls*, Lls, Walk*, IsFile/IsDir/IsLink/IsEmpty, Glob, FindAll, ListDirTree*, SubDirectories*, FetchOwners, Readlink) plus the single-entry mutators named by the design (Chmod, Chtimes, Chown, Link, Symlink, TempDir*/TempFile*); composite calls (Copy*, Move*, Rm/Remove*, CleanDir*, MkDir*, WriteFile*, Touch, CreateFile, Zip*, Unzip*, *Recursively, ChangeOwnership*, GarbageCollect*, FetchFileOwner, calls on handles opened before Close) must fail, their kind is recorded but not judged",
		"the OS sandbox is ext4 (case-sensitive, byte-preserving names, nanosecond mtimes); the process runs as root",
	)
	// every method of the FS interface must be classified
	classified := map[string]bool{}
	for _, s := range specs() {
		classified[s.method()] = true
	}
	ms := fsMethods()
	r.Obs("fs_interface_methods_enumerated", int64(len(ms)))
	for _, m := range ms {
		if classified[m] {
			r.Obs("fs_interface_methods_classified", 1)
		} else {
			r.ObsSet("fs_interface_methods_not_classified", m)
			r.Inconclusive("FS method not classified by the monitor (new method?): " + m)
		}
	}
	if r.Replay != "" {
		var wit struct {
			Case struct {
				Index int `json:"index"`
			} `json:"case"`
		}
		if err := r.ReadReplay(&wit); err != nil {
			r.Fatalf("replay: %v", err)
		}
		// the case is regenerated from (seed, index): take the seed from the witness file
		if b, err := os.ReadFile(r.Replay); err == nil {
			var top struct {
				Seed int64 `json:"seed"`
			}
			if json.Unmarshal(b, &top) == nil && top.Seed != 0 {
				r.Seed = top.Seed
			}
		}
		runCase(r, genCase(r, wit.Case.Index), scratch)
		finish()
	}
	n := r.Pick(600, 25000)
	vrun.Parallel(n, 0, func(i int) { runCase(r, genCase(r, i), scratch) })
	q := func(quick, thorough int64) int64 {
		if r.Quick() {
			return quick
		}
		return thorough
	}
	r.Require("entries_compared_after_round_trip", q(5000, 200000))
	r.Require("mtimes_compared_file_extended-1s", q(1000, 40000))
	r.Require("mtimes_compared_dir_extended-1s", q(500, 20000))
	r.Require("returned_lists_checked", q(200, 8000))
	r.Require("view_entries_compared_zip", q(5000, 200000))
	r.Require("view_entries_compared_tar", q(5000, 200000))
	r.Require("view_files_read_zip", q(2000, 80000))
	r.Require("view_files_read_tar", q(2000, 80000))
	r.Require("read_only_calls_judged_zip", q(5000, 200000))
	r.Require("read_only_calls_judged_tar", q(5000, 200000))
	r.Require("closed_calls_judged_zip", q(10000, 400000))
	r.Require("closed_calls_judged_tar", q(10000, 400000))
	r.Require("name_classes_in_trees", 7)
	r.Require("name_generator_classes", int64(len(nameClasses)))
	r.Require("backends", 2)
	r.Require("zip_entry_points", 8)
	r.Require("unzip_entry_points", 5)
	r.Require("tree_depths", 7)
	r.Require("empty_files", 100)
	r.Require("empty_dirs", 100)
	r.Require("fs_interface_methods_classified", 100)
	finish()
}
