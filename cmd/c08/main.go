// C08 — exclusion patterns protect exactly what they name, in every operation.
//
// One case = (generated tree, 0..3 exclusion patterns, one exclusion-aware entry point, backend).
// The oracle is written from the property statement only:
//
//	MUST-PROTECT  an entry one of whose path components (its own name or the name of an ancestor below
//	              the tree root) is matched in full by some pattern p (regexp ^(?:p)$): it must not be
//	              reported / copied / archived / deleted;
//	MUST-PROCESS  an entry none of whose path components contains a match of any pattern (regexp p finds
//	              a match somewhere in the component): it must be reported / copied / archived / deleted;
//	DON'T-CARE    everything else (a component contains a match without being matched in full).
//
// Invalid pattern sets must be refused with commonerrors.ErrInvalid before anything is touched: zero
// mutating backend operations (fsmon) and an unchanged sandbox snapshot (source, destination, archive).
//
// The tree root, the copy destination and the archive get names from an alphabet disjoint from the entry
// name alphabet, and the harness verifies at run time that no pattern finds a match anywhere in those
// absolute paths; a case where one does lies outside the property's quantifier and is skipped (counted).
package main

import (
	"archive/zip"
	"bytes"
	"context"
	"fmt"
	"math/rand/v2"
	"os"
	"path/filepath"
	"regexp"
	"sort"
	"strings"
	"sync"
	"syscall"
	"time"

	"github.com/spf13/afero"

	"github.com/ARM-software/golang-utils/utils/commonerrors"
	"github.com/ARM-software/golang-utils/utils/filesystem"

	"verif/internal/fsmon"
	"verif/internal/snap"
	"verif/internal/treegen"
	"verif/internal/vrun"
)

// ---------------------------------------------------------------------------------------------
// alphabets

const (
	nameLetters = "bdkx" // entry names: these four letters, digits 0..2, '.' and '_'
	nameDigits  = "012"
	// names of everything the harness creates itself (sandbox, tree root, destination, archive):
	// upper-case only, disjoint from every character an entry name or a generated pattern literal can contain.
	rootLetters = "GHJLMNPQRSTUVWYZ"
)

func genName(rng *rand.Rand, _ int, _ int) string {
	for {
		n := 1
		switch x := rng.IntN(100); {
		case x < 30:
			n = 1
		case x < 65:
			n = 2
		case x < 90:
			n = 3
		default:
			n = 4
		}
		var b strings.Builder
		for k := 0; k < n; k++ {
			switch x := rng.IntN(100); {
			case x < 70:
				b.WriteByte(nameLetters[rng.IntN(len(nameLetters))])
			case x < 84:
				b.WriteByte(nameDigits[rng.IntN(len(nameDigits))])
			case x < 92:
				b.WriteByte('.')
			default:
				b.WriteByte('_')
			}
		}
		s := b.String()
		if s == "." || s == ".." {
			continue
		}
		return s
	}
}

func rootName(rng *rand.Rand, prefix string) string {
	n := 2 + rng.IntN(4)
	var b strings.Builder
	b.WriteString(prefix)
	for k := 0; k < n; k++ {
		if k > 0 && k < n-1 && rng.IntN(8) == 0 {
			b.WriteByte('-')
			continue
		}
		b.WriteByte(rootLetters[rng.IntN(len(rootLetters))])
	}
	return b.String()
}

// enc writes a non-negative number with the root alphabet (so that sandbox names contain no digits).
func enc(v int) string {
	if v == 0 {
		return string(rootLetters[0])
	}
	var s []byte
	for v > 0 {
		s = append([]byte{rootLetters[v%16]}, s...)
		v /= 16
	}
	return string(s)
}

// ---------------------------------------------------------------------------------------------
// patterns

var invalidPatterns = []string{`(`, `[`, `*b`, `\`, `b(`, `[bd`, `)`, `b{2,1}`, `+`, `?d`, `(?P<n`, `d**`, `[d-b]`, `\8`}

func litAtom(rng *rand.Rand) string {
	switch x := rng.IntN(100); {
	case x < 70:
		return string(nameLetters[rng.IntN(len(nameLetters))])
	case x < 82:
		return string(nameDigits[rng.IntN(len(nameDigits))])
	case x < 88:
		return `\.`
	case x < 92:
		return `[.]`
	default:
		return `_`
	}
}

func classAtom(rng *rand.Rand) string {
	switch rng.IntN(8) {
	case 0:
		return `[0-2]`
	case 1:
		return `\d`
	case 2:
		return `[._]`
	}
	const al = nameLetters + nameDigits + "._"
	n := 2 + rng.IntN(2)
	seen := map[byte]bool{}
	var b strings.Builder
	b.WriteByte('[')
	for k := 0; k < n; k++ {
		c := al[rng.IntN(len(al))]
		if seen[c] {
			continue
		}
		seen[c] = true
		b.WriteByte(c)
	}
	b.WriteByte(']')
	return b.String()
}

func genAlt(rng *rand.Rand, depth int) string {
	nb := 1
	if rng.IntN(4) == 0 {
		nb = 2 + rng.IntN(2)
	}
	var branches []string
	for i := 0; i < nb; i++ {
		np := 1 + rng.IntN(3)
		var b strings.Builder
		for k := 0; k < np; k++ {
			var atom string
			switch x := rng.IntN(100); {
			case x < 60:
				atom = litAtom(rng)
			case x < 82:
				atom = classAtom(rng)
			default:
				if depth >= 2 {
					atom = litAtom(rng)
				} else if rng.IntN(3) == 0 {
					atom = "(?:" + genAlt(rng, depth+1) + ")"
				} else {
					atom = "(" + genAlt(rng, depth+1) + ")"
				}
			}
			b.WriteString(atom)
			switch x := rng.IntN(100); {
			case x < 8:
				b.WriteString("?")
			case x < 16:
				b.WriteString("*")
			case x < 26:
				b.WriteString("+")
			case x < 29:
				b.WriteString("{1,2}")
			case x < 31:
				b.WriteString("{2}")
			case x < 33:
				b.WriteString("+?")
			case x < 34:
				b.WriteString("*?")
			}
		}
		branches = append(branches, b.String())
	}
	return strings.Join(branches, "|")
}

// genValidPattern returns an anchor-free pattern over name characters: never '.', never a negated class,
// never anything that can match a path separator. Patterns that match the empty string are mostly rejected
// (they "contain a match" in every path and such cases are skipped by the run-time root check).
func genValidPattern(rng *rand.Rand, names []string) string {
	for try := 0; try < 40; try++ {
		var p string
		x := rng.IntN(100)
		switch {
		case x < 30 && len(names) > 0: // a whole name of the tree: hits in full
			p = regexp.QuoteMeta(names[rng.IntN(len(names))])
		case x < 40 && len(names) > 0: // a piece of a name: partial hits (don't-care region) and full hits of shorter names
			n := names[rng.IntN(len(names))]
			i := rng.IntN(len(n))
			j := i + 1 + rng.IntN(len(n)-i)
			p = regexp.QuoteMeta(n[i:j])
		case x < 50 && len(names) > 0: // a name followed by something optional / repeated
			p = regexp.QuoteMeta(names[rng.IntN(len(names))]) + []string{classAtom(rng) + "*", litAtom(rng) + "?", classAtom(rng) + "+", "(" + genAlt(rng, 1) + ")?"}[rng.IntN(4)]
		case x < 58 && len(names) > 1: // alternation of names
			p = regexp.QuoteMeta(names[rng.IntN(len(names))]) + "|" + regexp.QuoteMeta(names[rng.IntN(len(names))])
		default:
			p = genAlt(rng, 0)
		}
		re, err := regexp.Compile(p)
		if err != nil || p == "" {
			continue
		}
		if re.MatchString("") && rng.IntN(8) != 0 {
			continue
		}
		return p
	}
	return string(nameLetters[rng.IntN(len(nameLetters))])
}

// ---------------------------------------------------------------------------------------------
// cases

var entryPoints = []string{
	"Walk",
	"Ls",
	"LsRecursive/dirs", "LsRecursive/files",
	"LsRecursiveLimits/dirs", "LsRecursiveLimits/files",
	"ListDirTree",
	"SubDirectories",
	"Copy/new-dest", "Copy/existing-dest",
	"CopyBetweenFS/new-dest", "CopyBetweenFS/existing-dest",
	"Zip/nolimits", "Zip/limits", "Zip/tightlimits",
	"Remove",
	"CleanDir",
}

// weights: the state-changing entry points are drawn more often
var epWeights = []int{3, 2, 2, 2, 1, 1, 3, 2, 3, 3, 2, 2, 3, 2, 2, 5, 5}

type caseSpec struct {
	Index    int            `json:"index"`
	Backend  string         `json:"backend"`
	EP       string         `json:"entry_point"`
	Patterns []string       `json:"patterns"`
	SrcName  string         `json:"source_root_name"`
	DstName  string         `json:"destination_name"`
	ArcDir   string         `json:"archive_dir_name"`
	ArcName  string         `json:"archive_name"`
	Nodes    []treegen.Node `json:"tree"`
}

func pickWeighted(rng *rand.Rand, w []int) int {
	t := 0
	for _, x := range w {
		t += x
	}
	v := rng.IntN(t)
	for i, x := range w {
		if v < x {
			return i
		}
		v -= x
	}
	return len(w) - 1
}

func genCase(r *vrun.Run, idx int) caseSpec {
	rng := r.Rand("c08", idx)
	c := caseSpec{Index: idx, Backend: "os"}
	if idx%2 == 1 {
		c.Backend = "mem"
	}
	c.EP = entryPoints[pickWeighted(rng, epWeights)]
	depth := pickWeighted(rng, []int{5, 15, 25, 30, 25})
	fan := pickWeighted(rng, []int{5, 10, 20, 30, 35})
	c.Nodes = genTree(rng, depth, fan)
	if c.Nodes == nil {
		c.Nodes = []treegen.Node{}
	}
	var names []string
	for _, n := range c.Nodes {
		names = append(names, filepath.Base(n.Path))
	}
	c.SrcName = rootName(rng, "S")
	c.DstName = rootName(rng, "D")
	c.ArcDir = rootName(rng, "A")
	c.ArcName = rootName(rng, "Z")
	if strings.HasPrefix(c.EP, "Zip") && len(names) > 0 && rng.IntN(3) == 0 {
		// the archive (written outside the tree) carries the name of an entry of the tree
		c.ArcName = names[rng.IntN(len(names))]
	}
	c.Patterns = []string{}
	if rng.IntN(8) == 0 {
		// invalid pattern set: one (sometimes two) invalid patterns mixed with 0..2 valid ones
		nv := rng.IntN(3)
		for k := 0; k < nv; k++ {
			c.Patterns = append(c.Patterns, genValidPattern(rng, names))
		}
		ni := 1
		if nv < 2 && rng.IntN(5) == 0 {
			ni = 2
		}
		for k := 0; k < ni; k++ {
			c.Patterns = append(c.Patterns, invalidPatterns[rng.IntN(len(invalidPatterns))])
		}
		rng.Shuffle(len(c.Patterns), func(i, j int) { c.Patterns[i], c.Patterns[j] = c.Patterns[j], c.Patterns[i] })
	} else {
		np := pickWeighted(rng, []int{8, 40, 32, 20})
		for k := 0; k < np; k++ {
			c.Patterns = append(c.Patterns, genValidPattern(rng, names))
		}
		if rng.IntN(12) == 0 {
			// pattern sets which read the same once joined with a blank: ["a b"] and ["a", "b"] are different sets
			l1, l2 := string(nameLetters[rng.IntN(len(nameLetters))]), string(nameLetters[rng.IntN(len(nameLetters))])
			if rng.IntN(2) == 0 {
				c.Patterns = []string{l1 + " " + l2}
			} else {
				c.Patterns = []string{l1, l2}
			}
			np = 0
		}
		if np > 0 && rng.IntN(10) == 0 {
			at := rng.IntN(len(c.Patterns))
			c.Patterns = append(c.Patterns[:at], append([]string{""}, c.Patterns[at:]...)...)
		}
		// Patterns with '.', '.*' or a negated class can match ACROSS a path separator when applied to a joined path although
		// no single component contains a match. They are generated for the entry points that the property lets us judge
		// per component (everything but copy, whose whole-path matching is a recorded don't-care region).
		if !strings.HasPrefix(c.EP, "Copy") && rng.IntN(5) == 0 {
			var nested []treegen.Node
			for _, n := range c.Nodes {
				if strings.Contains(n.Path, "/") {
					nested = append(nested, n)
				}
			}
			if len(nested) > 0 {
				n := nested[rng.IntN(len(nested))]
				comps := strings.Split(n.Path, "/")
				par, child := regexp.QuoteMeta(comps[len(comps)-2]), regexp.QuoteMeta(comps[len(comps)-1])
				cross := []string{par + "." + child, par + ".*" + child, par + "[^" + string(nameLetters[rng.IntN(len(nameLetters))]) + "]" + child, par + ".+" + child, par + `\W` + child}[rng.IntN(5)]
				if _, err := regexp.Compile(cross); err == nil {
					c.Patterns = append(c.Patterns, cross)
				}
			}
		}
	}
	return c
}

// genTree generates a tree of depth ≤ maxDepth (0 = empty tree) in which every directory has 0..maxFan
// entries (the root 1..maxFan, so that empty trees come only from maxDepth = 0 or maxFan = 0); parents
// precede their children; entries at the maximum depth are files.
func genTree(rng *rand.Rand, maxDepth, maxFan int) []treegen.Node {
	var nodes []treegen.Node
	var rec func(prefix string, depth int)
	rec = func(prefix string, depth int) {
		if depth > maxDepth || maxFan == 0 {
			return
		}
		fan := max(rng.IntN(maxFan+1), rng.IntN(maxFan+1))
		if depth == 1 {
			fan = max(fan, 1)
		}
		seen := map[string]bool{}
		for i := 0; i < fan && len(nodes) < 40; i++ {
			name := genName(rng, depth, i)
			if seen[name] {
				continue
			}
			seen[name] = true
			p := name
			if prefix != "" {
				p = prefix + "/" + name
			}
			if depth == maxDepth || rng.IntN(100) < 45 {
				size := 0
				if rng.IntN(5) != 0 {
					size = rng.IntN(49)
				}
				nodes = append(nodes, treegen.Node{Path: p, Kind: "file", Size: size, Mode: 0o644})
			} else {
				nodes = append(nodes, treegen.Node{Path: p, Kind: "dir", Mode: 0o755})
				rec(p, depth+1)
			}
		}
	}
	rec("", 1)
	return nodes
}

// contentFor is a pure function of the path (so that a replayed witness rebuilds the same tree).
func contentFor(p string, size int) []byte {
	b := make([]byte, size)
	for i := range b {
		b[i] = p[i%len(p)] ^ byte(i)
	}
	return b
}

// ---------------------------------------------------------------------------------------------
// backends

type backend struct {
	kind string
	base afero.Fs // raw filesystem (snapshots and set-up bypass the monitor)
	mon  *fsmon.Monitor
	vfs  filesystem.FS
	sb   string // sandbox root on this backend

	mu  sync.Mutex
	mut []string // mutating operations seen, in order
}

func newBackend(r *vrun.Run, kind, scratch string, idx int, tag string) *backend {
	b := &backend{kind: kind, mon: fsmon.NewMonitor(false)}
	b.mon.After = func(e *fsmon.Event) {
		if !e.Mut {
			return
		}
		b.mu.Lock()
		if len(b.mut) < 60 {
			s := e.Op + " " + e.Path
			if e.Err != "" {
				s += " -> " + e.Err
			}
			b.mut = append(b.mut, s)
		}
		b.mu.Unlock()
	}
	if kind == "os" {
		b.sb = filepath.Join(scratch, "X"+tag+enc(idx))
		_ = os.RemoveAll(b.sb)
		must(r, os.MkdirAll(b.sb, 0o755))
		b.base = filesystem.NewExtendedOsFs()
		b.vfs = filesystem.NewVirtualFileSystem(fsmon.New(b.base, "a", b.mon), filesystem.StandardFS, filesystem.IdentityPathConverterFunc)
	} else {
		b.sb = "/X" + tag + enc(idx)
		b.base = afero.NewMemMapFs()
		must(r, b.base.MkdirAll(b.sb, 0o755))
		b.vfs = filesystem.NewVirtualFileSystem(fsmon.New(b.base, "a", b.mon), filesystem.InMemoryFS, filesystem.IdentityPathConverterFunc)
	}
	return b
}

func (b *backend) cleanup() {
	if b != nil && b.kind == "os" {
		_ = os.RemoveAll(b.sb)
	}
}

func (b *backend) snapshot(r *vrun.Run) snap.Snap {
	var s snap.Snap
	var err error
	if b.kind == "os" {
		s, err = snap.TakeOS(b.sb)
	} else {
		s, err = snap.TakeAfero(b.base, b.sb)
	}
	must(r, err)
	return s
}

func (b *backend) mkdir(r *vrun.Run, p string) { must(r, b.base.MkdirAll(p, 0o755)) }

func (b *backend) materialise(r *vrun.Run, root string, nodes []treegen.Node) {
	if b.kind == "os" {
		must(r, treegen.MaterializeOS(root, nodes))
	} else {
		must(r, treegen.MaterializeAfero(b.base, root, nodes))
	}
}

func (b *backend) mutOps() (int64, []string) {
	_, m := b.mon.Ops()
	b.mu.Lock()
	defer b.mu.Unlock()
	return m, append([]string(nil), b.mut...)
}

// ---------------------------------------------------------------------------------------------
// the oracle's view of the tree

const (
	clsDontCare = 0
	clsProtect  = 1
	clsProcess  = 2
)

type entry struct {
	Rel   string
	Kind  string
	Depth int  // number of path components (1 = directly below the tree root)
	Cls   int  // clsProtect / clsProcess / clsDontCare
	Named bool // the entry's own name is matched in full (otherwise protection is inherited from an ancestor)
}

// classify computes the class of every entry straight from the property's definition.
func classify(nodes []treegen.Node, full, contains []*regexp.Regexp) []entry {
	out := make([]entry, 0, len(nodes))
	for _, n := range nodes {
		comps := strings.Split(n.Path, "/")
		e := entry{Rel: n.Path, Kind: n.Kind, Depth: len(comps)}
		prot, anyContains := false, false
		for i, comp := range comps {
			for _, re := range full {
				if re.MatchString(comp) {
					prot = true
					if i == len(comps)-1 {
						e.Named = true
					}
				}
			}
			for _, re := range contains {
				if re.MatchString(comp) {
					anyContains = true
				}
			}
		}
		switch {
		case prot:
			e.Cls = clsProtect
		case !anyContains:
			e.Cls = clsProcess
		default:
			e.Cls = clsDontCare
		}
		out = append(out, e)
	}
	return out
}

func epClass(ep string) string {
	if i := strings.IndexByte(ep, '/'); i >= 0 {
		ep = ep[:i]
	}
	switch ep {
	case "LsRecursiveLimits":
		return "LsRecursive"
	case "CopyBetweenFS":
		return "Copy"
	}
	return ep
}

func depthClass(d int) string {
	if d <= 1 {
		return "top-level"
	}
	return "nested"
}

// ---------------------------------------------------------------------------------------------
// running one case

type outcome struct {
	err       error
	reported  map[string]bool // relative slash paths reported / found at the destination / in the archive
	haveSet   bool
	cbErrors  int
	unrelated []string // reported paths that could not be made relative to the tree root
}

func generousLimits() filesystem.ILimits {
	return filesystem.NewLimits(1<<30, 1<<40, 1<<20, 64, true)
}

func relTo(root, p string) (string, bool) {
	rel, err := filepath.Rel(root, p)
	if err != nil || rel == ".." || strings.HasPrefix(rel, "../") {
		return "", false
	}
	return filepath.ToSlash(rel), true
}

func runCase(r *vrun.Run, c caseSpec, scratch string) {
	// --- compile the patterns the way the property defines them
	var full, contains []*regexp.Regexp
	invalid := false
	hasEmpty := false
	for _, p := range c.Patterns {
		if p == "" {
			// The empty pattern names nothing (no name is matched in full by it). As a regular expression it matches
			// inside every name, so by the letter nothing must be processed any more: the must-process side is not
			// judged for such sets, the must-protect side of the other patterns is.
			hasEmpty = true
			continue
		}
		re, err := regexp.Compile(p)
		if err != nil {
			invalid = true
			continue
		}
		fre, err := regexp.Compile("^(?:" + p + ")$")
		if err != nil {
			r.Fatalf("harness: anchored form of valid pattern %q does not compile: %v", p, err)
		}
		contains = append(contains, re)
		full = append(full, fre)
	}
	for i := range c.Nodes {
		if c.Nodes[i].Kind == "file" {
			c.Nodes[i].Content = contentFor(c.Nodes[i].Path, c.Nodes[i].Size)
		}
	}
	cls := epClass(c.EP)
	variant := ""
	if i := strings.IndexByte(c.EP, '/'); i >= 0 {
		variant = c.EP[i+1:]
	}
	cross := strings.HasPrefix(c.EP, "CopyBetweenFS")

	// --- sandbox
	prim := newBackend(r, c.Backend, scratch, c.Index, "P")
	defer prim.cleanup()
	var sec *backend
	if cross {
		other := "mem"
		if c.Backend == "mem" {
			other = "os"
		}
		sec = newBackend(r, other, scratch, c.Index, "Q")
		defer sec.cleanup()
	}
	src := filepath.Join(prim.sb, c.SrcName)
	tightLimit, enlarged := int64(0), 0
	if variant == "tightlimits" && !invalid {
		// the per-file limit sits on the largest file that is not protected; every protected file is larger than it
		pre := classify(c.Nodes, full, contains)
		tightLimit = 16384 // directories are measured too (their inode size): stay above it
		for i, e := range pre {
			if e.Kind == "file" && e.Cls != clsProtect && int64(c.Nodes[i].Size) > tightLimit {
				tightLimit = int64(c.Nodes[i].Size)
			}
		}
		for i, e := range pre {
			if e.Kind == "file" && e.Cls == clsProtect {
				c.Nodes[i].Size = int(tightLimit) + 1 + i%50
				c.Nodes[i].Content = contentFor(c.Nodes[i].Path, c.Nodes[i].Size)
				enlarged++
			}
		}
	}
	prim.materialise(r, src, c.Nodes)
	destBE := prim
	if cross {
		destBE = sec
	}
	dest := filepath.Join(destBE.sb, c.DstName)
	destFinal := dest
	if cls == "Copy" && variant == "existing-dest" {
		destBE.mkdir(r, dest)
		destFinal = filepath.Join(dest, c.SrcName)
	}
	arcDir := filepath.Join(prim.sb, c.ArcDir)
	arc := filepath.Join(arcDir, c.ArcName)
	if cls == "Zip" {
		prim.mkdir(r, arcDir)
		if c.Index%2 == 0 {
			// the archive of an earlier run is already there
			_ = afero.WriteFile(prim.base, arc, []byte("PK\x05\x06"+strings.Repeat("\x00", 18)), 0o644)
		}
	}

	// --- the property is quantified over trees rooted at a location whose own path contains no match
	if !invalid {
		check := []string{src}
		if cls == "Copy" {
			check = append(check, destFinal)
		}
		if cls == "Zip" {
			check = append(check, arc)
		}
		for _, p := range check {
			for _, re := range contains {
				if re.MatchString(p) {
					r.Obs("cases_skipped_pattern_matches_in_root_path", 1)
					if re.MatchString("") {
						r.Obs("cases_skipped_pattern_matches_empty_string", 1)
					}
					return
				}
			}
		}
	}

	entries := classify(c.Nodes, full, contains)
	canon := fmt.Sprintf("%s|%s|%q|", c.Backend, c.EP, c.Patterns)
	for _, n := range c.Nodes {
		canon += n.Path + ":" + n.Kind[:1] + ";"
	}

	before := prim.snapshot(r)
	var beforeSec snap.Snap
	if sec != nil {
		beforeSec = sec.snapshot(r)
	}

	ctx, cancel := context.WithTimeout(context.Background(), 120*time.Second)
	defer cancel()
	out := invoke(ctx, c, cls, variant, prim, destBE, src, dest, arc, tightLimit)

	after := prim.snapshot(r)
	var afterSec snap.Snap
	if sec != nil {
		afterSec = sec.snapshot(r)
	}
	primMut, primOps := prim.mutOps()
	var secMut int64
	var secOps []string
	if sec != nil {
		secMut, secOps = sec.mutOps()
	}

	witness := func(extra map[string]any) map[string]any {
		w := map[string]any{"case": c, "result": fmt.Sprint(out.err), "source_root": src,
			"before": before.String(), "after": after.String(), "mutating_ops": primOps}
		if sec != nil {
			w["destination_backend"] = sec.kind
			w["destination_before"] = beforeSec.String()
			w["destination_after"] = afterSec.String()
			w["destination_mutating_ops"] = secOps
		}
		if cls == "Copy" {
			w["destination"] = destFinal
		}
		if cls == "Zip" {
			w["archive"] = arc
		}
		if out.haveSet {
			l := make([]string, 0, len(out.reported))
			for p := range out.reported {
				l = append(l, p)
			}
			sort.Strings(l)
			w["reported_or_found"] = l
		}
		var prot, proc, dc []string
		for _, e := range entries {
			switch e.Cls {
			case clsProtect:
				prot = append(prot, e.Rel)
			case clsProcess:
				proc = append(proc, e.Rel)
			default:
				dc = append(dc, e.Rel)
			}
		}
		w["must_protect"], w["must_process"], w["dont_care"] = prot, proc, dc
		for k, v := range extra {
			w[k] = v
		}
		return w
	}

	r.ObsSet("entry_points", c.Backend+"/"+c.EP)
	r.Obs("tree_entries_total", int64(len(c.Nodes)))
	r.ObsMax("tree_entries_max", int64(len(c.Nodes)))
	if len(c.Nodes) == 0 {
		r.Obs("empty_trees", 1)
	}

	if ctx.Err() != nil {
		r.Inconclusive("watchdog: the operation did not finish within 120 s")
		return
	}

	// =============================== invalid pattern sets ===============================
	if invalid {
		r.Case(canon, len(c.Nodes) > 0)
		r.Obs("invalid_pattern_cases", 1)
		r.ObsSet("invalid_pattern_entry_points", c.Backend+"/"+c.EP)
		treeCls := "non-empty"
		if len(c.Nodes) == 0 {
			treeCls = "empty"
		}
		if out.err == nil {
			r.Violation(vrun.Sig{"ep": cls, "side": "invalid", "effect": "not-rejected", "tree": treeCls},
				fmt.Sprintf("%s(%s) with invalid pattern set %q returned nil (backend %s, %s tree)", c.EP, c.SrcName, c.Patterns, c.Backend, treeCls), witness(nil))
		} else if !commonerrors.Any(out.err, commonerrors.ErrInvalid) {
			r.Violation(vrun.Sig{"ep": cls, "side": "invalid", "effect": "wrong-kind", "tree": treeCls},
				fmt.Sprintf("%s with invalid pattern set %q failed with %q which is not of the 'invalid' kind (backend %s)", c.EP, c.Patterns, out.err, c.Backend), witness(nil))
		} else {
			r.Obs("invalid_pattern_sets_refused_with_invalid_kind", 1)
		}
		diff := snap.Diff(before, after, snap.Options{MTime: true, Mode: true}, nil)
		if sec != nil {
			for _, d := range snap.Diff(beforeSec, afterSec, snap.Options{MTime: true, Mode: true}, nil) {
				diff = append(diff, "destination backend: "+d)
			}
		}
		if primMut+secMut > 0 || len(diff) > 0 {
			touched := "other"
			all := append(append([]string{}, primOps...), secOps...)
			all = append(all, diff...)
			joined := strings.Join(all, "\n")
			switch {
			case cls == "Zip" && strings.Contains(joined, c.ArcName):
				touched = "archive-file"
			case cls == "Copy" && strings.Contains(joined, c.DstName):
				touched = "destination"
			case strings.Contains(joined, c.SrcName):
				touched = "source-tree"
			}
			what := fmt.Sprintf("%s with invalid pattern set %q touched the filesystem before/without refusing (backend %s): %d mutating backend operations", c.EP, c.Patterns, c.Backend, primMut+secMut)
			if len(all) > 0 {
				what += ", e.g. " + all[0]
			}
			r.Violation(vrun.Sig{"ep": cls, "side": "invalid", "effect": "touched-before-rejection", "touched": touched, "tree": treeCls}, what, witness(map[string]any{"snapshot_diff": diff}))
		} else {
			r.Obs("invalid_pattern_cases_nothing_touched", 1)
		}
		return
	}

	// =============================== valid pattern sets ===============================
	nontrivial := false
	for _, e := range entries {
		switch e.Cls {
		case clsProtect:
			r.ObsSet("depths_with_protected_entries", fmt.Sprint(e.Depth))
			if e.Named {
				nontrivial = nontrivial || len(c.Patterns) > 0
				r.ObsSet("depths_with_full_name_hits", fmt.Sprint(e.Depth))
				if e.Depth >= 2 {
					r.Obs("full_name_hits_nested", 1)
				}
			} else {
				r.Obs("entries_beneath_a_protected_directory", 1)
			}
		case clsDontCare:
			r.Obs("entries_in_dont_care_region", 1)
		}
	}
	r.Case(canon, nontrivial)
	r.ObsSet("pattern_counts", fmt.Sprint(len(c.Patterns)))
	if r.WantSample() && nontrivial && c.Index%13 == 5 {
		r.Sample(map[string]any{"case": c, "result": fmt.Sprint(out.err)})
	}
	if variant == "tightlimits" && enlarged > 0 {
		r.Obs("zip_cases_whose_only_oversize_files_are_protected", 1)
		if out.err != nil && commonerrors.Any(out.err, commonerrors.ErrTooLarge) {
			r.Violation(vrun.Sig{"ep": cls, "side": "protect", "effect": "limit-applied-to-a-protected-entry"},
				fmt.Sprintf("%s with patterns %q and a per-file limit of %d bytes fails with %v although only protected files (which are not to be archived) exceed the limit (backend %s)", c.EP, c.Patterns, tightLimit, out.err, c.Backend), witness(nil))
		}
	}
	if out.err != nil {
		// The property does not say that the operation succeeds; a failure cannot be judged on the
		// must-process side. The must-protect side is still checked below.
		r.Inconclusive("operation failed although every pattern is valid (must-process side not judged): " + cls)
		r.ObsSet("errors_with_valid_patterns", cls+": "+firstWords(fmt.Sprint(out.err), 6))
	}
	if out.cbErrors > 0 {
		r.Inconclusive("walk callback received an error (must-process side not judged)")
	}
	judgeProcess := out.err == nil && out.cbErrors == 0 && !hasEmpty
	if hasEmpty {
		r.Obs("cases_with_an_empty_pattern_(must-protect_side_only)", 1)
	}

	var protJudged, procJudged int64
	firstProt, firstProc := true, true
	protViolation := func(e entry, effect string) {
		if !firstProt {
			return
		}
		firstProt = false
		which := "beneath-a-fully-matched-directory"
		if e.Named {
			which = "own-name-fully-matched"
		}
		r.Violation(vrun.Sig{"ep": cls, "side": "protect", "effect": effect, "which": which, "depth": depthClass(e.Depth)},
			fmt.Sprintf("%s with patterns %q %s the protected entry %q (%s, %s; backend %s)", c.EP, c.Patterns, effect, e.Rel, which, e.Kind, c.Backend), witness(map[string]any{"offending_entry": e.Rel}))
	}
	procViolation := func(e entry, effect string) {
		if !firstProc {
			return
		}
		firstProc = false
		r.Violation(vrun.Sig{"ep": cls, "side": "process", "effect": effect, "depth": depthClass(e.Depth), "kind": e.Kind},
			fmt.Sprintf("%s with patterns %q: entry %q (%s) has no path component containing a match but was %s (backend %s)", c.EP, c.Patterns, e.Rel, e.Kind, effect, c.Backend), witness(map[string]any{"offending_entry": e.Rel}))
	}

	switch cls {
	case "Walk", "Ls", "LsRecursive", "ListDirTree", "SubDirectories", "Copy", "Zip":
		posVerb, negVerb := "reported", "not-reported"
		switch cls {
		case "Copy":
			posVerb, negVerb = "copied", "not-copied"
		case "Zip":
			posVerb, negVerb = "archived", "not-archived"
		}
		if !out.haveSet {
			if out.err == nil {
				r.Inconclusive("result set could not be read back: " + cls)
			}
			break
		}
		for _, e := range entries {
			// which entries the entry point is about
			inScope := true
			mustReportWhenProcess := true
			switch cls {
			case "Ls":
				inScope = e.Depth == 1
			case "SubDirectories":
				inScope = e.Depth == 1
				mustReportWhenProcess = e.Kind == "dir"
			case "LsRecursive":
				if variant == "files" {
					mustReportWhenProcess = e.Kind == "file"
				}
			}
			if !inScope {
				continue
			}
			switch e.Cls {
			case clsProtect:
				protJudged++
				if out.reported[e.Rel] {
					protViolation(e, posVerb)
				}
			case clsProcess:
				if !mustReportWhenProcess || !judgeProcess {
					continue
				}
				procJudged++
				if !out.reported[e.Rel] {
					procViolation(e, negVerb)
				}
			}
		}
	case "Remove", "CleanDir":
		relSrc := c.SrcName
		survives := func(rel string) bool {
			_, ok := after[relSrc+"/"+rel]
			return ok
		}
		// ancestors of a surviving entry that is not must-process are legitimately kept
		justified := map[string]bool{}
		for _, e := range entries {
			if e.Cls != clsProcess && survives(e.Rel) {
				p := e.Rel
				for {
					i := strings.LastIndexByte(p, '/')
					if i < 0 {
						break
					}
					p = p[:i]
					justified[p] = true
				}
			}
		}
		for _, e := range entries {
			switch e.Cls {
			case clsProtect:
				protJudged++
				if !survives(e.Rel) {
					protViolation(e, "deleted")
				} else if ea, eb := before[relSrc+"/"+e.Rel], after[relSrc+"/"+e.Rel]; ea.Kind != eb.Kind {
					protViolation(e, "replaced")
				}
			case clsProcess:
				if !judgeProcess {
					continue
				}
				procJudged++
				if survives(e.Rel) && !justified[e.Rel] {
					procViolation(e, "not-deleted")
				}
			}
		}
		// ancestors of protected entries (the tree root included) must survive
		if protJudged > 0 {
			if _, ok := after[relSrc]; !ok {
				r.Violation(vrun.Sig{"ep": cls, "side": "protect", "effect": "tree-root-deleted"},
					fmt.Sprintf("%s with patterns %q removed the tree root although it contains protected entries (backend %s)", c.EP, c.Patterns, c.Backend), witness(nil))
			}
		}
	}
	r.Obs("protected_entries_judged", protJudged)
	r.Obs("must_process_entries_judged", procJudged)
	r.Obs("protected_entries_judged/"+cls, protJudged)
	r.Obs("must_process_entries_judged/"+cls, procJudged)
	if protJudged > 0 && procJudged > 0 {
		r.Obs("cases_with_both_sides_judged", 1)
	}
}

func firstWords(s string, n int) string {
	f := strings.Fields(s)
	if len(f) > n {
		f = f[:n]
	}
	// keep the class of the message, drop path-like words (they differ per case)
	for i, w := range f {
		if strings.Contains(w, "/") {
			f[i] = "<path>"
		}
	}
	return strings.Join(f, " ")
}

// invoke calls the entry point and collects what it reported / produced as tree-relative slash paths.
func invoke(ctx context.Context, c caseSpec, cls, variant string, prim, destBE *backend, src, dest, arc string, tightLimit int64) (out outcome) {
	out.reported = map[string]bool{}
	fs := prim.vfs
	addAbs := func(p string) {
		rel, ok := relTo(src, p)
		if !ok {
			out.unrelated = append(out.unrelated, p)
			return
		}
		if rel != "." {
			out.reported[rel] = true
		}
	}
	switch cls {
	case "Walk":
		out.err = fs.WalkWithContextAndExclusionPatterns(ctx, src, func(p string, info os.FileInfo, err error) error {
			if err != nil {
				out.cbErrors++
				return nil
			}
			addAbs(p)
			return nil
		}, c.Patterns...)
		out.haveSet = true
	case "Ls":
		var names []string
		names, out.err = fs.LsWithExclusionPatterns(src, c.Patterns...)
		for _, n := range names {
			out.reported[filepath.ToSlash(n)] = true
		}
		out.haveSet = true
	case "LsRecursive":
		var l []string
		incl := variant == "dirs"
		if strings.HasPrefix(c.EP, "LsRecursiveLimits") {
			l, out.err = fs.LsRecursiveWithExclusionPatternsAndLimits(ctx, src, generousLimits(), incl, c.Patterns...)
		} else {
			l, out.err = fs.LsRecursiveWithExclusionPatterns(ctx, src, incl, c.Patterns...)
		}
		for _, p := range l {
			addAbs(p)
		}
		out.haveSet = true
	case "ListDirTree":
		var l []string
		out.err = fs.ListDirTreeWithContextAndExclusionPatterns(ctx, src, &l, c.Patterns...)
		for _, p := range l {
			addAbs(p)
		}
		out.haveSet = true
	case "SubDirectories":
		var names []string
		names, out.err = fs.SubDirectoriesWithContextAndExclusionPatterns(ctx, src, c.Patterns...)
		for _, n := range names {
			out.reported[filepath.ToSlash(n)] = true
		}
		out.haveSet = true
	case "Copy":
		if strings.HasPrefix(c.EP, "CopyBetweenFS") {
			out.err = filesystem.CopyBetweenFSWithExclusionPatterns(ctx, prim.vfs, src, destBE.vfs, dest, c.Patterns...)
		} else {
			out.err = fs.CopyWithContextAndExclusionPatterns(ctx, src, dest, c.Patterns...)
		}
		final := dest
		if variant == "existing-dest" {
			final = filepath.Join(dest, c.SrcName)
		}
		var s snap.Snap
		var err error
		if destBE.kind == "os" {
			s, err = snap.TakeOS(final)
		} else {
			s, err = snap.TakeAfero(destBE.base, final)
		}
		if err == nil {
			for p := range s {
				if p != "." {
					out.reported[p] = true
				}
			}
			out.haveSet = true
		}
	case "Zip":
		limits := filesystem.NoLimits()
		if variant == "limits" {
			limits = generousLimits()
		}
		if variant == "tightlimits" && tightLimit > 0 {
			limits = filesystem.NewLimits(tightLimit, 1<<40, 1<<30, 1000, false)
		}
		out.err = fs.ZipWithContextAndLimitsAndExclusionPatterns(ctx, src, arc, limits, c.Patterns...)
		b, err := afero.ReadFile(prim.base, arc)
		if err != nil {
			return
		}
		zr, err := zip.NewReader(bytes.NewReader(b), int64(len(b)))
		if err != nil {
			return
		}
		for _, f := range zr.File {
			n := strings.TrimSuffix(filepath.ToSlash(f.Name), "/")
			if n != "" && n != "." {
				out.reported[n] = true
			}
		}
		out.haveSet = true
	case "Remove":
		out.err = fs.RemoveWithContextAndExclusionPatterns(ctx, src, c.Patterns...)
	case "CleanDir":
		out.err = fs.CleanDirWithContextAndExclusionPatterns(ctx, src, c.Patterns...)
	default:
		out.err = fmt.Errorf("harness: unknown entry point %s", c.EP)
	}
	return
}

func must(r *vrun.Run, err error) {
	if err != nil {
		r.Fatalf("harness: %v", err)
	}
}

func main() {
	r := vrun.Start("C08", "exploration")
	var rl syscall.Rlimit
	if syscall.Getrlimit(syscall.RLIMIT_NOFILE, &rl) == nil {
		rl.Cur = rl.Max
		_ = syscall.Setrlimit(syscall.RLIMIT_NOFILE, &rl)
	}
	for _, p := range invalidPatterns {
		if _, err := regexp.Compile(p); err == nil {
			r.Fatalf("harness: pattern %q of the invalid list compiles", p)
		}
	}
	// own scratch directory: its name is made of the root alphabet only (vrun.Scratch would add digits,
	// which entry names and patterns use)
	base := os.Getenv("VERIF_SCRATCH")
	if base == "" {
		base = "/var/tmp/verif-scratch"
	}
	scratch := filepath.Join(base, "CH-"+enc(os.Getpid()))
	_ = os.RemoveAll(scratch)
	must(r, os.MkdirAll(scratch, 0o755))
	defer os.RemoveAll(scratch)

	r.Rule("one case = (tree of depth 0..4 and fan-out 0..4 whose entry names are 1..4 characters from {b,d,k,x,0,1,2,'.','_'}; 0..3 anchor-free patterns: quoted whole names / pieces of names of the tree, names with an optional or repeated tail, alternations, or grammar-generated regexes from literals, classes, ?*+{m,n}, lazy quantifiers, groups and alternation over the same characters (never '.', never a negated class), plus — for every entry point except copy — in 1 case of 5 a pattern joining a parent's and a child's name with '.', '.*', '.+', \\W or a negated class, which matches across a separator on a joined path but in no single component; 1 case in 8 mixes one or two invalid patterns in; one of 16 entry-point variants of walk / ls / recursive ls (with and without directories, with and without limits) / tree listing / sub-directories / copy (same FS and across backends, new and existing destination) / zip (with and without limits) / remove / clean; backend OS scratch directory or in-memory). " +
		"Tree root, destination and archive names come from a disjoint upper-case alphabet and a case in which a pattern finds a match in one of those absolute paths is skipped. " +
		"non-trivial = valid non-empty pattern set that matches in full the name of at least one tree entry (invalid sets: the tree is not empty); distinct = canonical (backend, entry point, patterns, tree listing).")
	r.Assume("Go's regexp package defines 'matched in full' (^(?:p)$ matches the name), 'contains a match' (p matches somewhere in the component) and which patterns are invalid",
		"the tree root itself is not an entry: whether it is reported or (when nothing is kept) removed is not judged",
		"an operation that returns an error with valid patterns is judged on the must-protect side only (counted inconclusive)",
		"content fidelity of copies and archives belongs to C06/C07: only presence/absence of entries is judged")

	if r.Replay != "" {
		var wit struct {
			Case caseSpec `json:"case"`
		}
		if err := r.ReadReplay(&wit); err != nil {
			r.Fatalf("replay: %v", err)
		}
		runCase(r, wit.Case, scratch)
		os.RemoveAll(scratch)
		r.Finish()
	}
	n := r.Pick(3300, 132000)
	vrun.Parallel(n, 0, func(i int) { runCase(r, genCase(r, i), scratch) })
	// every entry point meets an invalid pattern set on both backends whatever the seed draws above
	var forced []caseSpec
	for bi, backend := range []string{"os", "mem"} {
		for ei, ep := range entryPoints {
			c := genCase(r, n+bi*len(entryPoints)+ei)
			c.Backend, c.EP = backend, ep
			c.Patterns = []string{invalidPatterns[(ei+bi)%len(invalidPatterns)]}
			forced = append(forced, c)
		}
	}
	vrun.Parallel(len(forced), 0, func(i int) { runCase(r, forced[i], scratch) })
	os.RemoveAll(scratch)
	q := int64(1)
	if !r.Quick() {
		q = 30
	}
	r.Require("evaluations", 2800*q)
	r.Require("entry_points", int64(2*len(entryPoints)))
	r.Require("invalid_pattern_entry_points", int64(2*len(entryPoints)))
	r.Require("invalid_pattern_cases", 250*q)
	r.Require("protected_entries_judged", 2000*q)
	r.Require("must_process_entries_judged", 5000*q)
	r.Require("full_name_hits_nested", 600*q)
	r.Require("entries_beneath_a_protected_directory", 800*q)
	r.Require("depths_with_full_name_hits", 4)
	r.Require("cases_with_both_sides_judged", 500*q)
	for _, cls := range []string{"Walk", "Ls", "LsRecursive", "ListDirTree", "SubDirectories", "Copy", "Zip", "Remove", "CleanDir"} {
		r.Require("protected_entries_judged/"+cls, 20*q)
		r.Require("must_process_entries_judged/"+cls, 50*q)
	}
	r.Finish()
}
