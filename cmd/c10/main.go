// C10 — numeric conversions saturate: never wrap, never panic, monotonic.
//
// Reference-model monitor: every safecast.ToX call is executed next to an independent statement of
// the documented semantics (truncate toward zero, clamp to the target range), itself cross-checked
// against an arbitrary-precision (math/big) reference on every boundary value and on a sample of the
// rest. Inputs: all 8- and 16-bit sources exhaustively (quick), all 32-bit sources incl. every float32
// bit pattern (thorough), 64-bit boundary neighbourhoods, powers of two, next-up/next-down floats,
// infinities, subnormals, random values — for the 12 builtin source kinds and a named type over each.
package main

import (
	"fmt"
	"math"
	"math/big"
	"runtime"
	"sort"
	"sync"
	"sync/atomic"

	"github.com/ARM-software/golang-utils/utils/safecast"

	"verif/internal/vrun"
)

type (
	NInt     int
	NInt8    int8
	NInt16   int16
	NInt32   int32
	NInt64   int64
	NUint    uint
	NUint8   uint8
	NUint16  uint16
	NUint32  uint32
	NUint64  uint64
	NFloat32 float32
	NFloat64 float64
)

// val is an exact description of a source value.
type val struct {
	k byte // 'i', 'u', 'f'
	i int64
	u uint64
	f float64
}

func (v val) String() string {
	switch v.k {
	case 'i':
		return fmt.Sprintf("%d", v.i)
	case 'u':
		return fmt.Sprintf("%d", v.u)
	}
	return fmt.Sprintf("%v(bits %#x)", v.f, math.Float64bits(v.f))
}

func (v val) isNaN() bool { return v.k == 'f' && math.IsNaN(v.f) }

// less reports v < w for non-NaN values of the same kind.
func (v val) less(w val) bool {
	switch v.k {
	case 'i':
		return v.i < w.i
	case 'u':
		return v.u < w.u
	}
	return v.f < w.f
}

var sMin = [5]int64{math.MinInt, math.MinInt8, math.MinInt16, math.MinInt32, math.MinInt64}
var sMax = [5]int64{math.MaxInt, math.MaxInt8, math.MaxInt16, math.MaxInt32, math.MaxInt64}
var uMax = [5]uint64{math.MaxUint, math.MaxUint8, math.MaxUint16, math.MaxUint32, math.MaxUint64}
var sName = [5]string{"ToInt", "ToInt8", "ToInt16", "ToInt32", "ToInt64"}
var uName = [5]string{"ToUint", "ToUint8", "ToUint16", "ToUint32", "ToUint64"}

const two63 = 9223372036854775808.0
const two64 = 18446744073709551616.0

// refSigned: fast statement of the documented semantics for a signed target [min,max].
func refSigned(v val, min, max int64) int64 {
	switch v.k {
	case 'i':
		if v.i < min {
			return min
		}
		if v.i > max {
			return max
		}
		return v.i
	case 'u':
		if v.u > uint64(max) {
			return max
		}
		return int64(v.u)
	}
	f := v.f
	if f >= two63 {
		return max
	}
	if f < -two63 {
		return min
	}
	t := int64(math.Trunc(f)) // exact: |trunc(f)| <= 2^63 and f >= -2^63
	if t < min {
		return min
	}
	if t > max {
		return max
	}
	return t
}

func refUnsigned(v val, max uint64) uint64 {
	switch v.k {
	case 'i':
		if v.i < 0 {
			return 0
		}
		if uint64(v.i) > max {
			return max
		}
		return uint64(v.i)
	case 'u':
		if v.u > max {
			return max
		}
		return v.u
	}
	f := math.Trunc(v.f)
	if f <= 0 {
		return 0
	}
	if f >= two64 {
		return max
	}
	t := uint64(f)
	if t > max {
		return max
	}
	return t
}

// bigRef: arbitrary-precision reference. Returns the clamped truncated value.
func bigRef(v val, min, max *big.Int) *big.Int {
	var t *big.Int
	switch v.k {
	case 'i':
		t = big.NewInt(v.i)
	case 'u':
		t = new(big.Int).SetUint64(v.u)
	default:
		if math.IsInf(v.f, 1) {
			return max
		}
		if math.IsInf(v.f, -1) {
			return min
		}
		t, _ = new(big.Float).SetFloat64(v.f).Int(nil) // truncation toward zero
	}
	if t.Cmp(min) < 0 {
		return min
	}
	if t.Cmp(max) > 0 {
		return max
	}
	return t
}

type checker struct {
	r        *vrun.Run
	calls    atomic.Int64
	bigCalls atomic.Int64
	classes  sync.Map
}

func (c *checker) class(src, tgt, cl string) {
	key := src + "/" + tgt
	if cl != "" {
		key += "/" + cl
	}
	if _, ok := c.classes.Load(key); !ok {
		c.classes.Store(key, struct{}{})
	}
}

type source[S safecast.IConvertable] struct {
	name   string
	named  bool
	toVal  func(S) val
	signed [5]func(S) int64
	unsig  [5]func(S) uint64
}

func mkSource[S safecast.IConvertable](name string, named bool, toVal func(S) val) *source[S] {
	return &source[S]{
		name: name, named: named, toVal: toVal,
		signed: [5]func(S) int64{
			func(x S) int64 { return int64(safecast.ToInt(x)) },
			func(x S) int64 { return int64(safecast.ToInt8(x)) },
			func(x S) int64 { return int64(safecast.ToInt16(x)) },
			func(x S) int64 { return int64(safecast.ToInt32(x)) },
			func(x S) int64 { return safecast.ToInt64(x) },
		},
		unsig: [5]func(S) uint64{
			func(x S) uint64 { return uint64(safecast.ToUint(x)) },
			func(x S) uint64 { return uint64(safecast.ToUint8(x)) },
			func(x S) uint64 { return uint64(safecast.ToUint16(x)) },
			func(x S) uint64 { return uint64(safecast.ToUint32(x)) },
			func(x S) uint64 { return safecast.ToUint64(x) },
		},
	}
}

func classify(v val, in bool, atMin, atMax bool) string {
	frac := v.k == 'f' && v.f != math.Trunc(v.f) && !math.IsInf(v.f, 0)
	switch {
	case v.k == 'f' && math.IsInf(v.f, 0):
		return "inf"
	case !in && atMin:
		return "below-min"
	case !in && atMax:
		return "above-max"
	case frac && (atMin || atMax):
		return "fractional-at-boundary"
	case frac:
		return "fractional"
	case atMin:
		return "exactly-min"
	case atMax:
		return "exactly-max"
	}
	return "in-range"
}

// checkBatch evaluates all 10 targets on vals (which must be sorted ascending unless sorted=false);
// useBig selects the arbitrary precision cross-check for every value.
func checkBatch[S safecast.IConvertable](c *checker, s *source[S], vals []S, sorted bool, useBig bool) {
	defer func() {
		if p := recover(); p != nil {
			c.r.Violation(vrun.Sig{"effect": "panic", "source": s.name}, fmt.Sprintf("conversion panicked: %v", p),
				map[string]any{"source": s.name, "panic": fmt.Sprint(p)})
		}
	}()
	var prevS [5]int64
	var prevU [5]uint64
	var prevV val
	havePrev := false
	// counters and outcome classes are collected locally and flushed once per batch (a shared atomic per call
	// serialises the 16 workers and dominates the exhaustive 32-bit sweeps)
	var calls, bigCalls int64
	var seenS, seenU [5]map[string]struct{}
	for i := range seenS {
		seenS[i], seenU[i] = map[string]struct{}{}, map[string]struct{}{}
	}
	lastS, lastU := [5]string{}, [5]string{}
	defer func() {
		c.calls.Add(calls)
		c.bigCalls.Add(bigCalls)
		for t := 0; t < 5; t++ {
			for k := range seenS[t] {
				c.class(s.name, sName[t], k)
			}
			for k := range seenU[t] {
				c.class(s.name, uName[t], k)
			}
		}
	}()
	for _, x := range vals {
		v := s.toVal(x)
		nan := v.isNaN()
		for t := 0; t < 5; t++ {
			got := s.signed[t](x)
			calls++
			if nan {
				continue
			}
			want := refSigned(v, sMin[t], sMax[t])
			if useBig {
				b := bigRef(v, big.NewInt(sMin[t]), big.NewInt(sMax[t]))
				bigCalls++
				if !b.IsInt64() || b.Int64() != want {
					c.r.Fatalf("reference self-check failed: %s %v: fast=%d big=%v", sName[t], v, want, b)
				}
			}
			if got != want {
				report(c, s.name, s.named, sName[t], v, fmt.Sprint(got), fmt.Sprint(want))
			}
			inRange := inSigned(v, sMin[t], sMax[t])
			if cl := classify(v, inRange, want == sMin[t], want == sMax[t]); cl != lastS[t] {
				lastS[t] = cl
				seenS[t][cl] = struct{}{}
			}
			if sorted && havePrev && got < prevS[t] {
				c.r.Violation(vrun.Sig{"effect": "non-monotonic", "source": s.name, "target": sName[t]},
					fmt.Sprintf("%s(%s %v)=%d > %s(%v)=%d", sName[t], s.name, prevV, prevS[t], sName[t], v, got),
					map[string]any{"source": s.name, "target": sName[t], "v1": prevV.String(), "v2": v.String()})
			}
			prevS[t] = got
		}
		for t := 0; t < 5; t++ {
			got := s.unsig[t](x)
			calls++
			if nan {
				continue
			}
			want := refUnsigned(v, uMax[t])
			if useBig {
				b := bigRef(v, big.NewInt(0), new(big.Int).SetUint64(uMax[t]))
				bigCalls++
				if !b.IsUint64() || b.Uint64() != want {
					c.r.Fatalf("reference self-check failed: %s %v: fast=%d big=%v", uName[t], v, want, b)
				}
			}
			if got != want {
				report(c, s.name, s.named, uName[t], v, fmt.Sprint(got), fmt.Sprint(want))
			}
			inRange := inUnsigned(v, uMax[t])
			if cl := classify(v, inRange, want == 0, want == uMax[t]); cl != lastU[t] {
				lastU[t] = cl
				seenU[t][cl] = struct{}{}
			}
			if sorted && havePrev && got < prevU[t] {
				c.r.Violation(vrun.Sig{"effect": "non-monotonic", "source": s.name, "target": uName[t]},
					fmt.Sprintf("%s(%s %v)=%d > %s(%v)=%d", uName[t], s.name, prevV, prevU[t], uName[t], v, got),
					map[string]any{"source": s.name, "target": uName[t], "v1": prevV.String(), "v2": v.String()})
			}
			prevU[t] = got
		}
		if !nan {
			prevV = v
			havePrev = true
		}
	}
}

func inSigned(v val, min, max int64) bool {
	switch v.k {
	case 'i':
		return v.i >= min && v.i <= max
	case 'u':
		return v.u <= uint64(max)
	}
	t := math.Trunc(v.f)
	return t >= float64(min) && t < two63 && (t <= float64(max) || max == math.MaxInt64)
}

func inUnsigned(v val, max uint64) bool {
	switch v.k {
	case 'i':
		return v.i >= 0 && uint64(v.i) <= max
	case 'u':
		return v.u <= max
	}
	t := math.Trunc(v.f)
	return t >= 0 && t < two64 && (max == math.MaxUint64 || t <= float64(max))
}

func report(c *checker, src string, named bool, tgt string, v val, got, want string) {
	kind := "integer"
	if v.k == 'f' {
		kind = "float"
	}
	sig := vrun.Sig{"effect": "wrong-value", "source_kind": kind, "named_type": fmt.Sprint(named)}
	c.r.Violation(sig, fmt.Sprintf("%s(%s(%v)) = %s, reference %s", tgt, src, v, got, want),
		map[string]any{"source": src, "target": tgt, "value": v.String(), "got": got, "want": want})
}

// ---------------------------------------------------------------------------------------------
// value sets

// interesting 64-bit-ish integers: within w of every boundary of every target, powers of two ±2.
func interestingInts(w int64) (ints []int64, uints []uint64) {
	si := map[int64]struct{}{}
	su := map[uint64]struct{}{}
	addI := func(c int64) {
		for d := -w; d <= w; d++ {
			x := c + d
			if (d > 0 && x < c) || (d < 0 && x > c) {
				continue // overflow
			}
			si[x] = struct{}{}
		}
	}
	addU := func(c uint64) {
		for d := int64(-w); d <= w; d++ {
			x := c + uint64(d)
			if (d > 0 && x < c) || (d < 0 && x > c) {
				continue
			}
			su[x] = struct{}{}
		}
	}
	for t := 0; t < 5; t++ {
		addI(sMin[t])
		addI(sMax[t])
		addI(int64(uMax[t] & math.MaxInt64))
		if uMax[t] <= math.MaxInt64 {
			addI(int64(uMax[t]))
		}
		addU(uMax[t])
		addU(uint64(sMax[t]))
	}
	addI(0)
	addU(0)
	for k := 0; k < 64; k++ {
		for d := int64(-2); d <= 2; d++ {
			if k < 63 {
				si[(int64(1)<<k)+d] = struct{}{}
				si[-(int64(1)<<k)+d] = struct{}{}
			}
			su[(uint64(1)<<k)+uint64(d)] = struct{}{}
		}
	}
	for x := range si {
		ints = append(ints, x)
	}
	for x := range su {
		uints = append(uints, x)
	}
	sort.Slice(ints, func(a, b int) bool { return ints[a] < ints[b] })
	sort.Slice(uints, func(a, b int) bool { return uints[a] < uints[b] })
	return
}

func interestingFloat64(r *vrun.Run, nrand int) []float64 {
	set := map[uint64]struct{}{}
	add := func(f float64) { set[math.Float64bits(f)] = struct{}{} }
	around := func(f float64) {
		x := f
		y := f
		add(f)
		for i := 0; i < 6; i++ {
			x = math.Nextafter(x, math.Inf(1))
			y = math.Nextafter(y, math.Inf(-1))
			add(x)
			add(y)
		}
		for _, d := range []float64{-1.5, -1, -0.5, -0.25, 0.25, 0.5, 1, 1.5} {
			add(f + d)
		}
	}
	for t := 0; t < 5; t++ {
		around(float64(sMin[t]))
		around(float64(sMax[t]))
		around(float64(uMax[t]))
		around(float64(sMax[t]) + 1)
		around(float64(sMin[t]) - 1)
	}
	for k := 0; k <= 70; k++ {
		p := math.Ldexp(1, k)
		around(p)
		around(-p)
	}
	for _, f := range []float64{0, math.Copysign(0, -1), math.SmallestNonzeroFloat64, -math.SmallestNonzeroFloat64,
		math.MaxFloat64, -math.MaxFloat64, math.Inf(1), math.Inf(-1), 1e30, -1e30, 1e19, 1.8446744073709552e19, 9.223372036854776e18,
		0.5, -0.5, 0.999999, -0.999999, 127.5, -128.5, 255.5, 1e-300, 2.2250738585072014e-308} {
		around(f)
	}
	rng := r.Rand("c10-f64", 0)
	for i := 0; i < nrand; i++ {
		switch i % 4 {
		case 0:
			add(math.Float64frombits(rng.Uint64()))
		case 1:
			add((rng.Float64() - 0.5) * math.Ldexp(1, rng.IntN(70)))
		case 2:
			add(float64(int64(rng.Uint64())) + rng.Float64())
		default:
			add(math.Ldexp(rng.Float64()+1, rng.IntN(130)-64) * float64(1-2*rng.IntN(2)))
		}
	}
	out := make([]float64, 0, len(set))
	nans := 0
	for b := range set {
		f := math.Float64frombits(b)
		if math.IsNaN(f) {
			nans++
			continue
		}
		out = append(out, f)
	}
	sort.Float64s(out)
	// NaNs last (value is don't-care, only "no panic")
	out = append(out, math.NaN(), math.Float64frombits(0x7ff0000000000001), math.Float64frombits(0xfff8000000000001))
	return out
}

func interestingFloat32(r *vrun.Run, nrand int) []float32 {
	set := map[uint32]struct{}{}
	for _, f := range interestingFloat64(r, 0) {
		g := float32(f)
		set[math.Float32bits(g)] = struct{}{}
		set[math.Float32bits(math.Nextafter32(g, float32(math.Inf(1))))] = struct{}{}
		set[math.Float32bits(math.Nextafter32(g, float32(math.Inf(-1))))] = struct{}{}
	}
	rng := r.Rand("c10-f32", 0)
	for i := 0; i < nrand; i++ {
		set[rng.Uint32()] = struct{}{}
	}
	out := make([]float32, 0, len(set))
	for b := range set {
		f := math.Float32frombits(b)
		if f != f {
			continue
		}
		out = append(out, f)
	}
	sort.Slice(out, func(a, b int) bool { return out[a] < out[b] })
	out = append(out, float32(math.NaN()))
	return out
}

func conv[S safecast.IConvertable, T int64 | uint64 | float64 | float32](in []T, f func(T) S) []S {
	out := make([]S, len(in))
	for i, x := range in {
		out[i] = f(x)
	}
	return out
}

// ---------------------------------------------------------------------------------------------

func main() {
	r := vrun.Start("C10", "exploration")
	c := &checker{r: r}
	r.Rule("every safecast.ToX call = 1 evaluation; inputs: exhaustive 8/16-bit sources (quick) and 32-bit sources incl. all float32 bit patterns (thorough), " +
		"all 64-bit values within 2^12 of each target boundary, powers of two ±2, float next-up/next-down ×6 around every boundary, ±Inf, ±0, subnormals, NaN (no-panic only), PRNG values; " +
		"12 builtin source kinds + a named type over each × 10 targets. distinct_nontrivial is counted conservatively as the number of distinct (source type, target, outcome class) cells hit with class ≠ in-range " +
		"(classes: below-min, above-max, exactly-min, exactly-max, fractional, fractional-at-boundary, inf) — individual values are far too many to hash.")
	r.Assume("Go's own integer/float conversions and math/big are the trusted base of the reference", "NaN inputs: only absence of panic is checked (the statement defines no value)")

	w := int64(1 << 12)
	nrand := r.Pick(200_000, 20_000_000)
	ints, uints := interestingInts(w)
	rng := r.Rand("c10-int", 0)
	nri := r.Pick(100_000, 5_000_000)
	for i := 0; i < nri; i++ {
		x := rng.Uint64() >> uint(rng.IntN(64))
		uints = append(uints, x)
		if i%2 == 0 {
			ints = append(ints, int64(x))
		} else {
			ints = append(ints, -int64(x>>1))
		}
	}
	sort.Slice(ints, func(a, b int) bool { return ints[a] < ints[b] })
	sort.Slice(uints, func(a, b int) bool { return uints[a] < uints[b] })
	f64s := interestingFloat64(r, nrand)
	f32s := interestingFloat32(r, nrand)
	r.Obs("int64_values", int64(len(ints)))
	r.Obs("uint64_values", int64(len(uints)))
	r.Obs("float64_values", int64(len(f64s)))
	r.Obs("float32_values", int64(len(f32s)))

	iv := func(x int64) val { return val{k: 'i', i: x} }
	uv := func(x uint64) val { return val{k: 'u', u: x} }
	fv := func(x float64) val { return val{k: 'f', f: x} }

	var wg sync.WaitGroup
	sem := make(chan struct{}, runtime.GOMAXPROCS(0))
	goRun := func(f func()) {
		wg.Add(1)
		sem <- struct{}{}
		go func() {
			defer func() { <-sem; wg.Done() }()
			f()
		}()
	}
	// chunked run with one value of overlap so monotonicity is checked across chunk borders
	chunked := func(n int, f func(lo, hi int)) {
		const sz = 1 << 15
		for lo := 0; lo < n; lo += sz {
			hi := lo + sz
			if hi > n {
				hi = n
			}
			l := lo
			if l > 0 {
				l--
			}
			goRun(func() { f(l, hi) })
		}
	}
	bigEvery := func(n int) bool { return n <= 300_000 }

	// --- 64-bit and word-size sources on the interesting + random sets
	{
		s := mkSource("int64", false, func(x int64) val { return iv(x) })
		chunked(len(ints), func(lo, hi int) { checkBatch(c, s, ints[lo:hi], true, bigEvery(len(ints))) })
		sn := mkSource("NInt64", true, func(x NInt64) val { return iv(int64(x)) })
		v := conv(ints, func(x int64) NInt64 { return NInt64(x) })
		chunked(len(v), func(lo, hi int) { checkBatch(c, sn, v[lo:hi], true, false) })
		si := mkSource("int", false, func(x int) val { return iv(int64(x)) })
		vi := conv(ints, func(x int64) int { return int(x) })
		chunked(len(vi), func(lo, hi int) { checkBatch(c, si, vi[lo:hi], true, false) })
		sni := mkSource("NInt", true, func(x NInt) val { return iv(int64(x)) })
		vni := conv(ints, func(x int64) NInt { return NInt(x) })
		chunked(len(vni), func(lo, hi int) { checkBatch(c, sni, vni[lo:hi], true, false) })
	}
	{
		s := mkSource("uint64", false, func(x uint64) val { return uv(x) })
		chunked(len(uints), func(lo, hi int) { checkBatch(c, s, uints[lo:hi], true, bigEvery(len(uints))) })
		sn := mkSource("NUint64", true, func(x NUint64) val { return uv(uint64(x)) })
		v := conv(uints, func(x uint64) NUint64 { return NUint64(x) })
		chunked(len(v), func(lo, hi int) { checkBatch(c, sn, v[lo:hi], true, false) })
		su := mkSource("uint", false, func(x uint) val { return uv(uint64(x)) })
		vu := conv(uints, func(x uint64) uint { return uint(x) })
		chunked(len(vu), func(lo, hi int) { checkBatch(c, su, vu[lo:hi], true, false) })
		snu := mkSource("NUint", true, func(x NUint) val { return uv(uint64(x)) })
		vnu := conv(uints, func(x uint64) NUint { return NUint(x) })
		chunked(len(vnu), func(lo, hi int) { checkBatch(c, snu, vnu[lo:hi], true, false) })
	}
	{
		s := mkSource("float64", false, func(x float64) val { return fv(x) })
		chunked(len(f64s), func(lo, hi int) { checkBatch(c, s, f64s[lo:hi], true, bigEvery(len(f64s))) })
		sn := mkSource("NFloat64", true, func(x NFloat64) val { return fv(float64(x)) })
		v := conv(f64s, func(x float64) NFloat64 { return NFloat64(x) })
		chunked(len(v), func(lo, hi int) { checkBatch(c, sn, v[lo:hi], true, bigEvery(len(v))) })
		s32 := mkSource("float32", false, func(x float32) val { return fv(float64(x)) })
		chunked(len(f32s), func(lo, hi int) { checkBatch(c, s32, f32s[lo:hi], true, bigEvery(len(f32s))) })
		sn32 := mkSource("NFloat32", true, func(x NFloat32) val { return fv(float64(x)) })
		v32 := conv(f32s, func(x float32) NFloat32 { return NFloat32(x) })
		chunked(len(v32), func(lo, hi int) { checkBatch(c, sn32, v32[lo:hi], true, bigEvery(len(v32))) })
	}
	wg.Wait()

	// --- exhaustive small sources
	exh8and16(c, goRun)
	wg.Wait()
	r.Obs("exhaustive_8_16_bit_sources", 1)
	exhaustive := true
	if !r.Quick() {
		exh32(c, goRun)
		wg.Wait()
		r.Obs("exhaustive_32_bit_sources", 1)
	}
	// the cross-check with math/big on the full 16-bit spaces
	r.Extra("exhaustive_subspaces", map[bool]string{true: "int8,uint8,int16,uint16 (+named)", false: "int8,uint8,int16,uint16,int32,uint32,float32 (+named)"}[r.Quick()])
	r.Exhaustive(false)
	_ = exhaustive

	calls := c.calls.Load()
	nt := 0
	c.classes.Range(func(k, _ any) bool {
		key := k.(string)
		r.ObsSet("cells", key)
		if !hasSuffix(key, "/in-range") {
			nt++
			r.Case(key, true)
		}
		return true
	})
	r.CaseN("all", false, calls-int64(nt))
	r.Obs("conversions_executed", calls)
	r.Obs("bigint_crosschecks", c.bigCalls.Load())
	r.Require("conversions_executed", 1_000_000)
	r.Require("bigint_crosschecks", 10_000)
	r.Require("distinct_nontrivial", 500)
	r.Sample(map[string]any{"source": "float64", "value": "1e30", "ToUint64": fmt.Sprint(safecast.ToUint64(float64(1e30))), "reference": fmt.Sprint(refUnsigned(fv(1e30), math.MaxUint64))})
	r.Sample(map[string]any{"source": "NFloat64 (named float64)", "value": "1e30", "ToUint64": fmt.Sprint(safecast.ToUint64(NFloat64(1e30))), "reference": fmt.Sprint(refUnsigned(fv(1e30), math.MaxUint64))})
	r.Sample(map[string]any{"source": "int64", "value": "-129", "ToInt8": fmt.Sprint(safecast.ToInt8(int64(-129))), "reference": fmt.Sprint(refSigned(iv(-129), math.MinInt8, math.MaxInt8))})
	r.Sample(map[string]any{"source": "float32", "value": "nextafter(2^31,-inf)", "ToInt32": fmt.Sprint(safecast.ToInt32(math.Nextafter32(2147483648, 0))), "reference": fmt.Sprint(refSigned(fv(float64(math.Nextafter32(2147483648, 0))), math.MinInt32, math.MaxInt32))})
	r.Finish()
}

func hasSuffix(s, suf string) bool { return len(s) >= len(suf) && s[len(s)-len(suf):] == suf }

func exh8and16(c *checker, goRun func(func())) {
	iv := func(x int64) val { return val{k: 'i', i: x} }
	uv := func(x uint64) val { return val{k: 'u', u: x} }
	{
		v := make([]int8, 0, 256)
		vn := make([]NInt8, 0, 256)
		for x := math.MinInt8; x <= math.MaxInt8; x++ {
			v = append(v, int8(x))
			vn = append(vn, NInt8(x))
		}
		s := mkSource("int8", false, func(x int8) val { return iv(int64(x)) })
		sn := mkSource("NInt8", true, func(x NInt8) val { return iv(int64(x)) })
		goRun(func() { checkBatch(c, s, v, true, true) })
		goRun(func() { checkBatch(c, sn, vn, true, true) })
	}
	{
		v := make([]uint8, 0, 256)
		vn := make([]NUint8, 0, 256)
		for x := 0; x <= math.MaxUint8; x++ {
			v = append(v, uint8(x))
			vn = append(vn, NUint8(x))
		}
		s := mkSource("uint8", false, func(x uint8) val { return uv(uint64(x)) })
		sn := mkSource("NUint8", true, func(x NUint8) val { return uv(uint64(x)) })
		goRun(func() { checkBatch(c, s, v, true, true) })
		goRun(func() { checkBatch(c, sn, vn, true, true) })
	}
	{
		v := make([]int16, 0, 65536)
		vn := make([]NInt16, 0, 65536)
		for x := math.MinInt16; x <= math.MaxInt16; x++ {
			v = append(v, int16(x))
			vn = append(vn, NInt16(x))
		}
		s := mkSource("int16", false, func(x int16) val { return iv(int64(x)) })
		sn := mkSource("NInt16", true, func(x NInt16) val { return iv(int64(x)) })
		goRun(func() { checkBatch(c, s, v, true, true) })
		goRun(func() { checkBatch(c, sn, vn, true, false) })
	}
	{
		v := make([]uint16, 0, 65536)
		vn := make([]NUint16, 0, 65536)
		for x := 0; x <= math.MaxUint16; x++ {
			v = append(v, uint16(x))
			vn = append(vn, NUint16(x))
		}
		s := mkSource("uint16", false, func(x uint16) val { return uv(uint64(x)) })
		sn := mkSource("NUint16", true, func(x NUint16) val { return uv(uint64(x)) })
		goRun(func() { checkBatch(c, s, v, true, true) })
		goRun(func() { checkBatch(c, sn, vn, true, false) })
	}
	// 32-bit sources, quick tier: boundary neighbourhoods and a PRNG sample (exhaustive in thorough)
	{
		rng := c.r.Rand("c10-32", 0)
		var vi []int32
		var vu []uint32
		for _, ctr := range []int64{math.MinInt32, -65536, -32768, -256, -128, 0, 127, 255, 32767, 65535, math.MaxInt32} {
			for d := int64(-4096); d <= 4096; d++ {
				x := ctr + d
				if x >= math.MinInt32 && x <= math.MaxInt32 {
					vi = append(vi, int32(x))
				}
				if x >= 0 && x <= math.MaxUint32 {
					vu = append(vu, uint32(x))
				}
			}
		}
		for d := int64(-4096); d <= 0; d++ {
			vu = append(vu, uint32(math.MaxUint32+d))
		}
		for i := 0; i < 200_000; i++ {
			vi = append(vi, int32(rng.Uint32()))
			vu = append(vu, rng.Uint32())
		}
		sort.Slice(vi, func(a, b int) bool { return vi[a] < vi[b] })
		sort.Slice(vu, func(a, b int) bool { return vu[a] < vu[b] })
		s := mkSource("int32", false, func(x int32) val { return iv(int64(x)) })
		sn := mkSource("NInt32", true, func(x NInt32) val { return iv(int64(x)) })
		su := mkSource("uint32", false, func(x uint32) val { return uv(uint64(x)) })
		snu := mkSource("NUint32", true, func(x NUint32) val { return uv(uint64(x)) })
		vni := conv(toI64(vi), func(x int64) NInt32 { return NInt32(x) })
		vnu := conv(toU64(vu), func(x uint64) NUint32 { return NUint32(x) })
		goRun(func() { checkBatch(c, s, vi, true, true) })
		goRun(func() { checkBatch(c, sn, vni, true, false) })
		goRun(func() { checkBatch(c, su, vu, true, true) })
		goRun(func() { checkBatch(c, snu, vnu, true, false) })
	}
}

func toI64(v []int32) []int64 {
	o := make([]int64, len(v))
	for i, x := range v {
		o[i] = int64(x)
	}
	return o
}
func toU64(v []uint32) []uint64 {
	o := make([]uint64, len(v))
	for i, x := range v {
		o[i] = uint64(x)
	}
	return o
}

// exh32 enumerates every int32, uint32 and float32 value (and the named types over them), in
// ascending value order, in chunks of 2^20 with one value of overlap.
func exh32(c *checker, goRun func(func())) {
	iv := func(x int64) val { return val{k: 'i', i: x} }
	uv := func(x uint64) val { return val{k: 'u', u: x} }
	fv := func(x float64) val { return val{k: 'f', f: x} }
	const sz = 1 << 20
	si := mkSource("int32", false, func(x int32) val { return iv(int64(x)) })
	sni := mkSource("NInt32", true, func(x NInt32) val { return iv(int64(x)) })
	su := mkSource("uint32", false, func(x uint32) val { return uv(uint64(x)) })
	snu := mkSource("NUint32", true, func(x NUint32) val { return uv(uint64(x)) })
	sf := mkSource("float32", false, func(x float32) val { return fv(float64(x)) })
	snf := mkSource("NFloat32", true, func(x NFloat32) val { return fv(float64(x)) })
	for lo := int64(math.MinInt32); lo <= math.MaxInt32; lo += sz {
		lo := lo
		goRun(func() {
			a := make([]int32, 0, sz+1)
			b := make([]NInt32, 0, sz+1)
			start := lo
			if start > math.MinInt32 {
				start--
			}
			for x := start; x < lo+sz && x <= math.MaxInt32; x++ {
				a = append(a, int32(x))
				b = append(b, NInt32(x))
			}
			checkBatch(c, si, a, true, false)
			checkBatch(c, sni, b, true, false)
		})
	}
	for lo := int64(0); lo <= math.MaxUint32; lo += sz {
		lo := lo
		goRun(func() {
			a := make([]uint32, 0, sz+1)
			b := make([]NUint32, 0, sz+1)
			start := lo
			if start > 0 {
				start--
			}
			for x := start; x < lo+sz && x <= math.MaxUint32; x++ {
				a = append(a, uint32(x))
				b = append(b, NUint32(x))
			}
			checkBatch(c, su, a, true, false)
			checkBatch(c, snu, b, true, false)
		})
	}
	// float32 in ascending value order: index k in [0, 2^32) ↦ bits: negatives from -Inf..-0 (bits 0xff800000 down to
	// 0x80000000), then +0..+Inf (bits 0..0x7f800000); NaN patterns are visited too (unordered, no-panic only).
	order := func(k int64) uint32 {
		if k < 0x80000000 {
			return uint32(0xffffffff - k) // 0xffffffff .. 0x80000000 : NaNs, -Inf, ..., -0
		}
		return uint32(k - 0x80000000) // 0 .. 0x7fffffff : +0 ... +Inf, NaNs
	}
	for lo := int64(0); lo < 1<<32; lo += sz {
		lo := lo
		goRun(func() {
			a := make([]float32, 0, sz+1)
			b := make([]NFloat32, 0, sz+1)
			start := lo
			if start > 0 {
				start--
			}
			for k := start; k < lo+sz; k++ {
				f := math.Float32frombits(order(k))
				a = append(a, f)
				b = append(b, NFloat32(f))
			}
			checkBatch(c, sf, a, true, false)
			checkBatch(c, snf, b, true, false)
		})
	}
}
