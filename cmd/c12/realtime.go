package main

import (
	"context"
	"fmt"
	"regexp"
	"runtime"
	"strconv"
	"strings"
	"sync"
	"sync/atomic"
	"time"

	"github.com/ARM-software/golang-utils/utils/parallelisation"

	"verif/internal/vrun"
)

// hangBound is the generous wall-clock bound after which a runner that has not returned is LOOKED AT.
// It never decides: the verdict needs the goroutine-dump witness, else the case is inconclusive.
const hangBound = 20 * time.Second

type spinners struct {
	flag atomic.Bool
	wg   sync.WaitGroup
}

var spinSink atomic.Uint64

func startSpinners(n int) *spinners {
	s := &spinners{}
	for i := 0; i < n; i++ {
		s.wg.Add(1)
		go func() {
			defer s.wg.Done()
			x := uint64(1)
			for !s.flag.Load() {
				for j := 0; j < 2000; j++ {
					x = x*6364136223846793005 + 1442695040888963407
				}
			}
			spinSink.Add(x)
		}()
	}
	return s
}

func (s *spinners) stop() { s.flag.Store(true); s.wg.Wait() }

type straggler struct {
	sc       scen
	st       *state
	goid     int64
	launched time.Time
	resCh    chan snapshot
}

type realtime struct {
	mu         sync.Mutex
	stragglers []*straggler
}

func startRealtime(r *vrun.Run) *realtime {
	rt := &realtime{}
	levels := []int{1, 2, 4, 8, 16}
	perLevel := r.Pick(440, 8_000)
	kinds := []string{kCoopNil, kCoopErr, kCoopLag, kBlind, kWaitOnly}
	parents := []string{pLive, pTm, pT, pTp}
	runners := []string{rRAWT, rCtx, rStore}
	idx := 0
	for _, busy := range levels {
		cases := make([]scen, perLevel)
		for i := range cases {
			rng := r.Rand(fmt.Sprintf("realtime-%d", busy), i)
			sc := scen{Part: "real", Busy: busy, Index: idx, TNs: 5_000_000}
			idx++
			sc.Runner = runners[i%3]
			sc.Kind = kinds[(i/3)%5]
			if sc.Runner != rRAWT {
				sc.Parent = parents[rng.IntN(4)]
			} else {
				sc.Parent = pLive
			}
			// d−T: half of the cases within ±50 µs (1 µs grid), the rest over ±2 ms
			if rng.IntN(2) == 0 {
				sc.OffNs = int64(rng.IntN(101)-50) * 1000
			} else {
				sc.OffNs = int64(rng.IntN(4001)-2000) * 1000
			}
			sc.DeltaNs = []int64{0, 20_000, 300_000, 2_000_000}[rng.IntN(4)]
			sc.EpsNs = []int64{20_000, 200_000, 1_000_000}[rng.IntN(3)]
			sc.BlindErr = rng.IntN(2) == 1
			if sc.Parent == pLive {
				sc.EpsNs = 0
			}
			cases[i] = sc
		}
		sp := startSpinners(busy)
		vrun.Parallel(len(cases), 8, func(i int) { rt.runCase(r, cases[i]) })
		sp.stop()
	}
	return rt
}

var goidRe = regexp.MustCompile(`^goroutine (\d+) \[`)

func currentGoid() int64 {
	var b [64]byte
	n := runtime.Stack(b[:], false)
	if m := goidRe.FindSubmatch(b[:n]); m != nil {
		id, _ := strconv.ParseInt(string(m[1]), 10, 64)
		return id
	}
	return -1
}

func (rt *realtime) runCase(r *vrun.Run, sc scen) {
	st := newState(sc)
	parent, pcancel := context.WithCancel(context.Background())
	var store *parallelisation.CancelFunctionStore
	if sc.Runner == rStore {
		store = parallelisation.NewCancelFunctionsStore()
	}
	sg := &straggler{sc: sc, st: st, resCh: make(chan snapshot, 1)}
	var goid atomic.Int64
	st.start = time.Now()
	sg.launched = st.start
	if P := sc.P(); sc.Runner != rRAWT && P != inf {
		go func() {
			time.Sleep(P)
			st.parentCancelBegun.Store(true)
			pcancel()
		}()
	}
	go func() {
		goid.Store(currentGoid())
		res := st.call(parent, store)
		sg.resCh <- st.snap(res)
	}()
	// soft bound: only decides when the harness moves on, the case is finished by judgeStragglers
	soft := time.NewTimer(100 * time.Millisecond)
	select {
	case s := <-sg.resCh:
		soft.Stop()
		rt.judge(r, sc, st, s, store)
		pcancel()
	case <-soft.C:
		sg.goid = goid.Load()
		rt.mu.Lock()
		rt.stragglers = append(rt.stragglers, sg)
		rt.mu.Unlock()
		// the parent stays as scripted (not cancelled by the harness) so that the parked state is the library's own
	}
}

func (rt *realtime) judge(r *vrun.Run, sc scen, st *state, s snapshot, store *parallelisation.CancelFunctionStore) {
	nearT := sc.OffNs >= -50_000 && sc.OffNs <= 50_000
	r.Case(sc.canonical(), sc.Kind != kWaitOnly && nearT || sc.Parent != pLive)
	r.Obs("realtime_cases", 1)
	r.ObsSet("realtime_busy_levels", fmt.Sprint(sc.Busy))
	// grace for the "observed" flag of an action that has just been signalled (bounded; the flag decides)
	settled := st.observed.Load()
	if sc.Kind == kWaitOnly && !settled && (isTimeoutKind(s.Res) || isCancelKind(s.Res)) {
		for i := 0; i < 400 && !st.observed.Load(); i++ {
			time.Sleep(500 * time.Microsecond)
		}
		settled = st.observed.Load()
	}
	cls := judgeCommon(r, sc, s, settled, nil)
	r.ObsSet("realtime_cells", sc.Runner+"/"+sc.Kind+"/"+parentClass(sc)+"/"+cls)
	r.Obs("realtime_results_"+strings.SplitN(cls, "-", 2)[0], 1)
	if sc.Runner == rStore && s.Res == nil && s.ActionInvoked && store != nil {
		store.Cancel()
		r.Obs("store_cancel_after_success_checks", 1)
		if b, ok := st.actCtx.Load().(ctxBox); ok && b.ctx.Err() == nil {
			r.Violation(vrun.Sig{"runner": sc.Runner, "effect": "action-context-alive-after-store-cancel", "mode": "real"},
				"the action's context is still alive after store.Cancel()", map[string]any{"scenario": sc, "deterministic": false})
		}
	}
}

// judgeStragglers finishes the cases whose runner had not returned within the soft bound.
func (rt *realtime) judgeStragglers(r *vrun.Run) {
	rt.mu.Lock()
	list := rt.stragglers
	rt.mu.Unlock()
	if len(list) == 0 {
		return
	}
	var latest time.Time
	for _, sg := range list {
		if sg.launched.After(latest) {
			latest = sg.launched
		}
	}
	// wait until every straggler has come back or the bound has elapsed (the clock only decides when to look)
	back := make([]*snapshot, len(list))
	for {
		pending := 0
		for i, sg := range list {
			if back[i] != nil {
				continue
			}
			select {
			case s := <-sg.resCh:
				back[i] = &s
			default:
				pending++
			}
		}
		if pending == 0 || time.Since(latest) >= hangBound {
			break
		}
		time.Sleep(20 * time.Millisecond)
	}
	var rest []*straggler
	for i, sg := range list {
		if back[i] != nil { // came back late: an ordinary case
			r.Obs("realtime_late_returns", 1)
			rt.judge(r, sg.sc, sg.st, *back[i], nil)
			continue
		}
		rest = append(rest, sg)
	}
	list = rest
	var dump map[int64]*gInfo
	for _, sg := range list {
		select {
		case s := <-sg.resCh: // came back late: an ordinary case
			r.Obs("realtime_late_returns", 1)
			rt.judge(r, sg.sc, sg.st, s, nil)
			continue
		default:
		}
		if dump == nil {
			dump = map[int64]*gInfo{}
			for _, g := range parseDump(dumpAll()) {
				dump[g.id] = g
			}
		}
		sc, st := sg.sc, sg.st
		r.Case(sc.canonical(), true)
		r.Obs("realtime_cases", 1)
		r.Obs("realtime_not_returned_after_bound", 1)
		g := dump[sg.goid]
		actionReturned := st.returned.Load()
		inLib := g != nil && strings.Contains(g.firstUserFn, "/parallelisation.") && strings.HasSuffix(g.firstUserFile, "parallelisation/parallelisation.go")
		chanOp := g != nil && (strings.HasPrefix(g.state, "chan send") || strings.HasPrefix(g.state, "chan receive") || strings.HasPrefix(g.state, "select"))
		// still not back after the dump?
		select {
		case s := <-sg.resCh:
			r.Obs("realtime_late_returns", 1)
			rt.judge(r, sc, st, s, nil)
			continue
		default:
		}
		if g == nil || !inLib || !chanOp || !actionReturned {
			r.Inconclusive("real-time runner not returned after the wall-clock bound, no structural witness (runner not parked in a channel operation of parallelisation.go with the action returned)")
			continue
		}
		// structural witness: the runner is parked in a channel operation inside parallelisation.go and the only
		// party that could complete that operation — the action — has recorded its return.
		pre := hangPre(sc, st.invoked.Load(), actionReturned, st.observed.Load())
		r.Obs("realtime_hangs_with_dump_witness", 1)
		r.Violation(vrun.Sig{"runner": sc.Runner, "effect": "hang", "pre": pre},
			fmt.Sprintf("%s has not returned %v after the call: parked in %q at %s:%d while the action has returned (kind %s, scripted d−T=%dns, %d busy goroutines)",
				sc.Runner, hangBound, g.state, "parallelisation.go", g.firstUserLine, sc.Kind, sc.OffNs, sc.Busy),
			map[string]any{"scenario": sc, "deterministic": false, "witness_kind": "goroutine-dump", "goroutine_state": g.state, "function": g.firstUserFn,
				"file": g.firstUserFile, "line": g.firstUserLine, "action_returned": true, "action_returned_at_ns": st.actRetNs.Load(),
				"action_observed_signal": st.observed.Load(), "stack": trunc(g.text, 1500)})
	}
}

// ---------------------------------------------------------------------------------------------
// goroutine dumps

type gInfo struct {
	id            int64
	state         string
	firstUserFn   string // first frame that is not in package runtime
	firstUserFile string
	firstUserLine int
	text          string
}

func dumpAll() string {
	for sz := 1 << 20; ; sz *= 2 {
		buf := make([]byte, sz)
		n := runtime.Stack(buf, true)
		if n < sz || sz >= 1<<28 {
			return string(buf[:n])
		}
	}
}

var gHeadRe = regexp.MustCompile(`^goroutine (\d+) \[([^\]]*)\]:`)
var gFileRe = regexp.MustCompile(`^\t(.+):(\d+)(?: \+0x[0-9a-f]+)?$`)

func parseDump(d string) []*gInfo {
	var out []*gInfo
	for _, blk := range strings.Split(d, "\n\n") {
		lines := strings.Split(strings.TrimSpace(blk), "\n")
		if len(lines) == 0 {
			continue
		}
		m := gHeadRe.FindStringSubmatch(lines[0])
		if m == nil {
			continue
		}
		g := &gInfo{text: blk}
		g.id, _ = strconv.ParseInt(m[1], 10, 64)
		g.state = m[2]
		for i := 1; i+1 < len(lines); i += 2 {
			fn := lines[i]
			if strings.HasPrefix(fn, "created by ") {
				break
			}
			if strings.HasPrefix(fn, "runtime.") {
				continue
			}
			g.firstUserFn = fn
			if fm := gFileRe.FindStringSubmatch(lines[i+1]); fm != nil {
				g.firstUserFile = fm[1]
				g.firstUserLine, _ = strconv.Atoi(fm[2])
			}
			break
		}
		out = append(out, g)
	}
	return out
}
