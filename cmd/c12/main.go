// C12 — timeout / cancellation runners always return and always signal the action; Parallelise invokes
// every argument once and leaves nobody blocked; a cancel store never misses a registered function.
//
// Four parts (files of this package):
//
//	sweep.go      bubble sweep: one testing/synctest bubble per case, the action completes at the virtual
//	              instant d, the deadline is T, d−T swept at 1 µs steps over ±2 ms × action kinds × parent
//	              context states × the three runners. Oracles are exact on the virtual clock; a hang is
//	              witnessed structurally (every goroutine of the bubble durably blocked, no timer left).
//	parallelise.go Parallelise inside bubbles (scripted virtual completion instants) and in real time.
//	store.go      CancelFunctionStore under N registrars × M cancellers × Len readers with a logical clock.
//	realtime.go   real-time complement of the sweep around a real 5 ms deadline under 1..16 spinning
//	              goroutines; a hang is only claimed with a goroutine-dump witness.
//
// Oracles are written from the property statement. What is demanded of a runner call (E = the instant at which
// the action's signal fires = min(deadline T, parent cancellation P); d = the instant at which the action would
// finish on its own):
//
//	R1 the runner returns (hang ⇔ structural witness);
//	R2 the result is the action's own result, a timeout kind or a cancelled kind — nothing else;
//	R3 own result ⇒ the action did not finish through its signal (clock-free: the action's own "I was signalled"
//	   flag); in a bubble also d < E ⇒ own result, and a timeout kind needs T ≤ return instant, a cancelled kind
//	   P ≤ return instant (a cancelled kind always needs a parent whose cancellation had begun);
//	R4 timeout/cancelled kind ⇒ an action that can only finish through its signal has observed it;
//	R5 RunActionWithTimeoutAndContext: the action's context is done on return (documented);
//	   RunActionWithTimeoutAndCancelStore: done on every non-nil return and after store.Cancel().
//
// Don't-care: which of {own result, timeout/cancelled} is returned when d = E (same instant) and, in real time,
// anywhere near the deadline; which of timeout/cancelled is returned when both are justified; the blind action
// (never looks at its signal) may yield its own result or the timeout kind when d > E; the store variant's
// context on the success path before store.Cancel(); RunActionWithTimeout's stop channel on the success path;
// whether the runner waits for the action to *return* (only "has observed the signal" is stated); promptness.
// Parallelise: order of results, the value of `results` next to an error or with a nil result type, panics on
// ill-typed results. Cancel store: Len values, how often a function is invoked, data races (needs -race).
package main

import (
	"context"
	"errors"
	"fmt"
	"math"
	"os"
	"strings"
	"sync"
	"sync/atomic"
	"time"

	"github.com/sasha-s/go-deadlock"

	"github.com/ARM-software/golang-utils/utils/commonerrors"
	"github.com/ARM-software/golang-utils/utils/parallelisation"

	"verif/internal/vrun"
)

func init() {
	// go-deadlock would os.Exit(2) the monitor process after 30 s of lock wait; record instead.
	// Inside bubbles its pooled timers would also migrate between bubbles ("timer moved between synctest
	// bubbles"), so lock-order/timeout detection is switched off in the monitor process: the mutexes of
	// the cancel store then behave as plain sync mutexes, which does not change the library's semantics.
	deadlock.Opts.OnPotentialDeadlock = func() {}
	deadlock.Opts.Disable = true
}

const (
	rRAWT  = "RunActionWithTimeout"
	rCtx   = "RunActionWithTimeoutAndContext"
	rStore = "RunActionWithTimeoutAndCancelStore"

	// action kinds
	kCoopNil  = "coop-nil"  // works until d, returns nil; returns (nil) at once when signalled earlier
	kCoopErr  = "coop-err"  // works until d, returns its own error; returns it at once when signalled earlier
	kCoopLag  = "coop-lag"  // works until d (returns nil); when signalled earlier ignores the signal for δ, then returns nil
	kBlind    = "blind"     // returns at d without ever looking at the signal
	kWaitOnly = "wait-only" // only waits for the signal, ignores it for δ, returns nil (never finishes on its own)
	kDeafWait = "deaf-wait" // never finishes on its own either, but works in uninterruptible steps of δ and looks at its signal only between two steps (δ from 0.4·T to 6·T)

	pLive = "live"
	pPre  = "cancelled-before-call"
	pTm   = "cancelled-at-T-minus-eps"
	pT    = "cancelled-at-T"
	pTp   = "cancelled-at-T-plus-eps"
)

var inf = time.Duration(math.MaxInt64)

// scen is one runner call: fully determines the scripted instants.
type scen struct {
	Part     string `json:"part"` // "bubble" | "real"
	Runner   string `json:"runner"`
	Kind     string `json:"kind"`
	Parent   string `json:"parent"`
	OffNs    int64  `json:"d_minus_T_ns"`
	TNs      int64  `json:"T_ns"`
	DeltaNs  int64  `json:"delta_ns"`
	EpsNs    int64  `json:"eps_ns"`
	BlindErr bool   `json:"blind_returns_error,omitempty"`
	Busy     int    `json:"busy_goroutines,omitempty"`
	Index    int    `json:"index"`
	Confirm  bool   `json:"confirm_hang_by_bubble_deadlock,omitempty"`
	// CustomParent: the parent context is a caller-implemented context.Context (not one of the standard library's): its
	// cancellation reaches the contexts derived from it through one goroutine each, in no particular order
	CustomParent bool `json:"caller_implemented_parent_context,omitempty"`
}

// callerCtx is a minimal caller-implemented context.
type callerCtx struct {
	mu   sync.Mutex
	done chan struct{}
	err  error
}

func newCallerCtx() *callerCtx { return &callerCtx{done: make(chan struct{})} }

func (c *callerCtx) Deadline() (time.Time, bool) { return time.Time{}, false }
func (c *callerCtx) Done() <-chan struct{}       { return c.done }
func (c *callerCtx) Value(any) any               { return nil }
func (c *callerCtx) Err() error {
	c.mu.Lock()
	defer c.mu.Unlock()
	return c.err
}
func (c *callerCtx) cancel() {
	c.mu.Lock()
	if c.err == nil {
		c.err = context.Canceled
		close(c.done)
	}
	c.mu.Unlock()
}

func (s scen) T() time.Duration     { return time.Duration(s.TNs) }
func (s scen) D() time.Duration     { return time.Duration(s.TNs + s.OffNs) }
func (s scen) Delta() time.Duration { return time.Duration(s.DeltaNs) }
func (s scen) coop() bool           { return s.Kind != kBlind }

// waitKind: the action never finishes on its own (d is meaningless).
func waitKind(k string) bool { return k == kWaitOnly || k == kDeafWait }

// P is the instant at which the parent context is cancelled (inf = never).
func (s scen) P() time.Duration {
	switch s.Parent {
	case pPre:
		return 0
	case pTm:
		return time.Duration(s.TNs - s.EpsNs)
	case pT:
		return time.Duration(s.TNs)
	case pTp:
		return time.Duration(s.TNs + s.EpsNs)
	}
	return inf
}

// E is the instant at which the action's signal fires: the deadline or the parent's cancellation.
func (s scen) E() time.Duration {
	if p := s.P(); p < s.T() {
		return p
	}
	return s.T()
}

func (s scen) canonical() string {
	return fmt.Sprintf("%s|%s|%s|%s|off=%d|T=%d|delta=%d|eps=%d|be=%v|busy=%d|cp=%v", s.Part, s.Runner, s.Kind, s.Parent, s.OffNs, s.TNs, s.DeltaNs, s.EpsNs, s.BlindErr, s.Busy, s.CustomParent)
}

// state is what the action wrapper and the caller record about one runner call.
type state struct {
	sc     scen
	start  time.Time
	ownErr error

	invoked   atomic.Bool
	observed  atomic.Bool  // the action took the "signalled" branch
	obsNs     atomic.Int64 // instant (since start, +1) at which the action looked at its signal and found it triggered
	returned  atomic.Bool  // the action wrapper has recorded its return (set immediately before returning)
	actRetNs  atomic.Int64
	actResErr atomic.Value // errBox
	actCtx    atomic.Value // ctxBox
	stop      atomic.Value // chanBox (RAWT)

	parentCancelBegun atomic.Bool
}

type errBox struct{ err error }
type ctxBox struct{ ctx context.Context }
type chanBox struct{ ch chan bool }

func newState(sc scen) *state {
	return &state{sc: sc, ownErr: fmt.Errorf("c12 action error #%d (%s/%s)", sc.Index, sc.Runner, sc.Kind)}
}

func (st *state) ownResult() error {
	switch st.sc.Kind {
	case kCoopErr:
		return st.ownErr
	case kBlind:
		if st.sc.BlindErr {
			return st.ownErr
		}
	}
	return nil
}

func (st *state) finish(err error) error {
	st.actResErr.Store(errBox{err})
	st.actRetNs.Store(int64(time.Since(st.start)))
	st.returned.Store(true)
	return err
}

// body is the action, parameterised by its signal (a receive-only view of the stop channel or ctx.Done()).
// Sleeping uses the time package: virtual inside a bubble, real outside.
func (st *state) body(signal <-chan struct{}, signalBool <-chan bool) error {
	st.invoked.Store(true)
	sc := st.sc
	wait := func(timer <-chan time.Time) (signalled bool) {
		if signalBool != nil {
			select {
			case <-signalBool:
				return true
			case <-timer:
				return false
			}
		}
		select {
		case <-signal:
			return true
		case <-timer:
			return false
		}
	}
	switch sc.Kind {
	case kBlind:
		time.Sleep(sc.D())
		return st.finish(st.ownResult())
	case kDeafWait:
		for {
			time.Sleep(sc.Delta())
			got := false
			if signalBool != nil {
				select {
				case <-signalBool:
					got = true
				default:
				}
			} else {
				select {
				case <-signal:
					got = true
				default:
				}
			}
			if got {
				st.obsNs.Store(int64(time.Since(st.start)) + 1)
				st.observed.Store(true)
				return st.finish(nil)
			}
		}
	case kWaitOnly:
		wait(nil) // a nil timer channel never fires
		st.observed.Store(true)
		if sc.DeltaNs > 0 {
			time.Sleep(sc.Delta())
		}
		return st.finish(nil)
	}
	tm := time.NewTimer(sc.D())
	defer tm.Stop()
	if wait(tm.C) {
		st.observed.Store(true)
		if sc.Kind == kCoopLag && sc.DeltaNs > 0 {
			time.Sleep(sc.Delta())
		}
	}
	return st.finish(st.ownResult())
}

func (st *state) stopAction(stop chan bool) error {
	st.stop.Store(chanBox{stop})
	return st.body(nil, stop)
}

func (st *state) ctxAction(ctx context.Context) error {
	st.actCtx.Store(ctxBox{ctx})
	return st.body(ctx.Done(), nil)
}

// call invokes the runner under test.
func (st *state) call(parent context.Context, store *parallelisation.CancelFunctionStore) error {
	switch st.sc.Runner {
	case rRAWT:
		return parallelisation.RunActionWithTimeout(st.stopAction, st.sc.T())
	case rCtx:
		return parallelisation.RunActionWithTimeoutAndContext(parent, st.sc.T(), st.ctxAction)
	default:
		return parallelisation.RunActionWithTimeoutAndCancelStore(parent, st.sc.T(), store, st.ctxAction)
	}
}

// snapshot is taken by the calling goroutine immediately after the runner returned.
type snapshot struct {
	Res               error
	RetNs             int64
	ActionInvoked     bool
	ActionReturned    bool
	ActionRes         error
	Observed          bool
	CtxKnown          bool
	CtxDone           bool
	ParentCancelBegun bool
}

func (st *state) snap(res error) snapshot {
	s := snapshot{Res: res, RetNs: int64(time.Since(st.start))}
	s.ParentCancelBegun = st.parentCancelBegun.Load()
	s.ActionInvoked = st.invoked.Load()
	s.ActionReturned = st.returned.Load()
	if s.ActionReturned {
		s.ActionRes = st.actResErr.Load().(errBox).err
	}
	s.Observed = st.observed.Load()
	if b, ok := st.actCtx.Load().(ctxBox); ok {
		s.CtxKnown = true
		s.CtxDone = b.ctx.Err() != nil
	}
	return s
}

func isTimeoutKind(err error) bool {
	return err != nil && (commonerrors.Any(err, commonerrors.ErrTimeout) || errors.Is(err, context.DeadlineExceeded))
}

func isCancelKind(err error) bool {
	return err != nil && (commonerrors.Any(err, commonerrors.ErrCancelled) || errors.Is(err, context.Canceled))
}

func errStr(err error) string {
	if err == nil {
		return "<nil>"
	}
	return err.Error()
}

func resClass(s snapshot) string {
	switch {
	case isTimeoutKind(s.Res):
		return "timeout"
	case isCancelKind(s.Res):
		return "cancelled"
	case isOwn(s):
		if s.Res == nil {
			return "own-nil"
		}
		return "own-error"
	}
	return "foreign"
}

// isOwn: the runner's result is the value the action itself returned (the action must have returned by then).
func isOwn(s snapshot) bool {
	if !s.ActionReturned {
		return false
	}
	if s.ActionRes == nil {
		return s.Res == nil
	}
	return s.Res != nil && errors.Is(s.Res, s.ActionRes)
}

// judgeCommon applies the clock-free oracles shared by the bubble and the real-time mode. settledObserved
// is the action's "signal observed" flag after the scheduler settled (bubble: synctest.Wait; real: a
// bounded grace). Returns the result class.
func judgeCommon(r *vrun.Run, sc scen, s snapshot, settledObserved bool, extra map[string]any) string {
	cls := resClass(s)
	wit := func() map[string]any {
		w := map[string]any{"scenario": sc, "result": errStr(s.Res), "result_class": cls, "runner_returned_at_ns": s.RetNs,
			"action_invoked": s.ActionInvoked, "action_returned_by_then": s.ActionReturned, "action_observed_signal": s.Observed,
			"deterministic": sc.Part == "bubble" && (waitKind(sc.Kind) || sc.D() != sc.E())}
		for k, v := range extra {
			w[k] = v
		}
		return w
	}
	sig := func(effect string, kv ...string) vrun.Sig {
		g := vrun.Sig{"runner": sc.Runner, "effect": effect, "mode": sc.Part}
		for i := 0; i+1 < len(kv); i += 2 {
			g[kv[i]] = kv[i+1]
		}
		return g
	}
	// (R2) never anything other than {the action's own result, timeout kind, cancelled kind}
	if cls == "foreign" {
		r.Violation(sig("foreign-result", "kind", sc.Kind), fmt.Sprintf("%s returned %q which is neither the action's own result (%s, returned=%v) nor a timeout/cancelled kind",
			sc.Runner, errStr(s.Res), errStr(s.ActionRes), s.ActionReturned), wit())
		return cls
	}
	// (R3a) the action's own result although the action only finished after observing its signal
	if (cls == "own-nil" || cls == "own-error") && s.Observed {
		w := wit()
		w["deterministic"] = false // depends on the order in which the runtime runs the goroutines woken by one event
		r.Violation(sig("own-result-after-signal-observed", "result", cls, "parent", parentClass(sc)),
			fmt.Sprintf("%s returned the action's own result %q although the action only finished after observing its stop signal", sc.Runner, errStr(s.Res)), w)
	}
	// cancelled kind needs a parent whose cancellation had at least begun
	if cls == "cancelled" && !s.ParentCancelBegun {
		r.Violation(sig("cancelled-kind-with-live-parent"), fmt.Sprintf("%s returned %q although the parent context was never cancelled", sc.Runner, errStr(s.Res)), wit())
	}
	// (R5) signal on every exit path
	path := cls
	if s.ActionInvoked {
		switch sc.Runner {
		case rCtx:
			// documented: "blockingAction's context will be cancelled on exit"
			r.Obs("ctx_done_on_return_checks", 1)
			if s.CtxKnown && !s.CtxDone {
				r.Violation(sig("action-context-not-done-on-return", "path", path, "pre", ctxPre(s)),
					fmt.Sprintf("%s returned %q but the context handed to the action is still alive", sc.Runner, errStr(s.Res)), wit())
			}
		case rStore:
			// DON'T-CARE: alive on the success path by design; required done on the timeout/error paths
			if s.Res != nil {
				r.Obs("ctx_done_on_return_checks", 1)
				if s.CtxKnown && !s.CtxDone {
					r.Violation(sig("action-context-not-done-on-return", "path", path, "pre", ctxPre(s)),
						fmt.Sprintf("%s returned %q but the context handed to the action is still alive", sc.Runner, errStr(s.Res)), wit())
				}
			} else {
				r.Obs("store_success_path_ctx_dont_care", 1)
			}
		}
		// timeout/cancelled kind "once the action has observed its stop signal": decidable for an action that can
		// only finish through its signal (wait-only; in a bubble also any cooperative action with d > E, see sweep.go)
		if (cls == "timeout" || cls == "cancelled") && waitKind(sc.Kind) {
			r.Obs("signal_delivery_checks", 1)
			if !settledObserved {
				r.Violation(sig("signal-not-delivered-on-"+cls, "kind", sc.Kind),
					fmt.Sprintf("%s returned %q but the action (which only waits for its signal) never observed it", sc.Runner, errStr(s.Res)), wit())
			}
		}
	}
	return cls
}

// ctxPre names the state of the action when its context was found alive after the runner returned.
func ctxPre(s snapshot) string {
	switch {
	case !s.ActionReturned:
		return "action-still-running"
	case s.Observed:
		return "action-had-observed-a-signal"
	case s.ActionRes == nil:
		return "action-finished-on-its-own-with-nil"
	}
	return "action-finished-on-its-own-with-error"
}

func parentClass(sc scen) string {
	if sc.Parent == pLive {
		return "live"
	}
	if sc.Parent == pPre {
		return "cancelled-before-call"
	}
	return "cancelled-near-deadline"
}

func main() {
	r := vrun.Start("C12", "exploration")
	r.Rule("bubble sweep: one case = one runner call in its own synctest bubble, identified by (runner, action kind, parent-context state, d−T in ns, T, δ, ε); d−T covers every µs of [−2 ms,+2 ms] (4 001 points; thorough: repeated 40× with fresh T/δ/ε), the point d = T is replicated 400× (thorough 10 000×) because there the scheduler decides. " +
		"real-time: same scenario tuple + busy-goroutine level around a real 5 ms deadline. Parallelise: generated (argument count 0..200, element type, duplicates, result type, per-argument delay/value/error script), in bubbles and in real time. " +
		"cancel store: one case = one round (registrars × functions, cancellers × calls, Len readers). " +
		"non-trivial: runner case — the action's completion instant lies within 50 µs of a signal instant (deadline or parent cancellation) or the parent is cancelled; Parallelise — ≥ 2 arguments and (an error or duplicates or distinct completion instants); " +
		"store — the round had ≥ 1 obligation (a Register that returned before a Cancel began) and ≥ 1 Register overlapping a Cancel. distinct = canonical parameter tuple.")
	r.Assume("testing/synctest (go1.24 experiment): virtual time advances only when every goroutine of the bubble is durably blocked; its deadlock report is exact",
		"go-deadlock detection is disabled in the monitor process (its mutexes degrade to sync mutexes)",
		"the check binary is not built with -race: data races on the cancel store are NOT decided here (needs a -race variant)",
		"real-time mode: results are judged only by clock-free oracles; a hang needs a goroutine-dump witness")

	if r.Replay != "" {
		replay(r)
		r.Finish()
	}
	if _, _, child := r.Child(); child {
		// the cancel-store rounds run in a child process: a store whose locking is broken corrupts memory (torn
		// slice headers) and may take the whole process down, which must not cost the other parts their verdicts
		runStore(r)
		r.Finish()
	}

	// real-time stress first: runners that do not return stay parked and are judged at the very end,
	// once the generous wall-clock bound has elapsed (the bound only decides when to look, never the verdict)
	only := os.Getenv("C12_ONLY") // development aid: run one part only (the minimum observation counts then fail the run)
	partWall := map[string]float64{}
	part := func(name string, f func()) {
		if only == "" || only == name {
			t0 := time.Now()
			f()
			partWall[name] += time.Since(t0).Seconds() // bookkeeping only, never an input of an oracle
			r.Extra("part_wall_s", partWall)
			if os.Getenv("C12_TIMING") != "" {
				fmt.Printf("part %s: %.1fs\n", name, time.Since(t0).Seconds())
			}
		}
	}
	rt := &realtime{}
	part("realtime", func() { rt = startRealtime(r) })
	part("sweep", func() { runSweep(r) })
	part("parallelise", func() { runParallelise(r) })
	part("store", func() {
		r.OnChildFailure = func(progress, output string) bool {
			// This child executes nothing but harness code (race-free: atomics and happens-before through WaitGroups,
			// no unsafe) and the store operations. A crash inside a store operation, or a memory-corruption crash of
			// the runtime (torn slice header / bad heap pointer), is therefore attributed to the store.
			if p := os.Getenv("C12_DEBUG_CHILD"); p != "" {
				_ = os.WriteFile(p, []byte(output), 0o644)
			}
			inStore := strings.Contains(output, "parallelisation.(*CancelFunctionStore)") && (strings.Contains(output, "fatal error:") || strings.Contains(output, "panic:"))
			corrupt := strings.Contains(output, "found bad pointer in Go heap") || strings.Contains(output, "found pointer to free object") || strings.Contains(output, "marked free object in span") || strings.Contains(output, "unexpected fault address") || strings.Contains(output, "fatal error: fault")
			if inStore || corrupt {
				r.Violation(vrun.Sig{"ep": "CancelFunctionStore", "effect": "crash-in-store-operation"},
					"the process running concurrent Register/Cancel/Len on one store crashed (inside a store operation or with runtime memory corruption)",
					map[string]any{"last_round": progress, "output_head": trunc(output, 3000), "deterministic": false})
				return true
			}
			return false
		}
		var env []string
		if rb := os.Getenv("VERIF_BIN") + ".race"; os.Getenv("VERIF_BIN") != "" {
			if _, err := os.Stat(rb); err == nil {
				// the store rounds run in the -race build: a report ends the child (exit code 66) and is attributed below
				r.ChildBinary = rb
				env = []string{"GORACE=halt_on_error=1 exitcode=66"}
				r.Obs("store_rounds_run_under_the_race_detector", 1)
			}
		}
		inner := r.OnChildFailure
		r.OnChildFailure = func(progress, output string) bool {
			if strings.Contains(output, "WARNING: DATA RACE") && strings.Contains(output, "cancel_functions.go") {
				r.Violation(vrun.Sig{"ep": "CancelFunctionStore", "effect": "data-race"},
					"the race detector reported a data race with a frame in cancel_functions.go under concurrent Register/Cancel/Len",
					map[string]any{"last_round": progress, "race_report": trunc(output[strings.Index(output, "WARNING: DATA RACE"):], 3500), "deterministic": false})
				return true
			}
			return inner(progress, output)
		}
		r.SpawnChildren(1, 1, env, time.Duration(r.Pick(5, 20))*time.Minute)
	})
	part("realtime", func() { rt.judgeStragglers(r) })

	r.Require("sweep_cases", int64(r.Pick(150_000, 5_000_000)))
	r.Require("sweep_equal_instant_cases", 10_000)
	r.Require("sweep_results_own", 5_000)
	r.Require("sweep_results_timeout", 5_000)
	r.Require("sweep_results_cancelled", 1_000)
	r.Require("ctx_done_on_return_checks", 5_000)
	r.Require("signal_delivery_checks", 1_000)
	r.Require("store_cancel_after_success_checks", 1_000)
	r.Require("realtime_cases", int64(r.Pick(1_500, 30_000)))
	r.Require("parallelise_bubble_cases", int64(r.Pick(300, 5_000)))
	r.Require("parallelise_real_cases", int64(r.Pick(100, 1_000)))
	r.Require("parallelise_invocations", 10_000)
	r.Require("parallelise_error_cases", 50)
	r.Require("store_rounds", int64(r.Pick(400, 8_000)))
	r.Require("store_obligations_checked", 10_000)
	r.Require("store_registers_overlapping_cancel", 100)
	r.Require("distinct_nontrivial", 1_000)
	r.Finish()
}

func tail(s string, n int) string {
	if len(s) > n {
		return s[len(s)-n:]
	}
	return s
}

func replay(r *vrun.Run) {
	var w struct {
		Scenario *scen     `json:"scenario"`
		Par      *parCase  `json:"parallelise_case"`
		Store    *storeGen `json:"store_round"`
	}
	if err := r.ReadReplay(&w); err != nil {
		r.Fatalf("replay: %v", err)
	}
	switch {
	case w.Scenario != nil && w.Scenario.Part == "bubble":
		n := 200
		if !waitKind(w.Scenario.Kind) && w.Scenario.D() == w.Scenario.E() {
			n = 5000 // equal instants: the runtime's scheduling decides, so the replay repeats the case more often
		}
		for i := 0; i < n; i++ {
			runBubbleCase(r, *w.Scenario)
		}
	case w.Scenario != nil:
		rt := &realtime{}
		sp := startSpinners(w.Scenario.Busy)
		for i := 0; i < 200; i++ {
			rt.runCase(r, *w.Scenario)
		}
		sp.stop()
		rt.judgeStragglers(r)
	case w.Par != nil:
		for i := 0; i < 50; i++ {
			runParCase(r, *w.Par)
		}
	case w.Store != nil:
		for i := 0; i < 200; i++ {
			runStoreRound(r, *w.Store)
		}
	default:
		r.Fatalf("replay: witness has no replayable case")
	}
}
