#!/bin/bash
# race-detector variant of the check binary: the CancelFunctionStore rounds run in it (child process)
go build -race -tags verif -o "$BIN.race" ./cmd/c12
