package main

import (
	"context"
	"fmt"
	"runtime"
	"runtime/debug"
	"sync"
	"sync/atomic"

	"github.com/ARM-software/golang-utils/utils/parallelisation"

	"verif/internal/vrun"
)

// storeGen is one round on one CancelFunctionStore.
type storeGen struct {
	Index      int `json:"index"`
	Registrars int `json:"registrars"`
	PerReg     int `json:"functions_per_registrar"`
	Batch      int `json:"max_functions_per_call"`
	Cancellers int `json:"cancellers"`
	PerCancel  int `json:"cancels_per_canceller"`
	LenReaders int `json:"len_readers"`
}

func genStore(r *vrun.Run, i int) storeGen {
	rng := r.Rand("store", i)
	return storeGen{Index: i, Registrars: 1 + rng.IntN(8), PerReg: 1 + rng.IntN(60), Batch: 1 + rng.IntN(3),
		Cancellers: 1 + rng.IntN(4), PerCancel: 1 + rng.IntN(12), LenReaders: rng.IntN(3)}
}

func runStore(r *vrun.Run) {
	n := r.Pick(500, 12_500)
	vrun.Parallel(n, 4, func(i int) { runStoreRound(r, genStore(r, i)) })
}

// runStoreRound: every cancel function has a unique id; a logical clock (one atomic counter) stamps
//   - regRet[id]   after the RegisterCancelFunction call that carried id returned,
//   - begin[c]     before Cancel call c is made, end[c] after it returned,
//   - firstInv[id] inside the cancel function (first invocation only).
//
// regRet[id] < begin[c] ⇒ that Register really returned before that Cancel began; firstInv[id] < end[c] ⇐ the
// function was invoked before that Cancel returned. Oracle: regRet[id] < begin[c] ⇒ 0 < firstInv[id] < end[c].
func runStoreRound(r *vrun.Run, g storeGen) {
	if g.Index%16 == 0 {
		r.Progress(g)
	}
	store := parallelisation.NewCancelFunctionsStore()
	var clock atomic.Int64
	nFn := g.Registrars * g.PerReg
	regBeg := make([]int64, nFn)
	regRet := make([]int64, nFn)
	firstInv := make([]atomic.Int64, nFn)
	nC := g.Cancellers*g.PerCancel + 1
	begin := make([]int64, nC)
	end := make([]int64, nC)

	mk := func(id int) context.CancelFunc {
		return func() {
			if firstInv[id].Load() == 0 {
				firstInv[id].CompareAndSwap(0, clock.Add(1))
			}
		}
	}
	// a store operation that panics (e.g. on a torn slice) must not take the monitor down: it is recorded
	var panics atomic.Int64
	var firstPanic atomic.Value
	safely := func(op string, f func()) {
		defer debug.SetPanicOnFault(debug.SetPanicOnFault(true)) // a torn slice header faults at a non-nil address
		defer func() {
			if p := recover(); p != nil {
				panics.Add(1)
				firstPanic.CompareAndSwap(nil, op+": "+fmt.Sprint(p))
			}
		}()
		f()
	}
	var wg sync.WaitGroup
	startGate := make(chan struct{})
	var regsDone atomic.Int64
	for a := 0; a < g.Registrars; a++ {
		wg.Add(1)
		go func(a int) {
			defer wg.Done()
			defer regsDone.Add(1)
			rng := newLocalRand(uint64(g.Index)*131 + uint64(a))
			<-startGate
			for j := 0; j < g.PerReg; {
				b := 1 + int(rng.next()%uint64(g.Batch))
				if j+b > g.PerReg {
					b = g.PerReg - j
				}
				fns := make([]context.CancelFunc, b)
				t0 := clock.Add(1)
				for x := 0; x < b; x++ {
					fns[x] = mk(a*g.PerReg + j + x)
				}
				safely("RegisterCancelFunction", func() { store.RegisterCancelFunction(fns...) })
				t := clock.Add(1)
				for x := 0; x < b; x++ {
					regBeg[a*g.PerReg+j+x] = t0
					regRet[a*g.PerReg+j+x] = t
				}
				j += b
				if rng.next()%4 == 0 {
					runtime.Gosched()
				}
			}
		}(a)
	}
	for m := 0; m < g.Cancellers; m++ {
		wg.Add(1)
		go func(m int) {
			defer wg.Done()
			rng := newLocalRand(uint64(g.Index)*977 + uint64(m) + 17)
			<-startGate
			for j := 0; j < g.PerCancel; j++ {
				c := m*g.PerCancel + j
				begin[c] = clock.Add(1)
				safely("Cancel", store.Cancel)
				end[c] = clock.Add(1)
				for y := rng.next() % 3; y > 0; y-- {
					runtime.Gosched()
				}
			}
		}(m)
	}
	var lenCalls atomic.Int64
	for l := 0; l < g.LenReaders; l++ {
		wg.Add(1)
		go func() {
			defer wg.Done()
			<-startGate
			for regsDone.Load() < int64(g.Registrars) {
				safely("Len", func() { _ = store.Len() })
				lenCalls.Add(1)
				runtime.Gosched()
			}
		}()
	}
	close(startGate)
	wg.Wait()
	// a last Cancel that begins after every registration returned
	last := nC - 1
	begin[last] = clock.Add(1)
	safely("Cancel", store.Cancel)
	end[last] = clock.Add(1)

	var obligations, overlaps, missed int64
	firstMiss := map[string]any(nil)
	for c := 0; c < nC; c++ {
		for id := 0; id < nFn; id++ {
			if regRet[id] < begin[c] {
				obligations++
				inv := firstInv[id].Load()
				if inv == 0 || inv > end[c] {
					missed++
					if firstMiss == nil {
						firstMiss = map[string]any{"function_id": id, "register_returned_at": regRet[id], "cancel_index": c, "cancel_began_at": begin[c],
							"cancel_returned_at": end[c], "first_invocation_at": inv, "final_cancel": c == last}
					}
				}
			} else if regBeg[id] < end[c] && regRet[id] > begin[c] {
				overlaps++
			}
		}
	}
	r.Case(fmt.Sprintf("store|%d|%d|%d|%d|%d|%d|%d", g.Index, g.Registrars, g.PerReg, g.Batch, g.Cancellers, g.PerCancel, g.LenReaders), obligations > 0 && overlaps > 0)
	r.Obs("store_rounds", 1)
	r.Obs("store_obligations_checked", obligations)
	r.Obs("store_registers_overlapping_cancel", overlaps)
	r.Obs("store_cancel_calls", int64(nC))
	r.Obs("store_registered_functions", int64(nFn))
	r.Obs("store_len_calls", lenCalls.Load())
	if panics.Load() > 0 {
		fp, _ := firstPanic.Load().(string)
		r.Violation(vrun.Sig{"ep": "CancelFunctionStore", "effect": "panic-in-store-operation"},
			fmt.Sprintf("%d store operations panicked under concurrent Register/Cancel/Len; first: %s", panics.Load(), trunc(fp, 160)),
			map[string]any{"store_round": g, "first_panic": fp, "deterministic": false})
	}
	if missed > 0 {
		firstMiss["store_round"] = g
		firstMiss["missed_obligations"] = missed
		firstMiss["deterministic"] = false
		never := firstMiss["first_invocation_at"].(int64) == 0
		r.Violation(vrun.Sig{"ep": "CancelFunctionStore", "effect": "registered-function-not-invoked-by-later-cancel", "never": fmt.Sprint(never)},
			fmt.Sprintf("%d (function, Cancel) pairs: Register returned before Cancel began, yet the function had not been invoked when Cancel returned", missed), firstMiss)
	}
}

// tiny deterministic PRNG for in-round jitter (the round's shape comes from r.Rand)
type localRand struct{ s uint64 }

func newLocalRand(seed uint64) *localRand { return &localRand{s: seed*0x9e3779b97f4a7c15 + 1} }
func (l *localRand) next() uint64 {
	l.s ^= l.s << 13
	l.s ^= l.s >> 7
	l.s ^= l.s << 17
	return l.s
}
