package main

import (
	"errors"
	"fmt"
	"reflect"
	"runtime"
	"sort"
	"strings"
	"sync"
	"sync/atomic"
	"testing/synctest"
	"time"

	"github.com/ARM-software/golang-utils/utils/parallelisation"

	"verif/internal/sched"
	"verif/internal/vrun"
)

// parCase is one generated Parallelise call; the per-argument script is regenerated from (Stream, Index).
type parCase struct {
	Mode    string `json:"mode"` // "bubble" | "real"
	Stream  string `json:"stream"`
	Index   int    `json:"index"`
	N       int    `json:"n_args"`
	Elem    string `json:"arg_type"`    // int | string | struct | array-int
	Keys    int    `json:"distinct"`    // number of distinct argument values (< N ⇒ duplicates)
	ResType string `json:"result_type"` // none | int64 | string
	ErrMode string `json:"errors"`      // none | one | some | all
	Delay   string `json:"delays"`      // zero | same | spread
}

type argStruct struct {
	K    int
	Name string
}

type parScript struct {
	delay time.Duration
	err   error
}

func genParCase(r *vrun.Run, mode string, i int) parCase {
	rng := r.Rand("parallelise-"+mode, i)
	c := parCase{Mode: mode, Stream: "parallelise-" + mode, Index: i}
	switch i % 8 {
	case 0:
		c.N = 0
	case 1:
		c.N = 1
	case 2:
		c.N = 200
	case 3:
		c.N = 2 + rng.IntN(4)
	default:
		c.N = rng.IntN(201)
	}
	c.Elem = []string{"int", "string", "struct", "array-int"}[rng.IntN(4)]
	c.Keys = c.N
	if c.N > 1 && rng.IntN(4) == 0 {
		c.Keys = 1 + rng.IntN(c.N)
	}
	c.ResType = []string{"none", "int64", "string", "int64"}[rng.IntN(4)]
	c.ErrMode = []string{"none", "none", "none", "one", "some", "all"}[rng.IntN(6)]
	c.Delay = []string{"zero", "same", "spread", "spread"}[rng.IntN(4)]
	return c
}

func runParallelise(r *vrun.Run) {
	nb := r.Pick(600, 12_000)
	vrun.Parallel(nb, 0, func(i int) { runParCase(r, genParCase(r, "bubble", i)) })
	// real time: serially, so that the goroutine count has a stable baseline
	nr := r.Pick(200, 2_500)
	for i := 0; i < nr; i++ {
		runParCase(r, genParCase(r, "real", i))
	}
}

type parOut struct {
	returned   bool
	results    interface{}
	err        error
	errsSoFar  []error // errors invocations had returned when Parallelise returned
	invoc      []int64 // per key
	finished   int64
	panicked   string
	goroutines string // real time: structural leak witness
	leakInc    string
}

func runParCase(r *vrun.Run, c parCase) {
	rng := r.Rand(c.Stream+"-script", c.Index)
	unit := time.Microsecond
	scripts := make([]parScript, c.Keys)
	var maxDelay time.Duration
	nErr := 0
	same := time.Duration(1+rng.IntN(2000)) * unit
	if c.Mode == "real" {
		same = time.Duration(1+rng.IntN(300)) * unit
	}
	for k := range scripts {
		switch c.Delay {
		case "same":
			scripts[k].delay = same
		case "spread":
			if c.Mode == "real" {
				scripts[k].delay = time.Duration(rng.IntN(500)) * unit
			} else {
				scripts[k].delay = time.Duration(rng.IntN(2000)) * unit
			}
		}
		if scripts[k].delay > maxDelay {
			maxDelay = scripts[k].delay
		}
		isErr := false
		switch c.ErrMode {
		case "one":
			isErr = k == c.Keys/2
		case "some":
			isErr = rng.IntN(5) == 0
		case "all":
			isErr = true
		}
		if isErr {
			scripts[k].err = fmt.Errorf("c12 parallelise error of key %d (case %d)", k, c.Index)
			nErr++
		}
	}
	// argument list
	keys := make([]int, c.N)
	mult := make([]int64, c.Keys)
	for i := range keys {
		keys[i] = i % max(c.Keys, 1)
		mult[keys[i]]++
	}
	rng.Shuffle(len(keys), func(a, b int) { keys[a], keys[b] = keys[b], keys[a] })
	erroringInvocations := 0
	for _, k := range keys {
		if scripts[k].err != nil {
			erroringInvocations++
		}
	}
	var argList interface{}
	switch c.Elem {
	case "int":
		argList = keys
	case "string":
		l := make([]string, c.N)
		for i, k := range keys {
			l[i] = fmt.Sprintf("arg-%d", k)
		}
		argList = l
	case "struct":
		l := make([]argStruct, c.N)
		for i, k := range keys {
			l[i] = argStruct{K: k, Name: fmt.Sprintf("s%d", k)}
		}
		argList = l
	default:
		a := reflect.New(reflect.ArrayOf(c.N, reflect.TypeOf(0))).Elem()
		for i, k := range keys {
			a.Index(i).SetInt(int64(k))
		}
		argList = a.Interface()
	}
	keyOf := func(arg interface{}) int {
		switch v := arg.(type) {
		case int:
			return v
		case string:
			var k int
			_, _ = fmt.Sscanf(v, "arg-%d", &k)
			return k
		case argStruct:
			return v.K
		}
		return -1
	}
	var resType reflect.Type
	valueOf := func(k int) interface{} { return nil }
	switch c.ResType {
	case "int64":
		resType = reflect.TypeOf([]int64(nil))
		valueOf = func(k int) interface{} { return int64(k)*7 + 1 }
	case "string":
		resType = reflect.TypeOf([]string(nil))
		valueOf = func(k int) interface{} { return fmt.Sprintf("v%d", k) }
	}

	out := &parOut{invoc: make([]int64, c.Keys)}
	var mu sync.Mutex
	var returnedErrs []error
	var finished, badKey atomic.Int64
	action := func(arg interface{}) (interface{}, error) {
		k := keyOf(arg)
		if k < 0 || k >= c.Keys {
			badKey.Add(1)
			finished.Add(1)
			return valueOf(0), nil
		}
		atomic.AddInt64(&out.invoc[k], 1)
		if d := scripts[k].delay; d > 0 {
			time.Sleep(d)
		}
		if e := scripts[k].err; e != nil {
			mu.Lock()
			returnedErrs = append(returnedErrs, e)
			mu.Unlock()
			finished.Add(1)
			return nil, e
		}
		finished.Add(1)
		return valueOf(k), nil
	}
	call := func() {
		defer func() {
			if p := recover(); p != nil {
				out.panicked = fmt.Sprint(p)
			}
		}()
		res, err := parallelisation.Parallelise(argList, action, resType)
		mu.Lock()
		out.errsSoFar = append([]error(nil), returnedErrs...)
		mu.Unlock()
		out.results, out.err, out.returned = res, err, true
	}

	var deadlock string
	phase := atomic.Value{}
	phase.Store("call")
	if c.Mode == "bubble" {
		deadlock = sched.Bubble(func() {
			done := make(chan struct{})
			go func() { call(); close(done) }()
			g := time.NewTimer(time.Hour)
			select {
			case <-done:
				g.Stop()
			case <-g.C:
				phase.Store("hang-confirm")
				<-done // no timer left: the runtime reports the deadlock if Parallelise can never return
			}
			phase.Store("drain")
			time.Sleep(maxDelay + time.Millisecond)
			synctest.Wait()
			out.finished = finished.Load()
			phase.Store("exit") // synctest.Run now waits for every goroutine of the bubble: a blocked one ⇒ deadlock panic
		})
	} else {
		baseline := runtime.NumGoroutine()
		done := make(chan struct{})
		go func() { call(); close(done) }()
		select {
		case <-done:
		case <-time.After(30 * time.Second):
			r.Inconclusive("Parallelise (real time) had not returned after 30 s; no structural witness taken")
			return
		}
		// all actions finished? (bounded wait; the count decides, never the clock)
		for i := 0; i < 2_000 && finished.Load() < int64(c.N); i++ {
			time.Sleep(500 * time.Microsecond)
		}
		out.finished = finished.Load()
		if out.finished == int64(c.N) {
			ok := false
			for i := 0; i < 1_000; i++ {
				if runtime.NumGoroutine() <= baseline {
					ok = true
					break
				}
				time.Sleep(500 * time.Microsecond)
			}
			if !ok {
				// structural witness: goroutines of Parallelise parked in a channel send although every action finished
				n := 0
				for _, g := range parseDump(dumpAll()) {
					if strings.HasPrefix(g.state, "chan send") && g.firstUserFn != "" && strings.Contains(g.firstUserFn, "parallelisation.Parallelise") {
						n++
					}
				}
				if n > 0 {
					out.goroutines = fmt.Sprintf("%d goroutines of Parallelise parked in chan send after all %d actions finished", n, c.N)
				} else {
					out.leakInc = fmt.Sprintf("goroutine count %d above baseline %d after all actions finished, no Parallelise goroutine found blocked", runtime.NumGoroutine(), baseline)
				}
			}
		}
	}
	ph, _ := phase.Load().(string)
	judgePar(r, c, out, deadlock, ph, mult, scripts, valueOf, nErr, erroringInvocations, badKey.Load())
}

func judgePar(r *vrun.Run, c parCase, out *parOut, deadlock, phase string, mult []int64, scripts []parScript, valueOf func(int) interface{}, nErrKeys, erroringInvocations int, badKey int64) {
	distinctInstants := c.Delay == "spread"
	r.Case(fmt.Sprintf("parallelise|%s|%d|%s|%d|%s|%s|%s|%d", c.Mode, c.N, c.Elem, c.Keys, c.ResType, c.ErrMode, c.Delay, c.Index), c.N >= 2 && (erroringInvocations > 0 || c.Keys < c.N || distinctInstants))
	r.Obs("parallelise_"+c.Mode+"_cases", 1)
	r.ObsSet("parallelise_cells", fmt.Sprintf("%s/%s/res=%s/err=%s/%s/dups=%v", c.Mode, c.Elem, c.ResType, c.ErrMode, c.Delay, c.Keys < c.N))
	if c.N == 0 {
		r.Obs("parallelise_empty_lists", 1)
	}
	wit := map[string]any{"parallelise_case": c, "deterministic": c.Mode == "bubble", "bubble_panic": deadlock, "phase": phase,
		"returned": out.returned, "err": errStr(out.err), "finished_actions": out.finished, "erroring_invocations": erroringInvocations}
	sig := func(effect string, kv ...string) vrun.Sig {
		g := vrun.Sig{"ep": "Parallelise", "effect": effect, "mode": c.Mode}
		for i := 0; i+1 < len(kv); i += 2 {
			g[kv[i]] = kv[i+1]
		}
		return g
	}
	if badKey > 0 {
		r.Violation(sig("unknown-argument"), "the action was invoked with a value that is not in the argument list", wit)
	}
	if out.panicked != "" {
		r.Inconclusive("Parallelise panicked (not judged by this property): " + trunc(out.panicked, 100))
		return
	}
	if deadlock != "" {
		if !strings.Contains(deadlock, "deadlock: all goroutines in bubble are blocked") {
			r.Inconclusive("parallelise bubble panicked: " + trunc(deadlock, 120))
			return
		}
		if phase == "hang-confirm" || phase == "call" {
			r.Violation(sig("hang"), fmt.Sprintf("Parallelise never returns (n=%d, errors=%s)", c.N, c.ErrMode), wit)
		} else {
			r.Obs("parallelise_blocked_goroutine_witnesses", 1)
			r.Violation(sig("goroutine-left-blocked", "errors", errClass(c)), fmt.Sprintf("after Parallelise returned and all %d actions finished a goroutine of the bubble is blocked for ever (n=%d, errors=%s)", out.finished, c.N, c.ErrMode), wit)
		}
		return
	}
	if !out.returned {
		r.Inconclusive("Parallelise did not return and no witness was taken")
		return
	}
	// exactly once per argument (multiset of invoked argument values = multiset of the list)
	total := int64(0)
	for k, m := range mult {
		got := atomic.LoadInt64(&out.invoc[k])
		total += got
		if got != m {
			wit["key"] = k
			wit["invocations"] = got
			wit["occurrences_in_list"] = m
			r.Violation(sig("invocation-count", "count", map[bool]string{true: "too-few", false: "too-many"}[got < m]),
				fmt.Sprintf("argument value %d occurs %d× in the list but the action was invoked %d× with it", k, m, got), wit)
			break
		}
	}
	r.Obs("parallelise_invocations", total)
	if erroringInvocations == 0 {
		r.Obs("parallelise_success_cases", 1)
		if out.err != nil {
			r.Violation(sig("error-nobody-returned"), fmt.Sprintf("Parallelise returned %q although no invocation returned an error", errStr(out.err)), wit)
			return
		}
		if c.ResType != "none" {
			var got []string
			v := reflect.ValueOf(out.results)
			if !v.IsValid() || v.Kind() != reflect.Slice {
				r.Violation(sig("results-not-a-slice"), fmt.Sprintf("Parallelise returned results of type %T for result type []%s", out.results, c.ResType), wit)
				return
			}
			for i := 0; i < v.Len(); i++ {
				got = append(got, fmt.Sprint(v.Index(i).Interface()))
			}
			var want []string
			for k, m := range mult {
				for j := int64(0); j < m; j++ {
					want = append(want, fmt.Sprint(valueOf(k)))
				}
			}
			sort.Strings(got)
			sort.Strings(want)
			r.Obs("parallelise_result_multisets_compared", 1)
			if !reflect.DeepEqual(got, want) && !(len(got) == 0 && len(want) == 0) {
				wit["got_len"] = len(got)
				wit["want_len"] = len(want)
				r.Violation(sig("result-multiset"), fmt.Sprintf("Parallelise returned %d results, expected the %d values of the invocations (as a multiset)", len(got), len(want)), wit)
			}
		}
	} else {
		r.Obs("parallelise_error_cases", 1)
		if out.err == nil {
			r.Violation(sig("error-swallowed"), fmt.Sprintf("%d invocations return an error but Parallelise returned nil", erroringInvocations), wit)
			return
		}
		found := false
		for _, e := range out.errsSoFar {
			if errors.Is(out.err, e) {
				found = true
				break
			}
		}
		if !found {
			r.Violation(sig("error-not-from-an-invocation"), fmt.Sprintf("Parallelise returned %q which no invocation had returned by then", errStr(out.err)), wit)
		}
	}
	if out.goroutines != "" {
		wit["goroutines"] = out.goroutines
		r.Violation(sig("goroutine-left-blocked", "errors", errClass(c)), out.goroutines, wit)
	} else if out.leakInc != "" {
		r.Inconclusive("parallelise real time: goroutine count above baseline without a blocked Parallelise goroutine")
	} else if out.finished != int64(c.N) {
		r.Inconclusive("parallelise: not all actions finished within the bounded wait")
	} else {
		r.Obs("parallelise_no_goroutine_left_checks", 1)
	}
}

func errClass(c parCase) string {
	if c.ErrMode == "none" {
		return "none"
	}
	return "some-invocation-fails"
}
