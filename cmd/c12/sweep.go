package main

import (
	"context"
	"fmt"
	"strings"
	"sync/atomic"
	"testing/synctest"
	"time"

	"github.com/ARM-software/golang-utils/utils/parallelisation"

	"verif/internal/sched"
	"verif/internal/vrun"
)

// offsets returns the swept values of d−T in ns: every µs of [−2 ms, +2 ms] (4 001 points) in both tiers
// (a bubble costs ~15 µs, so the quick tier does not need a coarser grid).
func offsets(r *vrun.Run) []int64 {
	var out []int64
	for us := int64(-2000); us <= 2000; us++ {
		out = append(out, us*1000)
	}
	return out
}

var (
	sweepT     = []int64{5_000_000, 5_000_000, 5_000_000, 3_000_000, 20_000_000, 1_000_000_000}
	sweepDelta = []int64{1_000, 20_000, 300_000, 3_000_000}
	sweepEps   = []int64{1_000, 7_000, 100_000, 1_000_000}
)

func runSweep(r *vrun.Run) {
	offs := offsets(r)
	reps := r.Pick(1, 40)
	// cases are kept as compact descriptors (millions in the thorough tier) and expanded by the workers
	type cdesc struct {
		runner, kind, parent uint8
		offUs, rep           int32
	}
	names := []string{rRAWT, rCtx, rStore, kCoopNil, kCoopErr, kCoopLag, kBlind, kWaitOnly, pLive, pPre, pTm, pT, pTp, kDeafWait}
	code := map[string]uint8{}
	for i, n := range names {
		code[n] = uint8(i)
	}
	var cases []cdesc
	add := func(runner, kind, parent string, off int64, rep int) {
		cases = append(cases, cdesc{code[runner], code[kind], code[parent], int32(off / 1000), int32(rep)})
	}
	expand := func(idx int) scen {
		c := cases[idx]
		runner, kind, parent, off, rep := names[c.runner], names[c.kind], names[c.parent], int64(c.offUs)*1000, int(c.rep)
		rng := r.Rand("sweep|"+runner+"|"+kind+"|"+parent+fmt.Sprint("|", rep), int(off/1000)+4000)
		sc := scen{Part: "bubble", Runner: runner, Kind: kind, Parent: parent, OffNs: off, Index: idx}
		sc.TNs = sweepT[rng.IntN(len(sweepT))]
		sc.DeltaNs = sweepDelta[rng.IntN(len(sweepDelta))]
		sc.EpsNs = sweepEps[rng.IntN(len(sweepEps))]
		sc.BlindErr = rng.IntN(2) == 1
		if kind != kCoopLag && kind != kWaitOnly {
			sc.DeltaNs = 0
		}
		if kind == kDeafWait {
			// an uninterruptible step shorter than, comparable to and much longer than the timeout itself
			sc.DeltaNs = sc.TNs*[]int64{2, 3, 5, 12, 30}[rng.IntN(5)]/5 + int64(rng.IntN(1000))*1000
		}
		if parent == pLive || parent == pPre {
			sc.EpsNs = 0
		}
		sc.CustomParent = runner != rRAWT && parent != pLive && idx%3 == 1
		// which structural hang witness is taken if the runner does not return (see bubbleBody)
		us := off / 1000
		sc.Confirm = us%16 == 0 || (us >= -2 && us <= 2)
		if rep >= 1000 {
			sc.Confirm = rep%16 == 0
		}
		return sc
	}
	kinds := []string{kCoopNil, kCoopErr, kCoopLag, kBlind}
	parents := []string{pLive, pTm, pT, pTp}
	// d = T exactly: both outcomes are legal and the scheduler decides, so this point is replicated (the replicates
	// differ in T/δ/ε and in the order in which the runtime happens to run the goroutines woken at the same instant)
	eqReps := r.Pick(400, 10_000)
	for rep := 1; rep <= eqReps; rep++ {
		for _, k := range kinds {
			add(rRAWT, k, pLive, 0, 1000+rep)
			for _, p := range parents {
				add(rCtx, k, p, 0, 1000+rep)
				add(rStore, k, p, 0, 1000+rep)
			}
		}
	}
	for rep := 0; rep < reps; rep++ {
		for _, off := range offs {
			for _, k := range kinds {
				add(rRAWT, k, pLive, off, rep)
				for _, p := range parents {
					add(rCtx, k, p, off, rep)
					add(rStore, k, p, off, rep)
				}
			}
		}
		// the action that only ever waits for its signal (d is meaningless: a few hundred variants of T/δ/ε),
		// and the parent that is already cancelled when the runner is called
		for i := 0; i < 400; i++ {
			add(rRAWT, kWaitOnly, pLive, int64(i)*1000, rep)
			for _, p := range parents {
				add(rCtx, kWaitOnly, p, int64(i)*1000, rep)
				add(rStore, kWaitOnly, p, int64(i)*1000, rep)
			}
			add(rRAWT, kDeafWait, pLive, int64(i)*1000, rep)
			for _, p := range parents {
				add(rCtx, kDeafWait, p, int64(i)*1000, rep)
				add(rStore, kDeafWait, p, int64(i)*1000, rep)
			}
		}
		for i := 0; i < 100; i++ {
			for _, k := range append(kinds, kWaitOnly, kDeafWait) {
				add(rCtx, k, pPre, int64(i-50)*1000, rep)
				add(rStore, k, pPre, int64(i-50)*1000, rep)
			}
		}
	}
	vrun.Parallel(len(cases), 0, func(i int) { runBubbleCase(r, expand(i)) })
}

// bubbleOut is filled by the goroutines of the bubble.
type bubbleOut struct {
	phase atomic.Value // string: where the main bubble goroutine is

	returned           bool
	snap               snapshot
	settledObserved    bool
	storeCancelChecked bool
	storeCancelCtxDone bool
	actionBlockedAtEnd bool // 1 h (virtual) after the runner returned the action has still not returned
	actionReleased     bool

	hung               bool // runner had not returned 1 h (virtual) after the call, every other goroutine durably blocked
	hungActionReturned bool
	hungActionRetNs    int64
	hungObserved       bool
	hungActionInvoked  bool
	releasedByDrain    bool // the harness received the pending stop value and the runner then returned
	releasedRes        error
}

func runBubbleCase(r *vrun.Run, sc scen) {
	st := newState(sc)
	out := &bubbleOut{}
	out.phase.Store("setup")
	dl := sched.Bubble(func() { bubbleBody(sc, st, out) })
	judgeBubble(r, sc, st, out, dl)
}

func bubbleBody(sc scen, st *state, out *bubbleOut) {
	st.start = time.Now()
	parent, pcancel := context.WithCancel(context.Background())
	defer pcancel()
	if sc.CustomParent {
		cc := newCallerCtx()
		parent, pcancel = cc, cc.cancel
		defer pcancel()
	}
	var store *parallelisation.CancelFunctionStore
	if sc.Runner == rStore {
		store = parallelisation.NewCancelFunctionsStore()
	}
	if sc.Runner != rRAWT {
		if P := sc.P(); P == 0 {
			st.parentCancelBegun.Store(true)
			pcancel()
		} else if P != inf {
			go func() {
				time.Sleep(P)
				st.parentCancelBegun.Store(true)
				pcancel()
			}()
		}
	}
	resCh := make(chan snapshot, 1)
	go func() {
		res := st.call(parent, store)
		resCh <- st.snap(res)
	}()
	out.phase.Store("waiting-for-runner")
	guard := time.NewTimer(time.Hour)
	select {
	case s := <-resCh:
		guard.Stop()
		out.returned = true
		out.snap = s
	case <-guard.C:
	}
	if !out.returned {
		// The scenario's timers (T, d, δ, P ≤ ~1 s) fired long ago. Wait until every other goroutine of the
		// bubble is durably blocked, then record the state.
		synctest.Wait()
		select {
		case s := <-resCh: // returned exactly while the guard fired: not a hang
			out.returned = true
			out.snap = s
		default:
		}
	}
	if !out.returned {
		out.hung = true
		out.hungActionInvoked = st.invoked.Load()
		out.hungActionReturned = st.returned.Load()
		out.hungActionRetNs = st.actRetNs.Load()
		out.hungObserved = st.observed.Load()
		if !sc.Confirm {
			// Witness A: the runner is parked in `stop <- true` although the only legitimate receiver (the action)
			// has returned: the harness itself can take the pending value, after which the runner comes back.
			if b, ok := st.stop.Load().(chanBox); ok && out.hungActionReturned {
				select {
				case <-b.ch:
					out.phase.Store("released-by-drain")
					g2 := time.NewTimer(time.Hour)
					select {
					case s := <-resCh:
						g2.Stop()
						out.releasedByDrain = true
						out.releasedRes = s.Res
						return
					case <-g2.C:
					}
				default:
				}
			}
		}
		// Witness B: let the runtime decide. With no timer left and this goroutine blocked as well, synctest
		// panics with "deadlock: all goroutines in bubble are blocked" iff nobody can ever make progress.
		out.phase.Store("hang-confirm")
		s := <-resCh
		out.returned = true // only reachable if the runner came back after all
		out.hung = false
		out.snap = s
	}
	out.phase.Store("after-return")
	if sc.Runner == rStore && out.snap.Res == nil && out.snap.ActionInvoked {
		store.Cancel()
		out.storeCancelChecked = true
		if b, ok := st.actCtx.Load().(ctxBox); ok {
			out.storeCancelCtxDone = b.ctx.Err() != nil
		}
	}
	synctest.Wait() // zero virtual time: lets an action that has just been signalled record it
	out.settledObserved = st.observed.Load()
	time.Sleep(time.Hour)
	synctest.Wait()
	if st.invoked.Load() && !st.returned.Load() {
		// the action is still waiting for a signal nobody will ever send: release it so that the bubble can end
		out.actionBlockedAtEnd = true
		pcancel()
		if b, ok := st.stop.Load().(chanBox); ok {
			select {
			case b.ch <- true:
			default:
			}
		}
		synctest.Wait()
		time.Sleep(time.Hour)
		out.actionReleased = st.returned.Load()
	}
	out.phase.Store("done")
}

func relation(sc scen) string {
	d, E := sc.D(), sc.E()
	switch {
	case waitKind(sc.Kind):
		return "never-finishes-alone"
	case d < E:
		return "before-signal-instant"
	case d == E:
		return "at-signal-instant"
	}
	return "after-signal-instant"
}

func judgeBubble(r *vrun.Run, sc scen, st *state, out *bubbleOut, deadlock string) {
	d, T, E, P := sc.D(), sc.T(), sc.E(), sc.P()
	near := func(a, b time.Duration) bool {
		x := a - b
		return x >= -50*time.Microsecond && x <= 50*time.Microsecond
	}
	nontrivial := !waitKind(sc.Kind) && (near(d, T) || (P != inf && near(d, P))) || sc.Parent != pLive
	r.Case(sc.canonical(), nontrivial)
	r.Obs("sweep_cases", 1)
	rel := relation(sc)
	if rel == "at-signal-instant" {
		r.Obs("sweep_equal_instant_cases", 1)
	}
	phase, _ := out.phase.Load().(string)
	base := map[string]any{"scenario": sc, "deterministic": rel != "at-signal-instant", "phase": phase, "bubble_panic": deadlock}

	// ---- (R1) the runner returns
	if out.hung || (deadlock != "" && (phase == "waiting-for-runner" || phase == "hang-confirm" || phase == "released-by-drain")) {
		if deadlock != "" && !strings.Contains(deadlock, "deadlock: all goroutines in bubble are blocked") {
			r.Inconclusive("bubble panicked while waiting for the runner: " + trunc(deadlock, 120))
			return
		}
		how := "bubble-deadlock"
		if out.releasedByDrain {
			how = "released-by-draining-stop"
		}
		pre := hangPre(sc, out.hungActionInvoked, out.hungActionReturned, out.hungObserved)
		base["witness_kind"] = how
		base["action_invoked"] = out.hungActionInvoked
		base["action_returned"] = out.hungActionReturned
		base["action_returned_at_ns"] = out.hungActionRetNs
		base["action_observed_signal"] = out.hungObserved
		base["released_result"] = errStr(out.releasedRes)
		base["runner_not_returned_after_virtual"] = "1h, every goroutine of the bubble durably blocked"
		r.Obs("sweep_hangs", 1)
		r.ObsSet("sweep_hang_witness_kinds", how)
		r.ObsSet("sweep_cells", sc.Runner+"/"+sc.Kind+"/"+parentClass(sc)+"/"+rel+"/HANG")
		r.Violation(vrun.Sig{"runner": sc.Runner, "effect": "hang", "pre": pre},
			fmt.Sprintf("%s never returns: action kind %s, d−T=%dns, parent %s (%s)", sc.Runner, sc.Kind, sc.OffNs, sc.Parent, how), base)
		return
	}
	if deadlock != "" {
		if strings.Contains(deadlock, "deadlock: all goroutines in bubble are blocked") {
			// after the runner returned and after the harness released its own action: something else of the
			// bubble is blocked for ever. The statement speaks of blocked goroutines only for Parallelise → not judged.
			r.Inconclusive("bubble deadlock after the runner returned (phase " + phase + ")")
		} else {
			r.Inconclusive("bubble panicked: " + trunc(deadlock, 120))
		}
		return
	}
	if !out.returned {
		r.Inconclusive("bubble ended without a result (phase " + phase + ")")
		return
	}
	s := out.snap
	ret := time.Duration(s.RetNs)
	base["action_returned_at_ns"] = st.actRetNs.Load()
	cls := judgeCommon(r, sc, s, out.settledObserved, base)
	r.ObsSet("sweep_cells", sc.Runner+"/"+sc.Kind+"/"+parentClass(sc)+"/"+rel+"/"+cls)
	switch cls {
	case "own-nil", "own-error":
		r.Obs("sweep_results_own", 1)
	case "timeout":
		r.Obs("sweep_results_timeout", 1)
	case "cancelled":
		r.Obs("sweep_results_cancelled", 1)
	case "foreign":
		return
	}
	sig := func(effect string, kv ...string) vrun.Sig {
		g := vrun.Sig{"runner": sc.Runner, "effect": effect, "mode": "bubble"}
		for i := 0; i+1 < len(kv); i += 2 {
			g[kv[i]] = kv[i+1]
		}
		return g
	}
	wit := func() map[string]any {
		base["result"] = errStr(s.Res)
		base["result_class"] = cls
		base["runner_returned_at_ns"] = s.RetNs
		base["action_observed_signal"] = s.Observed
		return base
	}
	isKind := cls == "timeout" || cls == "cancelled"
	// ---- exact on the virtual clock
	// d < E: the action finished before the deadline (and before any cancellation) ⇒ its own result
	if rel == "before-signal-instant" && isKind {
		r.Violation(sig("time-kind-although-action-finished-before-deadline", "kind", sc.Kind, "parent", parentClass(sc)),
			fmt.Sprintf("%s returned %q although the action finished %dns before its signal instant", sc.Runner, errStr(s.Res), int64(E-d)), wit())
	}
	// d > E and the action waits for its signal ⇒ timeout/cancelled kind. (The action then necessarily took its
	// "signalled" branch, so judgeCommon's own-result-after-signal-observed has already covered it; this is the same
	// statement from the schedule side and must agree.)
	if rel == "after-signal-instant" && sc.coop() && !isKind && !s.Observed {
		r.Violation(sig("own-result-although-deadline-passed-first", "kind", sc.Kind, "parent", parentClass(sc)),
			fmt.Sprintf("%s returned %q although the signal instant was %dns before the action's completion", sc.Runner, errStr(s.Res), int64(d-E)), wit())
	}
	// a timeout kind needs an elapsed deadline, a cancelled kind a parent cancelled by the time of the return
	if cls == "timeout" && ret < T {
		r.Violation(sig("timeout-kind-before-deadline"), fmt.Sprintf("%s returned %q at +%v, before its deadline %v", sc.Runner, errStr(s.Res), ret, T), wit())
	}
	if cls == "cancelled" && (P == inf || ret < P) {
		r.Violation(sig("cancelled-kind-before-parent-cancelled"), fmt.Sprintf("%s returned %q at +%v, before the parent was cancelled", sc.Runner, errStr(s.Res), ret), wit())
	}
	// timeout/cancelled kind "once the action has observed its stop signal": a cooperative action with d > E can only
	// have ended through its signal
	if isKind && s.ActionInvoked && sc.coop() && !waitKind(sc.Kind) && rel == "after-signal-instant" {
		r.Obs("signal_delivery_checks", 1)
		if !out.settledObserved {
			r.Violation(sig("signal-not-delivered-on-"+cls, "kind", sc.Kind),
				fmt.Sprintf("%s returned %q but the action (still working, d−E=%dns) never observed its signal", sc.Runner, errStr(s.Res), int64(d-E)), wit())
		}
	}
	// timeout/cancelled kind "once the action has observed its stop signal", on the virtual clock: an action which
	// looks at its signal only between two uninterruptible steps has looked at it by the instant the runner returns
	if isKind && s.ActionInvoked && sc.Kind == kDeafWait {
		r.Obs("time_kind_not_before_the_action_looked_checks", 1)
		if o := st.obsNs.Load(); o == 0 || o-1 > s.RetNs {
			base["action_looked_at_its_signal_at_ns"] = o - 1
			r.Violation(sig("time-kind-before-the-action-observed-its-signal", "kind", sc.Kind, "parent", parentClass(sc)),
				fmt.Sprintf("%s returned %q at +%v although the action (uninterruptible steps of %v) only looked at its stop signal at +%v", sc.Runner, errStr(s.Res), time.Duration(s.RetNs), sc.Delta(), time.Duration(o-1)), wit())
		}
	}
	// RunActionWithTimeoutAndCancelStore: after store.Cancel() the action's context is done
	if out.storeCancelChecked {
		r.Obs("store_cancel_after_success_checks", 1)
		if !out.storeCancelCtxDone {
			r.Violation(sig("action-context-alive-after-store-cancel"), "the action's context is still alive after store.Cancel()", wit())
		}
	}
	// the action must not be left waiting for ever for a signal that was never triggered
	if out.actionBlockedAtEnd {
		base["action_released_by_harness"] = out.actionReleased
		r.Violation(sig("action-left-waiting-signal-never-triggered", "kind", sc.Kind, "path", cls),
			fmt.Sprintf("%s returned %q but 1 h (virtual) later the action is still waiting for its stop signal", sc.Runner, errStr(s.Res)), wit())
	}
	if r.WantSample() && sc.OffNs == 0 && sc.Runner == rCtx && sc.Kind == kCoopNil {
		r.Sample(map[string]any{"scenario": sc, "result": errStr(s.Res), "returned_at_ns": s.RetNs, "action_observed_signal": s.Observed})
	}
}

// hangPre names the precondition class of a hang from the recorded state.
func hangPre(sc scen, invoked, returned, observed bool) string {
	if !invoked {
		return "action-never-invoked"
	}
	what := "reading-stop"
	if sc.Runner != rRAWT {
		what = "observing-context"
	}
	if !returned {
		if observed {
			return "action-blocked-after-" + what
		}
		return "action-still-waiting-for-signal"
	}
	when := "at-or-just-after-deadline"
	if sc.Part == "bubble" && sc.D() < sc.E() {
		when = "before-deadline"
	}
	if observed {
		return "action-returns-" + when + "-after-" + what
	}
	return "action-returns-" + when + "-without-" + what
}

func trunc(s string, n int) string {
	if len(s) > n {
		return s[:n]
	}
	return s
}
