// C02 — unzip never writes outside the destination (zip-slip).
//
// Hostile archives (parent references in every position, absolute and doubled/mixed separators,
// sibling-prefix escapes, control bytes, names in non-UTF-8 charsets incl. byte sequences that are
// innocuous before transcoding and "../" after it, nested archives) are extracted through a VFS over
// the fsmon decorator into absolute and relative destinations. Monitors: online containment of every
// mutating backend operation (path made absolute against the working directory), snapshot diff of the
// whole sandbox outside the destination, error kind for escaping entries. Cases run in child
// processes because relative destinations need the working directory inside the sandbox.
package main

import (
	"context"
	"fmt"
	"math/rand/v2"
	"os"
	pathpkg "path"
	"path/filepath"
	"strings"
	"sync"
	"time"
	"unicode/utf8"

	"github.com/spf13/afero"
	"golang.org/x/text/encoding"
	"golang.org/x/text/encoding/charmap"
	"golang.org/x/text/encoding/japanese"
	"golang.org/x/text/encoding/korean"
	"golang.org/x/text/encoding/simplifiedchinese"
	"golang.org/x/text/encoding/traditionalchinese"

	"github.com/ARM-software/golang-utils/utils/charset"
	"github.com/ARM-software/golang-utils/utils/commonerrors"
	"github.com/ARM-software/golang-utils/utils/filesystem"

	"verif/internal/fsmon"
	"verif/internal/snap"
	"verif/internal/vrun"
	"verif/internal/zipgen"
)

type nameSpec struct {
	Name    string `json:"name"`
	Class   string `json:"class"`
	Hostile bool   `json:"hostile"`
	Escapes bool   `json:"escapes"` // by the independent predicate on the raw name
	Dir     bool   `json:"dir,omitempty"`
}

type caseSpec struct {
	Index    int            `json:"index"`
	Backend  string         `json:"backend"`
	DestForm string         `json:"dest_form"`
	Limits   string         `json:"limits"`
	Prepop   bool           `json:"prepopulated"`
	Names    []nameSpec     `json:"names"`
	Nested   int            `json:"nesting"`
	Entries  []zipgen.Entry `json:"-"`
}

// escapes: interpreting '/' (the OS separator here), does the component walk ever go above depth 0?
func escapes(name string) bool {
	depth := 0
	for _, c := range strings.Split(name, "/") {
		switch c {
		case "", ".":
		case "..":
			depth--
			if depth < 0 {
				return true
			}
		default:
			depth++
		}
	}
	return false
}

func enc(e encoding.Encoding, s string) string {
	out, err := e.NewEncoder().String(s)
	if err != nil {
		return s
	}
	return out
}

var charsets = []struct {
	name string
	e    encoding.Encoding
	text string
}{
	{"Shift_JIS", japanese.ShiftJIS, "日本語のファイル名テスト"},
	{"EUC-JP", japanese.EUCJP, "日本語のファイル名テスト"},
	{"EUC-KR", korean.EUCKR, "한국어파일이름테스트입니다"},
	{"GB18030", simplifiedchinese.GB18030, "中文文件名测试目录数据"},
	{"GBK", simplifiedchinese.GBK, "中文文件名测试目录数据"},
	{"Big5", traditionalchinese.Big5, "中文檔案名稱測試目錄資料"},
	{"windows-1252", charmap.Windows1252, "fichier-été-où-ça-naïve"},
	{"windows-1251", charmap.Windows1251, "файл-тестовый-документ"},
	{"ISO-8859-1", charmap.ISO8859_1, "datei-größe-übung-äöü"},
	{"ISO-8859-7", charmap.ISO8859_7, "αρχείο-δοκιμή-κείμενο"},
	{"KOI8-R", charmap.KOI8R, "файл-тестовый-документ"},
	{"windows-1255", charmap.Windows1255, "קובץבדיקהשלום"},
	{"windows-1256", charmap.Windows1256, "ملفاختبارمرحبا"},
}

var iso2022Escapes = []string{"\x1b(B", "\x1b(J", "\x1b$B\x1b(B", "\x1b$@\x1b(B", "\x1b$)C", "\x1b$)A"}

func genName(rng *rand.Rand, destBase string, wantHostile bool) nameSpec {
	base := []string{"f", "file.txt", "data.bin", "readme", "x1", "Z", "a b", "é", "日本"}[rng.IntN(9)]
	if !wantHostile {
		benign := []string{base, "d/" + base, "d/e/" + base, "a..b", "...", "..foo", "x..", "d/a..b/" + base, "d/.../" + base, ".hidden", "d/.h/" + base, "d.d/e.e/" + base}
		n := benign[rng.IntN(len(benign))]
		cls := "benign"
		if strings.Contains(n, "..") {
			cls = "benign-dots"
		}
		return nameSpec{Name: n, Class: cls}
	}
	ups := strings.Repeat("../", 1+rng.IntN(12))
	var n, cls string
	switch rng.IntN(26) {
	case 0:
		n, cls = "../"+base, "parent-first"
	case 1:
		n, cls = ups+base, "parent-repeated"
	case 2:
		n, cls = "d/../../"+base, "parent-middle"
	case 3:
		n, cls = "d/e/"+ups+"../../"+base, "parent-middle-deep"
	case 4:
		n, cls = "d/..", "parent-last"
	case 5:
		n, cls = "/abs-escape/"+base, "absolute"
	case 6:
		n, cls = "//"+base, "double-slash-absolute"
	case 7:
		n, cls = "\\"+base, "backslash"
	case 8:
		n, cls = "C:\\"+base, "drive"
	case 9:
		n, cls = "..\\..\\"+base, "parent-backslash"
	case 10:
		n, cls = "d//e///"+base, "doubled-separators"
	case 11:
		n, cls = "./d/./"+base, "dot-components"
	case 12:
		n, cls = "../"+destBase+"x/"+base, "sibling-prefix"
	case 13:
		n, cls = "../"+destBase+"-evil", "sibling-prefix-file"
	case 14:
		n, cls = "a\x01b\x7f"+base, "control-bytes"
	case 15:
		n, cls = "d/\n/"+base, "newline-component"
	case 16:
		c := charsets[rng.IntN(len(charsets))]
		n, cls = enc(c.e, c.text), "charset:"+c.name
	case 17:
		c := charsets[rng.IntN(len(charsets))]
		n, cls = enc(c.e, c.text)+"/"+enc(c.e, c.text), "charset-dir:"+c.name
	case 18:
		c := charsets[rng.IntN(len(charsets))]
		n, cls = "../"+enc(c.e, c.text), "charset-parent:"+c.name
	case 19:
		// dots separated by ISO-2022 escape sequences (dropped by the decoder) + one byte that makes the name invalid UTF-8
		esc := iso2022Escapes[rng.IntN(len(iso2022Escapes))]
		pad := strings.Repeat(esc, 3+rng.IntN(4))
		n, cls = "."+esc+"./"+pad+base+"\xff", "iso2022-smuggled-parent"
	case 20:
		esc := iso2022Escapes[rng.IntN(len(iso2022Escapes))]
		pad := strings.Repeat(esc, 4)
		n, cls = "d/."+esc+"."+esc+"/."+esc+"./"+pad+base+"\xfe", "iso2022-smuggled-parent-deep"
	case 22:
		// a relative name which the transcoder turns into an absolute path of the sandbox (the escape sequences in front vanish)
		n, cls = strings.Repeat("\x1b(B", 5)+"@SB@/victim-of-transcoding/evil\xff.txt", "iso2022-prefix-then-absolute"
	case 23:
		// the directory part alone reads as ISO-2022-JP (escape sequences vanish: a parent reference appears), the whole name as Shift_JIS
		const shiftJIS = "\x82\xa0\x82\xa2\x82\xa4\x82\xa9\x82\xaa\x82\xab\x82\xad\x82\xaf\x82\xb1\x82\xb3\x82\xb5\x82\xb7"
		n, cls = strings.Repeat("\x1b(B", 5)+"../pwn\x82\xa0/"+strings.Repeat("\x1b", 5)+shiftJIS+".txt", "iso2022-directory-shiftjis-name"
	case 24:
		// dots separated by control characters: not a parent reference as written
		ctl := []string{"\x01", "\x7f", "\x1f\x02", "\t", "\x0b"}[rng.IntN(5)]
		n, cls = "."+ctl+"./."+ctl+"./"+base, "control-characters-between-dots"
	case 25:
		ctl := []string{"\x01", "\x7f", "\x08"}[rng.IntN(3)]
		n, cls = "d/."+ctl+"./."+ctl+"."+ctl+"/.."+ctl+"/"+ctl+"../"+base, "control-characters-between-dots-deep"
	default:
		n, cls = strings.Repeat("../", 2)+"canary-c02/"+base, "parent-to-canary"
	}
	return nameSpec{Name: n, Class: cls, Hostile: true, Escapes: escapes(n)}
}

func genCase(r *vrun.Run, idx int) caseSpec {
	rng := r.Rand("c02", idx)
	c := caseSpec{Index: idx, Backend: "os"}
	if idx%6 == 5 {
		c.Backend = "mem"
	}
	forms := []string{"abs", "abs-trailing", "rel", "dot-rel", "updown-rel", "rel-trailing", "dot", "abs-new-deep", "rel-new-deep", "parent", "parent-trailing", "parent-parent", "parent-rel", "abs-not-utf8", "rel-not-utf8"}
	c.DestForm = forms[rng.IntN(len(forms))]
	if c.Backend == "mem" {
		c.DestForm = []string{"abs", "abs-trailing", "abs-new-deep", "abs-not-utf8"}[rng.IntN(4)]
	}
	c.Limits = []string{"none", "default-recursive", "non-recursive", "tight"}[rng.IntN(4)]
	c.Prepop = rng.IntN(3) == 0
	n := 1 + rng.IntN(6)
	hostileAt := rng.IntN(n)
	if idx%10 == 0 {
		hostileAt = -1 // all benign
	}
	// every twelfth case: nothing hostile at the top level, recursive limits, the hostile name sits inside a nested archive
	nestedOnly := idx%12 == 7
	if nestedOnly {
		hostileAt = -1
		c.Limits = []string{"default-recursive", "tight"}[rng.IntN(2)]
	}
	seen := map[string]bool{}
	for i := 0; i < n; i++ {
		ns := genName(rng, "out", i == hostileAt)
		if seen[ns.Name] && rng.IntN(3) != 0 {
			continue
		}
		seen[ns.Name] = true
		if rng.IntN(8) == 0 && !ns.Hostile {
			ns.Dir = true
		}
		c.Names = append(c.Names, ns)
	}
	data := func() []byte { return []byte(fmt.Sprintf("content-%d-%d", idx, rng.IntN(1000))) }
	for _, ns := range c.Names {
		if ns.Dir {
			c.Entries = append(c.Entries, zipgen.D(ns.Name))
		} else {
			c.Entries = append(c.Entries, zipgen.E(ns.Name, data()))
		}
	}
	// nested archives whose inner names are hostile (recursive limits make the library expand them)
	if rng.IntN(4) == 0 || nestedOnly {
		c.Nested = 1 + rng.IntN(3)
		inner := []zipgen.Entry{zipgen.E("ok.txt", data())}
		h := genName(rng, "out", true)
		c.Names = append(c.Names, nameSpec{Name: h.Name, Class: "nested:" + h.Class, Hostile: true, Escapes: h.Escapes})
		inner = append(inner, zipgen.E(h.Name, data()))
		for d := 1; d < c.Nested; d++ {
			inner = []zipgen.Entry{zipgen.E("lvl.txt", data()), {Name: fmt.Sprintf("n%d.zip", d), Nested: inner, Declared: -1}}
		}
		c.Entries = append(c.Entries, zipgen.Entry{Name: "sub/inner.zip", Nested: inner, Declared: -1})
	}
	// nested archives whose OWN name is hostile: the stem of the name becomes the extraction directory in recursive mode
	if rng.IntN(4) == 0 {
		nn := []string{"...zip", "sub/...zip", "a/b/...zip", "...jar", "..zip", ". .zip", "..../...zip", ".zip", "x/.zip"}[rng.IntN(9)]
		if rng.IntN(3) != 0 {
			// <directory><dots><inner extensions><archive extension>: what is left once extensions are dropped must not be a parent reference
			exts := filesystem.ZipFileExtensions
			nn = []string{"", "", "sub/", "a/b/"}[rng.IntN(4)] + []string{"..", "..", "...", ".", "....", ". ."}[rng.IntN(6)] +
				[]string{"", ".tar", ".tar", ".tar.tar", ".x", ".zip"}[rng.IntN(6)] + exts[rng.IntN(len(exts))]
		}
		c.Names = append(c.Names, nameSpec{Name: nn, Class: "nested-archive-name:" + filepath.Base(nn), Hostile: true})
		c.Entries = append(c.Entries, zipgen.Entry{Name: nn, Nested: []zipgen.Entry{zipgen.E("payload.txt", data()), zipgen.E("d/payload2.txt", data())}, Declared: -1})
	}
	// entries stored as symbolic links (mode bit in the header, target as content): whatever is made of them, later
	// entries whose names go through them must stay inside
	if rng.IntN(8) == 0 {
		base := fmt.Sprintf("via-link-%d", rng.IntN(100))
		type le struct{ name, target string }
		chains := [][]le{
			{{"hop", "."}, {"hop/up", ".."}},
			{{"up", ".."}},
			{{"d/up", "../.."}},
			{{"abs", "/"}},
			{{"a", "b"}, {"b", ".."}},
			{{"hop", "."}, {"hop/hop2", "."}, {"hop/hop2/up", "../.."}},
		}
		ch := chains[rng.IntN(len(chains))]
		for _, l := range ch {
			c.Names = append(c.Names, nameSpec{Name: l.name, Class: "link-entry->" + l.target, Hostile: true})
			c.Entries = append(c.Entries, zipgen.Entry{Name: l.name, Link: l.target, Declared: -1})
		}
		last := ch[len(ch)-1].name
		for _, n := range []string{last + "/" + base, last + "/canary-c02/" + base} {
			c.Names = append(c.Names, nameSpec{Name: n, Class: "through-link-entries", Hostile: true})
			c.Entries = append(c.Entries, zipgen.E(n, data()))
		}
	}
	return c
}

type opRec struct {
	Op   string `json:"op"`
	Path string `json:"path"`
	Abs  string `json:"abs"`
	Err  string `json:"err,omitempty"`
}

func limitsFor(name string) filesystem.ILimits {
	switch name {
	case "default-recursive":
		return filesystem.DefaultZipLimits()
	case "non-recursive":
		return filesystem.DefaultNonRecursiveZipLimits()
	case "tight":
		return filesystem.NewLimits(1<<20, 1<<22, 1000, 30, true)
	}
	return filesystem.NoLimits()
}

// recursiveLimits: the limits of that name make the library expand nested archives.
func recursiveLimits(name string) bool { return name == "default-recursive" || name == "tight" }

func under(p, root string) bool {
	return p == root || strings.HasPrefix(p, root+string(filepath.Separator))
}

const canaryRoot = "/var/tmp/verif-scratch"

func runCase(r *vrun.Run, c caseSpec, scratch string) {
	var err error
	canon := fmt.Sprintf("%s|%s|%s|%v|%d|", c.Backend, c.DestForm, c.Limits, c.Prepop, c.Nested)
	hostile := false
	for _, n := range c.Names {
		canon += fmt.Sprintf("%q:%v;", n.Name, n.Dir)
		if n.Hostile {
			hostile = true
		}
		r.ObsSet("name_classes", n.Class)
	}
	r.ObsSet("destination_forms", c.Backend+"/"+c.DestForm)

	var base afero.Fs
	var sb, work, destArg, destAbs, zipPath string
	var before snap.Snap
	mem := c.Backend == "mem"
	if mem {
		base = afero.NewMemMapFs()
		sb, work = "/sb", "/sb/work"
		_ = base.MkdirAll(work, 0o755)
	} else {
		base = filesystem.NewExtendedOsFs()
		sb, err = os.MkdirTemp(scratch, "sb-")
		if err != nil {
			r.Fatalf("scratch: %v", err)
		}
		defer os.RemoveAll(sb)
		work = filepath.Join(sb, "work")
		_ = os.MkdirAll(work, 0o755)
	}
	write := func(p string, b []byte) {
		_ = base.MkdirAll(filepath.Dir(p), 0o755)
		_ = afero.WriteFile(base, p, b, 0o644)
	}
	write(filepath.Join(sb, "precious.txt"), []byte("precious"))
	write(filepath.Join(work, "sibling.txt"), []byte("sibling"))
	write(filepath.Join(work, "outx", "keep.txt"), []byte("sibling-prefix directory"))
	write(filepath.Join(work, "out-evil-not"), []byte("x"))
	// names may refer to the sandbox itself (an absolute path next to the destination)
	entries := append([]zipgen.Entry(nil), c.Entries...)
	for i := range entries {
		entries[i].Name = strings.ReplaceAll(entries[i].Name, "@SB@", sb)
	}
	archive, err := zipgen.Build(entries)
	if err != nil {
		r.Inconclusive("archive/zip writer refused the generated names")
		return
	}
	zipPath = filepath.Join(sb, "in", "archive.zip")
	write(zipPath, archive)
	switch c.DestForm {
	case "abs":
		destArg, destAbs = filepath.Join(work, "out"), filepath.Join(work, "out")
	case "abs-trailing":
		destArg, destAbs = filepath.Join(work, "out")+"/", filepath.Join(work, "out")
	case "rel":
		destArg, destAbs = "out", filepath.Join(work, "out")
	case "dot-rel":
		destArg, destAbs = "./out", filepath.Join(work, "out")
	case "updown-rel":
		destArg, destAbs = "a/../out", filepath.Join(work, "out")
	case "rel-trailing":
		destArg, destAbs = "out/", filepath.Join(work, "out")
	case "dot":
		// destination is the working directory itself: use a dedicated cwd
		work = filepath.Join(work, "cwd-out")
		_ = base.MkdirAll(work, 0o755)
		destArg, destAbs = ".", work
	case "abs-new-deep":
		destArg, destAbs = filepath.Join(work, "new", "deep", "out"), filepath.Join(work, "new", "deep", "out")
	case "rel-new-deep":
		destArg, destAbs = "new/deep/out", filepath.Join(work, "new", "deep", "out")
	case "abs-not-utf8", "rel-not-utf8":
		// the name of the destination is not valid UTF-8 (Latin-1 bytes); the directory its transcoding names exists next to it
		name := "d\xe9p\xf4t-r\xe9sultat-\xe0-v\xe9rifier"
		destAbs = filepath.Join(work, name)
		destArg = destAbs
		if c.DestForm == "rel-not-utf8" {
			destArg = name
		}
		write(filepath.Join(work, "d\u00e9p\u00f4t-r\u00e9sultat-\u00e0-v\u00e9rifier", "victim.txt"), []byte("sibling named by the transcoding of the destination"))
	case "parent", "parent-trailing":
		// destination made of parent references only: the working directory is a child of the destination
		destAbs = filepath.Join(work, "out")
		work = filepath.Join(destAbs, "cwd1")
		_ = base.MkdirAll(work, 0o755)
		destArg = ".."
		if c.DestForm == "parent-trailing" {
			destArg = "../"
		}
	case "parent-parent":
		destAbs = filepath.Join(work, "out")
		work = filepath.Join(destAbs, "cwd1", "cwd2")
		_ = base.MkdirAll(work, 0o755)
		destArg = "../.."
	case "parent-rel":
		destAbs = filepath.Join(work, "out")
		work = filepath.Join(work, "cwdp")
		_ = base.MkdirAll(work, 0o755)
		destArg = "../out"
	}
	if c.Prepop {
		write(filepath.Join(destAbs, "existing.txt"), []byte("already here"))
		write(filepath.Join(destAbs, "d", "old.txt"), []byte("old"))
	}
	if !mem {
		if err := os.Chdir(work); err != nil {
			r.Fatalf("chdir: %v", err)
		}
		defer func() { _ = os.Chdir(scratch) }()
		before, err = snap.TakeOS(sb)
	} else {
		before, err = snap.TakeAfero(base, sb)
	}
	if err != nil {
		r.Fatalf("snapshot: %v", err)
	}
	canaryBefore := canaryState()

	// what would the library transcode? (evidence only)
	for _, n := range c.Names {
		raw := filepath.Join(filepath.Clean(destArg), n.Name)
		if !utf8.ValidString(raw) {
			r.Obs("names_not_valid_utf8", 1)
			if _, name, derr := charset.DetectTextEncoding([]byte(raw)); derr == nil {
				r.ObsSet("charsets_detected_for_transcoding", name)
			} else {
				r.ObsSet("charsets_detected_for_transcoding", "(detection failed or unsupported)")
			}
		}
	}

	mon := fsmon.NewMonitor(false)
	var mu sync.Mutex
	var ops []opRec
	mon.After = func(e *fsmon.Event) {
		if !e.Mut {
			return
		}
		for _, p := range []string{e.Path, e.Path2} {
			if p == "" || (p == e.Path2 && e.Op != fsmon.OpRename) {
				continue
			}
			abs := p
			if !filepath.IsAbs(abs) {
				abs = filepath.Join(work, abs)
			}
			abs = filepath.Clean(abs)
			mu.Lock()
			ops = append(ops, opRec{Op: e.Op, Path: p, Abs: abs, Err: e.Err})
			mu.Unlock()
		}
	}
	fsType := filesystem.StandardFS
	if mem {
		fsType = filesystem.InMemoryFS
	}
	vfs := filesystem.NewVirtualFileSystem(fsmon.New(base, "u", mon), fsType, filesystem.IdentityPathConverterFunc)
	ctx, cancel := context.WithTimeout(context.Background(), 60*time.Second)
	list, callErr := vfs.UnzipWithContextAndLimits(ctx, zipPath, destArg, limitsFor(c.Limits))
	cancel()
	_ = list

	var after snap.Snap
	if mem {
		after, _ = snap.TakeAfero(base, sb)
	} else {
		after, _ = snap.TakeOS(sb)
	}
	r.Case(canon, hostile)
	if r.WantSample() && hostile && c.Index%13 == 1 {
		r.Sample(map[string]any{"case": c, "result": fmt.Sprint(callErr), "mutating_ops": len(ops)})
	}
	witness := func() map[string]any {
		o := ops
		if len(o) > 80 {
			o = o[:80]
		}
		return map[string]any{"case": c, "names_quoted": quoteNames(c.Names), "result": fmt.Sprint(callErr), "destination_arg": destArg, "destination_abs": destAbs, "cwd": work,
			"mutating_ops": o, "before": before.String(), "after": after.String()}
	}
	hclass := hostileClass(c.Names)
	// O-contain: every mutating op inside the destination (creating the destination's own missing ancestors is part of creating it)
	r.Obs("mutating_ops_judged", int64(len(ops)))
	for _, o := range ops {
		if under(o.Abs, destAbs) {
			continue
		}
		if (o.Op == fsmon.OpMkdir || o.Op == fsmon.OpMkdirAll) && under(destAbs, o.Abs) {
			continue // an ancestor of the destination
		}
		eff := "attempted"
		if o.Err == "" {
			eff = "succeeded"
		}
		r.Violation(vrun.Sig{"oracle": "containment", "op": o.Op, "outcome": eff, "name_class": hclass},
			fmt.Sprintf("unzip into %q issued %s on %q (= %s) which is outside the destination %s", destArg, o.Op, o.Path, o.Abs, destAbs), witness())
		break
	}
	// O-snap
	relDest, _ := filepath.Rel(sb, destAbs)
	relDest = filepath.ToSlash(relDest)
	diff := snap.Diff(before, after, snap.Options{MTime: true}, func(rel string) bool {
		if snap.Under(rel, relDest) {
			return false
		}
		if snap.Under(relDest, rel) {
			return false // ancestors of the destination (created / re-stamped when the destination is created)
		}
		return true
	})
	r.Obs("outside_entries_compared", int64(len(before)))
	if len(diff) > 0 {
		r.Violation(vrun.Sig{"oracle": "snapshot-outside-destination", "name_class": hclass},
			fmt.Sprintf("unzip into %q changed the sandbox outside the destination: %s", destArg, strings.Join(diff[:min(3, len(diff))], "; ")), witness())
	}
	if cs := canaryState(); cs != canaryBefore {
		r.Violation(vrun.Sig{"oracle": "canary-outside-sandbox", "name_class": hclass}, "an entry was created outside the sandbox: "+cs, witness())
		_ = os.RemoveAll(filepath.Join(canaryRoot, "canary-c02"))
	}
	// O-kind: first hostile entry escapes and everything before it is benign ⇒ the call must fail with ErrMalicious
	for i, n := range c.Names {
		if !n.Hostile {
			if n.Class != "benign" {
				break // benign names with dots may be (over-cautiously) refused earlier; not judged here
			}
			continue
		}
		// (an escaping name inside a nested archive counts when the limits make the library expand nested archives)
		nestedJudged := strings.HasPrefix(n.Class, "nested:") && recursiveLimits(c.Limits)
		if nestedJudged {
			r.Obs("escaping_entries_inside_nested_archives_judged_for_error_kind", 1)
		}
		if n.Escapes && (!strings.HasPrefix(n.Class, "nested:") || nestedJudged) && (i < len(c.Entries) || nestedJudged) {
			if kindConflict(c.Names[:i], c.Prepop) {
				// the entries before the escaping one cannot all be extracted (a name used both for a file and
				// for a directory): the call legitimately stops there with another error.
				r.Obs("error_kind_not_judged_earlier_kind_conflict", 1)
				break
			}
			r.Obs("escaping_entries_judged_for_error_kind", 1)
			if callErr == nil {
				r.Violation(vrun.Sig{"oracle": "error-kind", "effect": "escaping-entry-accepted", "name_class": n.Class},
					fmt.Sprintf("archive with escaping entry %q extracted without error", n.Name), witness())
			} else if !commonerrors.Any(callErr, commonerrors.ErrMalicious) {
				r.Violation(vrun.Sig{"oracle": "error-kind", "effect": "escaping-entry-other-kind", "name_class": n.Class},
					fmt.Sprintf("archive with escaping entry %q refused with %v instead of the malicious kind", n.Name, callErr), witness())
			}
		}
		break
	}
	if callErr == nil {
		r.Obs("extractions_succeeded", 1)
	} else if commonerrors.Any(callErr, commonerrors.ErrMalicious) {
		r.Obs("extractions_refused_as_malicious", 1)
	} else {
		r.Obs("extractions_failed_otherwise", 1)
	}
}

// kindConflict reports whether extracting the given (benign) entries in order must fail on its own because a
// path is needed both as a file and as a directory.
func kindConflict(names []nameSpec, prepop bool) bool {
	kinds := map[string]string{}
	if prepop {
		kinds["existing.txt"] = "file"
		kinds["d"] = "dir"
		kinds["d/old.txt"] = "file"
	}
	for _, n := range names {
		p := pathpkg.Clean(strings.ReplaceAll(n.Name, "\\", "/"))
		p = strings.TrimPrefix(p, "/")
		if p == "." || p == "" {
			continue
		}
		for a := pathpkg.Dir(p); a != "." && a != "/" && a != ""; a = pathpkg.Dir(a) {
			if kinds[a] == "file" {
				return true
			}
			kinds[a] = "dir"
		}
		k := "file"
		if n.Dir || strings.HasSuffix(n.Name, "/") {
			k = "dir"
		}
		if old, ok := kinds[p]; ok && old != k {
			return true
		}
		kinds[p] = k
	}
	return false
}

func quoteNames(ns []nameSpec) []string {
	var out []string
	for _, n := range ns {
		out = append(out, fmt.Sprintf("%q", n.Name))
	}
	return out
}

func hostileClass(ns []nameSpec) string {
	for _, n := range ns {
		if n.Hostile {
			cl := n.Class
			if i := strings.Index(cl, ":"); i >= 0 && !strings.HasPrefix(cl, "nested:") {
				cl = cl[:i]
			}
			return cl
		}
	}
	return "none"
}

func canaryState() string {
	var parts []string
	_ = filepath.Walk(filepath.Join(canaryRoot, "canary-c02"), func(p string, info os.FileInfo, err error) error {
		if err == nil {
			parts = append(parts, p)
		}
		return nil
	})
	if _, err := os.Lstat("/abs-escape"); err == nil {
		parts = append(parts, "/abs-escape")
	}
	return strings.Join(parts, ",")
}

func main() {
	r := vrun.Start("C02", "exploration")
	r.Rule("one case = one generated archive (1..6 entries, at most one from the hostile grammar: parent references first/middle/last/repeated 1..12, absolute, //, backslash, drive, doubled separators, dot components, sibling-prefix of the destination, control bytes, " +
		"names encoded in 13 non-UTF-8 charsets with/without directory component and with parent prefix, ISO-2022 escape sequences smuggled between dots plus one invalid-UTF-8 byte, optional nested archive chain depth 1..3 with a hostile inner name) × destination form " +
		"(absolute, trailing separator, relative, ./, a/../, '.', not yet existing deep path; pre-populated or not) × limits (none, default recursive, non-recursive, tight) × backend (OS in child processes with cwd inside the sandbox; in-memory for absolute forms). " +
		"non-trivial = the archive has a hostile entry; distinct = canonical (backend, destination form, limits, names).")
	r.Assume("sandbox is symlink-free so lexical containment = physical containment", "archive/zip reader default (zipinsecurepath allowed)", "'/' is the only separator interpreted by the escaping predicate (Linux)")
	if _, _, isChild := r.Child(); !isChild && r.Replay == "" {
		r.SpawnChildren(16, 16, nil, 20*time.Minute)
		r.Require("mutating_ops_judged", 5000)
		r.Require("name_classes", 30)
		r.Require("destination_forms", 10)
		r.Require("escaping_entries_judged_for_error_kind", 200)
		r.Require("charsets_detected_for_transcoding", 3)
		r.Finish()
	}
	scratch := vrun.Scratch("c02")
	defer os.RemoveAll(scratch)
	if r.Replay != "" {
		var wit struct {
			Case caseSpec `json:"case"`
		}
		if err := r.ReadReplay(&wit); err != nil {
			r.Fatalf("replay: %v", err)
		}
		c := genCase(r, wit.Case.Index)
		runCase(r, c, scratch)
		r.Finish()
	}
	idx, n, _ := r.Child()
	total := r.Pick(3000, 200000)
	for i := idx; i < total; i += n {
		runCase(r, genCase(r, i), scratch)
	}
	r.Finish()
}
