//go:build goexperiment.synctest

// C01 — file lock: at most one holder at any instant.
//
// Controlled interleavings at filesystem-operation granularity: 2..4 contenders (plus optional dead
// previous holder and ReleaseIfStale callers), each with its own decorated VFS over one OS directory,
// run inside a synctest bubble; every backend operation is gated and a scheduler picks the next one
// (random walk, PCT, targeted single-preemption enumeration) on a virtual clock. Oracles: (a) overlap of
// hold intervals taken at the client boundary, (b) online ownership monitor of the lock directory
// (removal of a live, non-stale incarnation by somebody who did not create it).
package main

import (
	"context"
	"fmt"
	"os"
	"path/filepath"
	"sync"
	"sync/atomic"
	"time"

	"github.com/ARM-software/golang-utils/utils/commonerrors"
	"github.com/ARM-software/golang-utils/utils/filesystem"

	"verif/internal/fsmon"
	"verif/internal/lockh"
	"verif/internal/sched"
	"verif/internal/vrun"
)

type scenario struct {
	Contenders int      `json:"contenders"`
	Modes      []string `json:"modes"`
	Override   bool     `json:"override"`
	Cycles     int      `json:"cycles"`
	Dead       string   `json:"dead_previous_holder"` // "", "before-heartbeat", "after-heartbeat"
	Releaser   bool     `json:"releaser"`
	Policy     string   `json:"policy"`
	AdvanceP   float64  `json:"advance_p"`
	D          int      `json:"pct_d,omitempty"`
	Victim     string   `json:"victim,omitempty"`
	AtN        int      `json:"at_n,omitempty"`
	Victim2    string   `json:"victim2,omitempty"`
	AtN2       int      `json:"at_n2,omitempty"`
	Index      int      `json:"index"`
	Stream     string   `json:"stream"`
	// LongHold: every hold lasts longer than the staleness threshold, so that a lock handed over from one live holder to
	// the next is old when it is released (whoever pairs readings of the old and of the new lock must not call it stale)
	LongHold bool `json:"long_hold,omitempty"`
	// Trigger (policy "straddle"): the victim's operation waits until the lock directory has been "created" anew or
	// "removed" by somebody, then runs first
	Trigger string `json:"trigger,omitempty"`
}

type result struct {
	sc          scenario
	w           *lockh.World
	s           *sched.Sched
	deadlock    string
	acquires    int
	contended   int
	perActorOps map[string]int
	// straddleFired: the held operation of a "straddle" schedule was let go because the lock had changed hands
	straddleFired bool
}

func contender(ctx context.Context, w *lockh.World, name, mode string, override bool, cycles int, r *vrun.Run, sc scenario, res *result, mu *sync.Mutex) {
	rng := r.Rand(sc.Stream+"-actor-"+name, sc.Index)
	lock := w.NewLock(name, override)
	for c := 0; c < cycles; c++ {
		acquired := false
		wasLocked := false
		for attempt := 0; attempt < 600 && ctx.Err() == nil; attempt++ {
			var err error
			switch mode {
			case "try":
				err = w.Call(name, "TryLock", "acquire", func() (string, error) { return "", lock.TryLock(ctx) })
			case "lock":
				err = w.Call(name, "Lock", "acquire", func() (string, error) { return "", lock.Lock(ctx) })
			default:
				err = w.Call(name, "LockWithTimeout", "acquire", func() (string, error) { return "", lock.LockWithTimeout(ctx, 300*time.Millisecond) })
			}
			if err == nil {
				acquired = true
				break
			}
			if ctx.Err() != nil {
				return
			}
			wasLocked = true
			if commonerrors.Any(err, commonerrors.ErrStaleLock) {
				_ = w.Call(name, "ReleaseIfStale", "other", func() (string, error) { return "", lock.ReleaseIfStale(ctx) })
			}
			lockh.Sleep(ctx, time.Duration(1+rng.IntN(15))*time.Millisecond)
		}
		if !acquired {
			return
		}
		mu.Lock()
		res.acquires++
		if wasLocked || mode != "try" {
			res.contended++
		}
		mu.Unlock()
		hold := time.Duration(30+rng.IntN(90)) * time.Millisecond
		if sc.LongHold {
			hold = time.Duration(110+rng.IntN(140)) * time.Millisecond
		}
		lockh.Sleep(ctx, hold)
		if ctx.Err() != nil {
			return
		}
		_ = w.Call(name, "Unlock", "release", func() (string, error) { return "", lock.Unlock(ctx) })
		lockh.Sleep(ctx, time.Duration(rng.IntN(20))*time.Millisecond)
	}
}

func runScenario(r *vrun.Run, sc scenario, keep bool) *result {
	res := &result{sc: sc}
	dir, err := os.MkdirTemp(scratch, "c01-")
	if err != nil {
		r.Fatalf("scratch: %v", err)
	}
	defer os.RemoveAll(dir)
	if sub, _ := lockh.Names(sc.Index); sub != "" && !lockh.MissingDir(sc.Index) {
		_ = os.MkdirAll(filepath.Join(dir, sub), 0o755)
	}
	rng := r.Rand(sc.Stream+"-sched", sc.Index)
	var pol sched.Policy
	var wref atomic.Pointer[lockh.World]
	var straddle *sched.Straddle
	switch sc.Policy {
	case "pct":
		pol = &sched.PCT{AdvanceP: sc.AdvanceP, D: sc.D, Horizon: 600}
	case "delay":
		pol = sched.Delay{Victim: sc.Victim, AtN: sc.AtN, Victim2: sc.Victim2, AtN2: sc.AtN2}
	case "straddle":
		st := &sched.Straddle{Victim: sc.Victim, AtN: sc.AtN, MaxHold: 400 * time.Millisecond, Count: func() int {
			w := wref.Load()
			switch {
			case w == nil:
				return 0
			case sc.Trigger == "removed":
				return w.Removed()
			}
			return w.Created()
		}}
		// only somebody who merely looks at the lock may be kept waiting beyond the gate-age cap: stalling an actor inside its
		// acquisition or its heartbeat would take the run outside the property ("as long as the holder's heartbeat keeps running")
		st.Eligible = func(p *sched.Pending) bool {
			w := wref.Load()
			return w != nil && !w.OwnsCurrent(p.Actor) && !fsmon.IsMutating(p.Op, 0) && p.Op != fsmon.OpOpenFile
		}
		pol, straddle = st, st
	default:
		pol = sched.RandomWalk{AdvanceP: sc.AdvanceP}
	}
	s := sched.New(pol, rng)
	s.KeepTrace = true
	if straddle != nil {
		s.CapExempt = straddle.Exempt
		defer func() { res.straddleFired = straddle.Fired }()
	}
	res.s = s
	res.deadlock = sched.Bubble(func() {
		sub, id := lockh.Names(sc.Index)
		missingDir := lockh.MissingDir(sc.Index)
		var w *lockh.World
		// The in-memory world (lockh.NewMemWorld) is used by C17 only. Under the heavy contention of these schedules afero's
		// MemMapFs adds behaviours of its own (a heartbeat write in flight re-creates a removed lock directory together with
		// its file, a recursive removal interleaves with other actors) whose rare outcomes could not all be attributed with
		// certainty to the recorded classes or to the backend: C01 decides the property on the OS-backed filesystem.
		if false && lockh.MemBackend(sc.Index) {
			w = lockh.NewMemWorld(filepath.Join(dir, sub), id, s, !missingDir)
		} else {
			w = lockh.NewWorld(filepath.Join(dir, sub), id, s)
		}
		w.KeepEvents = true // a schedule is a few thousand events: kept so that a refuting event comes with what led to it
		_ = keep
		res.w = w
		wref.Store(w)
		if sc.Stream == "rand" && sc.Index%4 == 1 {
			// one transient I/O failure (the operation is not executed and reports an error) somewhere in the life of one
			// contender: a failed heartbeat write of a live holder must not open the door to a second holder
			frng := r.Rand(sc.Stream+"-fault", sc.Index)
			w.FaultAt(fmt.Sprintf("c%d", frng.IntN(sc.Contenders)), lockh.Fault{K: 4 + frng.IntN(60), Kind: "err-before"})
		}
		s.Run(func() {
			root, cancelAll := context.WithTimeout(context.Background(), 20*time.Second)
			defer cancelAll()
			var wg sync.WaitGroup
			var mu sync.Mutex
			if sc.Dead != "" {
				dctx, dcancel := context.WithCancel(root)
				dl := w.NewLock("dead", false)
				err := w.Call("dead", "TryLock", "acquire", func() (string, error) { return "", dl.TryLock(dctx) })
				if err == nil {
					if sc.Dead == "after-heartbeat" {
						lockh.Sleep(root, 120*time.Millisecond)
					}
					w.Die("dead")
				}
				dcancel()
			}
			for i := 0; i < sc.Contenders; i++ {
				name := fmt.Sprintf("c%d", i)
				mode := sc.Modes[i]
				wg.Add(1)
				go func() {
					defer wg.Done()
					contender(root, w, name, mode, sc.Override, sc.Cycles, r, sc, res, &mu)
				}()
			}
			stopRel := make(chan struct{})
			var relWg sync.WaitGroup
			if sc.Releaser {
				relWg.Add(1)
				go func() {
					defer relWg.Done()
					l := w.NewLock("rel", false)
					for {
						select {
						case <-stopRel:
							return
						case <-root.Done():
							return
						default:
						}
						_ = w.Call("rel", "ReleaseIfStale", "other", func() (string, error) { return "", l.ReleaseIfStale(root) })
						lockh.Sleep(root, 7*time.Millisecond)
					}
				}()
			}
			wg.Wait()
			close(stopRel)
			relWg.Wait()
			cancelAll()
		})
	})
	return res
}

var scratch string

func genScenario(r *vrun.Run, stream string, idx int) scenario {
	rng := r.Rand(stream+"-gen", idx)
	sc := scenario{Index: idx, Stream: stream}
	sc.Contenders = 2 + rng.IntN(3)
	modes := []string{"try", "lock", "timeout"}
	for i := 0; i < sc.Contenders; i++ {
		sc.Modes = append(sc.Modes, modes[rng.IntN(3)])
	}
	sc.Override = rng.IntN(2) == 0
	sc.Cycles = 1 + rng.IntN(3)
	switch rng.IntN(4) {
	case 0:
		sc.Dead = "before-heartbeat"
	case 1:
		sc.Dead = "after-heartbeat"
	}
	sc.Releaser = rng.IntN(4) == 0
	switch rng.IntN(3) {
	case 0:
		sc.Policy = "pct"
		sc.D = 1 + rng.IntN(3)
	default:
		sc.Policy = "random"
	}
	sc.AdvanceP = []float64{0.1, 0.3, 0.5}[rng.IntN(3)]
	return sc
}

type stats struct {
	mu sync.Mutex
}

func analyse(r *vrun.Run, res *result) {
	w := res.w
	sc := res.sc
	if w == nil {
		r.Inconclusive("world not created")
		return
	}
	if res.deadlock != "" {
		// a bubble deadlock in the lock scenario is a harness-level event: report as inconclusive with the message
		r.Inconclusive("bubble panic: " + trunc(res.deadlock, 120))
		return
	}
	if res.s.Aborted != "" {
		r.Inconclusive(res.s.Aborted)
		return
	}
	hist, foreign, incs := w.Snapshot()
	holds := w.Holds()
	r.Obs("acquisitions", int64(res.acquires))
	r.Obs("contended_acquisitions", int64(res.contended))
	r.Obs("heartbeat_and_dir_stamps", w.Stamps)
	r.Obs("heartbeat_file_writes", w.HbWrites)
	r.Obs("lock_directory_incarnations", int64(len(incs)))
	r.Obs("scheduler_steps", int64(res.s.Steps))
	r.Obs("hold_intervals_checked", int64(len(holds)))
	takeovers := 0
	for _, f := range foreign {
		if !f.Judged {
			takeovers++
			r.ObsSet("legitimate_foreign_removes", f.OwnerState+"/"+f.RemoverCall)
		}
	}
	r.Obs("stale_or_dead_lock_takeovers", int64(takeovers))
	r.ObsSet("schedules", fmt.Sprintf("%x", res.s.TraceHash()))
	r.ObsSet("policies", sc.Policy)
	r.Case(fmt.Sprintf("%+v|%x", sc, res.s.TraceHash()), res.contended > 0)
	if r.WantSample() && res.contended > 0 {
		r.Sample(map[string]any{"scenario": sc, "holds": holds, "scheduler_steps": res.s.Steps, "time_advances": res.s.Advances,
			"incarnations": len(incs), "history_ops": len(hist)})
	}
	witness := func() map[string]any {
		tr := res.s.Trace
		if len(tr) > 3000 {
			tr = tr[len(tr)-3000:]
		}
		// the events around the first judged foreign removal (or the tail)
		ev := w.Events
		centre := int64(-1)
		for _, f := range foreign {
			if f.Judged {
				centre = f.Seq
				break
			}
		}
		if centre >= 0 {
			var sel []fsmon.Event
			for _, e := range ev {
				if e.Seq >= centre-450 && e.Seq <= centre+30 {
					sel = append(sel, e)
				}
			}
			ev = sel
		} else if len(ev) > 400 {
			ev = ev[len(ev)-400:]
		}
		return map[string]any{"scenario": sc, "history": hist, "foreign_removes": foreign, "holds": holds, "incarnations": incs, "trace_tail": tr, "events_tail": ev}
	}
	// Only the FIRST refuting event of a world is reported: once a lock has been destroyed under its
	// holder, later removals/overlaps in the same schedule are consequences (e.g. the robbed holder's own
	// Unlock then removes its successor's directory), not independent findings.
	var firstF *lockh.ForeignRemove
	for i := range foreign {
		if foreign[i].Judged {
			firstF = &foreign[i]
			break
		}
	}
	var firstO *lockh.Overlap
	ovs := lockh.Overlaps(holds)
	for i := range ovs {
		if firstO == nil || ovs[i].B.From < firstO.B.From {
			firstO = &ovs[i]
		}
	}
	r.Obs("overlap_pairs_examined", int64(len(holds)*(len(holds)-1)/2))
	switch {
	case firstF != nil && (firstO == nil || firstF.Seq < firstO.B.From):
		f := firstF
		r.Violation(vrun.Sig{"effect": "foreign-remove", "class": f.Class},
			fmt.Sprintf("%s (in %s) removed the lock directory incarnation #%d created by %s (%s, newest stamp %d ms old, not stale)", f.Remover, f.RemoverCall, f.Inc, f.Owner, f.OwnerState, f.AgeMs),
			witness())
	case firstO != nil:
		o := firstO
		r.Violation(vrun.Sig{"effect": "overlap", "class": "acquire-while-held-no-foreign-remove"},
			fmt.Sprintf("%s acquired (%s) at t=%dms while %s held the lock since t=%dms (released at %dms); no removal of a live lock directory preceded it", o.B.Actor, o.B.AcquireOp, o.B.FromMs, o.A.Actor, o.A.FromMs, o.A.ToMs),
			witness())
	}
	if firstF != nil && firstO != nil {
		r.Obs("schedules_where_foreign_remove_led_to_overlapping_holds", 1)
	}
}

func trunc(s string, n int) string {
	if len(s) > n {
		return s[:n]
	}
	return s
}

func main() {
	r := vrun.Start("C01", "exploration")
	scratch = vrun.Scratch("c01")
	defer os.RemoveAll(scratch)
	r.Rule("one case = one schedule of one generated scenario (2..4 contenders using TryLock/Lock/LockWithTimeout for 1..3 acquire-hold-release cycles, with/without stale-lock override, " +
		"optional dead previous holder that died before/after its first heartbeat, optional ReleaseIfStale caller) executed in a synctest bubble with every backend operation gated; " +
		"policies: random walk, PCT(d=1..3), and single-preemption enumeration (every (actor, op index) delayed as long as the 5 ms gate-age cap allows). " +
		"non-trivial = at least one acquisition was contended (blocking acquire or an attempt that first saw the lock taken); distinct = scenario parameters + schedule hash.")
	r.Assume("OS directory on one kernel (ext4); mkdir is atomic", "virtual clock: scheduling latency and clock skew are zero; a gated operation is never delayed more than 5 ms of virtual time, so a live holder's heartbeat is at most ~25 ms late",
		"the re-stamper emulates a filesystem clock equal to the process clock", "in-memory backend excluded (documented as unsafe for the lock)")

	if r.Replay != "" {
		var wit struct {
			Scenario scenario `json:"scenario"`
		}
		if err := r.ReadReplay(&wit); err != nil {
			r.Fatalf("replay: %v", err)
		}
		res := runScenario(r, wit.Scenario, true)
		analyse(r, res)
		if os.Getenv("VERIF_C01_TRACE") != "" {
			adv := 0
			for _, c := range res.s.Trace {
				if c.Advance {
					adv++
					continue
				}
				if adv > 0 {
					fmt.Printf("  +%dms\n", adv)
					adv = 0
				}
				fmt.Printf("%s %s #%d\n", c.Actor, c.Op, c.N)
			}
			fmt.Printf("straddle fired: %v\n", res.straddleFired)
			_, foreign, incs := res.w.Snapshot()
			for _, f := range foreign {
				fmt.Printf("foreign: %+v\n", f)
			}
			for _, i := range incs {
				fmt.Printf("inc: %+v\n", i)
			}
			for _, e := range res.w.Events {
				if e.Actor == wit.Scenario.Victim {
					fmt.Printf("ev %d %s %s err=%v n=%d\n", e.Seq, e.Op, filepath.Base(e.Path), e.Error(), e.N)
				}
			}
		}
		r.Finish()
	}

	nRandom := r.Pick(1600, 60000)
	vrun.Parallel(nRandom, 0, func(i int) {
		sc := genScenario(r, "rand", i)
		res := runScenario(r, sc, true)
		analyse(r, res)
	})

	// handovers between live holders whose holds outlast the staleness threshold, watched by stale-lock pollers
	vrun.Parallel(r.Pick(1200, 30000), 0, func(i int) {
		sc := genScenario(r, "handover", i)
		sc.LongHold, sc.Dead = true, ""
		sc.Cycles = 2 + i%2
		if !sc.Override {
			sc.Releaser = true
		}
		res := runScenario(r, sc, true)
		analyse(r, res)
		r.Obs("handover_schedules", 1)
	})

	// single-preemption enumeration on small fixed scenarios
	base := []scenario{
		{Contenders: 2, Modes: []string{"lock", "lock"}, Cycles: 2, Policy: "delay", Stream: "enum-a"},
		{Contenders: 2, Modes: []string{"try", "lock"}, Override: true, Cycles: 2, Dead: "before-heartbeat", Policy: "delay", Stream: "enum-b"},
		{Contenders: 3, Modes: []string{"lock", "timeout", "try"}, Override: true, Cycles: 1, Dead: "after-heartbeat", Policy: "delay", Stream: "enum-c"},
		{Contenders: 2, Modes: []string{"try", "try"}, Override: false, Cycles: 2, Dead: "before-heartbeat", Releaser: true, Policy: "delay", Stream: "enum-d"},
		{Contenders: 2, Modes: []string{"lock", "try"}, Override: false, Cycles: 2, Releaser: true, LongHold: true, Policy: "straddle", Trigger: "created", Stream: "enum-e"},
		{Contenders: 2, Modes: []string{"lock", "try"}, Override: false, Cycles: 2, Releaser: true, LongHold: true, Policy: "straddle", Trigger: "removed", Stream: "enum-f"},
		{Contenders: 3, Modes: []string{"try", "lock", "timeout"}, Override: true, Cycles: 2, LongHold: true, Policy: "straddle", Trigger: "created", Stream: "enum-g"},
	}
	for _, b := range base {
		// dry run without preemption to learn the per-actor operation counts
		dry := b
		dry.Victim = "nobody"
		res := runScenario(r, dry, false)
		analyse(r, res)
		counts := map[string]int{}
		for _, c := range res.s.Trace {
			if !c.Advance && c.N > counts[c.Actor] {
				counts[c.Actor] = c.N
			}
		}
		type pt struct {
			a string
			n int
		}
		var pts []pt
		for a, n := range counts {
			limit := n
			if r.Quick() && limit > 70 && !b.LongHold {
				limit = 70
			}
			if r.Quick() && limit > 260 {
				limit = 260
			}
			for i := 1; i <= limit; i++ {
				pts = append(pts, pt{a, i})
			}
		}
		r.Obs("enumerated_preemption_points", int64(len(pts)))
		vrun.Parallel(len(pts), 0, func(i int) {
			sc := b
			sc.Victim, sc.AtN = pts[i].a, pts[i].n
			sc.Index = i
			res := runScenario(r, sc, true)
			analyse(r, res)
			if res.straddleFired {
				r.Obs("operations_held_across_a_change_of_hands_of_the_lock", 1)
			}
		})
		if !r.Quick() && b.Policy == "delay" {
			// bound 2: pairs of preemption points of two different actors (sampled deterministically)
			rng := r.Rand("enum2-"+b.Stream, 0)
			n2 := 6000
			type pr struct{ p, q pt }
			var prs []pr
			for len(prs) < n2 && len(pts) > 1 {
				p, q := pts[rng.IntN(len(pts))], pts[rng.IntN(len(pts))]
				if p.a == q.a {
					continue
				}
				prs = append(prs, pr{p, q})
			}
			vrun.Parallel(len(prs), 0, func(i int) {
				sc := b
				sc.Victim, sc.AtN, sc.Victim2, sc.AtN2 = prs[i].p.a, prs[i].p.n, prs[i].q.a, prs[i].q.n
				sc.Index = 100000 + i
				res := runScenario(r, sc, true)
				analyse(r, res)
			})
		}
	}

	r.Require("acquisitions", int64(r.Pick(3000, 100000)))
	r.Require("contended_acquisitions", 500)
	r.Require("stale_or_dead_lock_takeovers", 50)
	r.Require("heartbeat_and_dir_stamps", 10000)
	r.Require("schedules", int64(r.Pick(1000, 30000)))
	_ = filepath.Join
	_ = filesystem.LockFilePrefix
	r.Finish()
}
