package main

// Scripted collection / stream: pages with unique item ids (1,2,3,… in page order then in-page order),
// per-fetch failure switches, publication times for future batches, and a recorder of every call the
// library makes on the pages. Four distinct Go types implement exactly the library's four page
// interfaces (IStaticPage, IPage, IStaticPageStream, IStream) and nothing more, so the library cannot
// reach a capability the paginator under test is not supposed to have.

import (
	"context"
	"errors"
	"fmt"
	"sync"
	"sync/atomic"
	"time"

	"github.com/ARM-software/golang-utils/utils/collection/pagination"
	"github.com/ARM-software/golang-utils/utils/commonerrors"
)

// Item is what the scripted pages hold. ID is unique over the whole collection.
type Item struct {
	ID   int
	Page int
}

type pageInfo struct {
	idx         int
	batch       int
	items       []int
	lastOfBatch bool
	pub         time.Duration // publication time of the page's batch
	deliveredAt int64         // seq at which the page was first handed to the library (0 = never)
}

type srcEvent struct {
	Seq  int64  `json:"seq"`
	TUs  int64  `json:"t_us"`
	What string `json:"what"`
}

type source struct {
	spec  *Spec
	pages []*pageInfo
	total int

	now    func() time.Duration // virtual (bubble) or real elapsed time since the start of the case
	seq    *atomic.Int64
	cancel context.CancelFunc // parent context of the case: used to unwind a runaway

	stopInFetch func() // issued from inside the fetch delivering page stopPage (once)
	stopPage    int
	stopFired   bool

	mu              sync.Mutex
	events          []srcEvent
	fetches         int
	fetchBudget     int
	timeBound       time.Duration // 0 = none
	faultLeft       int           // remaining scripted failures (-1 = persistent)
	faultFired      int
	firstFaultSeq   int64
	deliveredUpTo   int   // highest real page index handed to the library (-1 none)
	terminalSeq     int64 // seq at which the terminal page (no next, no future) was handed out (0 = not)
	runaway         string
	runawaySeq      int64
	iterCalls       int
	idleFetches     int
	futureFetches   int
	nextFetches     int
	maxPollGap      time.Duration
	lastPoll        time.Duration
	fetchAfterCtxDn int
	protoOdd        int // library asked for a next/future page of a page that reported none
}

func newSource(sp *Spec) *source {
	s := &source{spec: sp, deliveredUpTo: -1, fetchBudget: 200_000}
	id := 0
	for b, bt := range sp.Batches {
		for j, n := range bt.Sizes {
			p := &pageInfo{idx: len(s.pages), batch: b, lastOfBatch: j == len(bt.Sizes)-1, pub: time.Duration(bt.PubUs) * time.Microsecond}
			for k := 0; k < n; k++ {
				id++
				p.items = append(p.items, id)
			}
			s.pages = append(s.pages, p)
		}
	}
	s.total = id
	if sp.Fault != nil {
		s.faultLeft = sp.Fault.Times
	}
	return s
}

func (s *source) ev(format string, a ...any) int64 {
	q := s.seq.Add(1)
	s.events = append(s.events, srcEvent{Seq: q, TUs: s.now().Microseconds(), What: fmt.Sprintf(format, a...)})
	if len(s.events) > 400 {
		s.events = append(s.events[:0], s.events[200:]...)
	}
	return q
}

var errScriptedBase = errors.New("scripted fetch failure")
var errScripted = fmt.Errorf("%w: %w", commonerrors.ErrUnexpected, errScriptedBase)

// scriptedErr is the failure of this case's scripted page requests.
func (s *source) scriptedErr() error {
	if f := s.spec.Fault; f != nil {
		switch f.Kind {
		case "notfound":
			return fmt.Errorf("%w: %w", commonerrors.ErrNotFound, errScriptedBase)
		case "empty":
			return fmt.Errorf("page request: %w", fmt.Errorf("%w: %w", commonerrors.ErrEmpty, errScriptedBase))
		}
	}
	return errScripted
}

// takeFault reports whether the scripted failure applies to (where, page) now.
func (s *source) takeFault(where string, page int) bool {
	f := s.spec.Fault
	if f == nil || f.Where != where || f.Page != page || s.faultLeft == 0 {
		return false
	}
	if s.faultLeft > 0 {
		s.faultLeft--
	}
	s.faultFired++
	return true
}

// pg is the common part of every scripted page. idle pages are the answer of a polled stream that has
// nothing new yet: empty, no next page, a future link; their cursor stays after page idx.
type pg struct {
	src  *source
	idx  int
	idle bool
}

func (p *pg) info() *pageInfo { return p.src.pages[p.idx] }

func (p *pg) HasNext() bool {
	if p.idle {
		return false
	}
	return !p.info().lastOfBatch
}

func (p *pg) hasFuture() bool {
	if p.idle {
		return true
	}
	i := p.info()
	if !i.lastOfBatch {
		return false
	}
	return p.idx < len(p.src.pages)-1 || p.src.spec.Open
}

func (p *pg) GetItemCount() (int64, error) {
	if p.idle {
		return 0, nil
	}
	return int64(len(p.info().items)), nil
}

func (p *pg) GetItemIterator() (pagination.IIterator, error) {
	s := p.src
	s.mu.Lock()
	defer s.mu.Unlock()
	s.iterCalls++
	if p.idle {
		return &itemIterator{}, nil
	}
	if s.takeFault("iter", p.idx) {
		q := s.ev("GetItemIterator(page %d) -> scripted failure", p.idx)
		if s.firstFaultSeq == 0 {
			s.firstFaultSeq = q
		}
		return nil, s.scriptedErr()
	}
	s.ev("GetItemIterator(page %d)", p.idx)
	return &itemIterator{page: p.idx, ids: p.info().items}, nil
}

type itemIterator struct {
	page int
	ids  []int
	pos  int
}

func (it *itemIterator) HasNext() bool { return it.pos < len(it.ids) }

func (it *itemIterator) GetNext() (interface{}, error) {
	if it.pos >= len(it.ids) {
		return nil, fmt.Errorf("%w: no more items in page", commonerrors.ErrNotFound)
	}
	v := &Item{ID: it.ids[it.pos], Page: it.page}
	it.pos++
	return v, nil
}

// fetch is the single place where pages are handed to the library.
// link: "first", "next", "future"; from = index of the page the link is followed from.
// Returns the target page (idx, idle).
func (s *source) fetch(ctx context.Context, link string, from *pg) (idx int, idle bool, err error) {
	idx, idle, err = s.fetchPage(ctx, link, from)
	if err == nil && !idle && s.stopInFetch != nil {
		s.mu.Lock()
		fire := !s.stopFired && idx == s.stopPage
		if fire {
			s.stopFired = true
			s.ev("stop issued from inside the fetch of page %d, which then succeeds", idx)
		}
		s.mu.Unlock()
		if fire {
			s.stopInFetch()
		}
	}
	return
}

func (s *source) fetchPage(ctx context.Context, link string, from *pg) (idx int, idle bool, err error) {
	lat := time.Duration(0)
	if s.spec.Stream != nil {
		lat = time.Duration(s.spec.Stream.LatencyUs) * time.Microsecond
	}
	s.mu.Lock()
	s.fetches++
	now := s.now()
	if s.fetches > 1 && now-s.lastPoll > s.maxPollGap {
		s.maxPollGap = now - s.lastPoll
	}
	s.lastPoll = now
	if s.runaway == "" {
		if s.fetches > s.fetchBudget {
			s.runaway = "fetch-count"
		} else if s.timeBound > 0 && now > s.timeBound {
			s.runaway = "virtual-time"
		}
		if s.runaway != "" {
			s.runawaySeq = s.ev("RUNAWAY (%s): cancelling the case", s.runaway)
			s.cancel()
		}
	}
	if e := ctx.Err(); e != nil {
		s.fetchAfterCtxDn++
		s.ev("fetch %s from %v -> context ended", link, describe(from))
		s.mu.Unlock()
		return 0, false, commonerrors.ConvertContextError(e)
	}
	s.mu.Unlock()

	if lat > 0 {
		select {
		case <-ctx.Done():
			s.mu.Lock()
			s.ev("fetch %s from %v -> context ended during the request", link, describe(from))
			s.mu.Unlock()
			return 0, false, commonerrors.ConvertContextError(ctx.Err())
		case <-time.After(lat):
		}
	}

	s.mu.Lock()
	defer s.mu.Unlock()
	target := 0
	switch link {
	case "first":
		target = 0
	case "next":
		s.nextFetches++
		if from.idle || from.info().lastOfBatch {
			s.protoOdd++
			s.ev("fetch next from %v -> page has no next", describe(from))
			return 0, false, fmt.Errorf("%w: there is no next page", commonerrors.ErrNotFound)
		}
		target = from.idx + 1
	case "future":
		s.futureFetches++
		if !from.hasFuture() {
			s.protoOdd++
			s.ev("fetch future from %v -> page has no future", describe(from))
			return 0, false, fmt.Errorf("%w: there is no future page", commonerrors.ErrNotFound)
		}
		target = from.idx + 1
		if target >= len(s.pages) || s.now() < s.pages[target].pub {
			s.idleFetches++
			s.ev("fetch future from %v -> nothing new yet", describe(from))
			return from.idx, true, nil
		}
	}
	if s.takeFault("fetch", target) {
		q := s.ev("fetch %s -> page %d: scripted failure", link, target)
		if s.firstFaultSeq == 0 {
			s.firstFaultSeq = q
		}
		return 0, false, s.scriptedErr()
	}
	q := s.ev("fetch %s -> page %d (%d items)", link, target, len(s.pages[target].items))
	if target > s.deliveredUpTo {
		s.deliveredUpTo = target
	}
	if s.pages[target].deliveredAt == 0 {
		s.pages[target].deliveredAt = q
	}
	if target == len(s.pages)-1 && !s.spec.Open && s.terminalSeq == 0 {
		s.terminalSeq = q
	}
	return target, false, nil
}

func describe(p *pg) string {
	if p == nil {
		return "-"
	}
	if p.idle {
		return fmt.Sprintf("idle-after-%d", p.idx)
	}
	return fmt.Sprintf("page-%d", p.idx)
}

// ---- the four page flavours ------------------------------------------------------------------------

// staticPage implements pagination.IStaticPage only.
type staticPage struct{ *pg }

// dynPage implements pagination.IPage.
type dynPage struct{ *pg }

func (p dynPage) GetNext(ctx context.Context) (pagination.IPage, error) {
	i, idle, err := p.src.fetch(ctx, "next", p.pg)
	if err != nil {
		return nil, err
	}
	return dynPage{&pg{src: p.src, idx: i, idle: idle}}, nil
}

// sStreamPage implements pagination.IStaticPageStream only.
type sStreamPage struct{ *pg }

func (p sStreamPage) HasFuture() bool { return p.hasFuture() }

// dStreamPage implements pagination.IStream.
type dStreamPage struct{ *pg }

func (p dStreamPage) HasFuture() bool { return p.hasFuture() }

func (p dStreamPage) GetNext(ctx context.Context) (pagination.IPage, error) {
	i, idle, err := p.src.fetch(ctx, "next", p.pg)
	if err != nil {
		return nil, err
	}
	return dStreamPage{&pg{src: p.src, idx: i, idle: idle}}, nil
}

func (p dStreamPage) GetFuture(ctx context.Context) (pagination.IStream, error) {
	i, idle, err := p.src.fetch(ctx, "future", p.pg)
	if err != nil {
		return nil, err
	}
	return dStreamPage{&pg{src: p.src, idx: i, idle: idle}}, nil
}

var (
	_ pagination.IStaticPage       = staticPage{}
	_ pagination.IPage             = dynPage{}
	_ pagination.IStaticPageStream = sStreamPage{}
	_ pagination.IStream           = dStreamPage{}
)

// construct builds the paginator under test for the spec's kind.
func (s *source) construct(ctx context.Context) (p pagination.IGenericPaginator, sp pagination.IGenericStreamPaginator, isNil bool, err error) {
	switch s.spec.Kind {
	case "static":
		var q pagination.IPaginatorAndPageFetcher
		q, err = pagination.NewStaticPagePaginator(ctx, func(c context.Context) (pagination.IStaticPage, error) {
			i, _, e := s.fetch(c, "first", nil)
			if e != nil {
				return nil, e
			}
			return staticPage{&pg{src: s, idx: i}}, nil
		}, func(c context.Context, cur pagination.IStaticPage) (pagination.IStaticPage, error) {
			cp, ok := cur.(staticPage)
			if !ok {
				return nil, fmt.Errorf("%w: foreign page handed to the fetch function: %T", commonerrors.ErrInvalid, cur)
			}
			i, idle, e := s.fetch(c, "next", cp.pg)
			if e != nil {
				return nil, e
			}
			return staticPage{&pg{src: s, idx: i, idle: idle}}, nil
		})
		if q == nil || isNilValue(q) {
			return nil, nil, true, err
		}
		return q, nil, false, err
	case "dynamic":
		var q pagination.IPaginator
		q, err = pagination.NewCollectionPaginator(ctx, func(c context.Context) (pagination.IPage, error) {
			i, _, e := s.fetch(c, "first", nil)
			if e != nil {
				return nil, e
			}
			return dynPage{&pg{src: s, idx: i}}, nil
		})
		if q == nil || isNilValue(q) {
			return nil, nil, true, err
		}
		return q, nil, false, err
	case "sstatic":
		st := s.spec.Stream
		var q pagination.IStreamPaginatorAndPageFetcher
		q, err = pagination.NewStaticPageStreamPaginator(ctx, us(st.GraceUs), us(st.BackoffUs), func(c context.Context) (pagination.IStaticPageStream, error) {
			i, _, e := s.fetch(c, "first", nil)
			if e != nil {
				return nil, e
			}
			return sStreamPage{&pg{src: s, idx: i}}, nil
		}, func(c context.Context, cur pagination.IStaticPage) (pagination.IStaticPage, error) {
			cp, ok := cur.(sStreamPage)
			if !ok {
				return nil, fmt.Errorf("%w: foreign page handed to the fetch function: %T", commonerrors.ErrInvalid, cur)
			}
			i, idle, e := s.fetch(c, "next", cp.pg)
			if e != nil {
				return nil, e
			}
			return sStreamPage{&pg{src: s, idx: i, idle: idle}}, nil
		}, func(c context.Context, cur pagination.IStaticPageStream) (pagination.IStaticPageStream, error) {
			cp, ok := cur.(sStreamPage)
			if !ok {
				return nil, fmt.Errorf("%w: foreign page handed to the fetch function: %T", commonerrors.ErrInvalid, cur)
			}
			i, idle, e := s.fetch(c, "future", cp.pg)
			if e != nil {
				return nil, e
			}
			return sStreamPage{&pg{src: s, idx: i, idle: idle}}, nil
		})
		if q == nil || isNilValue(q) {
			return nil, nil, true, err
		}
		return q, q, false, err
	case "sdynamic":
		st := s.spec.Stream
		var q pagination.IStreamPaginator
		q, err = pagination.NewStreamPaginator(ctx, us(st.GraceUs), us(st.BackoffUs), func(c context.Context) (pagination.IStream, error) {
			i, _, e := s.fetch(c, "first", nil)
			if e != nil {
				return nil, e
			}
			return dStreamPage{&pg{src: s, idx: i}}, nil
		})
		if q == nil || isNilValue(q) {
			return nil, nil, true, err
		}
		return q, q, false, err
	}
	panic("unknown kind " + s.spec.Kind)
}

func us(v int64) time.Duration { return time.Duration(v) * time.Microsecond }
