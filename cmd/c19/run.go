package main

// Case specification and the driver that executes one case against the real paginators.

import (
	"context"
	"errors"
	"fmt"
	"reflect"
	"strings"
	"sync/atomic"
	"testing/synctest"
	"time"

	"github.com/ARM-software/golang-utils/utils/collection/pagination"
	"github.com/ARM-software/golang-utils/utils/commonerrors"
)

// Spec is one case, in canonical (JSON) form. Times are microseconds of the case's clock (the virtual
// clock of a synctest bubble for the stream paginators).
type Spec struct {
	Kind    string  `json:"kind"` // static | dynamic | sstatic | sdynamic
	Batches []Batch `json:"batches"`
	Open    bool    `json:"open,omitempty"` // the last page keeps a future link: a stream without known ending
	Calls   string  `json:"calls"`          // call pattern over {H,G}, repeated until the end is observed
	Fault   *Fault  `json:"fault,omitempty"`
	Stop    *Stop   `json:"stop,omitempty"`
	Stream  *Stream `json:"stream,omitempty"`
}

// Batch is a chain of pages linked by "next"; batches are linked by "future" and the pages of batch b
// become visible to a future fetch at PubUs.
type Batch struct {
	PubUs int64 `json:"pub_us"`
	Sizes []int `json:"sizes"`
}

// Fault: the fetch of page Page (Where="fetch": first/next/future link, whichever leads to it) or its
// GetItemIterator (Where="iter") fails Times times (-1: always).
type Fault struct {
	Where string `json:"where"`
	Page  int    `json:"page"`
	Times int    `json:"times"`
	// Kind of the scripted failure: "" = unexpected, "notfound", "empty" (a page request may fail for any reason; a failure
	// is a failure whatever its category)
	Kind string `json:"kind,omitempty"`
}

// Stop: Stop()(), Close() or cancellation of the parent context; inline before consumer call number
// AfterCalls, or asynchronously at AtUs.
type Stop struct {
	How        string `json:"how"`
	AfterCalls int    `json:"after_calls"`
	Async      bool   `json:"async,omitempty"`
	AtUs       int64  `json:"at_us,omitempty"`
	// InFetch: the stop is issued from inside the fetch that delivers page InFetchPage, right before that fetch
	// returns the page successfully (a request in flight which still succeeds); AfterCalls is not used then.
	InFetch     bool `json:"in_fetch,omitempty"`
	InFetchPage int  `json:"in_fetch_page,omitempty"`
}

type Stream struct {
	GraceUs   int64 `json:"grace_us"`
	BackoffUs int64 `json:"backoff_us"`
	LatencyUs int64 `json:"latency_us,omitempty"`
	IdleUs    int64 `json:"idle_us,omitempty"` // consumer pause after every call
	// Dry: none | pre (before the first call) | async (other goroutine at DryAtUs) | inline (by the consumer after DryAfterItems items)
	Dry            string `json:"dry"`
	DryAtUs        int64  `json:"dry_at_us,omitempty"`
	DryAfterItems  int    `json:"dry_after_items,omitempty"`
	SlowAfterItems int    `json:"slow_after_items"` // -1: none. One long consumer pause after that many items
	SlowIdleUs     int64  `json:"slow_idle_us,omitempty"`
}

func (sp *Spec) isStream() bool { return sp.Kind == "sstatic" || sp.Kind == "sdynamic" }

func (sp *Spec) nPages() int {
	n := 0
	for _, b := range sp.Batches {
		n += len(b.Sizes)
	}
	return n
}

func (sp *Spec) nItems() int {
	n := 0
	for _, b := range sp.Batches {
		for _, s := range b.Sizes {
			n += s
		}
	}
	return n
}

// tol is the polling granularity of the case: an upper bound of the time between two consecutive
// observations the paginator can make of "has DryUp been called" (two back-offs, every request latency of
// one cycle, the consumer's own pauses while it drains one batch). Times are only judged up to tol.
func (sp *Spec) tol() time.Duration {
	st := sp.Stream
	return us(2*st.BackoffUs + st.LatencyUs*int64(sp.nPages()+2) + st.IdleUs*int64(sp.nItems()+4))
}

type callRec struct {
	Op    string `json:"op"`
	Phase string `json:"phase"` // main | epilogue
	Seq0  int64  `json:"seq0"`
	Seq1  int64  `json:"seq1"`
	T0Us  int64  `json:"t0_us"`
	T1Us  int64  `json:"t1_us"`
	Has   *bool  `json:"has,omitempty"`
	Item  int    `json:"item,omitempty"` // id of the yielded item (0: none)
	Err   string `json:"err,omitempty"`
	Odd   string `json:"odd,omitempty"` // yielded something that is not one of our items
}

type result struct {
	CtorErr  string `json:"ctor_err,omitempty"`
	ctorErr  error
	CtorNil  bool   `json:"ctor_nil"`
	Panic    string `json:"panic,omitempty"`
	Deadlock string `json:"bubble_deadlock,omitempty"`
	Watchdog bool   `json:"watchdog,omitempty"`

	Calls   []callRec `json:"calls"`
	Yielded []int     `json:"yielded"`
	EndedBy string    `json:"ended_by,omitempty"`
	endCall int       // index in Calls of the call that reported the end (-1)

	StopSeq0, StopSeq1 int64
	StopTUs            int64
	DrySeq0, DrySeq1   int64
	DryT               time.Duration
	dryCalled          bool
	slowDone           bool
	SlowEndT           time.Duration

	src *source
}

func isNilValue(v any) bool {
	if v == nil {
		return true
	}
	rv := reflect.ValueOf(v)
	switch rv.Kind() {
	case reflect.Ptr, reflect.Map, reflect.Slice, reflect.Func, reflect.Interface, reflect.Chan:
		return rv.IsNil()
	}
	return false
}

func errClass(err error) string {
	switch {
	case err == nil:
		return ""
	case errors.Is(err, errScriptedBase):
		return "scripted"
	case commonerrors.Any(err, commonerrors.ErrCancelled):
		return "cancelled"
	case commonerrors.Any(err, commonerrors.ErrTimeout):
		return "timeout"
	case commonerrors.Any(err, commonerrors.ErrNotFound):
		return "notfound"
	case errors.Is(err, errScripted):
		return "scripted"
	}
	s := err.Error()
	if len(s) > 60 {
		s = s[:60]
	}
	return "other:" + s
}

// runCase executes the case; stream kinds run inside a synctest bubble (virtual clock). wd is the
// generous real-time watchdog.
func runCase(sp *Spec, wd time.Duration) *result {
	res := &result{endCall: -1}
	done := make(chan struct{})
	go func() {
		defer close(done)
		defer func() {
			if p := recover(); p != nil {
				msg := fmt.Sprint(p)
				if strings.Contains(msg, "deadlock") && strings.Contains(msg, "bubble") {
					res.Deadlock = msg
				} else {
					res.Panic = "outside calls: " + msg
				}
			}
		}()
		if sp.isStream() {
			// explicit hand-over of res (synctest.Run does join the bubble's goroutines, but the join is not
			// a synchronisation the race detector knows about)
			handOver := make(chan struct{}, 1)
			synctest.Run(func() {
				defer func() { handOver <- struct{}{} }()
				drive(sp, res)
			})
			<-handOver
		} else {
			drive(sp, res)
		}
	}()
	t := time.NewTimer(wd)
	defer t.Stop()
	select {
	case <-done:
		return res
	case <-t.C:
		// the goroutine is abandoned; nothing of res is read except the flag
		return &result{Watchdog: true, endCall: -1}
	}
}

func drive(sp *Spec, res *result) {
	start := time.Now()
	var seq atomic.Int64
	parent, cancel := context.WithCancel(context.Background())
	defer cancel()
	src := newSource(sp)
	src.now = func() time.Duration { return time.Since(start) }
	src.seq = &seq
	src.cancel = cancel
	res.src = src
	st := sp.Stream
	if st != nil {
		// Far beyond anything the statement allows: last publication, every scripted pause, the DryUp
		// time, then 30 full (grace + granularity) periods.
		last := int64(0)
		for _, b := range sp.Batches {
			if b.PubUs > last {
				last = b.PubUs
			}
		}
		stopAt := int64(0)
		if sp.Stop != nil {
			stopAt = sp.Stop.AtUs
		}
		src.timeBound = us(last+st.DryAtUs+st.SlowIdleUs+stopAt) + 30*(us(st.GraceUs)+sp.tol()) + time.Second
	}

	var p pagination.IGenericPaginator
	var spg pagination.IGenericStreamPaginator
	func() {
		defer func() {
			if r := recover(); r != nil {
				res.Panic = fmt.Sprintf("constructor: %v", r)
			}
		}()
		p, spg, res.CtorNil, res.ctorErr = src.construct(parent)
	}()
	if res.ctorErr != nil {
		res.CtorErr = res.ctorErr.Error()
	}
	if res.Panic != "" || res.CtorNil || res.ctorErr != nil {
		if p != nil && !res.CtorNil {
			_ = p.Close()
		}
		return
	}
	defer func() { _ = p.Close() }()

	finished := make(chan struct{})
	helpers := make(chan struct{}, 2)
	nHelpers := 0

	doStop := func() {
		res.StopSeq0 = seq.Add(1)
		res.StopTUs = src.now().Microseconds()
		switch sp.Stop.How {
		case "stop":
			p.Stop()()
		case "close":
			_ = p.Close()
		case "cancel":
			cancel()
		}
		atomic.StoreInt64(&res.StopSeq1, seq.Add(1))
	}
	doDry := func() {
		if res.dryCalled || spg == nil {
			return
		}
		res.dryCalled = true
		res.DryT = src.now()
		res.DrySeq0 = seq.Add(1)
		_ = spg.DryUp()
		atomic.StoreInt64(&res.DrySeq1, seq.Add(1))
	}
	if sp.Stop != nil && sp.Stop.InFetch {
		src.stopPage, src.stopInFetch = sp.Stop.InFetchPage, doStop
	}
	asyncStop := sp.Stop != nil && sp.Stop.Async
	asyncDry := st != nil && st.Dry == "async"
	if asyncStop {
		nHelpers++
		go func() {
			defer func() { helpers <- struct{}{} }()
			select {
			case <-time.After(us(sp.Stop.AtUs)):
				doStop()
			case <-finished:
			}
		}()
	}
	if asyncDry {
		nHelpers++
		go func() {
			defer func() { helpers <- struct{}{} }()
			select {
			case <-time.After(us(st.DryAtUs)):
				doDry()
			case <-finished:
			}
		}()
	}
	defer func() {
		close(finished)
		for i := 0; i < nHelpers; i++ {
			<-helpers
		}
	}()

	call := func(op byte, phase string) (rec callRec, ok bool) {
		rec = callRec{Op: string(op), Phase: phase, Seq0: seq.Add(1), T0Us: src.now().Microseconds()}
		func() {
			defer func() {
				if r := recover(); r != nil {
					res.Panic = fmt.Sprintf("%c: %v", op, r)
				}
			}()
			if op == 'H' {
				h := p.HasNext()
				rec.Has = &h
			} else {
				item, err := p.GetNext()
				rec.Err = errClass(err)
				if err == nil {
					if it, isItem := item.(*Item); isItem && it != nil {
						rec.Item = it.ID
					} else {
						rec.Odd = fmt.Sprintf("%T(%v)", item, item)
					}
				}
			}
		}()
		rec.Seq1 = seq.Add(1)
		rec.T1Us = src.now().Microseconds()
		return rec, res.Panic == ""
	}

	// triggers that depend on the number of items yielded so far
	itemTriggers := func() {
		if st == nil {
			return
		}
		n := len(res.Yielded)
		if st.SlowAfterItems == n && !res.slowDone {
			res.slowDone = true
			time.Sleep(us(st.SlowIdleUs))
			res.SlowEndT = src.now()
		}
		if st.Dry == "inline" && st.DryAfterItems == n {
			doDry()
		}
	}

	if st != nil && st.Dry == "pre" {
		doDry()
	}
	itemTriggers()

	pat := sp.Calls
	maxCalls := (sp.nItems()+3)*len(pat) + 8
	ended := false
	for n := 0; n < maxCalls && !ended; n++ {
		if sp.Stop != nil && !sp.Stop.Async && !sp.Stop.InFetch && sp.Stop.AfterCalls == n {
			doStop()
		}
		rec, ok := call(pat[n%len(pat)], "main")
		res.Calls = append(res.Calls, rec)
		if !ok {
			return
		}
		switch {
		case rec.Has != nil && !*rec.Has:
			ended, res.EndedBy, res.endCall = true, "HasNext=false", len(res.Calls)-1
		case rec.Op == "G" && rec.Err != "":
			ended, res.EndedBy, res.endCall = true, "GetNext:"+rec.Err, len(res.Calls)-1
		case rec.Op == "G":
			res.Yielded = append(res.Yielded, rec.Item) // 0 for a foreign value: judged as such
			itemTriggers()
		}
		if st != nil && st.IdleUs > 0 && !ended {
			time.Sleep(us(st.IdleUs))
		}
	}
	if !ended {
		res.EndedBy = "call-budget"
	}
	// epilogue: the end has been reported (or the budget is spent); probe a few more calls.
	for _, op := range []byte("HGHGG") {
		rec, ok := call(op, "epilogue")
		res.Calls = append(res.Calls, rec)
		if !ok {
			return
		}
		if rec.Op == "G" && rec.Err == "" {
			res.Yielded = append(res.Yielded, rec.Item)
		}
	}
}
