// C19 — paginators yield every item exactly once, in order.
//
// Runtime monitor with a reference iterator. Scripted pages (unique item ids 1,2,3,…, per-fetch failure
// switches, publication times for the future batches of a stream) implement exactly the library's page
// interfaces; a driver mixes HasNext/GetNext according to a generated call string, optionally stops /
// closes / cancels, and the yielded sequence is compared with the reference (judge.go). The stream
// paginators run inside a testing/synctest bubble: back-off, request latency, publication times, DryUp
// and the grace period are all on the bubble's virtual clock, so "until told + grace elapsed" is decided
// exactly and a hang shows as the runtime's own "all goroutines in bubble are blocked" panic.
package main

import (
	"encoding/json"
	"fmt"
	"math/rand/v2"
	"os"
	"strings"
	"sync"
	"testing/synctest"
	"time"

	"github.com/sasha-s/go-deadlock"

	"verif/internal/vrun"
)

var fixedPatterns = []string{"HG", "G", "HHG", "HGG", "HHHG", "GH", "GGH", "HGHHG", "HHHHHG", "GHH"}

func genPattern(rng *rand.Rand) string {
	if rng.IntN(2) == 0 {
		return fixedPatterns[rng.IntN(len(fixedPatterns))]
	}
	n := 1 + rng.IntN(8)
	b := make([]byte, n)
	hasG := false
	for i := range b {
		if rng.IntN(5) < 2 {
			b[i] = 'G'
			hasG = true
		} else {
			b[i] = 'H'
		}
	}
	if !hasG {
		b[rng.IntN(n)] = 'G'
	}
	return string(b)
}

// genSizes: n pages of 0..10 items with the empty-page shapes of the statement steered in.
func genSizes(rng *rand.Rand, n int) []int {
	s := make([]int, n)
	pEmpty := []int{0, 15, 30, 60, 100}[rng.IntN(5)]
	for i := range s {
		if rng.IntN(100) >= pEmpty {
			s[i] = 1 + rng.IntN(10)
		}
	}
	switch rng.IntN(8) {
	case 0:
		s[0] = 0
	case 1:
		s[n-1] = 0
	case 2:
		if n >= 3 {
			k := 1 + rng.IntN(n-2)
			s[k] = 0
			if k+1 < n-1 {
				s[k+1] = 0
			}
		}
	}
	return s
}

func genPageCount(rng *rand.Rand) int {
	switch rng.IntN(4) {
	case 0:
		return 1 + rng.IntN(3)
	case 1:
		return 1 + rng.IntN(8)
	}
	return 1 + rng.IntN(20)
}

func genFault(rng *rand.Rand, nPages int) *Fault {
	f := &Fault{Where: []string{"fetch", "iter"}[rng.IntN(2)], Page: rng.IntN(nPages), Times: []int{1, 1, 2, -1}[rng.IntN(4)], Kind: []string{"", "notfound", "empty"}[rng.IntN(3)]}
	if rng.IntN(4) == 0 {
		f.Page = 0
	}
	return f
}

func genPlain(rng *rand.Rand, kind string) *Spec {
	n := genPageCount(rng)
	sp := &Spec{Kind: kind, Batches: []Batch{{Sizes: genSizes(rng, n)}}, Calls: genPattern(rng)}
	switch v := rng.IntN(100); {
	case v < 25:
		sp.Fault = genFault(rng, n)
	case v < 45:
		sp.Stop = &Stop{How: []string{"stop", "close", "cancel"}[rng.IntN(3)], AfterCalls: rng.IntN((sp.nItems()+2)*len(sp.Calls) + 1)}
		if n >= 2 && rng.IntN(3) == 0 {
			sp.Stop = &Stop{How: sp.Stop.How, InFetch: true, InFetchPage: 1 + rng.IntN(n-1)}
		}
	}
	return sp
}

func ms(v int64) int64 { return v * 1000 }

func genStream(rng *rand.Rand, kind string) *Spec {
	sp := &Spec{Kind: kind, Calls: genPattern(rng)}
	nB := 1 + rng.IntN(6)
	budget := 20
	backoff := []int64{1, 2, 5, 10, 20}[rng.IntN(5)]
	prePublished := rng.IntN(10) < 3
	pub := int64(0)
	for b := 0; b < nB && budget > 0; b++ {
		np := 1 + rng.IntN(4)
		if rng.IntN(6) == 0 {
			np = 1 + rng.IntN(10)
		}
		if np > budget {
			np = budget
		}
		budget -= np
		bt := Batch{Sizes: genSizes(rng, np)}
		if b > 0 && !prePublished {
			pub += int64(rng.IntN(9)) * backoff
			bt.PubUs = ms(pub) + 250
		}
		sp.Batches = append(sp.Batches, bt)
	}
	nB = len(sp.Batches)
	sp.Open = rng.IntN(10) < 6
	st := &Stream{BackoffUs: ms(backoff), SlowAfterItems: -1, Dry: "none"}
	sp.Stream = st
	if rng.IntN(10) < 3 {
		st.LatencyUs = ms([]int64{1, backoff, (backoff + 1) / 2}[rng.IntN(3)])
	}
	if rng.IntN(4) == 0 {
		st.IdleUs = ms(int64(1 + rng.IntN(2)))
	}
	st.GraceUs = sp.tol().Microseconds() * int64(nB+2+rng.IntN(5))
	total := sp.nItems()
	lastPub := sp.Batches[nB-1].PubUs

	ev := rng.IntN(100)
	wantStop := ev < 15
	if ev >= 15 && ev < 35 {
		sp.Fault = genFault(rng, sp.nPages())
	}
	needDry := sp.Open && !wantStop
	if needDry || rng.IntN(100) < 60 {
		switch v := rng.IntN(100); {
		case v < 15:
			st.Dry = "pre"
		case v < 60 || total == 0:
			st.Dry = "async"
			st.DryAtUs = ms(rng.Int64N(lastPub/1000+2*st.GraceUs/1000+1)) + 500
		default:
			st.Dry = "inline"
			st.DryAfterItems = 1 + rng.IntN(total)
		}
	}
	if wantStop {
		sp.Stop = &Stop{How: []string{"stop", "close", "cancel"}[rng.IntN(3)]}
		if (sp.Open && st.Dry == "none") || rng.IntN(10) < 6 {
			sp.Stop.Async = true
			sp.Stop.AtUs = ms(rng.Int64N(lastPub/1000+st.GraceUs/1000+1)) + 750
		} else {
			sp.Stop.AfterCalls = rng.IntN((total+2)*len(sp.Calls) + 1)
		}
	}
	// a stream which is never told to dry up has no use for its grace period: zero (or next to zero) is as good as any
	if st.Dry == "none" && rng.IntN(3) == 0 {
		st.GraceUs = []int64{0, 0, 1, 3}[rng.IntN(4)]
	}
	// slow consumer: one pause >= grace, usually immediately followed by the consumer's own DryUp()
	if (st.Dry == "async" || st.Dry == "inline") && sp.Fault == nil && sp.Stop == nil && rng.IntN(100) < 12 {
		st.SlowAfterItems = rng.IntN(total + 1)
		st.SlowIdleUs = st.GraceUs + ms(rng.Int64N(2*st.GraceUs/1000+1))
		if rng.IntN(10) < 7 {
			st.Dry, st.DryAtUs, st.DryAfterItems = "inline", 0, st.SlowAfterItems
		}
	}
	return sp
}

// ---- systematic part: small shapes x every fault position x stop positions --------------------------

var shapes = [][]int{{0}, {1}, {3}, {0, 0}, {0, 2}, {2, 0}, {1, 1}, {0, 0, 3}, {3, 2, 1}, {2, 0, 0, 1}, {0, 0, 0, 0}, {0, 1, 0, 1, 0}}
var sysPatterns = []string{"HG", "G", "HHG", "HGG", "GHH"}

func clone(sp *Spec) *Spec {
	b, _ := json.Marshal(sp)
	var c Spec
	_ = json.Unmarshal(b, &c)
	return &c
}

func withEvents(base *Spec, out *[]*Spec) {
	*out = append(*out, base)
	n := base.nPages()
	for p := 0; p < n; p++ {
		for _, w := range []string{"fetch", "iter"} {
			for _, t := range []int{1, 2, -1} {
				c := clone(base)
				c.Fault = &Fault{Where: w, Page: p, Times: t, Kind: []string{"", "notfound", "empty"}[(p+t+len(w)+3)%3]}
				*out = append(*out, c)
			}
		}
	}
	maxc := (base.nItems() + 2) * len(base.Calls)
	pos := map[int]bool{0: true, 1: true, 2: true, maxc / 2: true, maxc - 1: true, maxc: true}
	for k := range pos {
		if k < 0 {
			continue
		}
		for _, how := range []string{"stop", "close", "cancel"} {
			c := clone(base)
			c.Stop = &Stop{How: how, AfterCalls: k}
			*out = append(*out, c)
		}
	}
	for pg := 1; pg < base.nPages() && pg <= 4; pg++ {
		for _, how := range []string{"stop", "close", "cancel"} {
			c := clone(base)
			c.Stop = &Stop{How: how, InFetch: true, InFetchPage: pg}
			*out = append(*out, c)
		}
	}
}

func systematicPlain() []*Spec {
	var out []*Spec
	for _, kind := range []string{"static", "dynamic"} {
		for _, sh := range shapes {
			for _, pat := range sysPatterns {
				withEvents(&Spec{Kind: kind, Batches: []Batch{{Sizes: append([]int{}, sh...)}}, Calls: pat}, &out)
			}
		}
	}
	return out
}

func systematicStream() []*Spec {
	var out []*Spec
	for _, kind := range []string{"sstatic", "sdynamic"} {
		for _, sh := range shapes {
			n := len(sh)
			for mask := 0; mask < 1<<(n-1); mask++ {
				var bs []Batch
				cur := Batch{}
				for i, s := range sh {
					cur.Sizes = append(cur.Sizes, s)
					if i == n-1 || mask&(1<<i) != 0 {
						bs = append(bs, cur)
						cur = Batch{}
					}
				}
				for _, open := range []bool{false, true} {
					for pi, pat := range []string{"HG", "G", "HHG"} {
						for variant := 0; variant < 3; variant++ {
							sp := &Spec{Kind: kind, Open: open, Calls: pat}
							for b := range bs {
								nb := Batch{Sizes: append([]int{}, bs[b].Sizes...)}
								if b > 0 && variant > 0 {
									nb.PubUs = ms(int64(b)*15) + 250 // one batch every 15 ms
								}
								sp.Batches = append(sp.Batches, nb)
							}
							st := &Stream{BackoffUs: ms(10), SlowAfterItems: -1}
							sp.Stream = st
							st.GraceUs = sp.tol().Microseconds() * int64(len(bs)+3)
							switch variant {
							case 0: // everything already published, DryUp before iterating (the library's own test usage)
								st.Dry = "pre"
							case 1: // DryUp from another goroutine after the last publication
								st.Dry = "async"
								st.DryAtUs = ms(int64(len(bs))*15+int64(pi)) + 500
							case 2: // the consumer dries the stream up itself after the first item (or asynchronously early when there is none)
								if sp.nItems() > 0 {
									st.Dry, st.DryAfterItems = "inline", 1
								} else {
									st.Dry, st.DryAtUs = "async", ms(7)+500
								}
							}
							if !open && variant == 1 {
								st.Dry, st.DryAtUs = "none", 0 // known ending: must yield everything without DryUp
							}
							withEvents(sp, &out)
						}
					}
				}
			}
		}
	}
	return out
}

// ---- reporting -----------------------------------------------------------------------------------

type witness struct {
	Spec     *Spec      `json:"spec"`
	Result   *result    `json:"result"`
	Source   []srcEvent `json:"page_calls"`
	Total    int        `json:"items_in_collection"`
	TolUs    int64      `json:"granularity_us,omitempty"`
	Findings []string   `json:"findings"`
}

type collector struct {
	r  *vrun.Run
	mu sync.Mutex
}

// normalise keeps every case decidable: a consumer-side DryUp() that waits for the k-th item would never
// happen when a scripted failure makes that item unreachable (an open stream then polls for ever), so
// failure cases dry the stream up from another goroutine instead.
func normalise(sp *Spec) *Spec {
	if st := sp.Stream; st != nil && sp.Fault != nil && st.Dry == "inline" {
		st.Dry, st.DryAfterItems = "async", 0
		st.DryAtUs = lastPub(sp).Microseconds()/1000*1000 + st.GraceUs/1000*1000 + 500
	}
	return sp
}

func nontrivial(sp *Spec) bool {
	return sp.nPages() >= 2 || sp.Fault != nil || sp.Stop != nil || sp.isStream()
}

func evaluate(r *vrun.Run, sp *Spec, verbose bool) {
	canon, _ := json.Marshal(sp)
	res := runCase(sp, 120*time.Second)
	r.Case(string(canon), nontrivial(sp))
	r.Obs("cases_"+sp.Kind, 1)
	if res.Watchdog {
		r.Inconclusive("real-time watchdog (120 s) fired without a structural hang witness")
		return
	}
	fs, decided := judge(sp, res)
	src := res.src
	for _, d := range decided {
		r.ObsSet("clauses_decided", d)
		if !strings.HasPrefix(d, "fault:") {
			r.Obs("decided_"+d, 1)
		}
	}
	r.Obs("items_yielded_and_compared", int64(len(res.Yielded)))
	r.Obs("calls_HasNext_GetNext", int64(len(res.Calls)))
	r.Obs("page_fetches", int64(src.fetches))
	r.Obs("scripted_failures_fired", int64(src.faultFired))
	r.ObsSet("empty_page_classes", emptyClass(sp))
	r.ObsSet("call_patterns", sp.Calls)
	r.ObsSet("fault_classes", sp.Kind+":"+faultClass(sp))
	if res.StopSeq1 != 0 {
		r.Obs("stops_executed", 1)
		r.ObsSet("stop_kinds", sp.Kind+":"+sp.Stop.How+map[bool]string{true: ":async", false: ":inline"}[sp.Stop.Async])
	}
	if sp.Fault != nil && sp.Fault.Page == 0 && res.ctorErr != nil {
		r.Obs("constructor_failures_reported_as_error", 1)
	}
	if sp.isStream() {
		r.Obs("stream_polls_nothing_new", int64(src.idleFetches))
		r.Obs("stream_future_fetches", int64(src.futureFetches))
		if res.dryCalled {
			r.Obs("dryups_executed", 1)
			r.ObsSet("dry_modes", sp.Stream.Dry)
		}
		if res.slowDone {
			r.Obs("slow_consumer_pauses", 1)
		}
		if res.endCall >= 0 {
			r.ObsMax("max_virtual_duration_ms", res.Calls[res.endCall].T1Us/1000)
		}
	}
	if res.endCall >= 0 {
		r.ObsSet("ended_by", res.EndedBy)
	}
	var whats []string
	for _, f := range fs {
		whats = append(whats, f.what)
	}
	for _, f := range fs {
		if f.sig == nil {
			r.Inconclusive(f.what)
			if os.Getenv("C19_DEBUG") != "" {
				fmt.Printf("INCONCLUSIVE %s %s\n", f.what, canon)
			}
			continue
		}
		w := witness{Spec: sp, Result: trim(res), Source: src.events, Total: src.total, Findings: whats}
		if sp.Stream != nil {
			w.TolUs = sp.tol().Microseconds()
		}
		r.Violation(f.sig, f.what, w)
	}
	if verbose {
		b, _ := json.MarshalIndent(witness{Spec: sp, Result: res, Source: src.events, Total: src.total, Findings: whats}, "", " ")
		fmt.Println(string(b))
	}
	if len(fs) == 0 && r.WantSample() && sp.nPages() >= 3 && len(res.Yielded) > 0 {
		r.Sample(map[string]any{"spec": sp, "yielded": len(res.Yielded), "of": src.total, "ended_by": res.EndedBy, "calls": len(res.Calls), "page_fetches": src.fetches})
	}
}

func trim(res *result) *result {
	c := *res
	if len(c.Calls) > 120 {
		c.Calls = c.Calls[len(c.Calls)-120:]
	}
	return &c
}

// selfTest: the hang witness really is available — a bubble whose only goroutine blocks forever makes
// synctest.Run panic, and runCase's recover classifies it.
func selfTest(r *vrun.Run) {
	got := ""
	func() {
		defer func() {
			if p := recover(); p != nil {
				got = fmt.Sprint(p)
			}
		}()
		synctest.Run(func() {
			ch := make(chan struct{})
			<-ch
		})
	}()
	if !strings.Contains(got, "deadlock") || !strings.Contains(got, "bubble") {
		r.Fatalf("synctest did not report a blocked bubble as expected (got %q): the hang witness is unavailable", got)
	}
	// virtual clock: a 1 h sleep must not take real time
	t0 := time.Now()
	vc := make(chan time.Duration, 1)
	synctest.Run(func() {
		s := time.Now()
		time.Sleep(time.Hour)
		vc <- time.Since(s)
	})
	virt := <-vc
	if virt != time.Hour || time.Since(t0) > 5*time.Second {
		r.Fatalf("synctest virtual clock not in effect (virtual %v, real %v)", virt, time.Since(t0))
	}
	r.Obs("selftest_bubble_deadlock_witness", 1)
}

func main() {
	r := vrun.Start("C19", "exploration")
	// go-deadlock (used by the library's CancelFunctionStore) arms a pooled time.Timer per Lock call; timers
	// recycled through its global pool may not move between synctest bubbles ("timer moved between synctest
	// bubbles"), so its lock-wait timeout is switched off in the harness process. Locks still lock.
	deadlock.Opts.DeadlockTimeout = 0
	deadlock.Opts.OnPotentialDeadlock = func() {
		fmt.Fprintln(os.Stderr, "go-deadlock reported a potential deadlock (not fatal in the harness)")
	}
	r.Rule("one case = (paginator kind, pages as batches of next-linked pages with publication times, call pattern over {H,G} repeated to exhaustion, " +
		"optional scripted failure (page p fetch | GetItemIterator, 1x/2x/always), optional Stop/Close/cancel (inline at call k | asynchronous), stream: grace/back-off/latency/consumer pauses/DryUp mode). " +
		"Systematic part: 12 small shapes incl. every empty-page placement x call patterns x every failure position x stop positions (streams: every split into batches, open/known ending, 3 DryUp variants); " +
		"random part: 1..20 pages x 0..10 items from r.Rand(kind,i). distinct = canonical JSON of the case; non-trivial = at least two pages, or a failure/stop, or a stream paginator")
	r.Assume("the scripted pages are the trusted base: ids 1..N in page order, GetItemIterator returns a fresh iterator from the page's first item, fetch functions honour a cancelled context",
		"go-deadlock's lock-wait timeout (a pooled timer that cannot cross bubbles) is switched off in the harness process; the mutexes themselves are unchanged",
		"testing/synctest (go1.24 experiment) provides the virtual clock and the blocked-bubble panic; verified by a self-test at start-up",
		"stream timing is judged only up to the polling granularity tol = 2*backoff + latency*(pages+2) + consumer pause*(items+4); generated grace periods are >= (batches+2)*tol")

	if r.Replay != "" {
		var w witness
		if err := r.ReadReplay(&w); err != nil || w.Spec == nil {
			r.Fatalf("cannot read witness %s: %v", r.Replay, err)
		}
		evaluate(r, w.Spec, true)
		r.Finish()
	}
	selfTest(r)

	var cases []*Spec
	// systematic
	plain := systematicPlain()
	cases = append(cases, plain...)
	sys := systematicStream()
	if r.Quick() {
		rng := r.Rand("c19-sys-sample", 0)
		keep := 2500
		for _, sp := range sys {
			if rng.IntN(len(sys)) < keep {
				cases = append(cases, sp)
			}
		}
	} else {
		cases = append(cases, sys...)
	}
	r.Extra("systematic_cases", map[string]int{"plain": len(plain), "stream_available": len(sys)})
	// random
	nPlain := r.Pick(2500, 300_000)
	nStream := r.Pick(2500, 300_000)
	for i := 0; i < nPlain; i++ {
		cases = append(cases, genPlain(r.Rand("c19-plain", i), []string{"static", "dynamic"}[i%2]))
	}
	for i := 0; i < nStream; i++ {
		cases = append(cases, genStream(r.Rand("c19-stream", i), []string{"sstatic", "sdynamic"}[i%2]))
	}

	vrun.Parallel(len(cases), 0, func(i int) { evaluate(r, normalise(cases[i]), false) })

	r.Require("evaluations", int64(r.Pick(8000, 600_000)))
	r.Require("distinct_nontrivial", int64(r.Pick(5000, 500_000)))
	for _, k := range []string{"cases_static", "cases_dynamic", "cases_sstatic", "cases_sdynamic"} {
		r.Require(k, 1000)
	}
	r.Require("items_yielded_and_compared", 50_000)
	r.Require("decided_complete", 1000)
	r.Require("decided_stream-complete", 500)
	r.Require("decided_no-end-before-dryup", 500)
	r.Require("decided_published-before-dryup-yielded", 300)
	r.Require("decided_grace-elapsed-before-end", 300)
	r.Require("decided_terminates-after-dryup-grace", 500)
	r.Require("decided_hasnext-idempotent", 500)
	r.Require("decided_ctor-failure-reported", 200)
	r.Require("constructor_failures_reported_as_error", 100)
	r.Require("scripted_failures_fired", 500)
	r.Require("stops_executed", 300)
	r.Require("dryups_executed", 500)
	r.Require("stream_polls_nothing_new", 1000)
	r.Require("slow_consumer_pauses", 20)
	r.Require("empty_page_classes", 6)
	r.Finish()
}
