package main

// The oracle. Written from the property statement:
//
//   (seq)   what is yielded is, at every moment, a prefix of 1,2,3,… (the concatenation of the pages in
//           page order then in-page order): no item twice, none skipped, none foreign — under every call
//           mix, stop and timing; under a scripted failure: for everything yielded before the paginator
//           reported the end;
//   (all)   when the iteration ends by itself (no failure, no stop) every item of the collection was
//           yielded; stream: every item of every page handed to the paginator, all items when the stream
//           reached its known ending, and — while the consumer kept calling — every item published
//           before DryUp();
//   (idem)  HasNext is idempotent: true,true / false,false without an intervening GetNext;
//   (stop)  no call that starts after Stop/Close/cancel returned yields an item;
//   (ctor)  a constructor whose first page fetch or first GetItemIterator failed returns an error (never
//           (nil, nil), never a paginator with a nil error); a healthy first page gives a paginator;
//   (dry)   a stream with a future never reports its end before DryUp() was called (logical order), nor
//           earlier than grace after DryUp() (virtual clock, up to the polling granularity Spec.tol);
//   (term)  after DryUp()+grace with nothing more published the iteration ends (virtual-time bound:
//           30 x (grace+tol) after the last scripted event); a blocked bubble is a hang.
//
// Don't care: error kinds; what HasNext/GetNext answer after a scripted failure made the paginator report
// the end (retries); items published after DryUp(); items published before DryUp() when the consumer
// itself stayed away until grace had elapsed; ends earlier than DryUp()+grace by less than tol;
// GetCurrentPage/IsRunningDry; behaviour with fetch functions that ignore a cancelled context.

import (
	"fmt"
	"time"

	"verif/internal/vrun"
)

type finding struct {
	sig  vrun.Sig
	what string
}

func faultClass(sp *Spec) string {
	if sp.Fault == nil {
		return "no-fault"
	}
	link := "first"
	if sp.Fault.Page > 0 {
		link = "next"
		n := 0
		for _, b := range sp.Batches {
			if n == sp.Fault.Page {
				link = "future"
			}
			n += len(b.Sizes)
		}
	}
	t := "transient"
	if sp.Fault.Times < 0 {
		t = "persistent"
	}
	if sp.Fault.Where == "iter" {
		return "item-iterator-of-" + link + "-page-fails-" + t
	}
	return "fetch-of-" + link + "-page-fails-" + t
}

func faultKind(sp *Spec) string {
	switch {
	case sp.Fault == nil:
		return "none"
	case sp.Fault.Where == "iter":
		return "item-iterator-fails"
	}
	return "page-fetch-fails"
}

func ctorName(kind string) string {
	switch kind {
	case "static":
		return "NewStaticPagePaginator"
	case "dynamic":
		return "NewCollectionPaginator"
	case "sstatic":
		return "NewStaticPageStreamPaginator"
	}
	return "NewStreamPaginator"
}

// judge returns the refuting observations of one executed case and the names of the oracle clauses
// that were actually decided (for the evidence).
func judge(sp *Spec, res *result) (out []finding, decided []string) {
	add := func(ep, pre, effect, what string) {
		out = append(out, finding{vrun.Sig{"kind": sp.Kind, "ep": ep, "pre": pre, "effect": effect, "fault": faultKind(sp)}, what})
	}
	src := res.src
	fc := faultClass(sp)

	// ---- (ctor) ------------------------------------------------------------------------------------
	ctorMustFail := sp.Fault != nil && sp.Fault.Page == 0 && sp.Fault.Times != 0
	if res.Panic != "" {
		add("panic", fc, "panic", "library panicked: "+res.Panic)
		return
	}
	if ctorMustFail {
		decided = append(decided, "ctor-failure-reported")
		fc = "first-page-fetch-fails"
		if sp.Fault.Where == "iter" {
			fc = "first-page-item-iterator-fails"
		}
		if res.ctorErr == nil {
			eff := "paginator-returned-without-error"
			if res.CtorNil {
				eff = "nil-paginator-nil-error"
			}
			add(ctorName(sp.Kind), fc, eff, fmt.Sprintf("%s: %s, yet the constructor returned (%s, nil error)",
				ctorName(sp.Kind), fc, map[bool]string{true: "nil paginator", false: "a paginator"}[res.CtorNil]))
		}
		return
	}
	if res.ctorErr != nil || res.CtorNil {
		add(ctorName(sp.Kind), fc, "constructor-failed-on-healthy-first-page",
			fmt.Sprintf("%s failed although the first page and its iterator were served: nil=%v err=%v", ctorName(sp.Kind), res.CtorNil, res.ctorErr))
		return
	}
	decided = append(decided, "ctor-success")

	// ---- structural hang -----------------------------------------------------------------------------
	if res.Deadlock != "" {
		add("iteration", fc, "hang-bubble-deadlock", "synctest reports every goroutine of the bubble durably blocked with no timer pending: "+res.Deadlock)
		return
	}

	stopped := res.StopSeq1 != 0
	faulted := src.faultFired > 0
	total := src.total

	// ---- (seq) ---------------------------------------------------------------------------------------
	decided = append(decided, "sequence-prefix")
	judged := res.Yielded
	if sp.Fault != nil && res.endCall >= 0 {
		// After a scripted failure made the paginator report the end, what a retrying consumer gets is
		// outside "iterating to exhaustion": only the yields before the end was reported are judged.
		n := 0
		for _, c := range res.Calls[:res.endCall] {
			if c.Op == "G" && c.Err == "" {
				n++
			}
		}
		judged = res.Yielded[:n]
	}
	for i, id := range judged {
		want := i + 1
		if id == want {
			continue
		}
		eff, what := "", ""
		switch {
		case id == 0:
			eff, what = "foreign-item", fmt.Sprintf("yield #%d is not an item of the collection (nil or foreign value with nil error)", want)
		case id < want:
			eff, what = "duplicate", fmt.Sprintf("item %d yielded again as yield #%d", id, want)
		case want > total:
			eff, what = "foreign-item", fmt.Sprintf("yield #%d = item %d: more items than the collection has (%d)", want, id, total)
		default:
			eff, what = "gap", fmt.Sprintf("yield #%d = item %d: items %d..%d skipped", want, id, want, id-1)
		}
		pre := fc
		if stopped {
			pre += ",stopped"
		}
		add("GetNext", pre, eff, what+fmt.Sprintf(" (calls %q, pages %v)", sp.Calls, sp.Batches))
		break
	}

	// ---- (stop) --------------------------------------------------------------------------------------
	if stopped {
		decided = append(decided, "nothing-after-"+sp.Stop.How)
		for _, c := range res.Calls {
			if sp.Stop.InFetch && c.Op == "G" && c.Err == "" && c.Seq0 < res.StopSeq0 && c.Seq1 > res.StopSeq1 {
				// the stop was issued (and had returned) inside this very call, from the page request it made
				add("GetNext", "during-"+sp.Stop.How+"-issued-from-its-own-page-request", "yielded-after-stop",
					fmt.Sprintf("%s was issued and had returned inside the request for page %d made by this GetNext, which still yielded item %d", sp.Stop.How, sp.Stop.InFetchPage, c.Item))
				break
			}
			if c.Op == "G" && c.Err == "" && c.Seq0 > res.StopSeq1 {
				add("GetNext", "after-"+sp.Stop.How, "yielded-after-stop",
					fmt.Sprintf("GetNext started after %s had returned and still yielded item %d", sp.Stop.How, c.Item))
				break
			}
		}
	}

	// ---- (idem) --------------------------------------------------------------------------------------
	for i := 1; i < len(res.Calls); i++ {
		a, b := res.Calls[i-1], res.Calls[i]
		if a.Has == nil || b.Has == nil || sp.Fault != nil || src.runaway != "" {
			continue
		}
		if stopped && res.StopSeq1 > a.Seq0 && res.StopSeq0 < b.Seq1 {
			continue // the stop overlaps the pair
		}
		if *a.Has && !*b.Has {
			decided = append(decided, "hasnext-idempotent")
			add("HasNext", "two-consecutive-HasNext", "true-then-false", fmt.Sprintf("HasNext returned true and, with no GetNext in between, false (call %d)", i))
			break
		}
		if *a.Has && *b.Has {
			decided = append(decided, "hasnext-idempotent")
		}
		if !*a.Has && !*b.Has {
			decided = append(decided, "hasnext-idempotent-at-end")
		}
		if !*a.Has && *b.Has && !sp.isStream() {
			add("HasNext", "two-consecutive-HasNext", "false-then-true", fmt.Sprintf("HasNext returned false and then true (call %d)", i))
			break
		}
	}

	// ---- runaway --------------------------------------------------------------------------------------
	if src.runaway != "" {
		endedBefore := res.endCall >= 0 && res.Calls[res.endCall].Seq1 < src.runawaySeq
		switch {
		case endedBefore:
			// only the epilogue probes ran away (e.g. after a wrongly reported end): nothing more to say
		case src.runaway == "virtual-time" && res.dryCalled && !stopped && !faulted:
			decided = append(decided, "terminates-after-dryup-grace")
			add("iteration", "dryup-called,nothing-more-published", "no-termination",
				fmt.Sprintf("still polling at virtual time %v: DryUp at %v, grace %v, last publication %v", src.timeBound, res.DryT, us(sp.Stream.GraceUs), lastPub(sp)))
		case src.runaway == "virtual-time" && !stopped && !faulted:
			add("iteration", "published-items-pending", "starved",
				fmt.Sprintf("the consumer was still blocked at virtual time %v with %d of %d items yielded; last publication %v", src.timeBound, len(res.Yielded), total, lastPub(sp)))
		default:
			out = append(out, finding{nil, "runaway:" + src.runaway}) // inconclusive marker
		}
		return
	}
	if res.EndedBy == "call-budget" {
		out = append(out, finding{nil, "call-budget"})
		return
	}
	if res.dryCalled && !stopped && !faulted && sp.Open {
		decided = append(decided, "terminates-after-dryup-grace")
	}

	// ---- (all) / (dry): only when the iteration ended by itself --------------------------------------
	if stopped || faulted || res.endCall < 0 {
		if faulted {
			decided = append(decided, "fault:"+fc)
		}
		return
	}
	end := res.Calls[res.endCall]
	nMain := 0 // items yielded before the end was reported
	for _, c := range res.Calls[:res.endCall] {
		if c.Op == "G" && c.Err == "" {
			nMain++
		}
	}
	if !sp.isStream() {
		decided = append(decided, "complete")
		if nMain < total {
			add(opName(end.Op), fc+","+emptyClass(sp), "items-never-yielded",
				fmt.Sprintf("%s reported the end after %d of %d items (calls %q, pages %v)", opName(end.Op), nMain, total, sp.Calls, sp.Batches))
		}
		return
	}

	st := sp.Stream
	told := res.dryCalled && res.DrySeq0 < end.Seq1
	terminal := src.terminalSeq != 0 && src.terminalSeq < end.Seq1
	consumer := "prompt-consumer"
	if st.SlowAfterItems >= 0 {
		consumer = "consumer-paused>=grace"
	}
	if !terminal {
		decided = append(decided, "no-end-before-dryup")
		if !told {
			add("stream."+opName(end.Op), "stream-has-future,dryup-not-called", "end-of-stream-reported",
				fmt.Sprintf("%s reported the end at %v although the current page has a future and DryUp() had not been called (%d of %d items yielded)",
					opName(end.Op), us(end.T1Us), nMain, total))
			return
		}
	}
	// (dry, clock) told, and the stream still has a future: not before grace after DryUp(), up to the
	// polling granularity. The one long consumer pause is NOT part of the granularity: the statement
	// counts the grace period from the moment the paginator was told.
	if told && !terminal {
		decided = append(decided, "grace-elapsed-before-end")
		earliest := res.DryT + us(st.GraceUs) - sp.tol()
		if us(end.T1Us) < earliest {
			pending := 0
			for _, p := range src.pages {
				if p.pub == 0 || p.pub < res.DryT {
					pending += len(p.items)
				}
			}
			loss := "no-item-lost"
			if nMain < pending {
				loss = "items-published-before-dryup-lost"
			}
			out = append(out, finding{vrun.Sig{"kind": sp.Kind, "ep": "stream." + opName(end.Op), "pre": consumer + ",dryup-called", "effect": "ended-before-grace-elapsed", "fault": "none", "loss": loss},
				fmt.Sprintf("%s reported the end at %v after %d of %d items; DryUp() was called at %v, grace %v (granularity allowed for: %v): not before %v",
					opName(end.Op), us(end.T1Us), nMain, total, res.DryT, us(st.GraceUs), sp.tol(), earliest)})
			return
		}
	}
	// (all) every page that was handed to the paginator before it reported the end
	held := 0
	for _, p := range src.pages {
		if p.deliveredAt != 0 && p.deliveredAt < end.Seq1 {
			held += len(p.items)
		} else {
			break
		}
	}
	decided = append(decided, "stream-complete")
	if nMain < held {
		add("stream."+opName(end.Op), consumer, "delivered-page-not-yielded",
			fmt.Sprintf("%s reported the end at %v after %d items although pages holding %d items had been handed to the paginator", opName(end.Op), us(end.T1Us), nMain, held))
		return
	}
	must, why := 0, ""
	switch {
	case terminal:
		must, why = total, "in the stream, which reached its known ending"
	case res.slowDone && res.SlowEndT > res.DryT:
		// the consumer itself was away during (part of) the window between DryUp() and the end: the
		// paginator was not being asked, nothing can be demanded beyond the clock clause above
		must, why = 0, ""
	default:
		for _, p := range src.pages {
			if p.pub == 0 || p.pub < res.DryT {
				must += len(p.items)
			} else {
				break
			}
		}
		why = fmt.Sprintf("published before DryUp() at %v", res.DryT)
		decided = append(decided, "published-before-dryup-yielded")
	}
	if nMain < must {
		add("stream."+opName(end.Op), consumer+",dryup-called", "published-before-dryup-not-yielded",
			fmt.Sprintf("%s reported the end at %v after %d items; %d items were %s (grace %v, back-off %v)",
				opName(end.Op), us(end.T1Us), nMain, must, why, us(st.GraceUs), us(st.BackoffUs)))
	}
	return
}

func opName(op string) string {
	if op == "H" {
		return "HasNext"
	}
	return "GetNext"
}

func lastPub(sp *Spec) time.Duration {
	l := int64(0)
	for _, b := range sp.Batches {
		if b.PubUs > l {
			l = b.PubUs
		}
	}
	return us(l)
}

// emptyClass names where the empty pages of the collection are.
func emptyClass(sp *Spec) string {
	var sizes []int
	for _, b := range sp.Batches {
		sizes = append(sizes, b.Sizes...)
	}
	n := len(sizes)
	any, first, last, mid, consec := false, false, false, false, false
	for i, s := range sizes {
		if s != 0 {
			continue
		}
		any = true
		if i == 0 {
			first = true
		}
		if i == n-1 {
			last = true
		}
		if i > 0 && i < n-1 {
			mid = true
		}
		if i > 0 && sizes[i-1] == 0 {
			consec = true
		}
	}
	if !any {
		return "no-empty-page"
	}
	if sp.nItems() == 0 {
		return "empty-collection"
	}
	s := "empty"
	if first {
		s += "-first"
	}
	if mid {
		s += "-middle"
	}
	if last {
		s += "-last"
	}
	if consec {
		s += "-consecutive"
	}
	return s
}
