package main

import (
	"archive/tar"
	"archive/zip"
	"bytes"
	"context"
	"fmt"
	"io"
	"os"
	"path/filepath"
	"sort"
	"sync/atomic"
	"syscall"

	"github.com/spf13/afero"

	"github.com/ARM-software/golang-utils/utils/filesystem"

	"verif/internal/fsmon"
	"verif/internal/vrun"
)

// fileCase: one file content (plus a second, different one) on one backend, hashed through every
// file entry point, fresh and after failed / cancelled calculations on the same IFileHash object.
type fileCase struct {
	Part     string      `json:"part"` // F
	ID       int         `json:"id"`
	Backend  string      `json:"backend"` // os | mem
	Algo     string      `json:"algo"`
	Content  contentSpec `json:"content"`
	Content2 contentSpec `json:"content2"`
}

func (f fileCase) canonical() string {
	return fmt.Sprintf("F|%s|%s|%s|%s", f.Backend, f.Algo, f.Content, f.Content2)
}

// tracker summarises what happened so far on one hasher object.
type tracker struct {
	n                                      int
	failAny, failMid, cancelAny, cancelMid bool
}

func (t *tracker) note(errored, isCancel, deliveredAny bool) {
	t.n++
	if !errored {
		return
	}
	if isCancel {
		t.cancelAny = true
		t.cancelMid = t.cancelMid || deliveredAny
	} else {
		t.failAny = true
		t.failMid = t.failMid || deliveredAny
	}
}

func pick(fail, cancel bool) string {
	switch {
	case fail && cancel:
		return "mixed"
	case cancel:
		return "cancelled"
	}
	return "reader error"
}

func (t *tracker) pre() (pre, cause string, midway bool) {
	switch {
	case t.n == 0:
		return "fresh hasher", "none", false
	case t.failMid || t.cancelMid:
		return "previous calculation failed midway", pick(t.failMid, t.cancelMid), true
	case t.failAny || t.cancelAny:
		return "previous calculation failed before the first byte", pick(t.failAny, t.cancelAny), false
	}
	return "previous calculations succeeded", "none", false
}

type fileEvent struct {
	Ep   string `json:"ep"`
	Pre  string `json:"pre,omitempty"`
	Path string `json:"path,omitempty"`
	Err  string `json:"err,omitempty"`
	Got  string `json:"got,omitempty"`
	Want string `json:"want,omitempty"`
	Note string `json:"note,omitempty"`
}

func putFile(fs filesystem.FS, path string, data []byte) error {
	if len(data) == 0 {
		f, err := fs.CreateFile(path)
		if err != nil {
			return err
		}
		return f.Close()
	}
	return fs.WriteFile(path, data, 0o644)
}

func readBack(fs filesystem.FS, backend, path string) ([]byte, error) {
	if backend == "os" {
		return os.ReadFile(path)
	}
	f, err := fs.GenericOpen(path)
	if err != nil {
		return nil, err
	}
	defer func() { _ = f.Close() }()
	return io.ReadAll(f)
}

func (m *monitor) runFileCase(fc fileCase) (judged int, nontrivial bool) {
	a := algoByName(fc.Algo)
	if a == nil {
		m.r.Fatalf("unknown algorithm %q", fc.Algo)
	}
	data, data2 := m.bytesOf(fc.Content), m.bytesOf(fc.Content2)
	want := map[string]string{}
	var fs filesystem.FS
	var base string
	var monBase afero.Fs
	if fc.Backend == "os" {
		fs = filesystem.NewStandardFileSystem()
		base = filepath.Join(m.scratch, fmt.Sprintf("f%d", fc.ID))
		monBase = filesystem.NewExtendedOsFs()
	} else {
		fs = filesystem.NewInMemoryFileSystem()
		base = "/c20/f"
		monBase = afero.NewMemMapFs()
	}
	mon := fsmon.NewMonitor(false)
	monFS := filesystem.NewVirtualFileSystem(fsmon.New(monBase, "c20", mon), filesystem.StandardFS, filesystem.IdentityPathConverterFunc)
	p1, p2, dir := filepath.Join(base, "content.bin"), filepath.Join(base, "second.bin"), filepath.Join(base, "adir")
	want[p1], want[p2] = a.Ref(data), a.Ref(data2)
	bytesAt := map[string][]byte{p1: data, p2: data2}
	setup := func(f filesystem.FS, backend string) bool {
		if err := f.MkDir(dir); err != nil {
			m.r.Inconclusive("file setup failed: " + err.Error())
			return false
		}
		for p, b := range bytesAt {
			if err := putFile(f, p, b); err != nil {
				m.r.Inconclusive("file setup failed: " + err.Error())
				return false
			}
			rb, err := readBack(f, backend, p)
			if err != nil || string(rb) != string(b) {
				m.r.Inconclusive("file content read back differs from what was written (not a C20 matter)")
				return false
			}
		}
		return true
	}
	if !setup(fs, fc.Backend) {
		return
	}
	if fc.Backend == "os" {
		defer func() { _ = os.RemoveAll(base) }()
	} else if !setup(monFS, "mem") {
		return
	}

	var log []fileEvent
	witness := func() any {
		return map[string]any{"seed": m.r.Seed, "case": fc, "events": log,
			"how": "events in order; 'pre' describes the earlier calculations on the same IFileHash object"}
	}
	defer func() {
		if p := recover(); p != nil {
			m.r.Violation(vrun.Sig{"ep": "FileHash", "effect": "panic", "pre": "any", "backend": fc.Backend}, fmt.Sprintf("%s: file hashing panicked: %v", a.Name, p), witness())
		}
	}()
	// judge one successful digest of the file at path
	judge := func(ep string, t *tracker, path, got string, err error) {
		pre, cause, _ := t.pre()
		ev := fileEvent{Ep: ep, Pre: pre, Path: filepath.Base(path), Got: got, Want: want[path]}
		if err != nil {
			ev.Err = err.Error()
			log = append(log, ev)
			m.r.Inconclusive("hashing an existing regular file returned an error: outside the property")
			t.note(true, false, false)
			return
		}
		log = append(log, ev)
		t.note(false, false, false)
		judged++
		m.count(pre, cause)
		m.fileEps.add(fc.Backend + "/" + ep)
		if len(bytesAt[path]) > 0 {
			nontrivial = true
		}
		if got != want[path] {
			m.r.Violation(vrun.Sig{"ep": "FileHash", "pre": pre, "cause": cause, "effect": "wrong digest", "backend": fc.Backend},
				fmt.Sprintf("%s %s(%s file of %d bytes) = %s, reference of its bytes %s [%s (%s)]", a.Name, ep, fc.Backend, len(bytesAt[path]), got, want[path], pre, cause), witness())
		}
	}
	bg := context.Background()
	live, cancelLive := context.WithCancel(bg)
	defer cancelLive()

	// 1. FS.FileHash* (the library builds a fresh hasher per call)
	{
		g, err := fs.FileHash(a.Name, p1)
		judge("FS.FileHash", &tracker{}, p1, g, err)
		g, err = fs.FileHashWithContext(live, a.Name, p1)
		judge("FS.FileHashWithContext", &tracker{}, p1, g, err)
		g, err = fs.FileHash(a.Name, p2)
		judge("FS.FileHash", &tracker{}, p2, g, err)
	}
	newFH := func() filesystem.IFileHash {
		fh, err := filesystem.NewFileHash(a.Name)
		if err != nil || fh == nil {
			m.r.Inconclusive("constructor failed for " + a.Name)
			return nil
		}
		return fh
	}
	// probe number i on fh: one of the four entry points, on p1 or p2
	probe := func(fh filesystem.IFileHash, t *tracker, i int) {
		path := p2
		if i%3 == 2 {
			path = p1
		}
		switch i % 4 {
		case 0:
			g, err := fh.CalculateFile(fs, path)
			judge("IFileHash.CalculateFile", t, path, g, err)
		case 1:
			g, err := fh.CalculateFileWithContext(live, fs, path)
			judge("IFileHash.CalculateFileWithContext", t, path, g, err)
		case 2:
			f, err := fs.GenericOpen(path)
			if err != nil {
				m.r.Inconclusive("open failed: " + err.Error())
				return
			}
			g, err := fh.Calculate(f)
			_ = f.Close()
			judge("IFileHash.Calculate", t, path, g, err)
		default:
			f, err := fs.GenericOpen(path)
			if err != nil {
				m.r.Inconclusive("open failed: " + err.Error())
				return
			}
			g, err := fh.CalculateWithContext(bg, f)
			_ = f.Close()
			judge("IFileHash.CalculateWithContext", t, path, g, err)
		}
	}
	// 2. one IFileHash object, successes only, every entry point on both files
	if fh := newFH(); fh != nil {
		t := &tracker{}
		for i := 0; i < 8; i++ {
			probe(fh, t, i)
		}
	}
	// 2b. the same IFileHash object, after the file was rewritten in place with other bytes of the same length and given
	// its previous modification time back (an extraction restoring times, cp -p, a coarse clock): the digest follows the bytes
	if fh := newFH(); fh != nil && len(data) > 0 {
		t := &tracker{}
		g, err := fh.CalculateFile(fs, p1)
		judge("IFileHash.CalculateFile", t, p1, g, err)
		if st, serr := fs.Stat(p1); serr == nil {
			other := append([]byte(nil), data...)
			for i := range other {
				other[i] ^= 0x5a
			}
			if werr := putFile(fs, p1, other); werr == nil {
				_ = fs.Chtimes(p1, st.ModTime(), st.ModTime())
				want[p1], bytesAt[p1] = a.Ref(other), other
				m.rewrittenSameStamp.Add(1)
				g, err = fh.CalculateFile(fs, p1)
				judge("IFileHash.CalculateFile(after an in-place rewrite with the same length and time)", t, p1, g, err)
				g, err = fh.CalculateFileWithContext(live, fs, p1)
				judge("IFileHash.CalculateFileWithContext(after an in-place rewrite with the same length and time)", t, p1, g, err)
				// back to the original bytes for what follows
				if werr := putFile(fs, p1, data); werr == nil {
					_ = fs.Chtimes(p1, st.ModTime(), st.ModTime())
					want[p1], bytesAt[p1] = a.Ref(data), data
					g, err = fh.CalculateFile(fs, p1)
					judge("IFileHash.CalculateFile(after an in-place rewrite with the same length and time)", t, p1, g, err)
				}
			}
		}
	}
	// 3. failures on the IFileHash object, then a probe
	rng := m.r.Rand("c20-file", fc.ID)
	pickK := func() int {
		l := len(data)
		ks := []int{0, 1, a.Block, a.Block + 1, l / 2, l - 1, l, 32768, 32769}
		k := ks[rng.IntN(len(ks))]
		if k > l {
			k = l
		}
		if k < 0 {
			k = 0
		}
		return k
	}
	fail := func(kind string, fh filesystem.IFileHash, t *tracker) {
		ev := fileEvent{Ep: kind, Path: filepath.Base(p1)}
		switch kind {
		case "precancelled":
			ctx, c := context.WithCancel(bg)
			c()
			_, err := fh.CalculateFileWithContext(ctx, fs, p1)
			t.note(err != nil, true, false)
			ev.Err = errStr(err)
		case "not-a-file":
			_, err := fh.CalculateFile(fs, dir)
			t.note(err != nil, false, false)
			ev.Err = errStr(err)
			_, err = fh.CalculateFile(fs, filepath.Join(base, "missing.bin"))
			t.note(err != nil, false, false)
		case "file-read-error", "file-cancel":
			f, err := fs.GenericOpen(p1)
			if err != nil {
				m.r.Inconclusive("open failed: " + err.Error())
				return
			}
			k := pickK()
			rd := newScriptReader(f, len(data), newChunker(chunkStyles[rng.IntN(13)], m.r.Rand("c20-file-chunk", fc.ID)))
			sf := &scriptedFile{File: f, rd: rd}
			var g string
			if kind == "file-read-error" {
				rd.failAt, rd.failErr, rd.failWithData = k, errInjected, rng.IntN(2) == 0
				g, err = fh.Calculate(sf)
				t.note(err != nil, false, rd.pos > 0)
			} else {
				ctx, c := context.WithCancel(bg)
				rd.cancelAt, rd.cancel = k, c
				g, err = fh.CalculateWithContext(ctx, sf)
				c()
				if err == nil && rd.sawEOF && rd.pos == len(data) && !rd.srcShort {
					_ = f.Close()
					m.cancelCompleted.Add(1)
					judge("IFileHash.CalculateWithContext", t, p1, g, nil)
					return
				}
				t.note(err != nil, true, rd.pos > 0)
			}
			_ = f.Close()
			ev.Note = fmt.Sprintf("k=%d delivered=%d chunk=%s", k, rd.pos, rd.ch.style)
			ev.Err = errStr(err)
			if err != nil {
				m.fileFailures.add(fc.Backend + "/" + kind)
				if rd.pos > 0 {
					m.fileFailMid.Add(1)
				}
			}
		case "backend-read-error":
			j := rng.IntN(2)
			// the one read which fails does so for various reasons, transient ones (a deadline of the device, an i/o timeout) included
			injected := []error{errInjected, os.ErrDeadlineExceeded, fmt.Errorf("read %s: i/o timeout", filepath.Base(p1)), syscall.ETIMEDOUT, syscall.EINTR}[rng.IntN(5)]
			var reads, delivered atomic.Int64
			mon.Before = func(e *fsmon.Event) {
				if e.Op == fsmon.OpFRead && filepath.Clean(e.Path) == filepath.Clean(p1) {
					if reads.Add(1)-1 == int64(j) {
						e.Inject = injected
					}
				}
			}
			mon.After = func(e *fsmon.Event) {
				if e.Op == fsmon.OpFRead && filepath.Clean(e.Path) == filepath.Clean(p1) {
					delivered.Add(int64(e.N))
				}
			}
			g, err := fh.CalculateFile(monFS, p1)
			mon.Before, mon.After = nil, nil
			if err == nil {
				// the failure was not reported: whatever the library did about it (ignored it, tried again), the digest it
				// vouches for must be the one of the file
				m.swallowedBackendFaults.Add(1)
				judge("IFileHash.CalculateFile#after-a-backend-read-fault-it-did-not-report", t, p1, g, nil)
				return
			}
			t.note(err != nil, false, delivered.Load() > 0)
			ev.Note = fmt.Sprintf("File.Read #%d of the backend fails (%v); delivered=%d", j, injected, delivered.Load())
			ev.Err = errStr(err)
			if err != nil {
				m.fileFailures.add(fc.Backend + "/" + kind)
				if delivered.Load() > 0 {
					m.fileFailMid.Add(1)
				}
			}
		}
		log = append(log, ev)
	}
	kinds := []string{"precancelled", "not-a-file", "file-read-error", "file-cancel", "backend-read-error"}
	for i, kind := range kinds {
		fh := newFH()
		if fh == nil {
			return
		}
		t := &tracker{}
		fail(kind, fh, t)
		probe(fh, t, i+fc.ID)
		probe(fh, t, i+fc.ID+1)
	}
	if fh := newFH(); fh != nil { // chained: every failure kind on one object, probing after each
		t := &tracker{}
		for i, kind := range kinds {
			fail(kind, fh, t)
			probe(fh, t, i+fc.ID+2)
		}
	}
	return
}

func errStr(err error) string {
	if err == nil {
		return ""
	}
	return err.Error()
}

// ---- files whose reported size says nothing about their content --------------------------------------

// zeroSizeFs reports a size of 0 for every regular file (a backend which does not know sizes, like the kernel's
// pseudo-files); contents are served normally.
type zeroSizeFs struct{ afero.Fs }

type zeroInfo struct{ os.FileInfo }

func (z zeroInfo) Size() int64 {
	if z.FileInfo.IsDir() {
		return z.FileInfo.Size()
	}
	return 0
}

type zeroFile struct{ afero.File }

func (f zeroFile) Stat() (os.FileInfo, error) {
	fi, err := f.File.Stat()
	if err != nil {
		return fi, err
	}
	return zeroInfo{fi}, nil
}

func (z zeroSizeFs) Stat(name string) (os.FileInfo, error) {
	fi, err := z.Fs.Stat(name)
	if err != nil {
		return fi, err
	}
	return zeroInfo{fi}, nil
}
func (z zeroSizeFs) Open(name string) (afero.File, error) {
	f, err := z.Fs.Open(name)
	if err != nil {
		return nil, err
	}
	return zeroFile{f}, nil
}
func (z zeroSizeFs) OpenFile(name string, flag int, perm os.FileMode) (afero.File, error) {
	f, err := z.Fs.OpenFile(name, flag, perm)
	if err != nil {
		return nil, err
	}
	return zeroFile{f}, nil
}

// runUnknownSizeFiles: "hashing a file returns the value of hashing its bytes, on every filesystem backend", for
// kernel pseudo-files of the OS backend and for a backend which reports a size of 0 for everything.
func (m *monitor) runUnknownSizeFiles() {
	type target struct {
		backend string
		fs      filesystem.FS
		path    string
		bytes   []byte
	}
	var targets []target
	osfs := filesystem.NewStandardFileSystem()
	for _, p := range []string{"/proc/version", "/proc/filesystems", "/proc/sys/kernel/ostype"} {
		b1, err1 := os.ReadFile(p)
		b2, err2 := os.ReadFile(p)
		st, err3 := os.Stat(p)
		if err1 != nil || err2 != nil || err3 != nil || string(b1) != string(b2) || len(b1) == 0 || st.Size() != 0 {
			continue // not there, not stable, or not a size-less file on this kernel
		}
		targets = append(targets, target{"os(kernel pseudo-file)", osfs, p, b1})
	}
	mem := afero.NewMemMapFs()
	zfs := filesystem.NewVirtualFileSystem(zeroSizeFs{mem}, filesystem.StandardFS, filesystem.IdentityPathConverterFunc)
	for i, n := range []int{1, 77, 4096, 100_001} {
		b := m.bytesOf(contentSpec{Kind: "prng", Len: n, Idx: 9000 + i})
		p := fmt.Sprintf("/unknown-size/f%d.bin", i)
		_ = mem.MkdirAll("/unknown-size", 0o755)
		if err := afero.WriteFile(mem, p, b, 0o644); err != nil {
			continue
		}
		targets = append(targets, target{"backend reporting size 0", zfs, p, b})
	}
	for _, t := range targets {
		for _, a := range algos {
			want := a.Ref(t.bytes)
			type res struct {
				ep  string
				got string
				err error
			}
			var rs []res
			g, err := t.fs.FileHash(a.Name, t.path)
			rs = append(rs, res{"FS.FileHash", g, err})
			if fh, e := filesystem.NewFileHash(a.Name); e == nil && fh != nil {
				g, err = fh.CalculateFile(t.fs, t.path)
				rs = append(rs, res{"IFileHash.CalculateFile", g, err})
				g, err = fh.CalculateFileWithContext(context.Background(), t.fs, t.path)
				rs = append(rs, res{"IFileHash.CalculateFileWithContext", g, err})
			}
			for _, x := range rs {
				m.r.CaseN(fmt.Sprintf("unknown-size|%s|%s|%s|%s", t.backend, t.path, a.Name, x.ep), true, 1)
				m.unknownSize.Add(1)
				m.r.ObsSet("files_whose_reported_size_is_zero", t.backend+": "+t.path)
				if x.err != nil {
					m.r.Inconclusive("hashing an existing regular file returned an error: outside the property")
					continue
				}
				if x.got != want {
					m.r.Violation(vrun.Sig{"ep": "FileHash", "pre": "file whose reported size is 0", "effect": "wrong digest", "backend": t.backend},
						fmt.Sprintf("%s %s(%s, %d bytes of content, reported size 0) = %s, reference of its bytes %s", a.Name, x.ep, t.path, len(t.bytes), x.got, want),
						map[string]any{"backend": t.backend, "path": t.path, "algorithm": a.Name, "entry_point": x.ep, "content_length": len(t.bytes), "got": x.got, "want": want})
				}
			}
		}
	}
}

// ---- files of the read-only archive views -------------------------------------------------------------
//
// "On every filesystem backend": the tar and zip views are backends too. Their files are hashed on a fresh view, after a
// handle on the same file sniffed a few bytes and was closed, after a full read through another handle, and after a
// calculation which was cancelled before it began.
func (m *monitor) runArchiveViews() {
	osfs := filesystem.NewStandardFileSystem()
	dir := filepath.Join(m.scratch, "views")
	_ = os.MkdirAll(dir, 0o755)
	contents := map[string][]byte{}
	for i, n := range []int{1, 15, 17, 4096, 32768 + 5, 100_003} {
		contents[fmt.Sprintf("d/f%d.bin", i)] = m.bytesOf(contentSpec{Kind: "prng", Len: n, Idx: 9100 + i})
	}
	var names []string
	for n := range contents {
		names = append(names, n)
	}
	sort.Strings(names)
	// the archives
	var tb bytes.Buffer
	tw := tar.NewWriter(&tb)
	_ = tw.WriteHeader(&tar.Header{Name: "d/", Typeflag: tar.TypeDir, Mode: 0o755})
	for _, n := range names {
		_ = tw.WriteHeader(&tar.Header{Name: n, Typeflag: tar.TypeReg, Mode: 0o644, Size: int64(len(contents[n]))})
		_, _ = tw.Write(contents[n])
	}
	_ = tw.Close()
	tarPath := filepath.Join(dir, "tree.tar")
	if err := os.WriteFile(tarPath, tb.Bytes(), 0o644); err != nil {
		m.r.Inconclusive("archive views: cannot write the tar")
		return
	}
	var zb bytes.Buffer
	zw := zip.NewWriter(&zb)
	for _, n := range names {
		w, _ := zw.Create(n)
		_, _ = w.Write(contents[n])
	}
	_ = zw.Close()
	zipPath := filepath.Join(dir, "tree.zip")
	if err := os.WriteFile(zipPath, zb.Bytes(), 0o644); err != nil {
		m.r.Inconclusive("archive views: cannot write the zip")
		return
	}
	for _, kind := range []string{"tar", "zip"} {
		var view filesystem.ICloseableFS
		var err error
		if kind == "tar" {
			view, _, err = filesystem.NewTarFileSystem(osfs, tarPath, filesystem.NoLimits())
		} else {
			view, _, err = filesystem.NewZipFileSystem(osfs, zipPath, filesystem.NoLimits())
		}
		if err != nil {
			m.r.Inconclusive("archive views: the " + kind + " view could not be opened")
			continue
		}
		for ai, a := range algos {
			for ni, n := range names {
				p := "/" + n
				want := a.Ref(contents[n])
				pre := []string{"fresh view", "a handle sniffed 16 bytes and was closed", "another handle read the file in full", "a calculation cancelled before it began"}[(ai+ni)%4]
				switch (ai + ni) % 4 {
				case 1:
					if h, e := view.GenericOpen(p); e == nil {
						_, _ = io.ReadFull(h, make([]byte, 16))
						_ = h.Close()
					}
				case 2:
					if h, e := view.GenericOpen(p); e == nil {
						_, _ = io.Copy(io.Discard, h)
						_ = h.Close()
					}
				case 3:
					ctx, cancel := context.WithCancel(context.Background())
					cancel()
					_, _ = view.FileHashWithContext(ctx, a.Name, p)
				}
				for _, ep := range []string{"FS.FileHash", "IFileHash.CalculateFile"} {
					var got string
					var err error
					if ep == "FS.FileHash" {
						got, err = view.FileHash(a.Name, p)
					} else if fh, e := filesystem.NewFileHash(a.Name); e == nil && fh != nil {
						got, err = fh.CalculateFile(view, p)
					} else {
						continue
					}
					m.r.CaseN(fmt.Sprintf("archive-view|%s|%s|%s|%s|%s", kind, n, a.Name, ep, pre), true, 1)
					m.viewDigests.Add(1)
					m.r.ObsSet("file_entry_points_by_backend", kind+" view/"+ep)
					if err != nil {
						m.r.Inconclusive("hashing a file of an archive view returned an error: outside the property")
						continue
					}
					if got != want {
						m.r.Violation(vrun.Sig{"ep": "FileHash", "pre": pre, "effect": "wrong digest", "backend": kind + " view"},
							fmt.Sprintf("%s %s(%s view, %s, %d bytes; %s) = %s, reference of its bytes %s", a.Name, ep, kind, n, len(contents[n]), pre, got, want),
							map[string]any{"backend": kind + " view", "path": n, "algorithm": a.Name, "entry_point": ep, "history": pre, "got": got, "want": want})
					}
				}
			}
		}
		_ = view.Close()
	}
}
